// C40 -- Numerical differentiation meets its error bounds.
// Engine E3 (enum): functions x dimensions x evaluation points x stated accuracy x method x entry point.
// The user function is the harness' own: it records every point the Differentiator evaluates, so the
// oracles see the step that was really taken:
//   step     : the step equals the documented one, h = (y + h0*max(|y|,0.1)) - y, h0 = acc^(1/2) | acc^(1/3);
//              exactly one coordinate is perturbed per call and the others are restored exactly;
//   formula  : the estimate is the difference quotient of the values the function returned (to rounding);
//   bound    : |estimate - analytic derivative| <= Taylor remainder (analytic higher-derivative bound on the
//              interval, long double) + measured evaluation noise / h  (=> exact to rounding for affine
//              functions, and for quadratics with central differences);
//   entry    : all entry points of all three function kinds agree; call counters are right;
//   misuse   : bad shapes, bad method, failing user function raise (and count) as documented.
#include "SimTKmath.h"
#include "verif.h"

using namespace SimTK;
typedef long double LD;

// ---------------------------------------------------------------- the function family
// f_k(y) = g( s * (c_k . y) + p_k ),  g in {t, t^2, t^3, exp(t), sin(t)}
enum G { AFFINE = 0, QUADRATIC, CUBIC, EXPO, SINE, NG };
static const char* GNAME[] = {"affine", "quadratic", "cubic", "exp", "sin-of-linear"};
struct Fam {
    int g, n, m;
    LD s;                       // argument scale (keeps exp / sin arguments moderate at |y| = 1e6)
    LD c(int k, int i) const { return (LD)(((k * 3 + i * 2 + 1) % 5) - 2) / 4 + (i == k % n ? 1 : 0); }   // dyadic coefficients
    LD p(int k) const { return (LD)((k % 3) - 1) / 2; }
    template <class F> F arg(int k, const F* y) const { F t = 0; for (int i = 0; i < n; ++i) t += (F)c(k, i) * y[i]; return (F)s * t + (F)p(k); }
    template <class F> static F gval(int g, F t) { switch (g) { case AFFINE: return t; case QUADRATIC: return t * t; case CUBIC: return t * t * t; case EXPO: return std::exp(t); default: return std::sin(t); } }
    static LD gder(int g, int order, LD t) {   // order-th derivative of g
        switch (g) {
            case AFFINE: return order == 1 ? 1 : 0;
            case QUADRATIC: return order == 1 ? 2 * t : order == 2 ? 2 : 0;
            case CUBIC: return order == 1 ? 3 * t * t : order == 2 ? 6 * t : order == 3 ? 6 : 0;
            case EXPO: return std::exp(t);
            default: { int r = order % 4; return r == 0 ? std::sin(t) : r == 1 ? std::cos(t) : r == 2 ? -std::sin(t) : -std::cos(t); }
        }
    }
    // sup of |g^(order)| over [t-r, t+r]
    static LD gderSup(int g, int order, LD t, LD r) {
        LD a = std::fabs(t) + r;
        switch (g) {
            case AFFINE: return order == 1 ? 1 : 0;
            case QUADRATIC: return order == 1 ? 2 * a : order == 2 ? 2 : 0;
            case CUBIC: return order == 1 ? 3 * a * a : order == 2 ? 6 * a : order == 3 ? 6 : 0;
            case EXPO: return std::exp(t + r);
            default: return 1;
        }
    }
    double evalD(int k, const double* y) const { return gval<double>(g, arg<double>(k, y)); }
    LD evalL(int k, const LD* y) const { return gval<LD>(g, arg<LD>(k, y)); }
    LD dfdy(int k, int i, const LD* y) const { return gder(g, 1, arg<LD>(k, y)) * s * c(k, i); }
};

// ---------------------------------------------------------------- recording user functions
struct Rec {
    const Fam* fam = nullptr;
    mutable std::vector<std::vector<double>> calls;   // every y the library evaluated
    mutable int failAt = -1, failMode = 0;            // inject: at call #failAt return nonzero (1) or throw (2)
    int note(const double* y, int n) const {
        calls.emplace_back(y, y + n);
        if ((int)calls.size() - 1 == failAt) { if (failMode == 1) return 7; if (failMode == 2) throw std::runtime_error("user function failure injected by the harness"); }
        return 0;
    }
};
struct SF : Differentiator::ScalarFunction, Rec {
    explicit SF(const Fam& f, Real acc) : Differentiator::ScalarFunction(acc) { fam = &f; }
    int f(Real x, Real& fx) const override { int st = note(&x, 1); fx = fam->evalD(0, &x); return st; }
};
struct GF : Differentiator::GradientFunction, Rec {
    GF(const Fam& f, Real acc) : Differentiator::GradientFunction(f.n, acc) { fam = &f; }
    int f(const Vector& y, Real& fy) const override { std::vector<double> v(y.size()); for (int i = 0; i < y.size(); ++i) v[i] = y[i]; int st = note(v.data(), (int)v.size()); fy = fam->evalD(0, v.data()); return st; }
};
struct JF : Differentiator::JacobianFunction, Rec {
    JF(const Fam& f, Real acc) : Differentiator::JacobianFunction(f.m, f.n, acc) { fam = &f; }
    int f(const Vector& y, Vector& fy) const override {
        std::vector<double> v(y.size()); for (int i = 0; i < y.size(); ++i) v[i] = y[i];
        int st = note(v.data(), (int)v.size());
        if (fy.size() != fam->m) fy.resize(fam->m);
        for (int k = 0; k < fam->m; ++k) fy[k] = fam->evalD(k, v.data());
        return st;
    }
};

static const double PVAL[7] = {0, 1, -1, 1e-6, -1e-6, 1e6, -1e6};
static const double ACC[3] = {-1, 1e-6, 1e-3};
static const Differentiator::Method METH[3] = {Differentiator::UnspecifiedMethod, Differentiator::ForwardDifference, Differentiator::CentralDifference};
static const char* MNAME[3] = {"unspecified", "forward", "central"};

struct Shape { int n, m; };
static const Shape SHAPES[] = {{1, 1}, {2, 1}, {5, 1}, {20, 1}, {1, 3}, {2, 3}, {5, 3}, {20, 3}, {1, 10}, {2, 10}, {5, 10}, {20, 10}};

static int64_t numPoints(int n, bool thorough) {
    int64_t full = 1; for (int i = 0; i < n; ++i) { full *= 7; if (full > 100000) break; }
    int64_t cap = thorough ? 16807 : 49;
    return full <= cap ? full : 7 + 14;   // full lattice, or diagonal + two families of rotated patterns
}
static std::vector<double> pointOf(int n, int64_t idx, bool thorough) {
    std::vector<double> y(n);
    int64_t full = 1; for (int i = 0; i < n; ++i) { full *= 7; if (full > 100000) break; }
    int64_t cap = thorough ? 16807 : 49;
    if (full <= cap) { for (int i = 0; i < n; ++i) { y[i] = PVAL[idx % 7]; idx /= 7; } }
    else if (idx < 7) { for (int i = 0; i < n; ++i) y[i] = PVAL[idx]; }
    else if (idx < 14) { for (int i = 0; i < n; ++i) y[i] = PVAL[(i + idx) % 7]; }
    else { for (int i = 0; i < n; ++i) y[i] = PVAL[(3 * i + idx) % 7]; }
    return y;
}
static std::string vecStr(const std::vector<double>& y) { std::string s = "("; for (size_t i = 0; i < y.size(); ++i) s += (i ? "," : "") + verif::str(y[i]); return s + ")"; }

static double ulpOf(double x) { x = std::fabs(x); if (x == 0) return 4.9e-324; return std::nextafter(x, INFINITY) - x; }
static const double EPS = std::numeric_limits<double>::epsilon();

// One differentiation, judged.  `calls` are the points evaluated by this differentiation only, in order
// (without the optional leading unperturbed call, which is checked and stripped by the caller).
struct Judge {
    verif::Run& run; const Fam& F; std::vector<double> y0; double acc; int order; std::string desc;
    std::function<std::string()> where(const std::string& extra = "") const { std::string d = desc, e = extra; return [d, e] { return d + (e.empty() ? "" : " " + e); }; }
    std::function<std::string()> rep() const { verif::Run* r = &run; std::string d = desc; return [r, d] { return r->replayHeader() + "case=" + d + "\n"; }; }
    bool exp(bool ok, const std::string& key, const std::string& what = "") const { auto w = where(what); return run.expect(ok, key, [w, key] { return key + " at " + w(); }, rep()); }

    // documented step for coordinate value y
    double docStep(double y, double* hEstOut = nullptr) const {
        LD h0 = order == 1 ? std::sqrt((LD)acc) : std::cbrt((LD)acc);
        double hEst = (double)(h0 * std::max((LD)std::fabs(y), (LD)0.1));
        if (hEstOut) *hEstOut = hEst;
        volatile double t = y + hEst; return t - y;
    }
    // returns false if the call pattern was so wrong that nothing else can be judged
    bool judge(const std::vector<std::vector<double>>& calls, const std::vector<double>& f0vals /* m values the library was given / computed at y0 */,
               const std::vector<std::vector<double>>& est /* est[k][i] */, const std::string& entry) const {
        int n = F.n, m = (int)est.size();
        int per = order == 1 ? 1 : 2;
        if (!exp((int)calls.size() == per * n, "calls.count/" + entry, "calls=" + std::to_string(calls.size()) + " expected " + std::to_string(per * n))) return false;
        std::vector<LD> yl(n); for (int i = 0; i < n; ++i) yl[i] = y0[i];
        double wStep = 0, wForm = 0, wBound = 0; bool patternOk = true;
        for (int i = 0; i < n; ++i) {
            const std::vector<double>& yp = calls[per * i];
            for (int j = 0; j < n; ++j) if (j != i && !(yp[j] == y0[j])) patternOk = false;
            LD hpL = (LD)yp[i] - (LD)y0[i];      // the step really taken (exact in long double)
            double hp = (double)hpL;             // what the library's h = (y0+hEst)-y0 evaluates to in double
            double hEst; double hd = docStep(y0[i], &hEst);
            double tolH = 2 * ulpOf(std::fabs(y0[i]) + std::fabs(hd)) + 1e-12 * std::fabs(hd);
            wStep = std::max(wStep, std::fabs(hp - hd) / tolH);
            double hm = 0; LD hmL = 0; const std::vector<double>* ym = nullptr;
            if (order == 2) {
                ym = &calls[per * i + 1];
                for (int j = 0; j < n; ++j) if (j != i && !((*ym)[j] == y0[j])) patternOk = false;
                hmL = (LD)y0[i] - (LD)(*ym)[i]; hm = (double)hmL;
                wStep = std::max(wStep, std::fabs(hm - hd) / tolH);
            }
            if (!(hp > 0) || (order == 2 && !(hm > 0))) { wStep = INFINITY; continue; }
            for (int k = 0; k < m; ++k) {
                // values the library saw (recomputed: the function is deterministic)
                double fp = F.evalD(k, yp.data()), fm = order == 2 ? F.evalD(k, ym->data()) : f0vals[k];
                LD den = order == 1 ? hpL : hpL + hmL;     // the library divides by h resp. 2h with h the forward step
                LD denLib = order == 1 ? (LD)hp : 2 * (LD)hp;
                LD q = ((LD)fp - (LD)fm) / denLib;
                LD e = est[k][i];
                LD scaleQ = (std::fabs((LD)fp) + std::fabs((LD)fm)) / denLib;   // rounding of (a-b)/h or (a-b)*(1/h)
                LD tolForm = 4 * EPS * std::fabs(q) + 1e-300L; (void)scaleQ;   // a-b is correctly rounded, then one division (or reciprocal + product): <= 2 ulp
                wForm = std::max(wForm, (double)(std::fabs(e - q) / tolForm));
                // error bound against the analytic derivative
                std::vector<LD> ypl(n), yml(n); for (int j = 0; j < n; ++j) { ypl[j] = yp[j]; yml[j] = order == 2 ? (*ym)[j] : y0[j]; }
                LD exact = F.dfdy(k, i, yl.data());
                LD t0 = F.arg<LD>(k, yl.data()); LD cs = std::fabs(F.s * F.c(k, i));
                LD r = cs * std::max(hpL, hmL) * (1 + 1e-15L);
                LD trunc = order == 1 ? hpL / 2 * Fam::gderSup(F.g, 2, t0, r) * cs * cs
                                      : (hpL * hpL * hpL + hmL * hmL * hmL) / (6 * den) * Fam::gderSup(F.g, 3, t0, r) * cs * cs * cs
                                        + (order == 2 ? std::fabs(hpL - hmL) / 2 * Fam::gderSup(F.g, 2, t0, r) * cs * cs : 0);
                LD noise = (std::fabs((LD)fp - F.evalL(k, ypl.data())) + std::fabs((LD)fm - F.evalL(k, yml.data()))) / den;
                // rounding of the long double reference itself: the argument is a sum of n products of magnitude up to magT
                LD magT = std::fabs(F.p(k)); for (int j = 0; j < n; ++j) magT += std::fabs(F.s * F.c(k, j)) * (std::fabs(yl[j]) + hpL + hmL);
                LD refErr = 2 * (n + 3) * 1.1e-19L * (magT * Fam::gderSup(F.g, 1, t0, r) + std::fabs((LD)fp) + std::fabs((LD)fm)) / den;
                LD asym = std::fabs(q) * std::fabs(denLib - den) / den;   // divisor h (2h) as the library has it vs. the step(s) really taken
                LD bound = trunc * (1 + 1e-12L) + noise + asym + tolForm + 1e-17L * std::fabs(exact) + refErr + 1e-300L;
                wBound = std::max(wBound, (double)(std::fabs(e - exact) / bound));
                if (run.verbose && std::fabs(e - exact) > bound) fprintf(stderr, "  [%s] k=%d i=%d y0=%.17g hp=%.17g hm=%.17g est=%.17g exact=%.20Lg q=%.20Lg trunc=%.3Lg noise=%.3Lg asym=%.3Lg tolForm=%.3Lg err=%.3Lg\n", entry.c_str(), k, i, y0[i], hp, hm, (double)e, exact, q, trunc, noise, asym, tolForm, std::fabs(e - exact));
            }
        }
        exp(patternOk, "calls.other-coordinates-not-restored/" + entry);
        std::string o = order == 1 ? "forward" : "central";
        run.residual("step.matches-documented-formula." + o, wStep, 1.0, where(entry), rep(), entry);
        run.residual("estimate.is-difference-quotient." + o, wForm, 1.0, where(entry), rep(), entry);
        run.residual("estimate.within-error-bound." + o + "." + GNAME[F.g], wBound, 1.0, where(entry), rep(), entry);
        return true;
    }
};

static bool closeRel(double a, double b, double) { return std::fabs(a - b) <= 8 * EPS * std::max(std::fabs(a), std::fabs(b)) + 1e-300; }

int main(int argc, char** argv) {
    verif::Run run("C40", argc, argv);
    run.setDeadline(120, 1500);
    const bool thorough = run.thorough();
    run.rule = "E3: function kind {affine, quadratic, cubic, exp, sin of linear} x (n parameters, m outputs) in {1,2,5,20}x{1,3,10} x evaluation points (full lattice {0,+-1,+-1e-6,+-1e6}^n while it has <= 49 (thorough 16807) points, else the 7 diagonal points + 14 rotated patterns) x stated accuracy {default, 1e-6, 1e-3} x method {unspecified, forward, central} x every entry point that the shape admits (ScalarFunction / GradientFunction / JacobianFunction through calcDerivative / calcGradient / calcJacobian, with and without a supplied f(y0)). A case = one tuple; distinct by construction; non-trivial = the analytic derivative is not identically zero.";
    run.assumptions = {"the user function is the harness' own deterministic double-precision function; its true value is computed in long double to measure the evaluation noise",
                       "the documented step h=(y+h0*max(|y|,0.1))-y is read with |y| (the text says y)",
                       "exception classes of Differentiator are private to the library: misuse is judged by 'throws a std::exception and counts a failure'"};
    verif::Odometer od;
    od.dim("method", 3); od.dim("acc", 3); od.dim("func", NG); od.dim("shape", (int64_t)(sizeof SHAPES / sizeof SHAPES[0]));
    // points vary with n: flatten (shape,point) by taking the max and skipping the excess
    int64_t maxPts = 0; for (auto& s : SHAPES) maxPts = std::max(maxPts, numPoints(s.n, thorough));
    od.dim("point", maxPts);

    run.parallel("grid", od.size(), [&](int64_t idx) {
        auto d = od.digits(idx);
        int mi = d[0], ai = d[1], g = d[2]; const Shape& sh = SHAPES[d[3]]; int64_t pi = d[4];
        if (pi >= numPoints(sh.n, thorough)) return;
        Fam F; F.g = g; F.n = sh.n; F.m = sh.m; F.s = g == EXPO ? std::ldexp((LD)1, -20) : g == SINE ? std::ldexp((LD)1, -10) : 1;
        std::vector<double> y0 = pointOf(sh.n, pi, thorough);
        std::string desc = std::string("func=") + GNAME[g] + " n=" + std::to_string(sh.n) + " m=" + std::to_string(sh.m) + " acc=" + verif::str(ACC[ai]) + " method=" + MNAME[mi] + " y0=" + vecStr(y0);
        int n = sh.n, m = sh.m;
        Vector y(n); for (int i = 0; i < n; ++i) y[i] = y0[i];
        // analytic derivative non-trivial?
        std::vector<LD> yl(y0.begin(), y0.end()); bool nontriv = false;
        for (int k = 0; k < m; ++k) for (int i = 0; i < n; ++i) if (F.dfdy(k, i, yl.data()) != 0) nontriv = true;
        run.evaluationDistinct(nontriv);

        JF jf(F, ACC[ai]);
        double accInForce = jf.getEstimatedAccuracy();
        if (ACC[ai] < 0) run.expect(accInForce > 0 && accInForce <= 1e-12 && accInForce >= EPS, "accuracy.default-is-about-machine-precision", [&] { return desc + " default accuracy " + verif::str(accInForce); });
        else run.expect(accInForce == ACC[ai], "accuracy.getter-returns-what-was-set", [&] { return desc; });
        run.expect(jf.getNumFunctions() == m && jf.getNumParameters() == n, "function.dimensions", [&] { return desc; });
        Differentiator::Method meth = METH[mi];
        int order = meth == Differentiator::CentralDifference ? 2 : 1;
        run.expect(Differentiator::getMethodOrder(meth) == order, "method.order", [&] { return desc; });
        Judge J{run, F, y0, accInForce, order, desc};

        // --- reference entry: JacobianFunction, calcJacobian with supplied fy0
        Differentiator dj(jf);
        Vector f0(m); std::vector<double> f0v(m);
        for (int k = 0; k < m; ++k) f0[k] = f0v[k] = F.evalD(k, y0.data());
        Matrix Jm;
        jf.calls.clear();
        dj.calcJacobian(y, f0, Jm, meth);
        bool shapeOk = Jm.nrow() == m && Jm.ncol() == n;
        if (!run.expect(shapeOk, "result.shape/JF.calcJacobian", [&] { return desc; })) return;
        std::vector<std::vector<double>> E(m, std::vector<double>(n));
        for (int k = 0; k < m; ++k) for (int i = 0; i < n; ++i) E[k][i] = Jm(k, i);
        J.judge(jf.calls, f0v, E, "JF.calcJacobian(y,fy0)");
        int perCall = order * n;
        run.expect(dj.getNumCallsToUserFunction() == perCall && dj.getNumDifferentiations() == 1 && dj.getNumDifferentiationFailures() == 0 && jf.getNumCalls() == perCall && jf.getNumFailures() == 0,
                   "statistics/JF.calcJacobian", [&] { return desc + " userCalls=" + std::to_string(dj.getNumCallsToUserFunction()) + " fnCalls=" + std::to_string(jf.getNumCalls()); });
        bool unchanged = true; for (int i = 0; i < n; ++i) if (!(y[i] == y0[i])) unchanged = false;
        run.expect(unchanged, "input.y0-modified", [&] { return desc; });
        // coarse outcome (method order, function, shape, accuracy, decade and sign of the first estimate): the set of distinct outcomes must stay small
        { int dec = E[0][0] == 0 ? -999 : (int)std::floor(std::log10(std::fabs(E[0][0]))); uint64_t oh = verif::hashPod(order * 1000000 + g * 100000 + n * 1000 + m * 10 + ai); run.outcome(verif::hashMix(oh, (uint64_t)(dec * 2 + (E[0][0] < 0)))); }
        if (idx % 9973 == 0) run.sample(desc + " -> dfdy(0,0)=" + verif::str(E[0][0]) + " exact=" + verif::str((double)F.dfdy(0, 0, yl.data())));

        auto scaleOf = [&](int k, int i) { double h = J.docStep(y0[i]); return (std::fabs(f0v[k]) + std::fabs(E[k][i] * h)) / (h > 0 ? h : 1); };
        auto sameAs = [&](const std::vector<std::vector<double>>& X, const std::string& entry) {
            bool ok = (int)X.size() == m; for (int k = 0; ok && k < m; ++k) { if ((int)X[k].size() != n) { ok = false; break; } for (int i = 0; i < n; ++i) if (!closeRel(X[k][i], E[k][i], scaleOf(k, i))) ok = false; }
            return run.expect(ok, "entry-points-agree/" + entry, [&] { return desc + ": result of " + entry + " differs from JF.calcJacobian(y,fy0)"; }, [&] { return run.replayHeader() + "case=" + desc + "\n"; });
        };
        auto ex = [&](bool ok, const std::string& key, const std::string& what = "") {
            return run.expect(ok, key, [&] { return key + " at " + desc + (what.empty() ? "" : " " + what); }, [&] { return run.replayHeader() + "case=" + desc + "\n"; });
        };
        typedef std::vector<std::vector<double>> Tab;
        // one entry point: outputs are pre-set to NaN by `call`, which returns whether the output shape is right
        auto entry = [&](const std::string& name, Rec& rec, bool leading, const std::function<bool(Tab&)>& call) {
            Tab X; rec.calls.clear();
            bool threw = false, shapeOk = false; std::string msg;
            try { shapeOk = call(X); } catch (const std::exception& e) { threw = true; msg = e.what(); }
            run.count("entry:" + name);
            if (!ex(!threw, "entry-throws/" + name, msg.substr(0, 160))) return;
            if (!ex(shapeOk, "result.shape/" + name)) return;
            bool written = true; for (auto& r : X) for (double v : r) if (std::isnan(v)) written = false;
            if (!ex(written, "result-not-written/" + name, "the output still holds the NaN it was pre-set to")) return;
            std::vector<std::vector<double>> calls = rec.calls;
            if (leading) {
                if (!ex(!calls.empty() && calls[0] == y0 && (int)calls.size() == perCall + 1, "calls.leading-unperturbed-call/" + name, "calls=" + std::to_string(calls.size()))) return;
                calls.erase(calls.begin());
            }
            if (sameAs(X, name)) J.judge(calls, f0v, X, name);   // a result that differs from the judged reference entry is reported once, under its own key
        };
        auto fromMatrix = [&](const Matrix& A, Tab& X, int rows, int cols) { if (A.nrow() != rows || A.ncol() != cols) return false; X.assign(rows, std::vector<double>(cols)); for (int k = 0; k < rows; ++k) for (int i = 0; i < cols; ++i) X[k][i] = A(k, i); return true; };
        auto fromVector = [&](const Vector& v, Tab& X, int cols) { if (v.size() != cols) return false; X.assign(1, std::vector<double>(cols)); for (int i = 0; i < cols; ++i) X[0][i] = v[i]; return true; };
        const Real nan = NaN;

        entry("JF.calcJacobian(y)", jf, true, [&](Tab& X) { Matrix A = dj.calcJacobian(y, meth); return fromMatrix(A, X, m, n); });
        // a Differentiator whose default method is the requested one, called with UnspecifiedMethod
        {   Differentiator d2(jf, meth);
            Differentiator::Method eff = meth == Differentiator::UnspecifiedMethod ? Differentiator::ForwardDifference : meth;
            ex(d2.getDefaultMethod() == eff, "method.default-method");
            entry("JF.calcJacobian(y,fy0)/default-method-from-constructor", jf, false, [&](Tab& X) { Matrix A; d2.calcJacobian(y, f0, A); return fromMatrix(A, X, m, n); });
            Differentiator d3(jf); d3.setDefaultMethod(meth);
            entry("JF.calcJacobian(y,fy0)/setDefaultMethod", jf, false, [&](Tab& X) { Matrix A; d3.calcJacobian(y, f0, A); return fromMatrix(A, X, m, n); });
        }
        if (m == 1) {
            entry("JF.calcGradient(y,fy0)", jf, false, [&](Tab& X) { Vector g(n); g = nan; dj.calcGradient(y, f0[0], g, meth); return fromVector(g, X, n); });
            entry("JF.calcGradient(y)", jf, true, [&](Tab& X) { Vector g = dj.calcGradient(y, meth); return fromVector(g, X, n); });
            GF gf(F, ACC[ai]); Differentiator dg(gf);
            entry("GF.calcGradient(y,fy0)", gf, false, [&](Tab& X) { Vector g(n); g = nan; dg.calcGradient(y, f0[0], g, meth); return fromVector(g, X, n); });
            ex(dg.getNumCallsToUserFunction() == perCall && gf.getNumCalls() == perCall && gf.getNumFailures() == 0 && dg.getNumDifferentiationFailures() == 0, "statistics/GF.calcGradient");
            entry("GF.calcGradient(y)", gf, true, [&](Tab& X) { Vector g = dg.calcGradient(y, meth); return fromVector(g, X, n); });
            entry("GF.calcJacobian(y,fy0)", gf, false, [&](Tab& X) { Matrix A; dg.calcJacobian(y, f0, A, meth); return fromMatrix(A, X, 1, n); });
            entry("GF.calcJacobian(y)", gf, true, [&](Tab& X) { Matrix A = dg.calcJacobian(y, meth); return fromMatrix(A, X, 1, n); });
            if (n == 1) {
                auto fromScalar = [&](Real v, Tab& X) { X.assign(1, std::vector<double>(1, v)); return true; };
                entry("JF.calcDerivative(y,fy0)", jf, false, [&](Tab& X) { Real dv = nan; dj.calcDerivative(y0[0], f0v[0], dv, meth); return fromScalar(dv, X); });
                entry("JF.calcDerivative(y)", jf, true, [&](Tab& X) { return fromScalar(dj.calcDerivative(y0[0], meth), X); });
                entry("GF.calcDerivative(y,fy0)", gf, false, [&](Tab& X) { Real dv = nan; dg.calcDerivative(y0[0], f0v[0], dv, meth); return fromScalar(dv, X); });
                entry("GF.calcDerivative(y)", gf, true, [&](Tab& X) { return fromScalar(dg.calcDerivative(y0[0], meth), X); });
                SF sf(F, ACC[ai]); Differentiator ds(sf);
                entry("SF.calcDerivative(y,fy0)", sf, false, [&](Tab& X) { Real dv = nan; ds.calcDerivative(y0[0], f0v[0], dv, meth); return fromScalar(dv, X); });
                ex(ds.getNumCallsToUserFunction() == perCall && sf.getNumCalls() == perCall && sf.getNumFailures() == 0, "statistics/SF.calcDerivative");
                entry("SF.calcDerivative(y)", sf, true, [&](Tab& X) { return fromScalar(ds.calcDerivative(y0[0], meth), X); });
                entry("SF.calcGradient(y,fy0)", sf, false, [&](Tab& X) { Vector g(1); g = nan; ds.calcGradient(y, f0v[0], g, meth); return fromVector(g, X, 1); });
                entry("SF.calcGradient(y)", sf, true, [&](Tab& X) { Vector g = ds.calcGradient(y, meth); return fromVector(g, X, 1); });
                entry("SF.calcJacobian(y,fy0)", sf, false, [&](Tab& X) { Matrix A; ds.calcJacobian(y, f0, A, meth); return fromMatrix(A, X, 1, 1); });
                entry("SF.calcJacobian(y)", sf, true, [&](Tab& X) { Matrix A = ds.calcJacobian(y, meth); return fromMatrix(A, X, 1, 1); });
            }
        }
    });

    // ---- misuse: shapes, bad method, failing user function (exceptions + failure counters)
    run.parallel("misuse", 3 * 3 * 2, [&](int64_t idx) {
        int kind = idx % 3, when = (idx / 3) % 3, mode = 1 + (int)(idx / 9);   // function kind, failing call position, nonzero-status | throw
        Fam F; F.g = CUBIC; F.s = 1; F.n = kind == 0 ? 1 : 3; F.m = kind == 2 ? 2 : 1;
        std::string desc = std::string("misuse kind=") + (kind == 0 ? "SF" : kind == 1 ? "GF" : "JF") + " failAtCall=" + std::to_string(when) + " mode=" + (mode == 1 ? "nonzero-status" : "throw");
        run.evaluationDistinct(true);
        Vector y(F.n); for (int i = 0; i < F.n; ++i) y[i] = 1 + i;
        auto attempt = [&](Rec& rec, Differentiator& d, Differentiator::Function& fn, const std::function<void()>& call, int totalCalls) {
            rec.failAt = when == 0 ? 0 : when == 1 ? totalCalls / 2 : totalCalls - 1; rec.failMode = mode; rec.calls.clear();
            bool threw = false; std::string msg;
            try { call(); } catch (const std::exception& e) { threw = true; msg = e.what(); }
            run.expect(threw, "misuse.user-function-failure-not-reported", [&] { return desc; });
            bool msgOk = mode == 1 ? msg.find("non-zero status 7") != std::string::npos : msg.find("injected by the harness") != std::string::npos;
            run.expect(!threw || msgOk, "misuse.user-function-failure-message", [&] { return desc + " message: " + msg.substr(0, 200); });
            run.expect(d.getNumDifferentiationFailures() == 1 && d.getNumDifferentiations() == 1 && fn.getNumFailures() == 1, "misuse.failure-counters", [&] { return desc + " diffFailures=" + std::to_string(d.getNumDifferentiationFailures()) + " fnFailures=" + std::to_string(fn.getNumFailures()); });
            // the object stays usable
            rec.failAt = -1; d.resetAllStatistics(); fn.resetAllStatistics();
            bool ok = true; try { call(); } catch (const std::exception&) { ok = false; }
            run.expect(ok && d.getNumDifferentiationFailures() == 0 && fn.getNumFailures() == 0, "misuse.object-usable-after-failure", [&] { return desc; });
        };
        if (kind == 0) { SF f(F, -1); Differentiator d(f); attempt(f, d, f, [&] { (void)d.calcDerivative(1.5, Differentiator::CentralDifference); }, 3); }
        if (kind == 1) { GF f(F, -1); Differentiator d(f); attempt(f, d, f, [&] { (void)d.calcGradient(y, Differentiator::CentralDifference); }, 7); }
        if (kind == 2) { JF f(F, -1); Differentiator d(f); attempt(f, d, f, [&] { (void)d.calcJacobian(y, Differentiator::ForwardDifference); }, 4); }
        if (when == 0 && mode == 1) {   // shape / method misuse, once per function kind
            auto mustThrow = [&](const std::string& key, const std::function<void()>& fn) { bool t = false; try { fn(); } catch (const std::exception&) { t = true; } run.expect(t, key, [&] { return desc; }); };
            run.expect(!Differentiator::isValidMethod((Differentiator::Method)7) && Differentiator::isValidMethod(Differentiator::CentralDifference), "misuse.isValidMethod", [&] { return desc; });
            if (kind == 1) { GF f(F, -1); Differentiator d(f); Real dv;
                mustThrow("misuse.calcDerivative-on-1xn-gradient-function", [&] { d.calcDerivative(1.0, 1.0, dv); });
                mustThrow("misuse.unknown-method", [&] { (void)d.calcGradient(y, (Differentiator::Method)7); });
                mustThrow("misuse.setDefaultMethod-unknown", [&] { d.setDefaultMethod((Differentiator::Method)9); });
                Vector bad(F.n + 1); bad = 1; mustThrow("misuse.wrong-parameter-count/calcGradient(y)", [&] { (void)d.calcGradient(bad); }); }
            if (kind == 2) { JF f(F, -1); Differentiator d(f); Real dv; Vector g;
                mustThrow("misuse.calcDerivative-on-mxn-jacobian-function", [&] { d.calcDerivative(1.0, 1.0, dv); });
                mustThrow("misuse.calcGradient-on-mxn-jacobian-function", [&] { d.calcGradient(y, 1.0, g); });
                Vector bad(F.n + 1); bad = 1; Vector f0(F.m); f0 = 0; Matrix Jm;
                mustThrow("misuse.wrong-parameter-count/calcJacobian(y)", [&] { (void)d.calcJacobian(bad); });
                mustThrow("misuse.wrong-parameter-count/calcJacobian(y,fy0)", [&] { d.calcJacobian(bad, f0, Jm); });
                Vector badf(F.m + 1); badf = 0; mustThrow("misuse.wrong-function-count/calcJacobian(y,fy0)", [&] { d.calcJacobian(y, badf, Jm); });
                mustThrow("misuse.bad-default-method-in-constructor", [&] { Differentiator d2(f, (Differentiator::Method)5); }); }
            if (kind == 0) { SF f(F, -1);
                mustThrow("misuse.setEstimatedAccuracy-out-of-range", [&] { f.setEstimatedAccuracy(1.5); });
                mustThrow("misuse.setNumParameters-negative", [&] { f.setNumParameters(-1); }); }
        }
    });
    return run.finish();
}
