// C15 -- System mass, momentum and composite inertias equal per-body sums.
// Engine E3: every model of levels A and B (thorough: + C) of the shared multibody alphabet
// x COORD x MASS x STATE under gravity (non-zero udot everywhere, non-zero u in states 1,2);
// every aggregate calculator of SimbodyMatterSubsystem is compared with harness long-double
// sums over the bodies' *reported* poses / velocities / accelerations and the harness's own
// mass table with the harness's own parallel-axis shifts (mbref::massRef).  Two history
// variants: (i) the same State is moved to other q's and the cached composite-body inertias
// must follow; (ii) one body's default mass properties are replaced (the only supported way to
// change mass properties: there is no public Instance-stage mass setter), topology re-realized,
// and all aggregates must follow.
#include "Simbody.h"
#include "SimbodyMatterSubsystemRep.h"
#include "RigidBodyNode.h"
#include "verif.h"
#include "models.h"
#include "mbref.h"

#include <cxxabi.h>

using namespace SimTK;
using ref::LD; using ref::DMat; using ref::V3;

static std::string vdemangle(const char* n) { int st = 0; char* d = abi::__cxa_demangle(n, 0, 0, &st); std::string s = d ? d : n; free(d); return s; }
std::string mb::nodeTypeName(const mb::Model& M, int bi) {
    const RigidBodyNode& n = M.matter.getRep().getRigidBodyNode(M.bodies[bi].getMobilizedBodyIndex());
    return vdemangle(typeid(n).name());
}

static const double TOL = 1e-11;   // calibration: worst relative residual on the unchanged tree ~1e-15 (notes/C15.md)

// ---------------------------------------------------------------- small long-double vector kit (harness code)
static V3 operator+(const V3& a, const V3& b) { return {{a[0] + b[0], a[1] + b[1], a[2] + b[2]}}; }
static V3 operator-(const V3& a, const V3& b) { return {{a[0] - b[0], a[1] - b[1], a[2] - b[2]}}; }
static V3 operator*(LD s, const V3& a) { return {{s * a[0], s * a[1], s * a[2]}}; }
static LD vmax(const V3& a) { LD m = 0; for (int i = 0; i < 3; ++i) { LD x = fabsl(a[i]); if (!(x <= m)) m = x; } return m; }
static V3 mulMV(const DMat& A, const V3& x) { V3 y = {{0, 0, 0}}; for (int i = 0; i < 3; ++i) for (int j = 0; j < 3; ++j) y[i] += A(i, j) * x[j]; return y; }
static V3 v3(const Vec3& v) { return {{(LD)v[0], (LD)v[1], (LD)v[2]}}; }
static V3 zero3() { return {{0, 0, 0}}; }
// inertia of a point mass m at d about the reference point: m (|d|^2 1 - d d^T)
static DMat pointInertia(LD m, const V3& d) {
    DMat I(3, 3); LD d2 = ref::dot(d, d);
    for (int i = 0; i < 3; ++i) for (int j = 0; j < 3; ++j) I(i, j) = m * ((i == j ? d2 : 0) - d[i] * d[j]);
    return I;
}
static DMat fromSym(const SymMat33& S) { const Mat33 F(S); DMat m(3, 3); for (int i = 0; i < 3; ++i) for (int j = 0; j < 3; ++j) m(i, j) = F(i, j); return m; }
static DMat scaleM(const DMat& A, LD s) { DMat B = A; for (auto& x : B.a) x *= s; return B; }

// the fourth mass kind, used only by the re-mass history variant (harness definition)
static mbref::MassRef massRefX(int i) {
    if (i != 3) return mbref::massRef(i);
    mbref::MassRef r; r.m = 0.7L; r.com = {{-0.12L, 0.08L, 0.05L}}; r.Ic = DMat(3, 3);
    r.Ic(0, 0) = 0.3L; r.Ic(1, 1) = 0.45L; r.Ic(2, 2) = 0.5L; r.Ic(0, 1) = r.Ic(1, 0) = 0.02L; r.Ic(0, 2) = r.Ic(2, 0) = 0.03L; r.Ic(1, 2) = r.Ic(2, 1) = -0.04L;
    return r;
}
// library-side object for mass kind 3, built from the harness's own origin inertia (no library shift code involved)
static MassProperties massPropsX3() {
    mbref::MassRef r = massRefX(3);
    DMat Io = mbref::inertiaAboutOriginB(r);
    return MassProperties((Real)r.m, Vec3((Real)r.com[0], (Real)r.com[1], (Real)r.com[2]),
                          Inertia((Real)Io(0, 0), (Real)Io(1, 1), (Real)Io(2, 2), (Real)Io(0, 1), (Real)Io(0, 2), (Real)Io(1, 2)));
}

// per-body reference data assembled from what the library *reports* for the single body
struct BRef {
    LD m; V3 o, r, c;        // mass, origin in G, R*com, com location in G
    DMat IcG;                // central inertia re-expressed in G (harness R Ic R^T)
    V3 w, v, vc, al, a, ac;  // angular velocity, origin velocity, com velocity, angular acc, origin acc, com acc
};

struct Ctx {
    verif::Run& run; mb::Model& M; const std::vector<int>& massKind; std::string desc; std::string tag;
    std::function<std::string()> where() const { std::string d = tag + " " + desc; return [d] { return d; }; }
    std::function<std::string()> rep() const { std::string h = run.replayHeader() + "case=" + desc + "\n"; return [h] { return h; }; }
    bool res(const std::string& oracle, double value) const { return run.residual(oracle, value, TOL, where(), rep()); }
    bool exp(bool ok, const std::string& key, const std::string& what) const { std::string w = what + " at " + tag + " " + desc; return run.expect(ok, key, [w] { return w; }, rep()); }
};

static std::vector<BRef> bodyRefs(const Ctx& c, const State& s, Stage upTo) {
    const int nb = (int)c.M.bodies.size();
    std::vector<BRef> B(nb);
    for (int b = 0; b < nb; ++b) {
        mbref::MassRef mr = massRefX(c.massKind[b]);
        const MobilizedBody& mo = c.M.bodies[b];
        const Transform& X = mo.getBodyTransform(s);
        DMat R = mbref::toMat(X.R());
        BRef& r = B[b];
        r.m = mr.m; r.o = v3(X.p()); r.r = mulMV(R, mr.com); r.c = r.o + r.r;
        r.IcG = ref::mul(ref::mul(R, mr.Ic), ref::transpose(R));
        r.w = r.v = r.vc = r.al = r.a = r.ac = zero3();
        if (upTo >= Stage::Velocity) {
            const SpatialVec& V = mo.getBodyVelocity(s);
            r.w = v3(V[0]); r.v = v3(V[1]); r.vc = r.v + ref::cross(r.w, r.r);
        }
        if (upTo >= Stage::Acceleration) {
            const SpatialVec& A = mo.getBodyAcceleration(s);
            r.al = v3(A[0]); r.a = v3(A[1]);
            r.ac = r.a + ref::cross(r.al, r.r) + ref::cross(r.w, ref::cross(r.w, r.r));
        }
    }
    return B;
}

static double relV(const V3& lib, const V3& refv, LD scale) { return (double)(vmax(lib - refv) / scale); }
static double relM(const DMat& lib, const DMat& refm, LD scale) { return (double)(ref::maxAbsDiff(lib, refm) / scale); }

// ---- Position-stage aggregates + composite body inertias
static void checkPosition(const Ctx& c, const State& s, bool cbiViaCacheOnly) {
    verif::Run& run = c.run; auto where = c.where();
    const SimbodyMatterSubsystem& matter = c.M.matter;
    const int nb = (int)c.M.bodies.size();
    std::vector<BRef> B = bodyRefs(c, s, Stage::Position);

    // reported single-body mass properties equal the harness table (mass, com, inertia about body origin in B)
    for (int b = 0; b < nb; ++b) {
        mbref::MassRef mr = massRefX(c.massKind[b]);
        const MassProperties& mp = c.M.bodies[b].getBodyMassProperties(s);
        DMat Io = mbref::inertiaAboutOriginB(mr);
        LD e = fabsl(mp.getMass() - mr.m) / mr.m;
        e = std::max(e, vmax(v3(mp.getMassCenter()) - mr.com) / std::max<LD>(vmax(mr.com), 1e-2L));
        e = std::max(e, ref::maxAbsDiff(fromSym(mp.getInertia().asSymMat33()), Io) / ref::maxAbs(Io));
        c.res("bodyMassProps-vs-table", (double)e);
    }

    LD mtot = 0; V3 mc = zero3(); DMat IO(3, 3); LD lenScale = 1e-2L;
    for (auto& r : B) {
        mtot += r.m; mc = mc + r.m * r.c;
        IO = ref::add(IO, ref::add(r.IcG, pointInertia(r.m, r.c)));
        lenScale = std::max(lenScale, vmax(r.c));
    }
    V3 com = (1 / mtot) * mc;
    DMat IC = ref::add(IO, pointInertia(mtot, com), -1);
    const LD IScale = std::max<LD>(ref::maxAbs(IO), 1e-2L);   // operands of the subtraction IO - m|com|^2 have this size

    c.res("calcSystemMass", (double)(fabsl(matter.calcSystemMass(s) - mtot) / mtot));
    c.res("calcSystemMassCenterLocationInGround", relV(v3(matter.calcSystemMassCenterLocationInGround(s)), com, lenScale));
    {
        MassProperties mp = matter.calcSystemMassPropertiesInGround(s);
        c.res("calcSystemMassPropertiesInGround-mass", (double)(fabsl(mp.getMass() - mtot) / mtot));
        c.res("calcSystemMassPropertiesInGround-com", relV(v3(mp.getMassCenter()), com, lenScale));
        c.res("calcSystemMassPropertiesInGround-inertiaAboutOrigin", relM(fromSym(mp.getInertia().asSymMat33()), IO, IScale));
    }
    c.res("calcSystemCentralInertiaInGround", relM(fromSym(matter.calcSystemCentralInertiaInGround(s).asSymMat33()), IC, IScale));

    // composite body inertias: body b plus every descendant, about OB, in G
    if (!cbiViaCacheOnly) {
        c.exp(!matter.isCompositeBodyInertiasRealized(s), "cbi-flag-false-before-request", "isCompositeBodyInertiasRealized true before any request");
        matter.realizeCompositeBodyInertias(s);
        c.exp(matter.isCompositeBodyInertiasRealized(s), "cbi-flag-true-after-realize", "isCompositeBodyInertiasRealized false after realizeCompositeBodyInertias");
    }
    Array_<SpatialInertia, MobilizedBodyIndex> Rop;
    matter.calcCompositeBodyInertias(s, Rop);
    c.exp((int)Rop.size() == matter.getNumBodies(), "cbi-operator-size", "calcCompositeBodyInertias result size wrong");
    {
        const SpatialInertia& G0 = matter.getCompositeBodyInertia(s, GroundIndex);
        c.exp(std::isinf(G0.getMass()) && G0.getMass() > 0 && G0.getMassCenter() == Vec3(0), "cbi-ground-documented-value", "Ground CBI not (inf mass, com 0)");
    }
    for (int b = 0; b < nb; ++b) {
        LD m = 0; V3 mm = zero3(); DMat I(3, 3);
        for (int k = 0; k < nb; ++k) {
            bool inSub = false; for (int a = k; a >= 0; a = c.M.specs[a].parent) if (a == b) { inSub = true; break; }
            if (!inSub) continue;
            V3 d = B[k].c - B[b].o;
            m += B[k].m; mm = mm + B[k].m * d; I = ref::add(I, ref::add(B[k].IcG, pointInertia(B[k].m, d)));
        }
        const MobilizedBodyIndex mbx = c.M.bodies[b].getMobilizedBodyIndex();
        const SpatialInertia& Rc = matter.getCompositeBodyInertia(s, mbx);
        const LD mmScale = std::max<LD>(vmax(mm), m * 1e-2L), iScale = std::max<LD>(ref::maxAbs(I), 1e-2L);
        c.res("cbi-mass", (double)(fabsl(Rc.getMass() - m) / m));
        c.res("cbi-massMoment", relV(v3(Rc.calcMassMoment()), mm, mmScale));
        c.res("cbi-inertia", relM(fromSym(Rc.calcInertia().asSymMat33()), I, iScale));
        const SpatialInertia& Ro = Rop[mbx];
        bool same = Ro.getMass() == Rc.getMass() && Ro.getMassCenter() == Rc.getMassCenter()
                 && Ro.getUnitInertia().asSymMat33() == Rc.getUnitInertia().asSymMat33();
        c.exp(same, "cbi-operator-equals-cache-bitwise", "calcCompositeBodyInertias != getCompositeBodyInertia for body " + std::to_string(b));
        run.outcome(verif::hashPod((float)I(0, 0)) ^ verif::hashPod((float)I(1, 2)) ^ verif::hashPod((float)mm[0]));
    }
    if (run.verbose) printf(" [%s] mtot=%.17Lg com=(%.17Lg %.17Lg %.17Lg) |IO|=%Lg\n", c.tag.c_str(), mtot, com[0], com[1], com[2], IScale);
}

// ---- Velocity / Acceleration-stage aggregates
static void checkMotion(const Ctx& c, const State& s) {
    verif::Run& run = c.run; auto where = c.where();
    const SimbodyMatterSubsystem& matter = c.M.matter;
    std::vector<BRef> B = bodyRefs(c, s, Stage::Acceleration);
    LD mtot = 0; V3 mc = zero3(), P = zero3(), L = zero3(), ma = zero3(); LD ke = 0;
    LD pScale = 0, lScale = 0, aScale = 0;
    for (auto& r : B) {
        mtot += r.m; mc = mc + r.m * r.c;
        V3 p = r.m * r.vc, h = mulMV(r.IcG, r.w), orb = ref::cross(r.c, p);
        P = P + p; L = L + h + orb; ma = ma + r.m * r.ac;
        ke += 0.5L * r.m * ref::dot(r.vc, r.vc) + 0.5L * ref::dot(r.w, h);
        pScale = std::max(pScale, vmax(p)); lScale = std::max(lScale, std::max(vmax(h), vmax(orb))); aScale = std::max(aScale, r.m * vmax(r.ac));
    }
    const bool moving = pScale > 0 || lScale > 0;
    V3 com = (1 / mtot) * mc, vcom = (1 / mtot) * P, acom = (1 / mtot) * ma;
    V3 Lc = L - ref::cross(com, P);
    pScale = std::max<LD>(pScale, 1e-2L); lScale = std::max<LD>(std::max(lScale, vmax(ref::cross(com, P))), 1e-2L); aScale = std::max<LD>(aScale, 1e-2L);

    const Vec3 vlib = matter.calcSystemMassCenterVelocityInGround(s);
    const Vec3 alib = matter.calcSystemMassCenterAccelerationInGround(s);
    const SpatialVec momO = matter.calcSystemMomentumAboutGroundOrigin(s);
    const SpatialVec momC = matter.calcSystemCentralMomentum(s);
    const Real mlib = matter.calcSystemMass(s);
    c.res("calcSystemMassCenterVelocityInGround", relV(v3(vlib), vcom, pScale / mtot));
    c.res("calcSystemMassCenterAccelerationInGround", relV(v3(alib), acom, aScale / mtot));
    c.res("calcSystemMomentumAboutGroundOrigin-angular", relV(v3(momO[0]), L, lScale));
    c.res("calcSystemMomentumAboutGroundOrigin-linear", relV(v3(momO[1]), P, pScale));
    c.res("calcSystemCentralMomentum-angular", relV(v3(momC[0]), Lc, lScale));
    c.res("calcSystemCentralMomentum-linear", relV(v3(momC[1]), P, pScale));
    // library-internal identity: p = m_tot * v_com
    c.res("linearMomentum-equals-mass-times-comVelocity", relV(v3(momO[1]), (LD)mlib * v3(vlib), pScale));
    const LD keScale = std::max<LD>(ke, 1e-4L);
    c.res("calcKineticEnergy-vs-bodySum", (double)(fabsl(matter.calcKineticEnergy(s) - ke) / keScale));
    if (moving) run.count("cases-with-nonzero-momentum");
    if (vmax(acom) > 0) run.count("cases-with-nonzero-com-acceleration");
    run.outcome(verif::hashPod((float)Lc[0]) ^ verif::hashPod((float)acom[1]) ^ verif::hashPod((float)ke));
    if (run.verbose) {
        printf(" [%s] P=(%.15Lg %.15Lg %.15Lg) L=(%.15Lg %.15Lg %.15Lg) Lc=(%.15Lg %.15Lg %.15Lg)\n   acom=(%.15Lg %.15Lg %.15Lg) KE=%.15Lg\n", c.tag.c_str(),
               P[0], P[1], P[2], L[0], L[1], L[2], Lc[0], Lc[1], Lc[2], acom[0], acom[1], acom[2], ke);
        std::cout << "   lib: vcom=" << vlib << " acom=" << alib << " momO=" << momO << " momC=" << momC << " KE=" << matter.calcKineticEnergy(s) << "\n";
    }
}

static void checkModel(verif::Run& run, const std::vector<mb::BodySpec>& specs, bool euler, int stateKind, int valueSet, const std::string& desc) {
    auto Mp = mb::build(specs, euler);
    mb::Model& M = *Mp;
    Force::UniformGravity gravity(M.forces, M.matter, Vec3(1.2, -9.1, 2.3));   // makes udot non-zero in every state
    std::vector<int> massKind; for (auto& b : specs) massKind.push_back(b.mass);
    State s = mb::makeState(M, stateKind, valueSet);
    const int nu = s.getNU();
    run.evaluation(verif::hashStr(desc), nu >= 1);
    for (int b = 0; b < (int)specs.size(); ++b) { std::string nt = mb::nodeTypeName(M, b); run.outcome(verif::hashStr(nt)); run.count("node:" + nt); }
    if (stateKind == 1 || stateKind == 2) run.count("cases-with-nonzero-u");

    Ctx c{run, M, massKind, desc, "main"};
    M.system.realize(s, Stage::Position);
    checkPosition(c, s, false);
    M.system.realize(s, Stage::Acceleration);
    checkMotion(c, s);
    { Real un = 0; for (int i = 0; i < s.getNU(); ++i) un = std::max(un, std::abs(s.getUDot()[i])); if (un > 0) run.count("cases-with-nonzero-udot"); }

    // history variant (i): same State object, new q's -> cached composite inertias must follow
    {
        for (int b = 0; b < (int)M.bodies.size(); ++b) mb::setBodyQ(M, s, b, stateKind == 2 ? 1 : 2, valueSet + 1);
        if (s.getNQ() > 0) c.exp(!M.matter.isCompositeBodyInertiasRealized(s), "cbi-flag-false-after-q-change", "isCompositeBodyInertiasRealized still true after q changed");
        else run.count("no-q-to-change");
        M.system.realize(s, Stage::Position);
        Ctx c2{run, M, massKind, desc, "after-q-change"};
        checkPosition(c2, s, true);
        M.matter.invalidateCompositeBodyInertias(s);
        c.exp(!M.matter.isCompositeBodyInertiasRealized(s), "cbi-flag-false-after-invalidate", "isCompositeBodyInertiasRealized true after invalidateCompositeBodyInertias");
    }
    // history variant (ii): replace one body's default mass properties, re-realize topology, everything must follow
    if (stateKind == 1) {
        const int victim = (int)(verif::hashStr(desc) % specs.size());
        M.bodies[victim].setDefaultMassProperties(massPropsX3());
        massKind[victim] = 3;
        State t = mb::makeState(M, stateKind, valueSet);
        M.system.realize(t, Stage::Acceleration);
        Ctx c3{run, M, massKind, desc, "after-remass-body" + std::to_string(victim)};
        checkPosition(c3, t, false);
        checkMotion(c3, t);
        run.count("remass-cases");
    }
}

int main(int argc, char** argv) {
    verif::Run run("C15", argc, argv);
    run.setDeadline(1500, 2400);   // safety net only: quick needs ~15 s on 16 idle cores (97-150 s at load average 150)
    const bool th = run.thorough();
    run.rule = "E3: KIND = 19 built-in mobilizers, 5 Custom/FunctionBased mirrors with a constant hinge matrix, FunctionBased with nonlinear coordinate functions and 1..6 mobilities (FBN1..6), Custom helix slider with H(q) from X_FM and HDot from V_FM -- 58 KINDxDIR variants (engine/models.h); models = section S (every variant alone on Ground x all 8 frame pairs), level G, level A (every KINDxDIRxFRAMES variant as base/middle/tip/fork-branch of a 3-body tree with companions {Pin,Ball,Free}^2) and level B (all ordered parent->child pairs of constant-H variants x FRAMES{II,GG}^2; every q-dependent-H variant in both orders with the 8 code families x DIR and among themselves), thorough adds level C (all triples over 8 code families, chain+fork, DIR^3); x COORD{quaternion,Euler} x MASS(3) x STATE(4: zero, generic, large-angle, zero-velocity) under uniform gravity; value set = seed%3 (thorough: all 3); each case additionally re-queried after a q change on the same State, generic-state cases additionally after replacing one body's mass properties. distinct = distinct (model,coord,mass,state,valueset); non-trivial = nu>=1";
    run.assumptions = {"continuous values only from the fixed tables in engine/models.h (plus one extra mass kind defined in the harness)",
                       "trees of at most 3 mobilized bodies",
                       "single-body poses, velocities and accelerations are taken as reported (their correctness is C03/C05/C02's business); this check is about the aggregation",
                       "no public Instance-stage mass setter exists; mass changes are exercised through setDefaultMassProperties + realizeTopology",
                       "relative tolerance 1e-11 against the largest operand of each sum"};
    std::vector<int> valueSets = th ? std::vector<int>{0, 1, 2} : std::vector<int>{(int)(((run.seed % 3) + 3) % 3)};
    mb::LevelA A; mb::LevelB B; mb::LevelC C; mb::LevelG G; mb::LevelS S;
    auto section = [&](const std::string& name, int64_t nModels, std::function<std::vector<mb::BodySpec>(int64_t, int)> specsOf) {
        verif::Odometer od;
        od.dim("state", 4); od.dim("mass", 3); od.dim("coord", 2); od.dim("valueset", (int64_t)valueSets.size()); od.dim("model", nModels);
        run.parallel(name, od.size(), [&](int64_t idx) {
            auto d = od.digits(idx);
            auto specs = specsOf(d[4], d[1]);
            bool euler = d[2] == 1;
            std::string desc = name + " " + od.describe(idx) + " ";
            { std::string m = euler ? "euler[" : "quat["; for (auto& b : specs) m += b.str() + " "; desc += m + "] vs=" + std::to_string(valueSets[d[3]]); }
            if (run.verbose) printf("%s\n", desc.c_str());
            try { checkModel(run, specs, euler, d[0], valueSets[d[3]], desc); }
            catch (const std::exception& e) { run.violation("exception/" + name, std::string("exception: ") + e.what() + " at " + desc, run.replayHeader() + "case=" + desc + "\n"); }
            if (idx % 20011 == 0) run.sample(desc);
        });
    };
    section("S", S.size(), [&](int64_t i, int m) { return S.specs(i, m); });     // every variant alone on Ground x all 8 frame pairs
    section("G", G.size(), [&](int64_t i, int m) { return G.specs(i, m); });
    section("A", A.size(), [&](int64_t i, int m) { return A.specs(i, m); });
    section("B", B.size(), [&](int64_t i, int m) { return B.specs(i, m); });
    if (th) section("C", C.size(), [&](int64_t i, int m) { return C.specs(i, m); });
    return run.finish();
}
