// C37 -- Compliant contact forces follow their documented laws.
// Engine E3 (enum).  Every (model, material set, friction set, partner, penetration, normal velocity, tangential
// velocity, spin) tuple is built as a small real MultibodySystem (two Free bodies + Ground), realized to
// Stage::Dynamics, and the applied body forces are compared with the constitutive law TRANSCRIBED HERE FROM THE
// CLASS DOCUMENTATION (HuntCrossleyForce.h, ElasticFoundationForce.h, SmoothSphereHalfSpaceForce.h,
// ExponentialSpringForce.h / ExponentialSpringParameters.h, ContactSurface.h).  All geometry (depth, normal,
// nearest points, face centroids/areas, ellipsoid curvatures) and all kinematics (relative velocity of the two
// material points at a contact point) are computed by the harness from its own numbers; the library is asked only
// for the resulting forces.  Where the documentation has no formula (brick/half-space penalty, Stribeck curve of
// the CompliantContactSubsystem between stiction and sliding, material combination of the elastic-foundation
// generator) only the qualitative laws are checked and the case is counted as unspecified.
// Extensions: (a) Hertz elliptical between two curved surfaces (ellipsoid/sphere in both assignments, ellipsoid/ellipsoid; ConvexImplicitPair
// tracker): relative principal curvatures = eigenvalues of the sum of the two curvature tensors (ContactGeometry::combineParaboloids /
// EllipticalPointContact documentation), computed by the harness from the implicit equations at contact points it chooses itself;
// (b) mesh against mesh for ElasticFoundationForce (parameters on one / the other / both meshes) and for the CompliantContactSubsystem
// generator (rigid limit of one mesh), brute force over all faces of both convex meshes; (c) brick/half-space: the dissipation law of
// ContactSurface.h judged quantitatively on the resultant (pure relative translation); (d) parameter changes through every public setter on an
// already realized system, all setter sequences of length 1 and 2, compared with a freshly constructed fixture.
#include "Simbody.h"
#include "verif.h"
#include "geomkit.h"

#include <array>
#include <functional>
#include <memory>

using namespace SimTK;

// ---------------------------------------------------------------- documented laws (transcriptions)
// HuntCrossleyForce.h:  u = 2*u1*u2/(u1+u2)
static Real combineMu(Real a, Real b) { return (a == 0 && b == 0) ? 0 : 2 * a * b / (a + b); }
// HuntCrossleyForce.h / ElasticFoundationForce.h / SmoothSphereHalfSpaceForce.h (Hollars):
//   f = fn*[min(vs/vt,1)*(ud+2(us-ud)/(1+(vs/vt)^2))+uv*vs]
static Real hollarsMu(Real us, Real ud, Real uv, Real vs, Real vt) {
    const Real vr = vs / vt;
    return std::min(vr, Real(1)) * (ud + 2 * (us - ud) / (1 + vr * vr)) + uv * vs;
}
// HuntCrossleyForce.h:
//   R = R1*R2/(R1+R2), E = (s1*E1^(2/3))^(3/2), s1 = E2^(2/3)/(E1^(2/3)+E2^(2/3)), c = c1*s1 + c2*(1-s1)
//   k = (4/3) sqrt(R) E,  f = k x^(3/2) (1 + 3/2 c xdot),  pe = 2/5 k x^(5/2)
struct HertzLaw { Real k = 0, c = 0; };
static HertzLaw hertzLaw(Real E1, Real c1, Real E2, Real c2, Real R) {
    const Real a = std::pow(E1, 2. / 3.), b = std::pow(E2, 2. / 3.);
    const Real s1 = b / (a + b);
    const Real E = std::pow(s1 * a, 1.5);
    HertzLaw h; h.k = (4. / 3.) * std::sqrt(R) * E; h.c = c1 * s1 + c2 * (1 - s1);
    return h;
}
static Real hertzForce(const HertzLaw& h, Real x, Real xdot) {   // never attractive (property statement)
    if (!(x > 0)) return 0;
    return std::max(Real(0), h.k * std::pow(x, 1.5) * (1 + 1.5 * h.c * xdot));
}
// complete elliptic integrals by the arithmetic-geometric mean (independent of the library's approximations)
static void ellipticKE(long double m, long double& K, long double& E) {
    long double a = 1, b = sqrtl(1 - m), c = sqrtl(m), sum = 0.5L * c * c, pw = 0.5L;
    for (int i = 0; i < 60 && fabsl(c) > 1e-19L; ++i) { long double an = (a + b) / 2, bn = sqrtl(a * b); c = (a - b) / 2; a = an; b = bn; pw *= 2; sum += pw * c * c; }
    K = 3.14159265358979323846264338327950288L / (2 * a); E = K * (1 - sum);
}
// Hertz theory for an elliptical contact (Johnson, Contact Mechanics, eqs 4.25-4.30): relative principal curvatures
// kmax >= kmin > 0; force = e * (4/3) E* sqrt(R) d^(3/2), R = 2/(kmax+kmin), e = pi k sqrt(E(m)) / (2 K(m)^(3/2)),
// k = a/b >= 1 solving kmax/kmin = (k^2 E(m) - K(m)) / (K(m) - E(m)), m = 1 - 1/k^2.
static Real hertzEccentricityFactor(Real kmax, Real kmin) {
    const long double ratio = (long double)kmax / kmin;
    if (ratio <= 1 + 1e-12L) return 1;
    auto g = [&](long double k) { long double K, E; ellipticKE(1 - 1 / (k * k), K, E); return (k * k * E - K) / (K - E) - ratio; };
    long double lo = 1 + 1e-9L, hi = 1e4L;
    for (int i = 0; i < 200; ++i) { long double mid = sqrtl(lo * hi); if (g(mid) < 0) lo = mid; else hi = mid; }
    const long double k = sqrtl(lo * hi); long double K, E; ellipticKE(1 - 1 / (k * k), K, E);
    return (Real)(3.14159265358979323846264338327950288L * k * sqrtl(E) / (2 * K * sqrtl(K)));
}

// Curvature tensor (second fundamental form as a 3x3 matrix in the shape frame, the normal is in its null space) of the ellipsoid
// sum (x_i/r_i)^2 = 1 at its surface point p: for an implicit surface f = 0 the normal curvature along a unit tangent t is t'Ht/|grad f|.
static Mat33 ellipsoidCurvatureTensor(const Vec3& r, const Vec3& p) {
    const Vec3 g(2 * p[0] / (r[0] * r[0]), 2 * p[1] / (r[1] * r[1]), 2 * p[2] / (r[2] * r[2])); const Real gn = g.norm(); const Vec3 nn = g / gn;
    Mat33 H(0); for (int i = 0; i < 3; ++i) H(i, i) = 2 / (r[i] * r[i]);
    Mat33 P(1); for (int i = 0; i < 3; ++i) for (int j = 0; j < 3; ++j) P(i, j) -= nn[i] * nn[j];
    return P * H * P / gn;
}
static Mat33 sphereCurvatureTensor(Real R, const Vec3& nn) { Mat33 P(1); for (int i = 0; i < 3; ++i) for (int j = 0; j < 3; ++j) P(i, j) -= nn[i] * nn[j]; return P / R; }
// principal values of a symmetric tensor K restricted to the plane perpendicular to n (t: any unit vector in that plane)
static void principalCurvatures(const Mat33& K, const Vec3& n, const Vec3& t, Real& kmax, Real& kmin) {
    const Vec3 t2 = n % t; const Real a = dot(t, K * t), b = dot(t, K * t2), d = dot(t2, K * t2);
    const Real mean = (a + d) / 2, dev = std::sqrt(square((a - d) / 2) + b * b); kmax = mean + dev; kmin = mean - dev;
}

// ---------------------------------------------------------------- value tables
static const char* modelName(int m) {
    static const char* n[] = {"HuntCrossleyForce", "ElasticFoundationForce", "CCS-HertzCircular", "CCS-HertzElliptical", "CCS-BrickHalfSpace", "CCS-ElasticFoundation", "SmoothSphereHalfSpaceForce"};
    return n[m];
}
enum { M_HC, M_EF, M_CHC, M_CHE, M_CBR, M_CEF, M_SM, NMODEL };
struct Matl { Real E, c, us, ud, uv; };
static void frictionSet(int f, Real& us, Real& ud, Real& uv) {
    switch (f) { case 0: us = ud = uv = 0; break; case 1: us = 0.8; ud = 0.5; uv = 0; break; default: us = 0.9; ud = 0.6; uv = 0.3; break; }
}
// pair: 0 = the partner kinds of the original lattice; Hertz elliptical: 1 = ellipsoid on B / sphere partner, 2 = sphere on B / ellipsoid
// partner, 3 = ellipsoid on B / ellipsoid partner (relative-curvature path, ConvexImplicitPair tracker); mesh models: 5 = mesh partner.
// swap: the two Free bodies exchange their roles (the surface order seen by the tracker / contact set is reversed).
// par (mesh/mesh only): ElasticFoundationForce 0 = parameters on B's mesh only, 1 = on the partner mesh only, 2 = on both;
//                       CCS generator 0 = partner rigid (1e17), 1 = B's mesh rigid, 2 = comparable materials (combination unspecified).
struct Case { int model, mat, fric, partner, depth, vn, vt, spin, variant; int pair = 0, swap = 0, par = 0; };
static const Real GEO_TOL_IMPLICIT = 1e-12;   // worst observed 1.3e-15 (deformation, normal), 9.4e-16 (rate)
enum { P_LEGACY = 0, P_ELL_SPHERE = 1, P_SPHERE_ELL = 2, P_ELL_ELL = 3, P_MESH_MESH = 5 };
static std::string caseStr(const Case& c) {
    static const char* dn[] = {"separated", "touching", "small", "large"}; static const char* vnn[] = {"approach", "rest", "separate-slow", "separate-fast"};
    static const char* vtn[] = {"0", "below-transition", "above-transition", "large"}; static const char* pn[] = {"partner-on-Ground", "halfspace-on-moving-body", "third-partner"};
    return std::string(modelName(c.model)) + " mat=" + std::to_string(c.mat) + " fric=" + std::to_string(c.fric) + " " + pn[c.partner] + " depth=" + dn[c.depth] + " vn=" + vnn[c.vn] +
           " vt=" + vtn[c.vt] + " spin=" + (c.spin ? "rolling" : "0") + " variant=" + std::to_string(c.variant) +
           (c.pair ? std::string(" pair=") + (c.pair == P_ELL_SPHERE ? "ellipsoid-on-B/sphere" : c.pair == P_SPHERE_ELL ? "sphere-on-B/ellipsoid" : c.pair == P_ELL_ELL ? "ellipsoid/ellipsoid" : "mesh/mesh") +
                         " bodies=" + (c.swap ? "swapped" : "in-order") + (c.pair == P_MESH_MESH ? " par=" + std::to_string(c.par) : std::string()) : std::string());
}

// harness-owned rigid-body kinematics in Ground
struct Kin {
    Vec3 oA = Vec3(0), wA = Vec3(0), vA = Vec3(0), oB = Vec3(0), wB = Vec3(0), vB = Vec3(0);
    Vec3 velA(const Vec3& p) const { return vA + wA % (p - oA); }
    Vec3 velB(const Vec3& p) const { return vB + wB % (p - oB); }
    Vec3 vrel(const Vec3& p) const { return velB(p) - velA(p); }     // B's material point relative to A's
};

struct Fixture {
    MultibodySystem sys; SimbodyMatterSubsystem matter; GeneralForceSubsystem forces;
    std::unique_ptr<GeneralContactSubsystem> gcs; std::unique_ptr<ContactTrackerSubsystem> tracker; std::unique_ptr<CompliantContactSubsystem> ccs;
    MobilizedBody::Free A, B;
    Fixture() : matter(sys), forces(sys) {
        Body::Rigid body(MassProperties(1.3, Vec3(0.1, -0.15, 0.2), Inertia(0.9, 1.2, 1.4, 0.1, -0.07, 0.05).shiftFromMassCenter(Vec3(0.1, -0.15, 0.2), 1.3)));
        A = MobilizedBody::Free(matter.Ground(), Transform(), body, Transform());
        B = MobilizedBody::Free(matter.Ground(), Transform(), body, Transform());
    }
};

static Vec3 tang(const Vec3& v, const Vec3& n) { return v - dot(v, n) * n; }
static uint64_t hashForce(const Vec3& f, uint64_t h) { for (int i = 0; i < 3; ++i) h = verif::hashPod((float)f[i], h); return h; }

// Newton's third law between the two carriers: forces and moments (about the Ground origin) sum to zero.
static void checkThirdLaw(verif::Run& run, const std::string& model, const Vector_<SpatialVec>& F, const Kin& kin, int ia, int ib, Real Fscale, Real L, const std::function<std::string()>& where) {
    const Vec3 fa = F[ia][1], fb = F[ib][1];
    const Vec3 ma = F[ia][0] + kin.oA % fa, mb = F[ib][0] + kin.oB % fb;
    run.residual("third-law-force/" + model, (fa + fb).norm() / Fscale, 1e-12, where);
    run.residual("third-law-moment/" + model, (ma + mb).norm() / (Fscale * L), 1e-11, where);
    for (int i = 0; i < F.size(); ++i) if (i != ia && i != ib) run.expect(F[i][0].norm() == 0 && F[i][1].norm() == 0, "force-on-uninvolved-body/" + model, where);
}

// ---------------------------------------------------------------- one case of the single-contact models
static void contactCase(verif::Run& run, const Case& cs) {
    const std::string desc = caseStr(cs);
    const std::string mn = std::string(modelName(cs.model)) + (cs.pair == P_ELL_SPHERE || cs.pair == P_SPHERE_ELL ? "(ellipsoid-sphere)" : cs.pair == P_ELL_ELL ? "(ellipsoid-ellipsoid)" : cs.pair == P_MESH_MESH ? "(mesh-mesh)" : "");
    auto where = [&] { return desc; };
    Fixture fx;
    MobilizedBody::Free& bodyA = cs.swap ? fx.B : fx.A;      // carrier of the partner surface (unless it is on Ground)
    MobilizedBody::Free& bodyB = cs.swap ? fx.A : fx.B;      // carrier of "the" shape
    const int v = cs.variant;
    // ---- sizes
    const Real Rb = v == 0 ? 0.5 : v == 1 ? 0.3 : 0.8;          // sphere / circumscribed radius on B
    const Real Ra = v == 0 ? 0.7 : v == 1 ? 0.45 : 1.1;         // partner sphere
    const bool partnerSphere = (cs.partner == 2 && (cs.model == M_HC || cs.model == M_EF || cs.model == M_CHC || cs.model == M_CEF)) || cs.pair == P_ELL_SPHERE;
    const bool partnerEllipsoid = cs.pair == P_SPHERE_ELL || cs.pair == P_ELL_ELL;
    const bool partnerMesh = cs.pair == P_MESH_MESH;
    const bool shapeSphere = cs.pair == P_SPHERE_ELL;            // Hertz elliptical with the sphere on B and the ellipsoid as partner
    const int alt = (cs.partner == 2 && !partnerSphere) ? 1 : 0; // alternative shape / parameter variant for the models without a sphere partner
    const bool onGround = cs.partner == 0;
    // ---- materials
    Real us, ud, uv; frictionSet(cs.fric, us, ud, uv);
    Matl m1, m2;   // m1: partner surface, m2: surface on B
    if (cs.mat == 0) { m1 = {1e6, 0.4, us, ud, uv}; m2 = m1; }
    else { m1 = {2e5, 0.8, 0.75 * us, 0.75 * ud, 0.5 * uv}; m2 = {5e6, 0.1, us, ud, uv}; }
    const Real thickness = 0.02, thicknessA = 0.03;
    if (cs.model == M_CEF && cs.mat == 0) { m1.E = 1e17; m1.c = 0; }      // rigid-partner limit: composite = the mesh's own documented material
    if (partnerMesh) {
        // two meshes: B's mesh (1e6, .4, friction set) and the partner mesh (2.5e6, .2, 0.75x / 0.5x friction) -- ElasticFoundationForce springs keep
        // the parameters of their own mesh; the CompliantContactSubsystem generator is judged in the rigid limit of one of the two (same friction on both)
        m2 = {1e6, 0.4, us, ud, uv}; m1 = {2.5e6, 0.2, 0.75 * us, 0.75 * ud, 0.5 * uv};
        if (cs.model == M_CEF && cs.par == 0) m1 = {1e17, 0, us, ud, uv};
        if (cs.model == M_CEF && cs.par == 1) { m2 = {1e17, 0, 0.75 * us, 0.75 * ud, 0.5 * uv}; }
    }
    const Real vtrans = cs.mat == 0 ? 0.05 : 0.01;                         // set 1 keeps the documented default 0.01 where the class has one
    // ---- poses (three fixed generic sets)
    static const Real ang[3][9] = {{0.2, -0.3, -1.3, 0.3, -0.4, 0.2, -0.5, 0.25, 0.6}, {-0.6, 0.45, 0.8, -0.2, 0.7, -0.35, 0.4, -0.55, 0.15}, {1.1, 0.2, -0.4, 0.5, 0.1, 0.9, -0.3, -0.7, 0.35}};
    const Rotation R_GA = onGround ? Rotation() : Rotation(BodyRotationSequence, ang[v][3], XAxis, ang[v][4], YAxis, ang[v][5], ZAxis);
    const Vec3 p_GA = onGround ? Vec3(0) : Vec3(0.3, 1.5, -0.2) * (1 + 0.3 * v);
    const Transform X_AS1(Rotation(BodyRotationSequence, ang[v][0], XAxis, ang[v][1], YAxis, ang[v][2], ZAxis), Vec3(0.1, -0.2, 0.05));
    const Transform X_GS1 = Transform(R_GA, p_GA) * X_AS1;
    const Transform X_BS2(Rotation(BodyRotationSequence, 0.35, XAxis, -0.2, YAxis, 0.5, ZAxis), Vec3(0, 0.05, 0.1));
    // outward normal of the partner at the contact, foot point on its surface
    Vec3 n, foot;
    Vec3 radiiA(0);
    if (partnerSphere || partnerMesh) { n = X_GS1.R() * Vec3(UnitVec3(0.48, 0.6, -0.64)); foot = X_GS1.p() + Ra * n; }
    else if (partnerEllipsoid) {
        // partner ellipsoid: the harness CHOOSES the outward normal dA at the contact and takes the surface point that has it (closed form)
        radiiA = Vec3(1.5, 0.9, 1.2) * (Ra / 1.2);
        const Vec3 dA(UnitVec3(0.48, 0.6, -0.64)); const Real hA = std::sqrt(square(radiiA[0] * dA[0]) + square(radiiA[1] * dA[1]) + square(radiiA[2] * dA[2]));
        n = X_GS1.R() * dA; foot = X_GS1 * Vec3(radiiA[0] * radiiA[0] * dA[0] / hA, radiiA[1] * radiiA[1] * dA[1] / hA, radiiA[2] * radiiA[2] * dA[2] / hA);
    }
    else { n = -Vec3(X_GS1.x()); foot = X_GS1.p() + 0.3 * Vec3(X_GS1.y()) - 0.2 * Vec3(X_GS1.z()); }
    Vec3 t = tang(Vec3(0.3, 0.5, -0.8), n); t = t / t.norm();
    // ---- shape on B, its orientation in Ground, its support distance h towards the partner
    Rotation R_GS2(BodyRotationSequence, ang[v][6], XAxis, ang[v][7], YAxis, ang[v][8], ZAxis);
    Vec3 radii(0), halfLen(0); gk::RefMesh mesh, meshA; Real h = Rb;
    if (cs.model == M_CHE && !shapeSphere) {
        radii = (alt ? Vec3(0.9, 1.6, 0.6) : Vec3(1.2, 0.8, 1.9)) * (Rb / 2);
        const Vec3 d = ~R_GS2 * (-n); h = std::sqrt(square(radii[0] * d[0]) + square(radii[1] * d[1]) + square(radii[2] * d[2]));
    } else if (cs.model == M_CBR) {
        halfLen = (alt ? Vec3(0.25, 0.25, 0.25) : Vec3(0.3, 0.2, 0.1)) * (Rb / 0.5);
        // brick z axis roughly along n (one face towards the plane), tilted a little so that the four face vertices have different depths
        const UnitVec3 zn(n); const Rotation Ralign(zn, ZAxis, Vec3(0.2, 0.9, 0.4), XAxis);
        R_GS2 = Ralign * Rotation(BodyRotationSequence, alt ? 0.0 : 0.05, XAxis, alt ? 0.02 : -0.03, YAxis, 0.4, ZAxis);
        const Vec3 d = ~R_GS2 * (-n); h = halfLen[0] * std::abs(d[0]) + halfLen[1] * std::abs(d[1]) + halfLen[2] * std::abs(d[2]);
    } else if (cs.model == M_EF || cs.model == M_CEF) {
        mesh = gk::icosphere(2, Rb);
        if (partnerMesh) meshA = gk::icosphere(2, Ra);
    }
    const Rotation R_GB = R_GS2 * ~X_BS2.R();
    const bool isMesh = cs.model == M_EF || cs.model == M_CEF;
    static const Real depthPoint[4] = {-0.1, 0, 0.008, 0.12}, depthMesh[4] = {-0.1, 0, 0.05, 0.2}, depthMeshMesh[4] = {-0.1, 0, 0.1, 0.25};
    const Real* depthTable = partnerMesh ? depthMeshMesh : isMesh ? depthMesh : depthPoint;   // (mesh/mesh: the depth is that of the circumscribed spheres)
    const Real depth = depthTable[cs.depth] * Rb;
    const Real depthNominal = depthTable[2] * Rb;
    // L0: point at distance h from the lowest point of B's shape, on the common normal through it (= the centre for a sphere).
    // The lowest point of B's shape projects onto 'foot'.
    Vec3 lowInShape = -h * (~R_GS2 * n);                         // sphere / nominal: straight below the centre
    if (cs.model == M_CHE && !shapeSphere) { const Vec3 d = ~R_GS2 * (-n); lowInShape = Vec3(radii[0] * radii[0] * d[0], radii[1] * radii[1] * d[1], radii[2] * radii[2] * d[2]) / h; }
    const Vec3 L0 = foot + n * (h - depth);
    const Vec3 c = L0 - h * n - R_GS2 * lowInShape;              // origin of B's shape frame in Ground
    Kin kin;
    kin.oA = p_GA; kin.oB = c - R_GB * X_BS2.p();
    if (!onGround) { kin.wA = Vec3(0.4, 0.2, -0.3); kin.vA = Vec3(-0.2, 0.1, 0.3); }
    const Real xdotTable[4] = {0.3, 0, -0.2, -4.0};
    const Real vtTable[4] = {0, 0.4, 2, 30};
    const Real xdot = xdotTable[cs.vn], vtan = vtTable[cs.vt] * vtrans;
    const Real rm = h - depth / 2;
    const Vec3 pm = L0 - rm * n;
    Vec3 wrel(0);
    if (cs.spin) wrel = (vtan / rm) * (n % t) + 0.7 * n;
    kin.wB = kin.wA + wrel;
    const Vec3 vd = -xdot * n + (cs.spin ? 0 : vtan) * t;
    kin.vB = kin.velA(pm) + vd - kin.wB % (pm - kin.oB);

    // ---- build the library objects
    Force element; bool haveElement = false;
    SmoothSphereHalfSpaceForce* smooth = nullptr;
    Real smCf = 1e-5, smBd = 300, smBv = 50;
    MobilizedBody carrier = onGround ? (MobilizedBody)fx.matter.updGround() : (MobilizedBody)bodyA;
    Array_<Vec3> verts, vertsA; Array_<int> faces, facesA;
    if (isMesh) { for (auto& p : mesh.v) verts.push_back(p); for (auto& f : mesh.f) for (int j = 0; j < 3; ++j) faces.push_back(f[j]); }
    if (partnerMesh) { for (auto& p : meshA.v) vertsA.push_back(p); for (auto& f : meshA.f) for (int j = 0; j < 3; ++j) facesA.push_back(f[j]); }
    if (cs.model == M_HC || cs.model == M_EF) {
        fx.gcs.reset(new GeneralContactSubsystem(fx.sys));
        ContactSetIndex set = fx.gcs->createContactSet();
        // surface indices in the contact set follow the order of addBody(): partner first (0) unless the case is "swapped"
        const ContactSurfaceIndex ixPartner(cs.swap ? 1 : 0), ixB(cs.swap ? 0 : 1);
        auto addPartner = [&] { if (partnerMesh) fx.gcs->addBody(set, carrier, ContactGeometry::TriangleMesh(vertsA, facesA), X_AS1); else if (partnerSphere) fx.gcs->addBody(set, carrier, ContactGeometry::Sphere(Ra), X_AS1); else fx.gcs->addBody(set, carrier, ContactGeometry::HalfSpace(), X_AS1); };
        if (!cs.swap) addPartner();
        if (cs.model == M_EF) fx.gcs->addBody(set, bodyB, ContactGeometry::TriangleMesh(verts, faces), X_BS2);
        if (cs.model == M_EF && cs.swap) addPartner();
        if (cs.model == M_HC) {
            fx.gcs->addBody(set, bodyB, ContactGeometry::Sphere(Rb), X_BS2);
            HuntCrossleyForce hc(fx.forces, *fx.gcs, set);
            hc.setBodyParameters(ContactSurfaceIndex(0), m1.E, m1.c, m1.us, m1.ud, m1.uv);
            hc.setBodyParameters(ContactSurfaceIndex(1), m2.E, m2.c, m2.us, m2.ud, m2.uv);
            if (cs.mat == 0) hc.setTransitionVelocity(vtrans);
        } else {
            ElasticFoundationForce ef(fx.forces, *fx.gcs, set);
            if (!partnerMesh || cs.par != 1) ef.setBodyParameters(ixB, m2.E, m2.c, m2.us, m2.ud, m2.uv);
            if (partnerMesh && cs.par != 0) ef.setBodyParameters(ixPartner, m1.E, m1.c, m1.us, m1.ud, m1.uv);
            if (cs.mat == 0) ef.setTransitionVelocity(vtrans);
        }
    } else if (cs.model == M_SM) {
        SmoothSphereHalfSpaceForce sm(fx.forces);
        if (alt) { smCf = 4e-5; smBd = 150; smBv = 20; }
        sm.setParameters(m2.E, m2.c, m2.us, m2.ud, m2.uv, vtrans, smCf, smBd, smBv);
        sm.setContactSphereBody(bodyB); sm.setContactSphereLocationInBody(X_BS2.p()); sm.setContactSphereRadius(Rb);
        sm.setContactHalfSpaceBody(carrier); sm.setContactHalfSpaceFrame(X_AS1);
    } else {
        fx.tracker.reset(new ContactTrackerSubsystem(fx.sys));
        fx.ccs.reset(new CompliantContactSubsystem(fx.sys, *fx.tracker));
        fx.ccs->setTransitionVelocity(vtrans);
        const ContactMaterial cm1(m1.E, m1.c, m1.us, m1.ud, m1.uv), cm2(m2.E, m2.c, m2.us, m2.ud, m2.uv);
        if (partnerMesh) carrier.updBody().addContactSurface(X_AS1, ContactSurface(ContactGeometry::TriangleMesh(vertsA, facesA), cm1, thicknessA));
        else if (partnerEllipsoid) carrier.updBody().addContactSurface(X_AS1, ContactSurface(ContactGeometry::Ellipsoid(radiiA), cm1));
        else if (partnerSphere) carrier.updBody().addContactSurface(X_AS1, ContactSurface(ContactGeometry::Sphere(Ra), cm1));
        else carrier.updBody().addContactSurface(X_AS1, ContactSurface(ContactGeometry::HalfSpace(), cm1));
        if (cs.model == M_CHC || shapeSphere) bodyB.updBody().addContactSurface(X_BS2, ContactSurface(ContactGeometry::Sphere(Rb), cm2));
        else if (cs.model == M_CHE) bodyB.updBody().addContactSurface(X_BS2, ContactSurface(ContactGeometry::Ellipsoid(radii), cm2));
        else if (cs.model == M_CBR) bodyB.updBody().addContactSurface(X_BS2, ContactSurface(ContactGeometry::Brick(halfLen), cm2));
        else bodyB.updBody().addContactSurface(X_BS2, ContactSurface(ContactGeometry::TriangleMesh(verts, faces), cm2, thickness));
    }
    fx.sys.realizeTopology();
    State s = fx.sys.getDefaultState();
    if (!onGround) { bodyA.setQToFitTransform(s, Transform(R_GA, p_GA)); }
    bodyB.setQToFitTransform(s, Transform(R_GB, kin.oB));
    fx.sys.realize(s, Stage::Position);
    if (!onGround) bodyA.setUToFitVelocity(s, SpatialVec(kin.wA, kin.vA));
    bodyB.setUToFitVelocity(s, SpatialVec(kin.wB, kin.vB));
    fx.sys.realize(s, Stage::Dynamics);
    // harness sanity: the state really is the one the harness thinks it is
    {
        const Vec3 pc = bodyB.findStationLocationInGround(s, X_BS2.p()), vc = bodyB.findStationVelocityInGround(s, X_BS2.p());
        const Real e1 = (pc - c).norm(), e2 = (vc - kin.velB(c)).norm();
        const Real e3 = onGround ? 0 : (bodyA.findStationVelocityInGround(s, Vec3(0.3, -0.2, 0.1)) - kin.velA(p_GA + R_GA * Vec3(0.3, -0.2, 0.1))).norm();
        if (!(e1 < 1e-13 && e2 < 1e-12 && e3 < 1e-13)) { run.harnessError("fixture kinematics differ from the harness's numbers at " + desc + " (" + verif::fmtd(e1) + "," + verif::fmtd(e2) + "," + verif::fmtd(e3) + ")"); return; }
    }
    const Vector_<SpatialVec> F = fx.sys.getRigidBodyForces(s, Stage::Dynamics);
    const Real pe = fx.sys.calcPotentialEnergy(s);
    // same configuration with all velocities zero (elastic part of the law)
    State s0 = s; s0.updU() = 0; fx.sys.realize(s0, Stage::Dynamics);
    const Vector_<SpatialVec> F0 = fx.sys.getRigidBodyForces(s0, Stage::Dynamics);
    const int ia = onGround ? 0 : (int)bodyA.getMobilizedBodyIndex(), ib = (int)bodyB.getMobilizedBodyIndex();
    const Vec3 FB = F[ib][1];
    const Vec3 Mc = F[ib][0] - ((isMesh ? c : L0) - kin.oB) % FB; // moment about the shape origin (mesh) / the point L0 on the common normal

    // ---- nominal force scale of this configuration family (documented law at the nominal small depth, at rest)
    Real Reff = Rb; if (partnerSphere) Reff = Rb * Ra / (Rb + Ra);
    HertzLaw law = hertzLaw(m1.E, m1.c, m2.E, m2.c, Reff);
    Real eFactor = 1;
    if (cs.model == M_CHE && cs.pair != P_LEGACY) {
        // ContactGeometry::combineParaboloids / EllipticalPointContact (documentation): the relative (difference) paraboloid of the two surfaces at the
        // contact; its principal curvatures kmax >= kmin are the eigenvalues of the SUM of the two surfaces' curvature tensors in the common tangent plane
        // (each measured with its own outward normal).  Harness: tensors from the implicit equations, in Ground, at the contact points it chose itself.
        const Rotation R_GS1 = X_GS1.R();
        Mat33 KA, KB;
        if (partnerSphere) KA = sphereCurvatureTensor(Ra, n);
        else { const Vec3 pA = ~X_GS1 * foot; KA = R_GS1.asMat33() * ellipsoidCurvatureTensor(radiiA, pA) * ~R_GS1.asMat33(); }
        if (shapeSphere) KB = sphereCurvatureTensor(Rb, n);
        else KB = R_GS2.asMat33() * ellipsoidCurvatureTensor(radii, lowInShape) * ~R_GS2.asMat33();
        Real kmax, kmin; principalCurvatures(KA + KB, n, t, kmax, kmin);
        // harness self-check: the tensors' null space is the common normal and the trace of each is twice the mean curvature (> 0)
        run.residual("harness-curvature-tensor-normal", ((KA * n).norm() + (KB * n).norm()) * Rb, 1e-12, where);
        eFactor = hertzEccentricityFactor(kmax, kmin);
        law = hertzLaw(m1.E, m1.c, m2.E, m2.c, 2 / (kmax + kmin));
        law.k *= eFactor;
        if (kmax / kmin > 1.2) run.count("eccentric-relative-curvature(kmax/kmin>1.2)/" + mn);
        if (run.verbose) printf("  relative curvatures kmax=%.12g kmin=%.12g eFactor=%.12g\n", kmax, kmin, eFactor);
    } else if (cs.model == M_CHE) {
        const Vec3 d = ~R_GS2 * (-n); const Vec3 pE(radii[0] * radii[0] * d[0] / h, radii[1] * radii[1] * d[1] / h, radii[2] * radii[2] * d[2] / h);
        const Real a2 = radii[0] * radii[0], b2 = radii[1] * radii[1], c2 = radii[2] * radii[2];
        const Real Kg = h * h * h * h / (a2 * b2 * c2), Hm = h * h * h * (a2 + b2 + c2 - pE.normSqr()) / (2 * a2 * b2 * c2);
        const Real disc = std::sqrt(std::max(Real(0), Hm * Hm - Kg)), kmax = Hm + disc, kmin = Hm - disc;
        eFactor = hertzEccentricityFactor(kmax, kmin);
        law = hertzLaw(m1.E, m1.c, m2.E, m2.c, 1 / Hm);          // R = 2/(kmax+kmin)
        law.k *= eFactor;
        // harness cross-check of the two independent curvature computations (closed-form Gauss/mean curvature vs. tensor from the implicit equation)
        Real kx, kn; principalCurvatures(R_GS2.asMat33() * ellipsoidCurvatureTensor(radii, lowInShape) * ~R_GS2.asMat33(), n, t, kx, kn);
        run.residual("harness-curvature-cross-check", (std::abs(kx - kmax) + std::abs(kn - kmin)) / kmax, 1e-11, where);
    }
    if (cs.model == M_SM) law = hertzLaw(m2.E, m2.c, m2.E, m2.c, Rb);
    Real Fnom = law.k * std::pow(depthNominal, 1.5);
    if (isMesh) Fnom = (cs.model == M_EF ? m2.E : m2.E / thickness) * (0.3 * Rb * Rb) * depthNominal;
    if (partnerMesh) Fnom = (cs.model == M_EF ? std::min(m1.E, m2.E) : std::min(m1.E / thicknessA, m2.E / thickness)) * (0.3 * Rb * Rb) * depthNominal;
    if (cs.model == M_CBR) Fnom = m2.E * depthNominal;
    const Real Fscale = std::max(FB.norm(), Fnom);
    const bool forceApplied = FB.norm() > 0 || F[ia][1].norm() > 0;
    run.evaluation(verif::hashStr(desc), forceApplied);
    run.count(std::string(forceApplied ? "force-applied/" : "no-force/") + mn);
    run.outcome(hashForce(FB / Fnom, verif::hashPod(cs.model)));

    // ================= laws common to all models
    checkThirdLaw(run, mn, F, kin, ia, ib, Fscale, 2.0, where);
    // velocity-dependent part of the force never adds energy: sum_b (F_b - F0_b) . V_b <= 0
    {
        Real P = 0;
        P += dot(F[ib][1] - F0[ib][1], kin.vB) + dot(F[ib][0] - F0[ib][0], kin.wB);
        P += dot(F[ia][1] - F0[ia][1], kin.vA) + dot(F[ia][0] - F0[ia][0], kin.wA);
        run.residual("dissipation-power-positive/" + mn, P / (Fscale * 5.0), 1e-11, where);
        if (P < -1e-9 * Fscale) run.count("dissipating/" + mn);
    }
    const bool smoothModel = cs.model == M_SM;
    if (!smoothModel && cs.depth == 0) run.expect(!forceApplied, "force-without-penetration/" + mn, [&] { return "force " + gk::s3(FB) + " although the surfaces are separated at " + desc; });
    if (!smoothModel && cs.depth == 1) run.residual("force-at-touching/" + mn, FB.norm() / Fnom, 1e-9, where);

    // ================= model-specific quantitative laws
    const Real fnObs = dot(FB, n); const Vec3 ftObs = FB - fnObs * n;
    if (!smoothModel && !isMesh) run.residual("attractive-normal-force/" + mn, std::max(Real(0), -fnObs) / Fscale, 1e-12, where);

    if (cs.model == M_HC || cs.model == M_CHC || cs.model == M_CHE || cs.model == M_SM) {
        // ---- single point models: application point on the normal line through the centre, inside the overlap
        const Real sLo = std::min(h, h - depth), sHi = std::max(h, h - depth);
        const Vec3 nxF = n % FB; Real sApp; bool fromMoment = false;
        const Vec3 slipA = tang(kin.vrel(L0), n), slipB = -(wrel % n);      // slip along the normal line: slipA + s*slipB
        const bool noSlipAnywhere = slipA.norm() <= 1e-13 && slipB.norm() * sHi <= 1e-13;
        Real sErr = 0;    // uncertainty of the recovered application point (round-off of the moment divided by the tangential force)
        if (nxF.norm() > 1e-11 * Fscale) {
            sApp = -dot(Mc, nxF) / nxF.normSqr(); fromMoment = true;
            sErr = 4e-16 * (F[ib][0].norm() + (L0 - kin.oB).norm() * FB.norm()) / nxF.norm();
            run.residual("moment-not-a-force-on-the-normal-line/" + mn, (Mc + sApp * nxF).norm() / (Fscale * h), 1e-10, where);
        } else {
            run.residual("moment-of-centred-normal-force/" + mn, Mc.norm() / (Fscale * h), 1e-9, where);
            sApp = slipB.normSqr() > 0 ? clamp(sLo, -dot(slipA, slipB) / slipB.normSqr(), sHi) : (sLo + sHi) / 2;
        }
        const Real slipErr = slipB.norm() * sErr;                          // resulting uncertainty of the slip speed
        if (fromMoment && sErr < 1e-8 * h) run.expect(sApp >= sLo - 1e-7 * h && sApp <= sHi + 1e-7 * h, "contact-point-outside-overlap/" + mn,
                                   [&] { return "force applied at distance " + verif::fmtd(sApp) + " from the centre, overlap is [" + verif::fmtd(sLo) + "," + verif::fmtd(sHi) + "] at " + desc; });
        const Vec3 p = L0 - sApp * n, vr = kin.vrel(p);
        const Real xd = -dot(vr, n); const Vec3 vtv = tang(vr, n); const Real vs = vtv.norm();
        run.residual("harness-penetration-rate", std::abs(xd - xdot), 1e-12, where);
        Real fnRef; Real musC, mudC, muvC;
        if (cs.model == M_SM) {
            // SmoothSphereHalfSpaceForce.h
            const Real k = 0.5 * std::pow(m2.E, 2. / 3.);
            const Real fh_pos = (4. / 3.) * k * std::sqrt(Rb * k) * std::pow(std::sqrt(depth * depth + smCf), 1.5);
            const Real fh_smooth = fh_pos * (0.5 + 0.5 * std::tanh(smBd * depth));
            const Real fhc_pos = fh_smooth * (1 + 1.5 * m2.c * xd);
            fnRef = fhc_pos * (0.5 + 0.5 * std::tanh(smBv * (xd + 2 / (3 * m2.c))));
            const Real vsS = std::sqrt(vs * vs + smCf);
            const Real ff = fnRef * hollarsMu(m2.us, m2.ud, m2.uv, vsS, vtrans);
            const Vec3 ftRef = -ff * vtv / vsS;
            run.residual("normal-force-law/" + mn, std::abs(fnObs - fnRef) / Fscale, 1e-10, where);
            const Real prop = std::abs(fnRef) * ((2 * m2.us - m2.ud) / vtrans + m2.uv + (m2.us + m2.uv * vsS) / std::sqrt(smCf)) * slipErr / Fscale;
            if (prop < 1e-5) run.residual("friction-force-law/" + mn, (ftObs - ftRef).norm() / Fscale / (1 + prop / 1e-10), 1e-9, where);
            else run.count("unspecified:application-point-not-recoverable/" + mn);
            run.residual("potential-energy-law/" + mn, std::abs(pe - 0.4 * fh_smooth * depth) / std::max(std::abs(0.4 * fh_smooth * depth), Fnom * depthNominal), 1e-10, where);
            if (fnRef < 0) run.count("unspecified:documented-smooth-formula-itself-attractive");
            else run.residual("attractive-normal-force/" + mn, std::max(Real(0), -fnObs) / Fscale, 1e-12, where);
        } else {
            fnRef = hertzForce(law, depth, xd);
            musC = combineMu(m1.us, m2.us); mudC = combineMu(m1.ud, m2.ud); muvC = combineMu(m1.uv, m2.uv);
            const std::string src = cs.model == M_HC ? "" : cs.model == M_CHC ? "(HuntCrossleyForce-doc)" : "(Hertz-elliptical-theory)";
            run.residual("normal-force-law" + src + "/" + mn, std::abs(fnObs - fnRef) / Fscale, cs.model == M_CHE ? 2e-4 : 1e-10, where);
            if (fnRef == 0 && depth > 0) run.count("clamped-to-zero/" + mn);
            // friction
            const bool frictionless = musC == 0 && mudC == 0 && muvC == 0;
            if (cs.model == M_HC) {
                const Vec3 ftRef = vs > 0 ? Vec3(-fnRef * hollarsMu(musC, mudC, muvC, vs, vtrans) * vtv / vs) : Vec3(0);
                const Real prop = fnRef * ((2 * musC - mudC) / vtrans + muvC) * slipErr / Fscale;
                if (prop < 1e-5) run.residual("friction-force-law/" + mn, (ftObs - ftRef).norm() / Fscale / (1 + prop / 1e-10), 1e-9, where);
                else run.count("unspecified:application-point-not-recoverable/" + mn);
            } else {
                // ContactSurface.h: stiction limit mu_s*N at very low speed, mu_d*N at significant sliding speed, plus mu_v*v*N
                if (frictionless || noSlipAnywhere || fnRef == 0) run.residual("friction-where-none-documented/" + mn, ftObs.norm() / Fscale, 1e-10, where);
                else if (vs - slipErr >= 10 * vtrans) {
                    const Vec3 ftRef = -fnRef * (mudC + muvC * vs) * vtv / vs;
                    run.residual("sliding-friction-law/" + mn, (ftObs - ftRef).norm() / Fscale, cs.model == M_CHE ? 2e-4 : 1e-9, where);
                } else run.count("unspecified:stribeck-transition-magnitude/" + mn);
            }
            if (!frictionless && vs > 1e-9 && ftObs.norm() > 1e-9 * Fscale && slipErr <= 1e-10 * vs) {
                run.residual("friction-not-opposing-slip/" + mn, (ftObs / ftObs.norm() + vtv / vs).norm(), 1e-6, where);
                run.residual("friction-above-limit/" + mn, std::max(Real(0), ftObs.norm() - (musC + muvC * vs) * std::max(fnObs, Real(0))) / Fscale, 1e-10, where);
                run.count("friction-active/" + mn);
            }
            // potential energy: pe = 2/5 k x^(5/2)
            const Real peRef = depth > 0 ? 0.4 * law.k * std::pow(depth, 2.5) : 0;
            if (cs.model == M_HC || fnRef > 0) run.residual("potential-energy-law/" + mn, std::abs(pe - peRef) / std::max(peRef, Fnom * depthNominal), cs.model == M_CHE ? 2e-4 : 1e-10, where);
            else run.count("unspecified:potential-energy-while-yanked/" + mn);
        }
        if (run.verbose) printf("  n=%s c=%s depth=%.6g xdot=%.6g vs=%.6g sApp=%.9g (from moment: %d)\n  fnObs=%.15g fnRef=%.15g ftObs=%s eFactor=%.9g pe=%.12g\n", gk::s3(n).c_str(), gk::s3(c).c_str(), depth, xd, vs, sApp, (int)fromMoment, fnObs, fnRef, gk::s3(ftObs).c_str(), eFactor, pe);
    } else if (partnerMesh) {
        // ---- two triangle meshes.  ElasticFoundationForce.h: "When two meshes collide, the springs on each mesh are treated independently: each
        // mesh is assumed to be rigid for purposes of calculating the force exerted by the other mesh's springs"; a spring at every face centroid
        // that is inside the other object, contact point = nearest point of the other object's surface, f = k a x (1 + c v), Hollars friction
        // with the parameters of the spring's own mesh.  Both meshes are convex (checked), so "inside" and "nearest surface point" are brute force
        // over the face planes: an interior point's nearest boundary point is its projection on the nearest face plane.
        const bool ccsModel = cs.model == M_CEF;
        struct WMesh { std::vector<Vec3> v0, cen, nrm; std::vector<Real> area; };
        auto world = [&](const gk::RefMesh& m, const Transform& X, bool& convex) {
            WMesh w; std::vector<Vec3> vw; for (auto& q : m.v) vw.push_back(X * q);
            for (auto& f : m.f) { const Vec3 a = vw[f[0]], b = vw[f[1]], cc = vw[f[2]]; const Vec3 nn = (b - a) % (cc - a); w.v0.push_back(a); w.cen.push_back((a + b + cc) / 3); w.area.push_back(0.5 * nn.norm()); w.nrm.push_back(nn / nn.norm()); }
            convex = true; for (size_t f = 0; f < w.v0.size(); ++f) for (auto& q : vw) if (dot(w.nrm[f], q - w.v0[f]) > 1e-12) convex = false;
            return w;
        };
        bool cvxA, cvxB; const WMesh wB = world(mesh, Transform(R_GS2, c), cvxB), wA = world(meshA, X_GS1, cvxA);
        if (!cvxA || !cvxB) { run.harnessError("reference mesh is not convex at " + desc); return; }
        struct Spring { bool ownerIsB; Real area, x, vn; Vec3 cp; bool clamped; };
        struct Bed { Vec3 F = Vec3(0), M = Vec3(0); Real peAll = 0, peActive = 0; int n = 0; };
        std::vector<Spring> springs; bool anyClamped = false, ambiguous = false; Real minSlipRatio = Infinity, maxSlip = 0;
        const Real musC = combineMu(m1.us, m2.us), mudC = combineMu(m1.ud, m2.ud), muvC = combineMu(m1.uv, m2.uv);
        // CompliantContactSubsystem, judged in the rigid limit of one surface only: composite = the soft surface's k/h and c (ContactSurface.h: strain = x/h),
        // and the contact point lies on the undeformed surface of the rigid one
        const bool softIsB = cs.par == 0;
        const Real khC = softIsB ? m2.E / thickness : m1.E / thicknessA, cC = softIsB ? m2.c : m1.c;
        auto bed = [&](const WMesh& X, const WMesh& Y, bool ownerIsB) {
            Bed bd; const Matl& mx = ownerIsB ? m2 : m1;
            for (size_t i = 0; i < X.cen.size(); ++i) {
                const Vec3 sp = X.cen[i]; Real dmin = Infinity, d2 = Infinity; size_t fmin = 0; bool inside = true;
                for (size_t f = 0; f < Y.v0.size(); ++f) { const Real d = -dot(Y.nrm[f], sp - Y.v0[f]); if (!(d > 0)) { inside = false; break; } if (d < dmin) { d2 = dmin; dmin = d; fmin = f; } else if (d < d2) d2 = d; }
                if (!inside) continue;
                if (d2 - dmin < 1e-9 * Rb || dmin < 1e-9 * Rb) ambiguous = true;     // nearest face not unique / centroid on the surface up to round-off
                const Vec3 dir = Y.nrm[fmin], np = sp + dmin * dir; const Real x = dmin;
                const Vec3 cp = !ccsModel ? np : (ownerIsB == softIsB ? np : sp);
                const Vec3 vr = ownerIsB ? kin.velA(cp) - kin.velB(cp) : kin.velB(cp) - kin.velA(cp);   // the other body relative to the spring's mesh
                const Real vn = dot(vr, dir); const Vec3 vtv = vr - vn * dir; const Real vs = vtv.norm();
                const Real kk = ccsModel ? khC : mx.E, cc = ccsModel ? cC : mx.c;
                const Real fs = kk * X.area[i] * x * (1 + cc * vn);
                ++bd.n; bd.peAll += kk * X.area[i] * x * x / 2;
                Spring sg{ownerIsB, X.area[i], x, vn, cp, !(fs > 0)}; springs.push_back(sg);
                if (run.verbose) printf("  spring of %s: cp=%s dir=%s x=%.9g vn=%.9g vs=%.9g area=%.9g fs=%.9g\n", ownerIsB ? "B" : "partner", gk::s3(cp).c_str(), gk::s3(dir).c_str(), x, vn, vs, X.area[i], fs);
                if (!(fs > 0)) { anyClamped = true; continue; }
                bd.peActive += kk * X.area[i] * x * x / 2;
                Vec3 force = fs * dir;                                        // on the spring's own body
                if (vs > 0) {
                    const Real mu = ccsModel ? (vs >= 10 * vtrans ? mudC + muvC * vs : 0) : hollarsMu(mx.us, mx.ud, mx.uv, vs, vtrans);
                    force += fs * mu * vtv / vs;
                    minSlipRatio = std::min(minSlipRatio, vs / vtrans); maxSlip = std::max(maxSlip, vs);
                }
                const Vec3 onB = ownerIsB ? force : Vec3(-force);
                bd.F += onB; bd.M += (cp - c) % onB;
            }
            return bd;
        };
        const bool bedBActive = ccsModel || cs.par != 1, bedAActive = ccsModel || cs.par != 0;
        Bed bB, bA; if (bedBActive) bB = bed(wB, wA, true); if (bedAActive) bA = bed(wA, wB, false);
        const int nSprings = bB.n + bA.n;
        run.count("springs-engaged/" + mn, nSprings);
        if (bB.n && bA.n) run.count("cases-with-springs-of-both-meshes/" + mn);
        if (nSprings && cs.depth >= 2) run.count("mesh-cases-with-springs/" + mn);
        if (anyClamped) run.count("cases-with-clamped-springs/" + mn);
        if (ambiguous) run.count("unspecified:nearest-face-not-unique/" + mn);
        if (nSprings == 0) run.residual("force-without-displaced-spring/" + mn, FB.norm() / Fnom, 1e-12, where);
        const Real peScale = Fnom * depthNominal;
        if (!ccsModel && !ambiguous) {
            const Vec3 Fsum = bB.F + bA.F, Msum = bB.M + bA.M; const Real peSum = bB.peAll + bA.peAll;
            if (cs.par != 2) {
                // parameters on one mesh only: that mesh's spring bed with its full face areas
                run.residual("spring-bed-force-law/" + mn, (FB - Fsum).norm() / Fscale, 1e-9, where);
                run.residual("spring-bed-moment-law/" + mn, (Mc - Msum).norm() / (Fscale * Rb), 1e-9, where);
                run.residual("spring-bed-potential-energy/" + mn, std::abs(pe - peSum) / std::max(peSum, peScale), 1e-9, where);
            } else {
                // parameters on both: the header is silent about any scaling (literal reading: both beds at full area, scale 1); the source comment says
                // "If there are two meshes, scale each one's contributions by 50%".  The resultant must be ONE common multiple sigma of the sum of the two
                // documented beds -- force, moment and potential energy with the same sigma -- and sigma must be one of those two values.
                const Real rr = Fsum.normSqr() + Msum.normSqr() / (Rb * Rb);
                if (rr > 0) {
                    const Real sigma = (dot(FB, Fsum) + dot(Mc, Msum) / (Rb * Rb)) / rr;
                    run.residual("spring-bed-force-law(both-beds,common-area-scale)/" + mn, (FB - sigma * Fsum).norm() / Fscale, 1e-9, where);
                    run.residual("spring-bed-moment-law(both-beds,common-area-scale)/" + mn, (Mc - sigma * Msum).norm() / (Fscale * Rb), 1e-9, where);
                    if (FB.norm() > 1e-6 * Fnom) {
                        run.expect(std::abs(sigma - 0.5) < 1e-8 || std::abs(sigma - 1) < 1e-8, "two-mesh-area-scale-neither-one(header)-nor-half(source-comment)/" + mn, [&] { return "scale " + verif::fmtd(sigma) + " at " + desc; });
                        run.count(std::string("unspecified:two-mesh-area-scale/observed-") + (std::abs(sigma - 0.5) < 1e-8 ? "0.5(source-comment)" : std::abs(sigma - 1) < 1e-8 ? "1(header-literal)" : "other"));
                        run.residual("spring-bed-potential-energy(same-area-scale-as-force)/" + mn, std::abs(pe - sigma * peSum) / std::max(peSum, peScale), 1e-8, where);
                    }
                } else run.residual("spring-bed-force-law/" + mn, FB.norm() / Fscale, 1e-9, where);
            }
        } else if (ccsModel) {
            const bool frictionless = musC == 0 && mudC == 0 && muvC == 0;
            if (cs.par == 2) run.count("unspecified:elastic-foundation-generator-material-combination");
            else if (!ambiguous && nSprings > 0) {
                // The share of the patch each mesh's elements represent is not documented (source: each mesh contributes 50% of the averaged patch area);
                // the element areas ARE reported (ContactDetail::getPatchArea): every brute-force spring must have its element, at the harness's contact
                // point, and the reported areas must be one common multiple of the face areas per mesh.  That multiple then scales the harness's beds.
                Real sLo[2] = {Infinity, Infinity}, sHi[2] = {0, 0}; int nActive = 0, nMatched = 0, nDetails = -1; Real worstGeo = 0;
                ContactPatch patch;
                if (fx.ccs->getNumContactForces(s) == 1 && fx.ccs->calcContactPatchDetailsById(s, fx.ccs->getContactForce(s, 0).getContactId(), patch) && patch.isValid()) {
                    nDetails = patch.getNumDetails();
                    for (auto& sg : springs) {
                        if (sg.clamped) continue; ++nActive;
                        for (int i = 0; i < nDetails; ++i) { const ContactDetail& d = patch.getContactDetail(i);
                            if ((d.getContactPoint() - sg.cp).norm() < 1e-9) { ++nMatched; const Real r = d.getPatchArea() / sg.area; const int o = sg.ownerIsB ? 1 : 0; sLo[o] = std::min(sLo[o], r); sHi[o] = std::max(sHi[o], r);
                                worstGeo = std::max(worstGeo, std::max(std::abs(d.getDeformation() - sg.x) / Rb, std::abs(d.getDeformationRate() - sg.vn))); break; } }
                    }
                } else { for (auto& sg : springs) if (!sg.clamped) ++nActive; if (nActive == 0) nDetails = 0; }
                run.expect(nDetails == nActive && nMatched == nActive, "patch-elements-vs-brute-force-springs/" + mn, [&] { return std::to_string(nDetails) + " reported elements, " + std::to_string(nActive) + " springs by brute force, " + std::to_string(nMatched) + " matched at " + desc; });
                if (nActive > 0 && nMatched == nActive) {
                    run.residual("patch-element-deformation-and-rate-vs-brute-force/" + mn, worstGeo, 1e-9, where);
                    Real sc[2] = {0, 0};
                    for (int o = 0; o < 2; ++o) if (sHi[o] > 0) { sc[o] = (sLo[o] + sHi[o]) / 2; run.residual("patch-area-scale-not-uniform-over-a-mesh/" + mn, (sHi[o] - sLo[o]) / sc[o], 1e-10, where); run.expect(sc[o] > 0, "patch-area-scale-not-positive/" + mn, where); }
                    run.count("unspecified:two-mesh-patch-area-share(taken-from-the-reported-element-areas)");
                    const bool frictionJudged = frictionless || maxSlip <= 1e-13 || minSlipRatio >= 10;
                    if (frictionJudged) {
                        const Vec3 Fref = sc[1] * bB.F + sc[0] * bA.F, Mref = sc[1] * bB.M + sc[0] * bA.M;
                        run.residual("spring-bed-force-law/" + mn, (FB - Fref).norm() / Fscale, 1e-8, where);
                        run.residual("spring-bed-moment-law/" + mn, (Mc - Mref).norm() / (Fscale * Rb), 1e-8, where);
                    } else run.count("unspecified:stribeck-transition-magnitude/" + mn);
                    if (!anyClamped) { const Real peRef = sc[1] * bB.peActive + sc[0] * bA.peActive; run.residual("potential-energy-law/" + mn, std::abs(pe - peRef) / std::max(peRef, peScale), 1e-8, where); }
                    else run.count("unspecified:potential-energy-while-yanked/" + mn);
                    if (run.verbose) printf("  area scale partner=%.12g B=%.12g\n", sc[0], sc[1]);
                    if (run.currentItem() % 499 == 0) run.sample(desc + " -> reported element area / face area: partner mesh " + verif::jsonNum(sc[0]) + ", B's mesh " + verif::jsonNum(sc[1]));
                }
            }
        }
        if (run.verbose) printf("  springs B=%d partner=%d FB=%s\n  bedB=%s bedA=%s\n  Mc=%s MB=%s MA=%s pe=%.12g peB=%.12g peA=%.12g\n", bB.n, bA.n, gk::s3(FB).c_str(), gk::s3(bB.F).c_str(), gk::s3(bA.F).c_str(), gk::s3(Mc).c_str(), gk::s3(bB.M).c_str(), gk::s3(bA.M).c_str(), pe, bB.peAll, bA.peAll);
    } else if (isMesh) {
        // ---- bed of springs: one spring at the centroid of every face (ElasticFoundationForce.h); brute force over all faces
        const bool ccsModel = cs.model == M_CEF;
        const Real kSpring = ccsModel ? m2.E / thickness : m2.E;        // CCS: stress per unit strain with strain = x/h (ContactSurface.h)
        Vec3 Fref(0), Mref(0); int nSprings = 0; Real minSlipRatio = Infinity, maxSlip = 0; bool anyClamped = false;
        for (auto& f : mesh.f) {
            const Vec3 a = mesh.v[f[0]], b = mesh.v[f[1]], cc = mesh.v[f[2]];
            const Real area = 0.5 * ((b - a) % (cc - a)).norm();
            const Vec3 sp = c + R_GS2 * ((a + b + cc) / 3);
            Vec3 np;
            if (partnerSphere) { const Vec3 r = sp - X_GS1.p(); const Real d = r.norm(); if (!(d < Ra) || d == 0) continue; np = X_GS1.p() + r * (Ra / d); }
            else { const Real d = -dot(sp - foot, n); if (!(d > 0)) continue; np = sp + d * n; }
            const Vec3 disp = np - sp; const Real x = disp.norm(); if (x == 0) continue;
            const Vec3 dir = disp / x;                                   // direction of the force on the mesh body
            const Vec3 vr = kin.velA(np) - kin.velB(np);                 // other body relative to the mesh at the contact point
            const Real vn = dot(vr, dir); const Vec3 vtv = vr - vn * dir; const Real vs = vtv.norm();
            const Real fs = kSpring * area * x * (1 + m2.c * vn);        // f = k*a*x*(1+c*v)
            ++nSprings;
            if (run.verbose) printf("  spring: np=%s dir=%s x=%.9g vn=%.9g vs=%.9g area=%.9g fs=%.9g\n", gk::s3(np).c_str(), gk::s3(dir).c_str(), x, vn, vs, area, fs);
            if (!(fs > 0)) { anyClamped = true; continue; }
            Vec3 force = fs * dir;
            if (vs > 0) {
                const Real mu = ccsModel ? (vs >= 10 * vtrans ? m2.ud + m2.uv * vs : 0) : hollarsMu(m2.us, m2.ud, m2.uv, vs, vtrans);   // CCS: only judged when every spring slides fast or none slips
                force += fs * mu * vtv / vs;
                minSlipRatio = std::min(minSlipRatio, vs / vtrans); maxSlip = std::max(maxSlip, vs);
            }
            Fref += force; Mref += (np - c) % force;
        }
        run.count("springs-engaged/" + mn, nSprings);
        if (nSprings && cs.depth >= 2) run.count("mesh-cases-with-springs/" + mn);
        if (anyClamped) run.count("cases-with-clamped-springs/" + mn);
        const bool frictionless = m2.us == 0 && m2.ud == 0 && m2.uv == 0;
        bool quantitative = true;
        if (ccsModel) {
            if (cs.mat != 0) { quantitative = false; run.count("unspecified:elastic-foundation-generator-material-combination"); }
            else if (!(frictionless || maxSlip <= 1e-13 || minSlipRatio >= 10)) { quantitative = false; run.count("unspecified:stribeck-transition-magnitude/" + mn); }
        }
        if (quantitative) {
            const Real tol = ccsModel ? 1e-8 : 1e-9;
            run.residual("spring-bed-force-law/" + mn, (FB - Fref).norm() / Fscale, tol, where);
            run.residual("spring-bed-moment-law/" + mn, (Mc - Mref).norm() / (Fscale * Rb), tol, where);
        }
        if (nSprings == 0) run.residual("force-without-displaced-spring/" + mn, FB.norm() / Fnom, 1e-12, where);
        // qualitative: the net force on the mesh does not pull it into a half space
        if (!partnerSphere) run.residual("attractive-normal-force/" + mn, std::max(Real(0), -fnObs) / Fscale, 1e-12, where);
        if (cs.spin == 0 && !frictionless && !partnerSphere && onGround == false) run.count("note:moving-halfspace-springs-share-no-common-slip");
        if (cs.spin == 0 && onGround && !frictionless && ftObs.norm() > 1e-9 * Fscale && !partnerSphere) {
            // pure relative translation against a fixed plane: every spring has the same slip, so the resultant obeys the single-point bounds
            const Vec3 vtv = tang(kin.vrel(pm), n); const Real vs = vtv.norm();
            if (vs > 1e-9) {
                run.residual("friction-not-opposing-slip/" + mn, (ftObs / ftObs.norm() + vtv / vs).norm(), 1e-6, where);
                run.residual("friction-above-limit/" + mn, std::max(Real(0), ftObs.norm() - (m2.us + m2.uv * vs) * std::max(fnObs, Real(0))) / Fscale, 1e-10, where);
                run.count("friction-active/" + mn);
            }
        }
        if (run.verbose) printf("  springs=%d FB=%s Fref=%s\n  Mc=%s Mref=%s quantitative=%d\n", nSprings, gk::s3(FB).c_str(), gk::s3(Fref).c_str(), gk::s3(Mc).c_str(), gk::s3(Mref).c_str(), (int)quantitative);
    } else {
        // ---- brick / half space penalty generator: no documented formula -> qualitative laws only
        run.count("unspecified:brick-halfspace-magnitude");
        Real deepest = -Infinity; for (int i = 0; i < 8; ++i) { const Vec3 vtx = c + R_GS2 * Vec3(i & 4 ? halfLen[0] : -halfLen[0], i & 2 ? halfLen[1] : -halfLen[1], i & 1 ? halfLen[2] : -halfLen[2]); deepest = std::max(deepest, -dot(vtx - foot, n)); }
        run.residual("harness-brick-depth", std::abs(deepest - depth), 1e-12, where);
        const Real musC = combineMu(m1.us, m2.us), muvC = combineMu(m1.uv, m2.uv), mudC = combineMu(m1.ud, m2.ud);
        if (cs.spin == 0 && ftObs.norm() > 1e-9 * Fscale) {
            const Vec3 vtv = tang(kin.vrel(pm), n); const Real vs = vtv.norm();
            if (vs > 1e-9) {
                run.residual("friction-not-opposing-slip/" + mn, (ftObs / ftObs.norm() + vtv / vs).norm(), 1e-6, where);
                run.residual("friction-above-limit/" + mn, std::max(Real(0), ftObs.norm() - (std::max(m1.us, m2.us) + std::max(m1.uv, m2.uv) * vs) * std::max(fnObs, Real(0))) / Fscale, 1e-10, where);
                if (cs.mat == 0 && vs >= 10 * vtrans) run.residual("sliding-friction-law/" + mn, std::abs(ftObs.norm() - (mudC + muvC * vs) * fnObs) / Fscale, 1e-9, where);
                run.count("friction-active/" + mn);
            }
        }
        if (musC == 0 && muvC == 0 && mudC == 0) run.residual("friction-where-none-documented/" + mn, ftObs.norm() / Fscale, 1e-10, where);
        if (cs.vt == 0 && cs.spin == 0) run.residual("friction-where-none-documented/" + mn, ftObs.norm() / Fscale, 1e-10, where);
        // What IS documented for every compliant model (ContactMaterial, ContactSurface.h): "f_dissipation = f_stiffness * (dissipation * v_deformation)".
        // Without spin the relative motion of the two bodies is a pure translation, so every element of the patch has the deformation rate xdot and the
        // normal resultant must be fn(at rest) * (1 + c xdot), clamped at 0, with c between the two materials' coefficients (equal materials: exactly c).
        // The stiffness part fn(at rest) itself (the generator uses k x per vertex, source comment only) and the Stribeck curve between stiction and
        // sliding (stribeck() in CompliantContactSubsystem.cpp, source comment only) stay unspecified.
        if (cs.spin == 0 && cs.depth >= 2) {
            const Real fn0 = dot(F0[ib][1], n), cLo = std::min(m1.c, m2.c), cHi = std::max(m1.c, m2.c);
            const Real a = std::max(Real(0), fn0 * (1 + cLo * xdot)), b = std::max(Real(0), fn0 * (1 + cHi * xdot)), lo = std::min(a, b), hi = std::max(a, b);
            run.expect(fn0 > 0, "no-elastic-force-at-rest-in-penetration/" + mn, where);
            if (cLo == cHi) run.residual("dissipation-law(ContactMaterial-doc)/" + mn, std::abs(fnObs - a) / Fscale, 1e-10, where);
            else run.residual("dissipation-outside-material-bracket(ContactMaterial-doc)/" + mn, std::max(Real(0), std::max(lo - fnObs, fnObs - hi)) / Fscale, 1e-10, where);
            if (a == 0 && b == 0) run.count("clamped-to-zero/" + mn);
        }
        if (run.verbose) printf("  brick: deepest=%.9g FB=%s\n", deepest, gk::s3(FB).c_str());
    }

    // ================= reported contact forces of the CompliantContactSubsystem agree with what is applied
    if (fx.ccs) {
        const int nf = fx.ccs->getNumContactForces(s);
        run.expect(nf <= 1, "more-than-one-contact-force-reported/" + mn, where);
        if (nf == 1) {
            const ContactForce& cf = fx.ccs->getContactForce(s, 0);
            const Vec3 p = cf.getContactPoint(); const SpatialVec f2 = cf.getForceOnSurface2();
            // which of the two bodies carries surface 2 is the tracker's business; one of the two assignments must reproduce the applied forces
            auto mismatch = [&](Real sign) {
                const Vec3 fB = sign * f2[1], mB = sign * f2[0] + (p - kin.oB) % fB;
                const Vec3 fA = -fB, mA = -sign * f2[0] + (p - kin.oA) % fA;
                return ((fB - F[ib][1]).norm() + (fA - F[ia][1]).norm()) / Fscale + ((mB - F[ib][0]).norm() + (mA - F[ia][0]).norm()) / (Fscale * 2.0);
            };
            run.residual("reported-contact-force-vs-applied/" + mn, std::min(mismatch(1), mismatch(-1)), 1e-11, where);
            run.expect(cf.getPowerDissipation() >= -1e-12 * Fscale, "reported-power-dissipation-negative/" + mn, where);
            run.residual("reported-potential-energy-vs-system/" + mn, std::abs(cf.getPotentialEnergy() - pe) / (Fnom * depthNominal), 1e-12, where);
            if (FB.norm() > 0) {
                Real P = dot(F[ib][1] - F0[ib][1], kin.vB) + dot(F[ib][0] - F0[ib][0], kin.wB) + dot(F[ia][1] - F0[ia][1], kin.vA) + dot(F[ia][0] - F0[ia][0], kin.wA);
                bool anyYank = false;
                if (cs.model == M_CBR || cs.model == M_CEF) anyYank = (cs.vn >= 2);      // some elements may be clamped: the report then includes the lost elastic power (unspecified)
                if (!anyYank) run.residual("reported-power-dissipation-law/" + mn, std::abs(cf.getPowerDissipation() + P) / (Fscale * 5.0), 1e-10, where);
                else run.count("unspecified:reported-power-with-clamped-elements");
            }
            ContactPatch patch;
            const bool ok = fx.ccs->calcContactPatchDetailsById(s, cf.getContactId(), patch);
            run.expect(ok && patch.isValid(), "patch-details-unavailable-for-active-contact/" + mn, where);
            if (ok && patch.isValid()) {
                Vec3 fsum(0), msum(0); Real pes = 0, pws = 0;
                for (int i = 0; i < patch.getNumDetails(); ++i) { const ContactDetail& d = patch.getContactDetail(i); fsum += d.getForceOnSurface2(); msum += (d.getContactPoint() - p) % d.getForceOnSurface2(); pes += d.getPotentialEnergy(); pws += d.getPowerDissipation(); }
                if (run.verbose) for (int i = 0; i < patch.getNumDetails(); ++i) { const ContactDetail& d = patch.getContactDetail(i); printf("  detail %d: pt=%s n=%s slip=%s f=%s x=%.9g xdot=%.9g area=%.9g\n", i, gk::s3(d.getContactPoint()).c_str(), gk::s3(Vec3(d.getContactNormal())).c_str(), gk::s3(d.getSlipVelocity()).c_str(), gk::s3(d.getForceOnSurface2()).c_str(), d.getDeformation(), d.getDeformationRate(), d.getPatchArea()); }
                run.residual("patch-details-sum-vs-resultant/" + mn, ((fsum - f2[1]).norm() + (msum - f2[0]).norm() / 2.0) / Fscale, 1e-10, where);
                run.residual("patch-details-energy-sum/" + mn, std::abs(pes - cf.getPotentialEnergy()) / (Fnom * depthNominal) + std::abs(pws - cf.getPowerDissipation()) / (Fscale * 5.0), 1e-10, where);
                if ((cs.model == M_CHC || cs.model == M_CHE) && patch.getNumDetails() == 1) {
                    const ContactDetail& d = patch.getContactDetail(0);
                    // (implicit-surface pairs: the tracker finds the contact points by an MPR estimate + Newton refinement; bounds from the calibration in notes/C37.md)
                    const Real geoTol = cs.pair ? GEO_TOL_IMPLICIT : 1e-12;
                    run.residual("patch-deformation-vs-geometry/" + mn, std::abs(d.getDeformation() - depth) / Rb, geoTol, where);
                    run.residual("patch-deformation-rate-vs-kinematics/" + mn, std::abs(d.getDeformationRate() - xdot), cs.pair ? GEO_TOL_IMPLICIT : 1e-11, where);
                    run.residual("patch-normal-vs-geometry/" + mn, std::min((Vec3(d.getContactNormal()) - n).norm(), (Vec3(d.getContactNormal()) + n).norm()), geoTol, where);
                }
            }
        } else if (forceApplied) run.expect(false, "force-applied-but-no-contact-force-reported/" + mn, where);
    }
    if (run.currentItem() % 1499 == 0) run.sample(desc + " -> force on B " + gk::s3(FB) + " (normal " + verif::jsonNum(fnObs) + ", tangential " + verif::jsonNum(ftObs.norm()) + ")");
}

// ---------------------------------------------------------------- ExponentialSpringForce
struct ExpCase { int par, mu, plane, pz, vz, vxy, sliding, anchor, spin; };
static void expSpringCase(verif::Run& run, const ExpCase& ec, int variant) {
    static const char* pzn[] = {"far-above", "above", "on-plane", "below", "deep(max-force)"};
    const std::string desc = std::string("ExponentialSpringForce par=") + std::to_string(ec.par) + " mu=" + std::to_string(ec.mu) + " plane=" + std::to_string(ec.plane) + " pz=" + pzn[ec.pz] + " vz=" + std::to_string(ec.vz) +
                             " vxy=" + std::to_string(ec.vxy) + " sliding=" + std::to_string(ec.sliding) + " anchor=" + std::to_string(ec.anchor) + " spin=" + std::to_string(ec.spin) + " variant=" + std::to_string(variant);
    auto where = [&] { return desc; };
    const std::string mn = "ExponentialSpringForce";
    Fixture fx;
    ExponentialSpringParameters par;
    Real d0 = 0.0065905, d1 = 0.5336, d2 = 1150.0, cz = 0.5, maxFz = 100000.0, kxy = 20000.0, cxy = 2.0 * std::sqrt(20000.0), vSettle = 0.01;   // documented defaults
    if (ec.par == 1) { d0 = -0.002; d1 = 1.2; d2 = 600; cz = 1.5; maxFz = 250; kxy = 3000; cxy = 40; vSettle = 0.03; par.setShapeParameters(d0, d1, d2); par.setNormalViscosity(cz); par.setMaxNormalForce(maxFz); par.setFrictionElasticity(kxy); par.setFrictionViscosity(cxy); par.setSettleVelocity(vSettle); }
    Real mus = 0.7, muk = 0.5;    // documented defaults
    if (ec.mu == 0) { mus = muk = 0; par.setInitialMuStatic(0); par.setInitialMuKinetic(0); }
    else if (ec.mu == 2) { mus = 1.4; muk = 0.3; par.setInitialMuStatic(mus); par.setInitialMuKinetic(muk); }
    const Transform X_GP = ec.plane == 0 ? Transform() : ec.plane == 1 ? Transform(Rotation(-Pi / 2, XAxis), Vec3(0.2, -0.1, 0.3)) : Transform(Rotation(BodyRotationSequence, 0.4 + 0.2 * variant, XAxis, -0.7, YAxis, 0.3, ZAxis), Vec3(-0.3, 0.5, 0.1));
    const Vec3 station(0.15, -0.1, 0.25);
    ExponentialSpringForce spr(fx.forces, X_GP, fx.B, station, par);
    fx.sys.realizeTopology();
    State s = fx.sys.getDefaultState();
    // check that the default parameter values are the documented ones
    if (ec.par == 0) {
        Real a, b, c3; spr.getParameters().getShapeParameters(a, b, c3);
        run.expect(a == d0 && b == d1 && c3 == d2 && spr.getParameters().getNormalViscosity() == cz && spr.getParameters().getMaxNormalForce() == maxFz && spr.getParameters().getFrictionElasticity() == kxy &&
                   std::abs(spr.getParameters().getFrictionViscosity() - cxy) < 1e-12 && spr.getParameters().getSettleVelocity() == vSettle, "documented-default-parameters/" + mn, where);
        if (ec.mu == 1) run.expect(spr.getMuStatic(s) == 0.7 && spr.getMuKinetic(s) == 0.5, "documented-default-friction/" + mn, where);
    }
    const Real pzTable[5] = {0.03, 0.008, 0, -0.004, ec.par == 0 ? -0.02 : -0.012};
    const Real vzTable[4] = {-0.6, 0, 0.5, 5.0};                 // approach (towards the plane), rest, separate slowly, separate fast
    const Real vxyTable[3] = {0, 0.004, 0.8};
    const Real pz = pzTable[ec.pz], vz = vzTable[ec.vz], vt = vxyTable[ec.vxy];
    const Vec3 pxy(0.3 + 0.1 * variant, -0.2, 0);
    const Vec3 pP = pxy + Vec3(0, 0, pz);
    const Vec3 pG = X_GP * pP;
    const Rotation R_GB(BodyRotationSequence, -0.5, XAxis, 0.25 + 0.1 * variant, YAxis, 0.6, ZAxis);
    Kin kin; kin.oB = pG - R_GB * station;
    kin.wB = ec.spin ? Vec3(1.5, -2.0, 0.8) : Vec3(0);
    const Vec3 tdir = Vec3(0.6, -0.8, 0);
    const Vec3 vP = vt * tdir + Vec3(0, 0, vz);
    const Vec3 vG = X_GP.R() * vP;
    kin.vB = vG - kin.wB % (pG - kin.oB);
    fx.B.setQToFitTransform(s, Transform(R_GB, kin.oB));
    fx.B.setUToFitVelocity(s, SpatialVec(kin.wB, kin.vB));
    // Sliding state and anchor point through the documented generic discrete-variable access
    const Real K = ec.sliding == 0 ? 0 : ec.sliding == 1 ? 0.5 : 1;
    Value<Real>::updDowncast(fx.forces.updDiscreteVariable(s, spr.getSlidingStateIndex())) = K;
    const Vec3 anchorOff = ec.anchor == 0 ? Vec3(0) : ec.anchor == 1 ? Vec3(2e-5, 3e-5, 0) : Vec3(-0.03, 0.02, 0);
    Vec3 p0 = pxy + anchorOff;
    if (ec.anchor == 0) { fx.sys.realize(s, Stage::Position); spr.resetAnchorPoint(s); }
    else Value<Vec3>::updDowncast(fx.forces.updDiscreteVariable(s, spr.getAnchorPointStateIndex())) = p0;
    fx.sys.realize(s, Stage::Dynamics);
    {
        const Vec3 pc = fx.B.findStationLocationInGround(s, station), vc = fx.B.findStationVelocityInGround(s, station);
        if (!((pc - pG).norm() < 1e-13 && (vc - vG).norm() < 1e-12)) { run.harnessError("exponential spring fixture kinematics differ at " + desc); return; }
    }
    // ---- the documented law, in the plane frame
    const Real fzElas = d1 * std::exp(-d2 * (pz - d0));
    Real fz = fzElas * (1 - cz * vz);
    bool clampLo = false, clampHi = false;
    if (fz < 0) { fz = 0; clampLo = true; }
    if (fz > maxFz) { fz = maxFz; clampHi = true; }
    const Real mu = mus - K * (mus - muk);
    const Real limit = mu * fz;
    const Vec3 vxy = vt * tdir;
    Vec3 fricDamp = -cxy * vxy;
    if (fricDamp.norm() > limit) fricDamp = vxy.norm() > 0 ? Vec3(-limit * vxy / vxy.norm()) : Vec3(0);
    Vec3 fricDampSpr = -cxy * vxy, fricElasSpr = -kxy * (pxy - p0);
    Vec3 fricSpr = fricElasSpr + fricDampSpr;
    if (fricSpr.norm() > limit) { const Real sc = limit / fricSpr.norm(); fricDampSpr *= sc; fricElasSpr *= sc; fricSpr = fricElasSpr + fricDampSpr; }
    const Vec3 fricElasBlend = fricElasSpr * (1 - K), fricDampBlend = fricDampSpr + (fricDamp - fricDampSpr) * K, fricBlend = fricElasBlend + fricDampBlend;
    Vec3 p0new = pxy + fricElasBlend / kxy; p0new[2] = 0;
    const Vec3 FP = fricBlend + Vec3(0, 0, fz), FG = X_GP.R() * FP;
    const Real Fscale = std::max(FG.norm(), Real(1));     // forces of interest are 0.1 .. 1e5 N; velocity round-off times cxy is ~1e-14 N
    // ---- observed
    const Vector_<SpatialVec> F = fx.sys.getRigidBodyForces(s, Stage::Dynamics);
    const int ib = (int)fx.B.getMobilizedBodyIndex();
    const Vec3 FB = F[ib][1], MB = F[ib][0];
    run.evaluation(verif::hashStr(desc), FB.norm() > 0);
    run.outcome(hashForce(FB, 77));
    if (clampLo) run.count("normal-clamped-at-zero/" + mn); if (clampHi) run.count("normal-clamped-at-max/" + mn);
    if ((-cxy * vxy).norm() > limit) run.count("model1-limit-reached/" + mn); if ((-kxy * (pxy - p0) - cxy * vxy).norm() > limit) run.count("model2-limit-reached/" + mn);
    const Real tol = 1e-10;
    if (!(limit > 0 && limit < 1e-9)) run.residual("total-force-law/" + mn, (FB - FG).norm() / Fscale, tol, where);
    run.residual("force-applied-at-station/" + mn, (MB - (pG - kin.oB) % FB).norm() / (Fscale * 1.0), tol, where);
    kin.oA = Vec3(0);
    checkThirdLaw(run, mn, F, kin, 0, ib, Fscale, 2.0, where);
    run.residual("getForce-vs-applied/" + mn, (spr.getForce(s) - FB).norm() / Fscale + (spr.getForce(s, false) - ~X_GP.R() * FB).norm() / Fscale, tol, where);
    run.residual("normal-force-law/" + mn, std::abs(spr.getNormalForce(s, false)[2] - fz) / Fscale, tol, where);
    run.expect(spr.getNormalForce(s, false)[2] >= 0 && spr.getNormalForce(s, false)[0] == 0 && spr.getNormalForce(s, false)[1] == 0, "attractive-or-tilted-normal-force/" + mn, where);
    run.expect(spr.getNormalForce(s, false)[2] <= maxFz, "normal-force-above-documented-maximum/" + mn, where);
    if (!clampLo && !clampHi) {
        run.residual("normal-elastic-part-law/" + mn, std::abs(spr.getNormalForceElasticPart(s, false)[2] - fzElas) / Fscale, tol, where);
        run.residual("normal-damping-part-law/" + mn, std::abs(spr.getNormalForceDampingPart(s, false)[2] + cz * vz * fzElas) / Fscale, tol, where);
    } else run.count("unspecified:elastic-damping-split-while-clamped");
    run.residual("normal-parts-sum/" + mn, std::abs(spr.getNormalForceElasticPart(s, false)[2] + spr.getNormalForceDampingPart(s, false)[2] - spr.getNormalForce(s, false)[2]) / Fscale, tol, where);
    run.residual("mu-law/" + mn, std::abs(spr.getMu(s) - mu), 1e-14, where);
    run.residual("friction-limit-law/" + mn, std::abs(spr.getFrictionForceLimit(s) - limit) / Fscale, tol, where);
    // (below a friction limit of ~1e-14 N the implementation switches friction off altogether: not documented, not judged)
    const bool tinyLimit = limit > 0 && limit < 1e-9;
    if (tinyLimit) run.count("unspecified:friction-limit-below-1e-9N");
    else {
        run.residual("friction-force-law/" + mn, (spr.getFrictionForce(s, false) - fricBlend).norm() / Fscale, tol, where);
        run.residual("friction-elastic-part-law/" + mn, (spr.getFrictionForceElasticPart(s, false) - fricElasBlend).norm() / Fscale, tol, where);
        run.residual("friction-damping-part-law/" + mn, (spr.getFrictionForceDampingPart(s, false) - fricDampBlend).norm() / Fscale, tol, where);
    }
    run.residual("friction-out-of-tangent-plane/" + mn, std::abs(spr.getFrictionForce(s, false)[2]) / Fscale, 1e-14, where);
    run.residual("friction-above-limit/" + mn, std::max(Real(0), spr.getFrictionForce(s, false).norm() - limit) / Fscale, 1e-10, where);
    if (K == 1 && vt > 0 && limit > 1e-12) run.residual("friction-not-opposing-slip/" + mn, (spr.getFrictionForce(s, false) / spr.getFrictionForce(s, false).norm() + tdir).norm(), 1e-9, where);
    run.residual("friction-damping-power-positive/" + mn, dot(spr.getFrictionForceDampingPart(s, false), vxy) / (Fscale * 1.0), 1e-12, where);
    run.residual("normal-damping-power-positive/" + mn, spr.getNormalForceDampingPart(s, false)[2] * vz / (Fscale * 5.0), 1e-12, where);
    if (!tinyLimit) {
        run.residual("anchor-point-law/" + mn, (spr.getAnchorPointPosition(s, false) - p0new).norm(), 1e-12, where);
        run.residual("anchor-point-in-ground/" + mn, (spr.getAnchorPointPosition(s) - X_GP * p0new).norm(), 1e-12, where);
    }
    run.residual("station-position-report/" + mn, (spr.getStationPosition(s, false) - pP).norm() + (spr.getStationVelocity(s, false) - vP).norm(), 1e-12, where);
    if (run.verbose) printf("  fzElas=%.12g fz=%.12g mu=%.6g limit=%.9g fricBlend=%s\n  observed normal=%s friction=%s FB=%s\n", fzElas, fz, mu, limit, gk::s3(fricBlend).c_str(), gk::s3(spr.getNormalForce(s, false)).c_str(), gk::s3(spr.getFrictionForce(s, false)).c_str(), gk::s3(FB).c_str());
    if (run.currentItem() % 2999 == 0) run.sample(desc + " -> " + gk::s3(FB));
}

// ---------------------------------------------------------------- several simultaneous contacts: each body gets the force it gets alone
// Two spheres (or meshes) on two Free bodies against a Ground half space.  State of each body from a small table; the
// force on each body must equal the force the same body receives when the other one is far away (differential oracle;
// the single-contact law itself is judged in the section above).
struct MultiCase { int model, s1, s2, order; };
static Vector_<SpatialVec> multiForces(int model, int s1, int s2, int order, int variant, Vec3 o[2]) {
    MultibodySystem sys; SimbodyMatterSubsystem matter(sys); GeneralForceSubsystem forces(sys);
    Body::Rigid body(MassProperties(1.3, Vec3(0.1, -0.15, 0.2), Inertia(0.9, 1.2, 1.4, 0.1, -0.07, 0.05).shiftFromMassCenter(Vec3(0.1, -0.15, 0.2), 1.3)));
    MobilizedBody::Free b[2] = {MobilizedBody::Free(matter.Ground(), Transform(), body, Transform()), MobilizedBody::Free(matter.Ground(), Transform(), body, Transform())};
    std::unique_ptr<GeneralContactSubsystem> gcs; std::unique_ptr<ContactTrackerSubsystem> tracker; std::unique_ptr<CompliantContactSubsystem> ccs;
    const Real R = 0.4 + 0.1 * variant;
    const Transform X_HS(Rotation(-Pi / 2, ZAxis), Vec3(0));    // half space y < 0
    gk::RefMesh mesh = gk::icosphere(1, R);
    Array_<Vec3> verts; Array_<int> faces; for (auto& p : mesh.v) verts.push_back(p); for (auto& f : mesh.f) for (int j = 0; j < 3; ++j) faces.push_back(f[j]);
    const bool isMesh = model == M_EF || model == M_CEF;
    if (model == M_HC || model == M_EF) {
        gcs.reset(new GeneralContactSubsystem(sys));
        ContactSetIndex set = gcs->createContactSet();
        int idx[3];   // surface index of halfspace, b0, b1
        auto addB = [&](int k) { if (isMesh) gcs->addBody(set, b[k], ContactGeometry::TriangleMesh(verts, faces), Transform()); else gcs->addBody(set, b[k], ContactGeometry::Sphere(R), Transform()); };
        if (order == 0) { gcs->addBody(set, matter.updGround(), ContactGeometry::HalfSpace(), X_HS); idx[0] = 0; addB(0); idx[1] = 1; addB(1); idx[2] = 2; }
        else { addB(1); idx[2] = 0; addB(0); idx[1] = 1; gcs->addBody(set, matter.updGround(), ContactGeometry::HalfSpace(), X_HS); idx[0] = 2; }
        if (model == M_HC) { HuntCrossleyForce hc(forces, *gcs, set); for (int i = 0; i < 3; ++i) hc.setBodyParameters(ContactSurfaceIndex(i), 1e6, 0.4, 0.8, 0.5, 0.1); }
        else { ElasticFoundationForce ef(forces, *gcs, set); ef.setBodyParameters(ContactSurfaceIndex(idx[1]), 1e6, 0.4, 0.8, 0.5, 0.1); ef.setBodyParameters(ContactSurfaceIndex(idx[2]), 1e6, 0.4, 0.8, 0.5, 0.1); }
    } else {
        tracker.reset(new ContactTrackerSubsystem(sys)); ccs.reset(new CompliantContactSubsystem(sys, *tracker));
        const ContactMaterial cm(1e6, 0.4, 0.8, 0.5, 0.1);
        auto addB = [&](int k) { if (isMesh) b[k].updBody().addContactSurface(Transform(), ContactSurface(ContactGeometry::TriangleMesh(verts, faces), cm, 0.02)); else b[k].updBody().addContactSurface(Transform(), ContactSurface(ContactGeometry::Sphere(R), cm)); };
        if (order == 0) { matter.updGround().updBody().addContactSurface(X_HS, ContactSurface(ContactGeometry::HalfSpace(), cm)); addB(0); addB(1); }
        else { addB(1); addB(0); matter.updGround().updBody().addContactSurface(X_HS, ContactSurface(ContactGeometry::HalfSpace(), cm)); }
    }
    sys.realizeTopology();
    State s = sys.getDefaultState();
    // body states: 0 far away, 1 small depth at rest, 2 large depth approaching and sliding, 3 small depth separating fast (clamped), 4 small depth sliding
    const int st[2] = {s1, s2};
    for (int k = 0; k < 2; ++k) {
        const Real depth = st[k] == 0 ? -3 * R : (st[k] == 2 ? 0.15 * R : 0.06 * R) * (isMesh ? 2.5 : 1);
        const Vec3 pos(k == 0 ? -1.5 : 1.7, R - depth, k == 0 ? 0.3 : -0.4);
        o[k] = pos;
        b[k].setQToFitTransform(s, Transform(Rotation(BodyRotationSequence, 0.3 + k, XAxis, -0.2, YAxis, 0.5 * k, ZAxis), pos));
        Vec3 vel(0); if (st[k] == 2) vel = Vec3(0.3, -0.4, 0.1); else if (st[k] == 3) vel = Vec3(0, 6.0, 0); else if (st[k] == 4) vel = Vec3(-0.2, 0, 0.5);
        b[k].setUToFitVelocity(s, SpatialVec(st[k] == 4 ? Vec3(0.5, 1, -1) : Vec3(0), vel));
    }
    sys.realize(s, Stage::Dynamics);
    return sys.getRigidBodyForces(s, Stage::Dynamics);
}
static void multiCase(verif::Run& run, const MultiCase& mc, int variant) {
    const std::string mn = modelName(mc.model);
    static const char* sn[] = {"far", "small-rest", "large-approach-slide", "small-separating-fast", "small-sliding-spinning"};
    const std::string desc = "two bodies on a Ground half space, " + mn + " body1=" + sn[mc.s1] + " body2=" + sn[mc.s2] + " surfaces-added-" + (mc.order ? "reversed" : "in-order") + " variant=" + std::to_string(variant);
    auto where = [&] { return desc; };
    Vec3 o[2];
    const Vector_<SpatialVec> F = multiForces(mc.model, mc.s1, mc.s2, mc.order, variant, o);
    const Vector_<SpatialVec> F1 = multiForces(mc.model, mc.s1, 0, mc.order, variant, o);     // body 1 alone
    const Vector_<SpatialVec> F2 = multiForces(mc.model, 0, mc.s2, mc.order, variant, o);     // body 2 alone
    const Real scale = std::max(std::max(F1[1][1].norm(), F2[2][1].norm()), Real(1));
    run.evaluation(verif::hashStr(desc), mc.s1 != 0 && mc.s2 != 0);
    run.outcome(hashForce(F[1][1], hashForce(F[2][1], 5)));
    const std::string suffix = (mc.s1 == 3 || mc.s2 == 3) ? "one-contact-clamped-to-zero" : "no-contact-clamped";   // key names the input class, not the individual case
    run.residual("force-depends-on-other-contact/" + mn, ((F[1][1] - F1[1][1]).norm() + (F[1][0] - F1[1][0]).norm()) / scale, 1e-12, where, nullptr, suffix);
    run.residual("force-depends-on-other-contact/" + mn, ((F[2][1] - F2[2][1]).norm() + (F[2][0] - F2[2][0]).norm()) / scale, 1e-12, where, nullptr, suffix);
    run.residual("ground-reaction-not-the-sum/" + mn, ((F[0][1] - F1[0][1] - F2[0][1]).norm() + (F[0][0] - F1[0][0] - F2[0][0]).norm()) / scale, 1e-12, where, nullptr, suffix);
    if (mc.s1 != 0 && mc.s1 != 3) run.expect(F1[1][1].norm() > 0, "harness-multi-contact-engaged/" + mn, where);
    if (run.verbose) printf("  together: F1=%s F2=%s\n  alone:    F1=%s F2=%s\n", gk::s3(F[1][1]).c_str(), gk::s3(F[2][1]).c_str(), gk::s3(F1[1][1]).c_str(), gk::s3(F2[2][1]).c_str());
}

// ---------------------------------------------------------------- parameter changes on an already realized system (history search, depth 2)
// A fixture is built with parameter set P0 and realized to Stage::Dynamics in a penetrating, approaching, sliding configuration.  Then every sequence
// of one or two public setters (the complete alphabet of the model, all ordered pairs) is applied to the LIVE objects; after every setter the system is
// brought up to date the documented way (topology-level setters: realizeTopology() + a new State put into the same configuration; state-resident ones
// -- ExponentialSpringForce::setMuStatic/setMuKinetic/resetAnchorPoint -- keep the State) and realized to Dynamics again.  Differential oracle: forces,
// potential energy (and dissipated-power rate where tracked) equal those of a fixture CONSTRUCTED with the final parameters.
enum { H_HC, H_EF, H_CSPH, H_CELL, H_CBRICK, H_CMESH, H_SMOOTH, H_EXP, NHMODEL };
static const char* hmodelName(int m) { static const char* n[] = {"HuntCrossleyForce", "ElasticFoundationForce", "CCS-HertzCircular", "CCS-HertzElliptical(ellipsoid-sphere)", "CCS-BrickHalfSpace", "CCS-ElasticFoundation", "SmoothSphereHalfSpaceForce", "ExponentialSpringForce"}; return n[m]; }
struct HParams {
    Real E[2] = {1e6, 2e6}, c[2] = {0.4, 0.2}, us[2] = {0.8, 0.7}, ud[2] = {0.5, 0.45}, uv[2] = {0.3, 0.2};     // [0] partner surface, [1] surface on B
    Real thick = 0.02, scale = 1, vt = 0.05; bool track = false; Vec3 offset = Vec3(0, 0.05, 0.1); Real frameTilt = 0;
    Real cf = 1e-5, bd = 300, bv = 50; int espar = 0; Real mus = 0.7, muk = 0.5;
};
struct HFix : Fixture {
    std::unique_ptr<HuntCrossleyForce> hc; std::unique_ptr<ElasticFoundationForce> ef; std::unique_ptr<SmoothSphereHalfSpaceForce> sm; std::unique_ptr<ExponentialSpringForce> ex;
    ContactSetIndex set;
};
struct HGeom {     // fixed geometry of the history fixtures
    Transform X_GA, X_AS1, X_GP; Rotation R_BS2, R_GS2; Vec3 n, foot, t, station; Real R0 = 0.4, Ra = 0.7;
    Vec3 ellRadii(Real sc) const { return Vec3(1.2, 0.8, 1.9) * (R0 / 2) * sc; }
    Vec3 brickHalf(Real sc) const { return Vec3(0.3, 0.2, 0.1) * sc; }
    Transform halfSpaceFrame(Real tilt) const { return X_AS1 * Transform(Rotation(tilt, ZAxis), tilt * Vec3(0.1, 0.1, 0.2)); }   // partner surface frame on A (tilt 0: X_AS1)
};
static HGeom hgeom(int model) {
    HGeom g;
    g.X_GA = Transform(Rotation(BodyRotationSequence, 0.3, XAxis, -0.4, YAxis, 0.2, ZAxis), Vec3(0.3, 1.5, -0.2));
    g.X_AS1 = Transform(Rotation(BodyRotationSequence, 0.2, XAxis, -0.3, YAxis, -1.3, ZAxis), Vec3(0.1, -0.2, 0.05));
    g.X_GP = Transform(Rotation(BodyRotationSequence, 0.4, XAxis, -0.7, YAxis, 0.3, ZAxis), Vec3(-0.3, 0.5, 0.1));
    g.R_BS2 = Rotation(BodyRotationSequence, 0.35, XAxis, -0.2, YAxis, 0.5, ZAxis);
    g.station = Vec3(0.15, -0.1, 0.25);
    const Transform X_GS1 = g.X_GA * g.X_AS1;
    const bool sphere = model == H_HC || model == H_CELL;
    if (sphere) { g.n = X_GS1.R() * Vec3(UnitVec3(0.48, 0.6, -0.64)); g.foot = X_GS1.p() + g.Ra * g.n; }
    else { g.n = -Vec3(X_GS1.x()); g.foot = X_GS1.p() + 0.3 * Vec3(X_GS1.y()) - 0.2 * Vec3(X_GS1.z()); }
    g.t = tang(Vec3(0.3, 0.5, -0.8), g.n); g.t = g.t / g.t.norm();
    g.R_GS2 = Rotation(BodyRotationSequence, -0.5, XAxis, 0.25, YAxis, 0.6, ZAxis);
    if (model == H_CBRICK) g.R_GS2 = Rotation(UnitVec3(g.n), ZAxis, Vec3(0.2, 0.9, 0.4), XAxis) * Rotation(BodyRotationSequence, 0.05, XAxis, -0.03, YAxis, 0.4, ZAxis);
    return g;
}
static void meshArrays(Real R, Array_<Vec3>& verts, Array_<int>& faces) { gk::RefMesh m = gk::icosphere(2, R); for (auto& q : m.v) verts.push_back(q); for (auto& f : m.f) for (int j = 0; j < 3; ++j) faces.push_back(f[j]); }
static ContactGeometry hshape(int model, const HGeom& g, Real sc) {
    if (model == H_CELL) return ContactGeometry::Ellipsoid(g.ellRadii(sc));
    if (model == H_CBRICK) return ContactGeometry::Brick(g.brickHalf(sc));
    if (model == H_CMESH || model == H_EF) { Array_<Vec3> v; Array_<int> f; meshArrays(g.R0 * sc, v, f); return ContactGeometry::TriangleMesh(v, f); }
    return ContactGeometry::Sphere(g.R0 * sc);
}
static ExponentialSpringParameters hexpParams(const HParams& P) {
    ExponentialSpringParameters par;
    if (P.espar == 1) { par.setShapeParameters(-0.002, 1.2, 600); par.setNormalViscosity(1.5); par.setMaxNormalForce(250); par.setFrictionElasticity(3000); par.setFrictionViscosity(40); par.setSettleVelocity(0.03); }
    par.setInitialMuStatic(P.mus); par.setInitialMuKinetic(P.muk);
    return par;
}
static void hbuild(HFix& fx, int model, const HGeom& g, const HParams& P) {
    const Transform X_BS2(g.R_BS2, P.offset);
    if (model == H_HC || model == H_EF) {
        fx.gcs.reset(new GeneralContactSubsystem(fx.sys)); fx.set = fx.gcs->createContactSet();
        if (model == H_HC) fx.gcs->addBody(fx.set, fx.A, ContactGeometry::Sphere(g.Ra), g.halfSpaceFrame(P.frameTilt)); else fx.gcs->addBody(fx.set, fx.A, ContactGeometry::HalfSpace(), g.halfSpaceFrame(P.frameTilt));
        fx.gcs->addBody(fx.set, fx.B, hshape(model, g, P.scale), X_BS2);
        if (model == H_HC) { fx.hc.reset(new HuntCrossleyForce(fx.forces, *fx.gcs, fx.set)); for (int i = 0; i < 2; ++i) fx.hc->setBodyParameters(ContactSurfaceIndex(i), P.E[i], P.c[i], P.us[i], P.ud[i], P.uv[i]); fx.hc->setTransitionVelocity(P.vt); }
        else { fx.ef.reset(new ElasticFoundationForce(fx.forces, *fx.gcs, fx.set)); fx.ef->setBodyParameters(ContactSurfaceIndex(1), P.E[1], P.c[1], P.us[1], P.ud[1], P.uv[1]); fx.ef->setTransitionVelocity(P.vt); }
    } else if (model == H_SMOOTH) {
        fx.sm.reset(new SmoothSphereHalfSpaceForce(fx.forces));
        fx.sm->setParameters(P.E[1], P.c[1], P.us[1], P.ud[1], P.uv[1], P.vt, P.cf, P.bd, P.bv);
        fx.sm->setContactSphereBody(fx.B); fx.sm->setContactSphereLocationInBody(P.offset); fx.sm->setContactSphereRadius(g.R0 * P.scale);
        fx.sm->setContactHalfSpaceBody(fx.A); fx.sm->setContactHalfSpaceFrame(g.halfSpaceFrame(P.frameTilt));
    } else if (model == H_EXP) {
        fx.ex.reset(new ExponentialSpringForce(fx.forces, g.X_GP, fx.B, g.station, hexpParams(P)));
    } else {
        fx.tracker.reset(new ContactTrackerSubsystem(fx.sys)); fx.ccs.reset(new CompliantContactSubsystem(fx.sys, *fx.tracker));
        fx.ccs->setTransitionVelocity(P.vt); if (P.track) fx.ccs->setTrackDissipatedEnergy(true);
        const ContactMaterial cm1(P.E[0], P.c[0], P.us[0], P.ud[0], P.uv[0]), cm2(P.E[1], P.c[1], P.us[1], P.ud[1], P.uv[1]);
        if (model == H_CELL) fx.A.updBody().addContactSurface(g.halfSpaceFrame(P.frameTilt), ContactSurface(ContactGeometry::Sphere(g.Ra), cm1));
        else fx.A.updBody().addContactSurface(g.halfSpaceFrame(P.frameTilt), ContactSurface(ContactGeometry::HalfSpace(), cm1));
        fx.B.updBody().addContactSurface(X_BS2, ContactSurface(hshape(model, g, P.scale), cm2, model == H_CMESH ? P.thick : 0));
    }
}
struct HObs { Vector_<SpatialVec> F; Real pe = 0, zdot = 0; int nForces = -1; bool tracked = false; };
// put the (new or kept) state into THE configuration and realize; fixed pose / velocities derived from the initial parameter set only
static void hconfigure(HFix& fx, int model, const HGeom& g, State& s) {
    const HParams P0; const Rotation R_GB = g.R_GS2 * ~g.R_BS2; const Real depth0 = model == H_CMESH || model == H_EF ? 0.06 : 0.03;
    Vec3 low;       // point of the initial shape (shape frame) with outward normal -n
    const Vec3 d = ~g.R_GS2 * (-g.n);
    if (model == H_CELL) { const Vec3 r = g.ellRadii(1); const Real h = std::sqrt(square(r[0] * d[0]) + square(r[1] * d[1]) + square(r[2] * d[2])); low = Vec3(r[0] * r[0] * d[0], r[1] * r[1] * d[1], r[2] * r[2] * d[2]) / h; }
    else if (model == H_CBRICK) { const Vec3 hl = g.brickHalf(1); low = Vec3(d[0] > 0 ? hl[0] : -hl[0], d[1] > 0 ? hl[1] : -hl[1], d[2] > 0 ? hl[2] : -hl[2]); }
    else low = g.R0 * d;
    Vec3 c0 = g.foot - depth0 * g.n - g.R_GS2 * low, oB = c0 - R_GB * P0.offset;
    if (model == H_EXP) { c0 = g.X_GP * Vec3(0.3, -0.2, 0.002); oB = c0 - R_GB * g.station; }
    const Vec3 wA(0.4, 0.2, -0.3), vA(-0.2, 0.1, 0.3), wB = wA + Vec3(0.1, 0.2, -0.1);
    const Vec3 pc = c0 + g.R_GS2 * low;           // about the contact
    Vec3 vB = vA + wA % (pc - g.X_GA.p()) + (-0.3 * g.n + 0.03 * g.t) - wB % (pc - oB);
    if (model == H_EXP) vB = g.X_GP.R() * Vec3(0.48, -0.64, -0.6) - wB % (c0 - oB);      // fast enough for the friction limit mu*fz to be reached, so that mu matters
    fx.A.setQToFitTransform(s, g.X_GA); fx.B.setQToFitTransform(s, Transform(R_GB, oB));
    fx.sys.realize(s, Stage::Position);
    fx.A.setUToFitVelocity(s, SpatialVec(wA, vA)); fx.B.setUToFitVelocity(s, SpatialVec(wB, vB));
}
static HObs hobserve(HFix& fx, State& s) {
    HObs o; fx.sys.realize(s, Stage::Acceleration);
    o.F = fx.sys.getRigidBodyForces(s, Stage::Dynamics); o.pe = fx.sys.calcPotentialEnergy(s);
    if (fx.ccs) { o.nForces = fx.ccs->getNumContactForces(s); o.tracked = fx.ccs->getTrackDissipatedEnergy(); if (o.tracked) o.zdot = s.getZDot()[0] + fx.ccs->getDissipatedEnergy(s); }
    return o;
}
struct HOp { std::string name; bool stateLevel; std::function<void(HFix&, HParams&, State&)> apply; };
static std::vector<HOp> hops(int model, const HGeom& g) {
    std::vector<HOp> ops;
    auto add = [&](const std::string& nm, std::function<void(HFix&, HParams&, State&)> f, bool stateLevel = false) { ops.push_back({nm, stateLevel, f}); };
    const Vec3 offset2(0.02, 0.04, 0.11); const Real scale2 = 1.12, tilt2 = 0.15;
    auto setB = [](HParams& P, int which) { if (which == 0) P.E[1] = 3e6; else if (which == 1) P.c[1] = 0.7; else { P.us[1] = 0.6; P.ud[1] = 0.4; P.uv[1] = 0.25; } };
    auto setPartner = [](HParams& P) { P.E[0] = 4e5; P.c[0] = 0.15; P.us[0] = 0.5; P.ud[0] = 0.3; P.uv[0] = 0.1; };
    if (model == H_HC || model == H_EF) {
        static const char* nm[3] = {"setBodyParameters(B,stiffness)", "setBodyParameters(B,dissipation)", "setBodyParameters(B,friction)"};
        for (int w = 0; w < 3; ++w) add(nm[w], [=](HFix& fx, HParams& P, State&) { setB(P, w); if (fx.hc) fx.hc->setBodyParameters(ContactSurfaceIndex(1), P.E[1], P.c[1], P.us[1], P.ud[1], P.uv[1]); else fx.ef->setBodyParameters(ContactSurfaceIndex(1), P.E[1], P.c[1], P.us[1], P.ud[1], P.uv[1]); });
        if (model == H_HC) add("setBodyParameters(partner,all)", [=](HFix& fx, HParams& P, State&) { setPartner(P); fx.hc->setBodyParameters(ContactSurfaceIndex(0), P.E[0], P.c[0], P.us[0], P.ud[0], P.uv[0]); });
        add("setTransitionVelocity", [](HFix& fx, HParams& P, State&) { P.vt = 0.01; if (fx.hc) fx.hc->setTransitionVelocity(0.01); else fx.ef->setTransitionVelocity(0.01); });
        add("GeneralContactSubsystem::updBodyGeometry(B)", [=](HFix& fx, HParams& P, State&) { P.scale = scale2; fx.gcs->updBodyGeometry(fx.set, ContactSurfaceIndex(1)) = hshape(model, g, scale2); });
        add("GeneralContactSubsystem::updBodyTransform(B)", [=](HFix& fx, HParams& P, State&) { P.offset = offset2; fx.gcs->updBodyTransform(fx.set, ContactSurfaceIndex(1)) = Transform(g.R_BS2, offset2); });
        add("GeneralContactSubsystem::updBodyTransform(partner)", [=](HFix& fx, HParams& P, State&) { P.frameTilt = tilt2; fx.gcs->updBodyTransform(fx.set, ContactSurfaceIndex(0)) = g.halfSpaceFrame(tilt2); });
    } else if (model == H_SMOOTH) {
        add("setStiffness", [=](HFix& fx, HParams& P, State&) { setB(P, 0); fx.sm->setStiffness(P.E[1]); });
        add("setDissipation", [=](HFix& fx, HParams& P, State&) { setB(P, 1); fx.sm->setDissipation(P.c[1]); });
        add("setStaticFriction", [](HFix& fx, HParams& P, State&) { P.us[1] = 0.95; fx.sm->setStaticFriction(0.95); });
        add("setDynamicFriction", [](HFix& fx, HParams& P, State&) { P.ud[1] = 0.3; fx.sm->setDynamicFriction(0.3); });
        add("setViscousFriction", [](HFix& fx, HParams& P, State&) { P.uv[1] = 0.45; fx.sm->setViscousFriction(0.45); });
        add("setTransitionVelocity", [](HFix& fx, HParams& P, State&) { P.vt = 0.01; fx.sm->setTransitionVelocity(0.01); });
        add("setConstantContactForce", [](HFix& fx, HParams& P, State&) { P.cf = 4e-5; fx.sm->setConstantContactForce(4e-5); });
        add("setHertzSmoothing", [](HFix& fx, HParams& P, State&) { P.bd = 150; fx.sm->setHertzSmoothing(150); });
        add("setHuntCrossleySmoothing", [](HFix& fx, HParams& P, State&) { P.bv = 20; fx.sm->setHuntCrossleySmoothing(20); });
        add("setContactSphereLocationInBody", [=](HFix& fx, HParams& P, State&) { P.offset = offset2; fx.sm->setContactSphereLocationInBody(offset2); });
        add("setContactSphereRadius", [=](HFix& fx, HParams& P, State&) { P.scale = scale2; fx.sm->setContactSphereRadius(g.R0 * scale2); });
        add("setContactHalfSpaceFrame", [=](HFix& fx, HParams& P, State&) { P.frameTilt = tilt2; fx.sm->setContactHalfSpaceFrame(g.halfSpaceFrame(tilt2)); });
        add("setParameters(all)", [](HFix& fx, HParams& P, State&) { P.E[1] = 5e5; P.c[1] = 0.3; P.us[1] = 0.75; P.ud[1] = 0.55; P.uv[1] = 0.1; P.vt = 0.02; P.cf = 2e-5; P.bd = 200; P.bv = 30; fx.sm->setParameters(5e5, 0.3, 0.75, 0.55, 0.1, 0.02, 2e-5, 200, 30); });
    } else if (model == H_EXP) {
        add("setParameters", [](HFix& fx, HParams& P, State&) { P.espar = 1; P.mus = 1.2; P.muk = 0.35; fx.ex->setParameters(hexpParams(P)); });   // (a new State starts from the parameters' initial mu)
        add("setMuStatic(state)", [](HFix& fx, HParams& P, State& s) { P.mus = 0.4; if (P.muk > P.mus) P.muk = P.mus; fx.ex->setMuStatic(s, 0.4); }, true);       // documented: if mu_s < mu_k, mu_k is set equal to mu_s
        add("setMuKinetic(state)", [](HFix& fx, HParams& P, State& s) { P.muk = 0.9; if (P.muk > P.mus) P.mus = P.muk; fx.ex->setMuKinetic(s, 0.9); }, true);    // documented: if mu_k > mu_s, mu_s is set equal to mu_k
        add("setMuKinetic(state,small)", [](HFix& fx, HParams& P, State& s) { P.muk = 0.2; if (P.muk > P.mus) P.mus = P.muk; fx.ex->setMuKinetic(s, 0.2); }, true);
    } else {
        add("ContactMaterial::setStiffness(B)", [=](HFix& fx, HParams& P, State&) { setB(P, 0); fx.B.updBody().updContactSurface(0).updMaterial().setStiffness(P.E[1]); });
        add("ContactMaterial::setDissipation(B)", [=](HFix& fx, HParams& P, State&) { setB(P, 1); fx.B.updBody().updContactSurface(0).updMaterial().setDissipation(P.c[1]); });
        add("ContactMaterial::setFriction(B)", [=](HFix& fx, HParams& P, State&) { setB(P, 2); fx.B.updBody().updContactSurface(0).updMaterial().setFriction(P.us[1], P.ud[1], P.uv[1]); });
        add("ContactSurface::setMaterial(partner)", [=](HFix& fx, HParams& P, State&) { setPartner(P); fx.A.updBody().updContactSurface(0).setMaterial(ContactMaterial(P.E[0], P.c[0], P.us[0], P.ud[0], P.uv[0])); });
        add("CompliantContactSubsystem::setTransitionVelocity", [](HFix& fx, HParams& P, State&) { P.vt = 0.01; fx.ccs->setTransitionVelocity(0.01); });
        add("ContactSurface::setShape(B)", [=](HFix& fx, HParams& P, State&) { P.scale = scale2; fx.B.updBody().updContactSurface(0).setShape(hshape(model, g, scale2)); });
        add("Body::updContactSurfaceTransform(B)", [=](HFix& fx, HParams& P, State&) { P.offset = offset2; fx.B.updBody().updContactSurfaceTransform(0) = Transform(g.R_BS2, offset2); });
        add("Body::updContactSurfaceTransform(partner)", [=](HFix& fx, HParams& P, State&) { P.frameTilt = tilt2; fx.A.updBody().updContactSurfaceTransform(0) = g.halfSpaceFrame(tilt2); });
        add("CompliantContactSubsystem::setTrackDissipatedEnergy", [](HFix& fx, HParams& P, State&) { P.track = true; fx.ccs->setTrackDissipatedEnergy(true); });
        if (model == H_CMESH) add("ContactSurface::setThickness(B)", [](HFix& fx, HParams& P, State&) { P.thick = 0.035; fx.B.updBody().updContactSurface(0).setThickness(0.035); });
    }
    return ops;
}
static void historyCase(verif::Run& run, int model, int op1, int op2 /* -1: single op */) {
    const HGeom g = hgeom(model); const std::vector<HOp> ops = hops(model, g); const std::string mn = hmodelName(model);
    const std::string desc = "parameter history on " + mn + ": construct, realize(Dynamics), " + ops[op1].name + (op2 >= 0 ? ", realize, " + ops[op2].name : std::string()) + ", realize; compared with a fixture constructed with the final parameters";
    auto where = [&] { return desc; };
    HParams P; HFix fx; hbuild(fx, model, g, P);
    fx.sys.realizeTopology(); State s = fx.sys.getDefaultState(); hconfigure(fx, model, g, s);
    const HObs first = hobserve(fx, s);
    const int ib = (int)fx.B.getMobilizedBodyIndex();
    run.expect(first.F[ib][1].norm() > 0, "harness-history-fixture-engaged/" + mn, where);
    const int seq[2] = {op1, op2};
    for (int k = 0; k < 2 && seq[k] >= 0; ++k) {
        const HOp& op = ops[seq[k]];
        op.apply(fx, P, s);
        if (!op.stateLevel) {
            if (fx.sys.systemTopologyHasBeenRealized()) run.count("note:setter-leaves-the-topology-cache-valid/" + mn + "/" + op.name);
            fx.sys.realizeTopology(); s = fx.sys.getDefaultState(); hconfigure(fx, model, g, s);
            if (model == H_EXP) { const ExponentialSpringParameters q = hexpParams(P); P.mus = q.getInitialMuStatic(); P.muk = q.getInitialMuKinetic(); }   // state-resident values restart from the parameters
        } else run.expect(s.getSystemStage() < Stage::Dynamics, "state-level-setter-does-not-invalidate-Dynamics/" + mn + "/" + op.name, where);   // documented: "will invalidate the System at Stage::Dynamics"
        if (fx.ccs) run.residual("transition-velocity-reciprocal-not-refreshed/" + mn, std::abs(fx.ccs->getOOTransitionVelocity() * fx.ccs->getTransitionVelocity() - 1), 1e-14, where);   // documented: "a precalculated 1/vt"
        (void)hobserve(fx, s);
    }
    const HObs hist = hobserve(fx, s);
    HFix fresh; hbuild(fresh, model, g, P);
    fresh.sys.realizeTopology(); State sf = fresh.sys.getDefaultState(); hconfigure(fresh, model, g, sf);
    const HObs ref = hobserve(fresh, sf);
    Real scale = 1, diff = 0, moved = 0;
    for (int b = 0; b < ref.F.size(); ++b) scale = std::max(scale, ref.F[b][1].norm());
    for (int b = 0; b < ref.F.size(); ++b) { diff = std::max(diff, ((hist.F[b][1] - ref.F[b][1]).norm() + (hist.F[b][0] - ref.F[b][0]).norm()) / scale); moved = std::max(moved, (first.F[b][1] - ref.F[b][1]).norm() / scale); }
    run.evaluation(verif::hashStr(desc), moved > 1e-9);
    run.outcome(hashForce(ref.F[ib][1], verif::hashPod(model)));
    if (moved > 1e-9) run.count("history-changes-the-force/" + mn); else run.count("history-without-effect-on-the-force/" + mn + "/" + ops[op1].name + (op2 >= 0 ? "+" + ops[op2].name : std::string()));
    // key suffix = the input class: the setter sequence, except for the one class found to fail on the unchanged tree (see notes/C37.md), which gets a
    // single stable name: the mesh of an ElasticFoundationForce surface is replaced and setBodyParameters() is not called again for that surface afterwards
    std::string cls = op2 >= 0 ? ops[op1].name + "+" + ops[op2].name : ops[op1].name;
    if (model == H_EF) {
        bool stale = false;
        for (int k = 0; k < 2 && seq[k] >= 0; ++k) { const std::string& nm = ops[seq[k]].name; if (nm.find("updBodyGeometry") != std::string::npos) stale = true; else if (nm.find("setBodyParameters(B") != std::string::npos) stale = false; }
        if (stale) cls = "mesh-geometry-replaced-after-setBodyParameters";
    }
    run.residual("history-vs-fresh-force/" + mn, diff, 1e-13, where, nullptr, cls);
    run.residual("history-vs-fresh-potential-energy/" + mn, std::abs(hist.pe - ref.pe) / std::max(std::abs(ref.pe), scale * 0.01), 1e-13, where, nullptr, cls);
    if (fx.ccs) {
        run.expect(hist.nForces == ref.nForces && hist.tracked == ref.tracked, "history-vs-fresh-contact-bookkeeping/" + mn, where);
        if (ref.tracked && hist.tracked) { run.residual("history-vs-fresh-dissipated-power/" + mn, std::abs(hist.zdot - ref.zdot) / (scale * 1.0), 1e-13, where, nullptr, cls); run.expect(ref.zdot > 0, "harness-history-dissipation-engaged/" + mn, where); }
    }
    if (model == H_EXP) run.residual("history-vs-fresh-mu/" + mn, std::abs(fx.ex->getMuStatic(s) - P.mus) + std::abs(fx.ex->getMuKinetic(s) - P.muk) + std::abs(fresh.ex->getMuStatic(sf) - P.mus) + std::abs(fresh.ex->getMuKinetic(sf) - P.muk), 1e-15, where, nullptr, cls);
    if (run.verbose) { printf("  first force on B %s\n  history        %s\n  fresh          %s\n  pe %.15g vs %.15g\n", gk::s3(first.F[ib][1]).c_str(), gk::s3(hist.F[ib][1]).c_str(), gk::s3(ref.F[ib][1]).c_str(), hist.pe, ref.pe); }
    if (run.currentItem() % 97 == 0) run.sample(desc + " -> force on B " + gk::s3(ref.F[ib][1]));
}

int main(int argc, char** argv) {
    verif::Run run("C37", argc, argv);
    run.setDeadline(300, 1800);
    const bool th = run.thorough();
    run.rule = "E3: single-contact case = (model in {HuntCrossleyForce, ElasticFoundationForce, CompliantContactSubsystem Hertz circular / Hertz elliptical / brick-halfspace / elastic-foundation mesh, SmoothSphereHalfSpaceForce}, "
               "material set(2), friction set(3, incl. mu=0 and viscous), partner(3: half space on Ground / half space on a moving body / sphere on a moving body or alternative shape), penetration(<0, 0, small, large), "
               "normal velocity(approach, rest, separate slowly, separate fast = clamped), tangential velocity(0, 0.4 vt, 2 vt, 30 vt), spin(0, rolling-compatible + drilling), value set); ExponentialSpringForce case = (parameter set(2), mu set(3), plane(3), "
               "height(5, incl. max-force clamp), normal velocity(4), tangential velocity(3), Sliding(0,.5,1), anchor offset(3), spin(2)); multi-contact case = (model(4), body-1 state(5), body-2 state(5), order of adding surfaces(2)); "
               "Hertz-elliptical pair case = (pair(3: ellipsoid on B / sphere, sphere on B / ellipsoid, ellipsoid / ellipsoid), material set(2), friction set(3), carrier(3: partner on Ground, on a moving body, moving bodies in swapped order), "
               "penetration(4), normal velocity(4), tangential velocity(4), spin(2)); mesh/mesh case = (model(2: ElasticFoundationForce, CCS generator), parameters(3: on B's mesh / on the partner mesh / on both; CCS: which mesh is rigid / comparable), "
               "friction set(3), carrier(3), penetration(4), normal velocity(4), tangential velocity(4), spin(2)); parameter-history case = (model(8), every sequence of 1 or 2 setters out of the model's complete setter alphabet (4..13 setters)). "
               "distinct = distinct tuple; non-trivial = a non-zero force is applied (history: the setter sequence changes the force)";
    run.assumptions = {"continuous values only from the fixed tables in the harness (3 value sets selected by VERIF_SEED; thorough runs all 3)",
                       "the point of application is not documented for the single-point models: it is recovered from the applied moment and required to lie on the common normal inside the overlap region; slip is evaluated there",
                       "CompliantContactSubsystem: Hertz law and material/friction combination rule transcribed from HuntCrossleyForce.h (the only place the library documents them); dissipation factor 3/2 as in Hunt-Crossley (ContactSurface.h's generic f_stiffness*c*v omits it)",
                       "CompliantContactSubsystem friction magnitude is judged exactly only for mu=0, zero slip and slip >= 10 vt (ContactSurface.h: mu_d*N + mu_v*v*N at significant sliding speed); between, only direction and the mu_s limit",
                       "elastic-foundation generator: quantitative only in the rigid-partner limit (partner 1e11 times stiffer), where any sane combination rule reduces to the mesh's own k/h and c",
                       "Hertz elliptical: Hertz theory (Johnson) with elliptic integrals by AGM, tolerance 2e-4 because the library documents 5-7 digit approximations",
                       "body poses/velocities are set through setQToFitTransform/setUToFitVelocity and verified against the harness's own numbers",
                       "Hertz elliptical between two curved surfaces: the harness chooses the common normal and takes the surface points having that normal (closed form), so no contact search is needed in the reference; relative curvatures from the sum of the curvature tensors of the implicit equations (combineParaboloids / EllipticalPointContact documentation), R = 2/(kmax+kmin) and eccentricity factor as for the half-space case",
                       "mesh/mesh: both meshes are convex icospheres (checked), so 'centroid inside the other mesh' and 'nearest surface point' are brute force over the face planes; cases where the nearest face is not unique to 1e-9 are counted unspecified (none occur)",
                       "ElasticFoundationForce with parameters on both meshes: the header is silent about scaling (literal reading: both beds at full area), the source comment says 50% each; required: force, moment and potential energy are ONE common multiple of the sum of the two documented beds and that multiple is 1 or 1/2 (observed: 1/2, counted)",
                       "CompliantContactSubsystem mesh/mesh: judged in the rigid limit of one mesh (composite = the soft mesh's k/h and c, contact point on the rigid mesh's undeformed surface); the share of the patch area each mesh's elements represent is undocumented and is taken from the reported ContactDetail patch areas (must be uniform per mesh), every brute-force spring must have its reported element",
                       "brick/half-space: only ContactSurface.h's 'f_dissipation = f_stiffness*c*v' is documented -> judged on the normal resultant for pure relative translation (equal materials exactly, different materials: c within the two materials' bracket); the per-vertex k*x stiffness law and the Stribeck curve stribeck(us,ud,uv,v) are documented only in source comments of CompliantContactSubsystem.cpp and stay qualitative",
                       "parameter history: after a topology-level setter the system is re-realized with realizeTopology() and a NEW default State is put into the same configuration; state-resident setters (ExponentialSpringForce::setMuStatic/setMuKinetic) keep the State; the reference is a fixture constructed with the final parameters (same arithmetic -> agreement to 1e-13, observed 0)"};
    std::vector<int> variants = th ? std::vector<int>{0, 1, 2} : std::vector<int>{(int)(((run.seed % 3) + 3) % 3)};

    // ---- single-contact models
    verif::Odometer od;
    od.dim("spin", 2); od.dim("vt", 4); od.dim("vn", 4); od.dim("depth", 4); od.dim("partner", 3); od.dim("fric", 3); od.dim("mat", 2); od.dim("model", NMODEL); od.dim("variant", (int64_t)variants.size());
    run.parallel("single-contact", od.size(), [&](int64_t idx) {
        auto d = od.digits(idx);
        Case c; c.spin = d[0]; c.vt = d[1]; c.vn = d[2]; c.depth = d[3]; c.partner = d[4]; c.fric = d[5]; c.mat = d[6]; c.model = d[7]; c.variant = variants[d[8]];
        if (run.verbose) printf("%s\n", caseStr(c).c_str());
        contactCase(run, c);
    });
    // ---- Hertz elliptical between two curved surfaces (relative-curvature path): ellipsoid/sphere in both assignments and ellipsoid/ellipsoid,
    //      partner on Ground or on a moving body, with the two moving bodies in both orders
    verif::Odometer oh;
    oh.dim("spin", 2); oh.dim("vt", 4); oh.dim("vn", 4); oh.dim("depth", 4); oh.dim("carrier", 3); oh.dim("fric", 3); oh.dim("mat", 2); oh.dim("pair", 3); oh.dim("variant", (int64_t)variants.size());
    run.parallel("hertz-elliptical-pairs", oh.size(), [&](int64_t idx) {
        auto d = oh.digits(idx);
        Case c; c.spin = d[0]; c.vt = d[1]; c.vn = d[2]; c.depth = d[3]; c.partner = d[4] == 0 ? 0 : 1; c.swap = d[4] == 2; c.fric = d[5]; c.mat = d[6]; c.model = M_CHE; c.pair = 1 + d[7]; c.variant = variants[d[8]];
        if (run.verbose) printf("%s\n", caseStr(c).c_str());
        contactCase(run, c);
    });
    // ---- mesh against mesh: ElasticFoundationForce (parameters on one / the other / both meshes) and the CompliantContactSubsystem generator
    verif::Odometer omm;
    omm.dim("spin", 2); omm.dim("vt", 4); omm.dim("vn", 4); omm.dim("depth", 4); omm.dim("carrier", 3); omm.dim("fric", 3); omm.dim("par", 3); omm.dim("model", 2); omm.dim("variant", (int64_t)variants.size());
    run.parallel("mesh-mesh", omm.size(), [&](int64_t idx) {
        auto d = omm.digits(idx);
        Case c; c.spin = d[0]; c.vt = d[1]; c.vn = d[2]; c.depth = d[3]; c.partner = d[4] == 0 ? 0 : 1; c.swap = d[4] == 2; c.fric = d[5]; c.par = d[6]; c.mat = 0; c.model = d[7] ? M_CEF : M_EF; c.pair = P_MESH_MESH; c.variant = variants[d[8]];
        if (run.verbose) printf("%s\n", caseStr(c).c_str());
        contactCase(run, c);
    });
    // ---- parameter changes after realization: all setter sequences of length 1 and 2 per model
    {
        std::vector<std::array<int, 3>> hcases;
        for (int m = 0; m < NHMODEL; ++m) { const int nops = (int)hops(m, hgeom(m)).size(); for (int a = 0; a < nops; ++a) { hcases.push_back({m, a, -1}); for (int b = 0; b < nops; ++b) hcases.push_back({m, a, b}); } }
        run.parallel("parameter-history", (int64_t)hcases.size(), [&](int64_t idx) { const auto& h = hcases[idx]; historyCase(run, h[0], h[1], h[2]); });
    }
    // ---- exponential springs
    verif::Odometer oe;
    oe.dim("spin", 2); oe.dim("anchor", 3); oe.dim("sliding", 3); oe.dim("vxy", 3); oe.dim("vz", 4); oe.dim("pz", 5); oe.dim("plane", 3); oe.dim("mu", 3); oe.dim("par", 2); oe.dim("variant", (int64_t)variants.size());
    run.parallel("exponential-spring", oe.size(), [&](int64_t idx) {
        auto d = oe.digits(idx);
        ExpCase e; e.spin = d[0]; e.anchor = d[1]; e.sliding = d[2]; e.vxy = d[3]; e.vz = d[4]; e.pz = d[5]; e.plane = d[6]; e.mu = d[7]; e.par = d[8];
        expSpringCase(run, e, variants[d[9]]);
    });
    // ---- simultaneous contacts
    verif::Odometer om;
    om.dim("order", 2); om.dim("s2", 5); om.dim("s1", 5); om.dim("model", 4); om.dim("variant", (int64_t)variants.size());
    run.parallel("multi-contact", om.size(), [&](int64_t idx) {
        auto d = om.digits(idx);
        static const int models[4] = {M_HC, M_CHC, M_EF, M_CEF};
        MultiCase m; m.order = d[0]; m.s2 = d[1]; m.s1 = d[2]; m.model = models[d[3]];
        multiCase(run, m, variants[d[4]]);
    });
    return run.finish();
}
