// C41 -- Functions, splines and smooth steps are self-consistent.
// Engine E3 (enum).  Sections:
//   functions : Function::Constant / Linear / Polynomial / Sinusoid / Step over parameter alphabets x every
//               derivative index multiset up to order 4 (Step: 3, order 4 must be refused) x argument lattice;
//   steps     : stepUp / stepDown / stepAny and their three derivatives, double and float, 101-point grid,
//               exact end values, both sides of the ends (stepAny clamps), monotone, symmetric;
//   splines   : SplineFitter / Spline_ / GCVSPLUtil for degree {1,3,5,7} x knot sets x data x fitting mode x {Real, Vec3};
//   bicubic   : BicubicSurface / BicubicFunction on grids x data x smoothness.
// Oracles: closed forms transcribed from the documentation, evaluated in long double; 4th-order central
// differences with a Richardson pair (h, h/2) that must agree (else skipped and counted); per-interval polynomial
// reconstruction (Newton form, long double) for splines and patches; differential oracles (clone, Function_
// interface vs direct call, hint vs no hint, Vec3 vs three scalar objects).
#include "SimTKmath.h"
#include "verif.h"

using namespace SimTK;
typedef long double LD;
static const double EPS = std::numeric_limits<double>::epsilon();

struct Chk {
    verif::Run& run; std::string desc;
    std::function<std::string()> where(const std::string& e = "") const { std::string d = desc, x = e; return [d, x] { return d + (x.empty() ? "" : " " + x); }; }
    std::function<std::string()> rep() const { verif::Run* r = &run; std::string d = desc; return [r, d] { return r->replayHeader() + "case=" + d + "\n"; }; }
    bool exp(bool ok, const std::string& key, const std::string& what = "") const { auto w = where(what); return run.expect(ok, key, [w, key] { return key + " at " + w(); }, rep()); }
    void res(const std::string& oracle, LD value, double bound, const std::string& suffix = "", const std::string& extra = "") const { run.residual(oracle, (double)value, bound, where(extra), rep(), suffix); }
};

// 4th-order central difference of g at x with step h
template <class G> static LD cd4(const G& g, LD x, LD h) { return (-(LD)g(x + 2 * h) + 8 * (LD)g(x + h) - 8 * (LD)g(x - h) + (LD)g(x - 2 * h)) / (12 * h); }
// Finite-difference oracle: claimed = d/dx g(x).  Returns -1 if the Richardson pair disagrees (skip), else the
// error in units of the tolerance (which is built from the pair's own disagreement and the evaluation noise of g).
template <class G> static LD fdUnits(const G& g, LD x, LD h, LD claimed, LD gScale) {
    LD d1 = cd4(g, x, h), d2 = cd4(g, x, h / 2);
    LD noise = 8 * EPS * gScale / h;                     // rounding of g (double) amplified by the stencil
    LD pair = std::fabs(d1 - d2);
    LD scale = std::max(std::fabs(d2), gScale / h * 1e-3L) + 1e-300L;
    if (pair > 1e-6L * scale + 20 * noise) return -1;    // truncation error not under control: skip
    LD tol = 2 * pair + 40 * noise + 1e-9L * scale;
    return std::fabs(claimed - d2) / tol;
}

static Array_<int> comps(std::initializer_list<int> l) { Array_<int> a; for (int v : l) a.push_back(v); return a; }

// ================================================================ section: Function_ subclasses
static const double XS[] = {0, 1, -1, 0.5, -2.25, 3, 1e-3, -1e3};
static const int NXS = sizeof XS / sizeof XS[0];

static void functionCases(verif::Run& run, int64_t item, bool thorough) {
    // item decodes: kind (0 const,1 linear,2 poly,3 sinusoid,4 step) then parameters
    int kind = (int)(item % 5); int64_t q = item / 5;
    if (kind == 0) {   // Constant: value alphabet x argument size
        static const double V[] = {0, 1.5, -2, 1e10}; int vi = q % 4, as = 1 + (q / 4) % 3; if (q >= 12) return;
        Function::Constant f(V[vi], as); Chk C{run, "Function::Constant value=" + verif::str(V[vi]) + " argSize=" + std::to_string(as)};
        run.evaluationDistinct(true);
        C.exp(f.getArgumentSize() == as, "Constant.getArgumentSize");
        std::unique_ptr<Function> cl(f.clone());
        for (int xi = 0; xi < NXS; ++xi) {
            Vector x(as); for (int i = 0; i < as; ++i) x[i] = XS[(xi + i) % NXS];
            C.exp(f.calcValue(x) == V[vi] && cl->calcValue(x) == V[vi], "Constant.value");
            // every derivative multiset up to order 3 over the arguments
            for (int order = 1; order <= 3; ++order) { int n = 1; for (int k = 0; k < order; ++k) n *= as;
                for (int c = 0; c < n; ++c) { Array_<int> dc; int t = c; for (int k = 0; k < order; ++k) { dc.push_back(t % as); t /= as; } C.exp(f.calcDerivative(dc, x) == 0, "Constant.derivative-nonzero"); } }
        }
        run.outcome(verif::hashPod(V[vi]));
        return;
    }
    if (kind == 1) {   // Linear: n args in 1..3, coefficient alphabets
        static const double CO[] = {0, 1, -2.5, 1e-3, 7}; int n = 1 + (int)(q % 3); int64_t c = q / 3; if (c >= 25) return;
        Vector co(n + 1); for (int i = 0; i <= n; ++i) co[i] = CO[(c + i * (1 + c / 5)) % 5];
        Function::Linear f(co); std::string d = "Function::Linear coefficients=("; for (int i = 0; i <= n; ++i) d += (i ? "," : "") + verif::str(co[i]); Chk C{run, d + ")"};
        bool nz = false; for (int i = 0; i < n; ++i) if (co[i] != 0) nz = true; run.evaluationDistinct(nz);
        C.exp(f.getArgumentSize() == n, "Linear.getArgumentSize");
        std::unique_ptr<Function> cl(f.clone());
        for (int xi = 0; xi < NXS; ++xi) {
            Vector x(n); LD ref = co[n], mag = std::fabs(co[n]); for (int i = 0; i < n; ++i) { x[i] = XS[(xi + 2 * i) % NXS]; ref += (LD)co[i] * x[i]; mag += std::fabs((LD)co[i] * x[i]); }
            C.res("Linear.value", std::fabs(f.calcValue(x) - ref) / (EPS * (mag + 1e-300L)), 8);
            C.exp(cl->calcValue(x) == f.calcValue(x), "Linear.clone-differs");
            for (int i = 0; i < n; ++i) {
                C.exp(f.calcDerivative(comps({i}), x) == co[i], "Linear.first-derivative", "component " + std::to_string(i));
                C.exp(f.calcDerivative(std::vector<int>{i}, x) == co[i], "Linear.first-derivative/std-vector-overload");
                for (int j = 0; j < n; ++j) { C.exp(f.calcDerivative(comps({i, j}), x) == 0, "Linear.second-derivative-nonzero"); C.exp(f.calcDerivative(comps({i, j, i}), x) == 0, "Linear.third-derivative-nonzero"); }
            }
            // finite differences along each argument
            for (int i = 0; i < n; ++i) { auto g = [&](LD t) { Vector y = x; y[i] = (double)t; return f.calcValue(y); };
                LD u = fdUnits(g, x[i], 0.01L * std::max((LD)1, std::fabs((LD)x[i])), f.calcDerivative(comps({i}), x), mag);
                if (u < 0) run.count("skipped:fd-pair-disagrees"); else C.res("Linear.derivative-vs-finite-difference", u, 1); }
        }
        run.outcome(verif::hashPod(co[0]));
        return;
    }
    if (kind == 2) {   // Polynomial: degree 0..5, coefficient patterns
        int deg = (int)(q % 6); int64_t c = q / 6; if (c >= (thorough ? 12 : 6)) return;
        static const double CO[] = {1, -2, 0.5, 3, -0.25, 0, 7, -1};
        Vector co(deg + 1); for (int i = 0; i <= deg; ++i) co[i] = CO[(c * 3 + i * (c % 3 + 1)) % 8]; if (co[0] == 0) co[0] = 2;   // decreasing powers
        Function::Polynomial f(co); std::string d = "Function::Polynomial coefficients(decreasing powers)=("; for (int i = 0; i <= deg; ++i) d += (i ? "," : "") + verif::str(co[i]); Chk C{run, d + ")"};
        run.evaluationDistinct(deg > 0);
        std::unique_ptr<Function> cl(f.clone());
        C.exp(f.getArgumentSize() == 1, "Polynomial.getArgumentSize");
        auto ref = [&](int order, LD x, LD* magOut) { LD v = 0, mag = 0; for (int i = 0; i <= deg; ++i) { int p = deg - i; if (p < order) continue; LD fac = 1; for (int j = 0; j < order; ++j) fac *= (p - j); LD term = (LD)co[i] * fac * std::pow(x, (LD)(p - order)); v += term; mag += std::fabs(term); } if (magOut) *magOut = mag; return v; };
        for (int xi = 0; xi < NXS; ++xi) {
            Vector x(1, XS[xi]); LD mag;
            LD r0 = ref(0, XS[xi], &mag);
            C.res("Polynomial.value", std::fabs(f.calcValue(x) - r0) / (EPS * (deg + 1) * (mag + 1e-300L)), 8);
            C.exp(cl->calcValue(x) == f.calcValue(x), "Polynomial.clone-differs");
            for (int order = 1; order <= deg + 2; ++order) {
                Array_<int> dc(order, 0); LD rk = ref(order, XS[xi], &mag); double got = f.calcDerivative(dc, x);
                if (order > deg) C.exp(got == 0, "Polynomial.derivative-beyond-degree-nonzero", "order " + std::to_string(order));
                else C.res("Polynomial.derivative.closed-form", std::fabs(got - rk) / (EPS * (deg + 2) * (mag + 1e-300L)), 8, "", "order " + std::to_string(order) + " x=" + verif::str(XS[xi]));
                C.exp(f.calcDerivative(std::vector<int>(order, 0), x) == got, "Polynomial.derivative/std-vector-overload");
                LD magPrev; ref(order - 1, XS[xi] * 1.05L + 0.1L, &magPrev);
                auto g = [&](LD t) { Vector y(1, (double)t); return order == 1 ? f.calcValue(y) : f.calcDerivative(Array_<int>(order - 1, 0), y); };
                LD u = fdUnits(g, XS[xi], 0.02L * std::max((LD)1, std::fabs((LD)XS[xi])), got, magPrev + std::fabs(rk));
                if (u < 0) run.count("skipped:fd-pair-disagrees"); else C.res("Polynomial.derivative-vs-finite-difference", u, 1, "", "order " + std::to_string(order) + " x=" + verif::str(XS[xi]));
            }
        }
        run.outcome(verif::hashPod(co[deg]) ^ deg);
        return;
    }
    if (kind == 3) {   // Sinusoid a*sin(w*x+p)
        static const double A[] = {1, -2.5, 1e-3}, Wv[] = {1, 0.5, -3, 10}, P[] = {0, 0.7, -2};
        if (q >= 36) return; double a = A[q % 3], w = Wv[(q / 3) % 4], p = P[q / 12];
        Function::Sinusoid f(a, w, p); Chk C{run, "Function::Sinusoid a=" + verif::str(a) + " w=" + verif::str(w) + " p=" + verif::str(p)};
        run.evaluationDistinct(true);
        C.exp(f.getAmplitude() == a && f.getFrequency() == w && f.getPhase() == p && f.getArgumentSize() == 1, "Sinusoid.getters");
        std::unique_ptr<Function> cl(f.clone());
        for (int xi = 0; xi < NXS; ++xi) {
            double t = XS[xi]; if (std::fabs(w * t) > 1e4) continue;
            Vector x(1, t); LD arg = (LD)w * t + p;
            for (int order = 0; order <= 9; ++order) {
                LD base = (order % 4 == 0) ? std::sin(arg) : (order % 4 == 1) ? std::cos(arg) : (order % 4 == 2) ? -std::sin(arg) : -std::cos(arg);
                LD refv = (LD)a * std::pow((LD)w, (LD)order) * base, scale = std::fabs((LD)a * std::pow((LD)w, (LD)order)) * (1 + std::fabs(arg));
                double got = order == 0 ? f.calcValue(x) : f.calcDerivative(Array_<int>(order, 0), x);
                C.res("Sinusoid.derivative.closed-form", std::fabs(got - refv) / (EPS * (order + 4) * scale), 8, "", "order " + std::to_string(order) + " x=" + verif::str(t));
                if (order) C.exp(cl->calcDerivative(Array_<int>(order, 0), x) == got && f.calcDerivative(std::vector<int>(order, 0), x) == got, "Sinusoid.clone-or-overload-differs");
                if (order >= 1) { auto g = [&](LD s) { Vector y(1, (double)s); return order == 1 ? f.calcValue(y) : f.calcDerivative(Array_<int>(order - 1, 0), y); };
                    LD u = fdUnits(g, t, 0.05L / std::fabs((LD)w), got, std::fabs((LD)a * std::pow((LD)w, (LD)(order - 1))));
                    if (u < 0) run.count("skipped:fd-pair-disagrees"); else C.res("Sinusoid.derivative-vs-finite-difference", u, 1, "", "order " + std::to_string(order) + " x=" + verif::str(t)); }
            }
        }
        run.outcome(verif::hashPod(a * w + p));
        return;
    }
    // kind 4: Step(y0,y1,x0,x1), Real and Vec3
    static const double Y0[] = {0, -1, 3}, Y1[] = {1, 2, -4}, X0[] = {0, -2, 5}, XR[] = {1, 0.5, -3, 1e-3, -250};
    if (q >= 3 * 3 * 3 * 5) return;
    double y0 = Y0[q % 3], y1 = Y1[(q / 3) % 3], x0 = X0[(q / 9) % 3], x1 = x0 + XR[q / 27];
    Function::Step f(y0, y1, x0, x1);
    Function_<Vec3>::Step fv(Vec3(y0, 2 * y0, -y0), Vec3(y1, 2 * y1, -y1), x0, x1);
    Function::Step f2(2 * y0, 2 * y1, x0, x1), f3(-y0, -y1, x0, x1);
    Chk C{run, "Function::Step y0=" + verif::str(y0) + " y1=" + verif::str(y1) + " x0=" + verif::str(x0) + " x1=" + verif::str(x1)};
    run.evaluationDistinct(y0 != y1);
    C.exp(f.getArgumentSize() == 1 && f.getMaxDerivativeOrder() == 3, "Step.argument-size-or-max-order");
    std::unique_ptr<Function> cl(f.clone());
    LD xr = (LD)x1 - x0, yr = (LD)y1 - y0; double prev = y0; bool mono = true; LD dir = yr >= 0 ? 1 : -1;
    const int N = 100;
    for (int i = -6; i <= N + 6; ++i) {
        // grid across the interval, plus points outside on both sides, plus the immediate neighbours of both ends
        double x = i < 0 ? x0 - (double)xr * (-i) * 0.37 : i > N ? x1 + (double)xr * (i - N) * 0.37 : (double)(x0 + xr * i / N);
        if (i == 0) x = x0; if (i == N) x = x1;
        for (int nb = -1; nb <= 1; ++nb) {
            if (nb != 0 && i != 0 && i != N) continue;
            double xe = nb == 0 ? x : std::nextafter(x, nb * INFINITY);
            Vector xv(1, xe);
            LD s = ((LD)xe - x0) / xr;
            double v = f.calcValue(xv);
            bool before = s <= 0, after = s >= 1;
            if (before) C.exp(v == y0, "Step.value-before-interval-not-y0", "x=" + verif::str(xe));
            else if (after) C.exp(v == y1, "Step.value-after-interval-not-y1", "x=" + verif::str(xe));
            else { LD refv = y0 + yr * (s * s * s * (10 + s * (6 * s - 15))); C.res("Step.value.closed-form", std::fabs(v - refv) / (EPS * (std::fabs((LD)y0) + 31 * std::fabs(yr) + 1e-300L)), 8, "", "x=" + verif::str(xe)); }
            for (int order = 1; order <= 3; ++order) {
                double got = f.calcDerivative(Array_<int>(order, 0), xv);
                if (before || after) { C.exp(got == 0, "Step.derivative-outside-interval-nonzero", "order " + std::to_string(order) + " x=" + verif::str(xe)); continue; }
                LD poly = order == 1 ? 30 * s * s * (s - 1) * (s - 1) : order == 2 ? 60 * s * (1 + s * (2 * s - 3)) : 60 + 360 * s * (s - 1);
                LD mag = order == 1 ? 30 * s * s : order == 2 ? 60 * s * (1 + 5 * s) : 60 + 720 * s;
                LD sc = yr / std::pow(xr, (LD)order);
                C.res("Step.derivative.closed-form", std::fabs(got - sc * poly) / (EPS * 8 * std::fabs(sc) * (mag + 1e-300L) + 1e-300L), 8, "", "order " + std::to_string(order) + " x=" + verif::str(xe));
                C.exp(cl->calcDerivative(Array_<int>(order, 0), xv) == got && f.calcDerivative(std::vector<int>(order, 0), xv) == got, "Step.clone-or-overload-differs");
                Vec3 gv = fv.calcDerivative(Array_<int>(order, 0), xv);
                C.exp(gv[0] == got && gv[1] == f2.calcDerivative(Array_<int>(order, 0), xv) && gv[2] == f3.calcDerivative(Array_<int>(order, 0), xv), "Step.Vec3-differs-from-scalar-steps", "order " + std::to_string(order));
                if (nb == 0 && i > 2 && i < N - 2) { auto g = [&](LD t) { Vector y(1, (double)t); return order == 1 ? f.calcValue(y) : f.calcDerivative(Array_<int>(order - 1, 0), y); };
                    LD u = fdUnits(g, xe, std::fabs(xr) / 400, got, (std::fabs((LD)y0) + std::fabs((LD)y1)) * (order == 1 ? 1 : 60 / std::pow(std::fabs(xr), (LD)(order - 1))));
                    if (u < 0) run.count("skipped:fd-pair-disagrees"); else C.res("Step.derivative-vs-finite-difference", u, 1, "", "order " + std::to_string(order) + " x=" + verif::str(xe)); }
            }
            Vec3 vv = fv.calcValue(xv);
            C.exp(vv[0] == v && vv[1] == f2.calcValue(xv) && vv[2] == f3.calcValue(xv), "Step.Vec3-differs-from-scalar-steps", "value");
            if (nb == 0 && i >= 0 && i <= N) { if (dir * ((LD)v - prev) < -4 * EPS * (std::fabs((LD)y0) + std::fabs((LD)y1))) mono = false; prev = v; }
        }
    }
    C.exp(mono, "Step.not-monotone");
    // the 4th derivative is documented as unavailable
    { bool threw = false; try { (void)f.calcDerivative(Array_<int>(4, 0), Vector(1, (double)(x0 + xr / 2))); } catch (const std::exception&) { threw = true; } C.exp(threw, "Step.fourth-derivative-not-refused"); }
    { bool threw = false; try { Function::Step bad(0., 1., 2., 2.); } catch (const std::exception&) { threw = true; } C.exp(threw, "Step.zero-length-interval-not-refused"); }
    { bool threw = false; try { (void)f.calcValue(Vector(2, 0.)); } catch (const std::exception&) { threw = true; } C.exp(threw, "Step.two-arguments-not-refused"); }
    run.outcome(verif::hashPod(y0 * 7 + y1 * 3 + x0 + x1));
}

// ================================================================ section: stepUp / stepDown / stepAny
template <class F> static void stepCases(verif::Run& run, const char* tname) {
    const LD eps = std::numeric_limits<F>::epsilon();
    Chk C{run, std::string("step functions type=") + tname};
    run.evaluationDistinct(true);
    C.exp(stepUp(F(0)) == 0 && stepUp(F(1)) == 1 && stepDown(F(0)) == 1 && stepDown(F(1)) == 0, "stepUp-stepDown.end-values");
    C.exp(dstepUp(F(0)) == 0 && dstepUp(F(1)) == 0 && d2stepUp(F(0)) == 0 && d2stepUp(F(1)) == 0 && dstepDown(F(0)) == 0 && dstepDown(F(1)) == 0 && d2stepDown(F(0)) == 0 && d2stepDown(F(1)) == 0, "stepUp-stepDown.end-derivatives-not-zero");
    const int N = 100; F prevU = 0; bool mono = true;
    for (int i = 0; i <= N; ++i) {
        F x = (F)((LD)i / N); LD s = x; std::string at = "x=" + verif::str((double)x);
        LD u = s * s * s * (10 + s * (6 * s - 15)), magU = s * s * s * (10 + s * (6 * s + 15));
        C.res(std::string("stepUp.closed-form.") + tname, std::fabs((LD)stepUp(x) - u) / (eps * (magU + 1e-300L)), 8, "", at);
        C.res(std::string("stepDown.closed-form.") + tname, std::fabs((LD)stepDown(x) - (1 - u)) / (eps * (1 + magU)), 8, "", at);
        C.res(std::string("dstepUp.closed-form.") + tname, std::fabs((LD)dstepUp(x) - 30 * s * s * (s - 1) * (s - 1)) / (eps * (30 * s * s + 1e-300L)), 8, "", at);
        C.res(std::string("d2stepUp.closed-form.") + tname, std::fabs((LD)d2stepUp(x) - 60 * s * (1 + s * (2 * s - 3))) / (eps * (60 * s * (1 + 5 * s) + 1e-300L)), 8, "", at);
        C.res(std::string("d3stepUp.closed-form.") + tname, std::fabs((LD)d3stepUp(x) - (60 + 360 * s * (s - 1))) / (eps * (60 + 720 * s)), 8, "", at);
        C.exp(dstepDown(x) == -dstepUp(x) && d2stepDown(x) == -d2stepUp(x) && d3stepDown(x) == -d3stepUp(x), std::string("stepDown-derivatives-not-negated.") + tname, at);
        C.exp(stepUp(x) >= 0 && stepUp(x) <= 1 && dstepUp(x) >= 0, std::string("stepUp.out-of-range-or-decreasing.") + tname, at);
        { LD s1 = (LD)(F)(1 - x); LD mag1 = s1 * s1 * s1 * (10 + s1 * (6 * s1 + 15));   // both values carry the Horner rounding of their 31 units of intermediate magnitude, and 1-x is rounded once
          C.res(std::string("stepUp.symmetry.") + tname, std::fabs((LD)stepUp(x) + (LD)stepUp((F)(1 - x)) - 1) / (eps * (magU + mag1 + 2)), 8, "", at); }
        if (stepUp(x) < prevU) mono = false; prevU = stepUp(x);
        if (i > 2 && i < N - 2 && sizeof(F) == 8) {
            struct { int order; } o[3] = {{1}, {2}, {3}};
            for (auto& k : o) { auto g = [&](LD t) { F y = (F)t; return (LD)(k.order == 1 ? stepUp(y) : k.order == 2 ? dstepUp(y) : d2stepUp(y)); };
                LD claimed = k.order == 1 ? dstepUp(x) : k.order == 2 ? d2stepUp(x) : d3stepUp(x);
                LD un = fdUnits(g, s, (LD)1 / 512, claimed, k.order == 1 ? 1 : k.order == 2 ? 2 : 6);
                if (un < 0) run.count("skipped:fd-pair-disagrees"); else C.res("stepUp.derivative-vs-finite-difference", un, 1, "", "order " + std::to_string(k.order) + " " + at); }
        }
    }
    C.exp(mono, std::string("stepUp.not-monotone-on-grid.") + tname);
    // stepAny over a parameter alphabet, including reversed and tiny intervals, and just outside both ends (clamped)
    static const double Y0[] = {0, -1, 3}, YR[] = {1, 2, -4}, X0[] = {0, -2, 5}, XR[] = {1, 0.5, -3, 1e-3};
    for (int a = 0; a < 3; ++a) for (int b = 0; b < 3; ++b) for (int c = 0; c < 3; ++c) for (int d = 0; d < 4; ++d) {
        F y0 = (F)Y0[a], yr = (F)YR[b], x0 = (F)X0[c], xr = (F)XR[d], oo = 1 / xr;
        std::string pd = "stepAny y0=" + verif::str((double)y0) + " yRange=" + verif::str((double)yr) + " x0=" + verif::str((double)x0) + " xRange=" + verif::str((double)xr);
        for (int i = -1; i <= N + 1; ++i) {
            F x = i < 0 ? (F)((LD)x0 - (LD)xr * eps) : i > N ? (F)(((LD)x0 + xr) + (LD)xr * eps) : (F)((LD)x0 + (LD)xr * i / N);
            LD s = ((LD)x - x0) * (LD)oo;
            // the helpers assert (debug) / clamp (release) -Significant <= xadj <= 1+Significant; rounding of x0+xRange alone can leave that window: not a defined input
            if (s < -(LD)NTraits<F>::getSignificant() / 4 || s > 1 + (LD)NTraits<F>::getSignificant() / 4) { run.count("skipped:stepAny-argument-outside-documented-window-by-rounding"); continue; }
            if (s < 0) s = 0; if (s > 1) s = 1;
            std::string at = pd + " x=" + verif::str((double)x);
            LD u = s * s * s * (10 + s * (6 * s - 15));
            // argument rounding: (x-x0)*oo carries a relative error of a few eps *|x0|/|xr|; its effect is bounded with the derivative
            LD ds = 4 * eps * (std::fabs((LD)x0) + std::fabs((LD)x)) * std::fabs((LD)oo) + 4 * eps;
            LD tolV = eps * 8 * (std::fabs((LD)y0) + 31 * std::fabs((LD)yr)) + std::fabs((LD)yr) * 1.875L * ds;
            C.res(std::string("stepAny.closed-form.") + tname, std::fabs((LD)stepAny(y0, yr, x0, oo, x) - ((LD)y0 + (LD)yr * u)) / tolV, 1, "", at);
            LD d1 = (LD)yr * oo * 30 * s * s * (s - 1) * (s - 1), d2 = (LD)yr * oo * oo * 60 * s * (1 + s * (2 * s - 3)), d3 = (LD)yr * oo * oo * oo * (60 + 360 * s * (s - 1));
            LD k1 = std::fabs((LD)yr * oo), k2 = k1 * std::fabs((LD)oo), k3 = k2 * std::fabs((LD)oo);
            C.res(std::string("dstepAny.closed-form.") + tname, std::fabs((LD)dstepAny(yr, x0, oo, x) - d1) / (k1 * (eps * 8 * 30 + 5.8L * ds) + 1e-300L), 1, "", at);
            C.res(std::string("d2stepAny.closed-form.") + tname, std::fabs((LD)d2stepAny(yr, x0, oo, x) - d2) / (k2 * (eps * 8 * 360 + 60 * ds) + 1e-300L), 1, "", at);
            C.res(std::string("d3stepAny.closed-form.") + tname, std::fabs((LD)d3stepAny(yr, x0, oo, x) - d3) / (k3 * (eps * 8 * 780 + 360 * ds) + 1e-300L), 1, "", at);
            if (i == 0 || i < 0) C.exp(stepAny(y0, yr, x0, oo, x) == y0 && dstepAny(yr, x0, oo, x) == 0 && d2stepAny(yr, x0, oo, x) == 0, std::string("stepAny.start-value-or-derivatives.") + tname, at);
        }
        run.evaluationDistinct(true);
    }
}

// ================================================================ section: splines
// Newton-form polynomial through (t_i, v_i), value and derivatives at x, in long double
struct Newton {
    std::vector<LD> t, c;
    Newton(const std::vector<LD>& tt, const std::vector<LD>& v) : t(tt), c(v) { int n = (int)t.size(); for (int j = 1; j < n; ++j) for (int i = n - 1; i >= j; --i) c[i] = (c[i] - c[i - 1]) / (t[i] - t[i - j]); }
    // derivatives 0..maxOrder at x (Horner with repeated differentiation)
    std::vector<LD> derivs(LD x, int maxOrder) const {
        int n = (int)t.size(); std::vector<LD> d(maxOrder + 1, 0); d[0] = c[n - 1];
        for (int i = n - 2; i >= 0; --i) { for (int k = maxOrder; k >= 1; --k) d[k] = d[k] * (x - t[i]) + k * d[k - 1]; d[0] = d[0] * (x - t[i]) + c[i]; }
        return d;
    }
};

static std::vector<double> knotSet(int kind, int m, std::string& name) {
    std::vector<double> x; int n;
    switch (kind) {
        case 0: name = "uniform12"; n = std::max(12, 2 * m + 2); for (int i = 0; i < n; ++i) x.push_back(-1 + 0.25 * i); break;
        case 1: name = "nonuniform"; n = std::max(11, 2 * m + 2); for (int i = 0; i < n; ++i) x.push_back(0.5 * i + 0.1 * ((i * 7) % 5) + 1); break;
        case 2: name = "clustered"; n = std::max(10, 2 * m + 1); { double t = 0, h = 1; for (int i = 0; i < n; ++i) { x.push_back(t); t += h; h *= 0.6; } } break;
        case 3: name = "minimal(2m)"; n = 2 * m; for (int i = 0; i < n; ++i) x.push_back(2 + 0.5 * i + 0.05 * (i % 2)); break;
        case 4: name = "2m+1"; n = 2 * m + 1; for (int i = 0; i < n; ++i) x.push_back(-3 + 0.7 * i); break;
        case 5: name = "uniform30"; n = 30; for (int i = 0; i < n; ++i) x.push_back(0.1 * i); break;
        default: name = "irregular17"; n = std::max(17, 2 * m + 1); { double t = -4; for (int i = 0; i < n; ++i) { x.push_back(t); t += 0.2 + 0.15 * ((i * 11) % 7); } } break;
    }
    return x;
}
static LD dataFn(int kind, LD x, int order = 0) {   // data kinds 0..7: monomial-ish polynomials of degree kind; 8: sine
    if (kind == 8) { LD a = 1.3L * x + 0.4L; int r = order % 4; LD b = r == 0 ? std::sin(a) : r == 1 ? std::cos(a) : r == 2 ? -std::sin(a) : -std::cos(a); return b * std::pow(1.3L, (LD)order); }
    // p(x) = sum_{j<=kind} (j+1)*(-0.5)^j (x-0.5)^j
    LD v = 0; for (int j = order; j <= kind; ++j) { LD f = 1; for (int k = 0; k < order; ++k) f *= (j - k); v += (j + 1) * std::pow(-0.5L, (LD)j) * f * std::pow(x - 0.5L, (LD)(j - order)); } return v;
}
static double degBound(int degree) { return degree == 1 ? 1e3 : degree == 3 ? 1e5 : degree == 5 ? 1e7 : 1e10; }   // >= 100 x the worst measured, see notes/C41.md
static const char* MODE[] = {"p=0", "p=0.01", "p=10", "GCV", "errorVariance=1e-4", "dof=n/2"};

static void splineCase(verif::Run& run, int degIdx, int knotKind, int dataKind, int mode) {
    const int degree = 2 * degIdx + 1, m = degIdx + 1;
    std::string kname; std::vector<double> xk = knotSet(knotKind, m, kname); int n = (int)xk.size();
    if (dataKind != 8 && dataKind > degree) return;
    Chk C{run, "spline degree=" + std::to_string(degree) + " knots=" + kname + " data=" + (dataKind == 8 ? std::string("sine") : "poly-degree-" + std::to_string(dataKind)) + " mode=" + MODE[mode]};
    Vector x(n), y(n); Vector_<Vec3> y3(n);
    LD yScale = 0; for (int i = 0; i < n; ++i) { x[i] = xk[i]; y[i] = (double)dataFn(dataKind, xk[i]); y3[i] = Vec3(y[i], -2 * y[i], y[i] + 1); yScale = std::max(yScale, std::fabs((LD)y[i])); }
    yScale += 1;
    run.evaluationDistinct(true);
    auto fit = [&](auto& Y, auto tag) {
        typedef decltype(tag) T;
        switch (mode) { case 0: return SplineFitter<T>::fitForSmoothingParameter(degree, x, Y, 0); case 1: return SplineFitter<T>::fitForSmoothingParameter(degree, x, Y, 0.01); case 2: return SplineFitter<T>::fitForSmoothingParameter(degree, x, Y, 10);
                        case 3: return SplineFitter<T>::fitFromGCV(degree, x, Y); case 4: return SplineFitter<T>::fitFromErrorVariance(degree, x, Y, 1e-4); default: return SplineFitter<T>::fitFromDOF(degree, x, Y, n / 2.0); }
    };
    bool threw = false; std::string msg;
    try {
        SplineFitter<Real> fr = fit(y, Real());
        Spline s = fr.getSpline();
        if (mode <= 2) C.exp(fr.getSmoothingParameter() == (mode == 0 ? 0 : mode == 1 ? 0.01 : 10), "SplineFitter.getSmoothingParameter");
        C.exp(s.getSplineDegree() == degree && s.getControlPointLocations().size() == n && s.getControlPointValues().size() == n && s.getArgumentSize() == 1, "Spline.getters");
        bool locOk = true; for (int i = 0; i < n; ++i) if (s.getControlPointLocations()[i] != x[i]) locOk = false; C.exp(locOk, "Spline.control-point-locations");
        // finite?
        bool fin = true; for (int i = 0; i < n; ++i) if (!std::isfinite(s.calcValue(x[i]))) fin = false;
        if (!fin) { if (mode >= 3) { run.count(std::string("unspecified:automatic-smoothing-nonfinite-on-") + (dataKind == 8 ? "sine" : "exact-polynomial-data")); return; } C.exp(false, "Spline.nonfinite-values"); return; }
        LD span = xk[n - 1] - xk[0];
        // scales: B-spline coefficients may be much larger than the data; the smoothing system B + p*E has |E| ~ h^-(2m-1)
        LD hminAll = span; for (int i = 0; i + 1 < n; ++i) hminAll = std::min(hminAll, (LD)(xk[i + 1] - xk[i]));
        for (int i = 0; i < n; ++i) yScale = std::max(yScale, std::fabs((LD)s.getControlPointValues()[i]));
        LD pUsed = fr.getSmoothingParameter(); if (!(pUsed >= 0)) pUsed = 0;
        const LD cond = 1 + pUsed / std::pow(hminAll, (LD)(2 * m - 1));
        if (cond > 1e8L) run.count("note:spline-smoothing-system-condition>1e8");
        // (a) interpolation for p = 0
        if (mode == 0) { LD w = 0; for (int i = 0; i < n; ++i) w = std::max(w, std::fabs((LD)s.calcValue(x[i]) - y[i])); C.res("Spline.interpolates-data(p=0).degree" + std::to_string(degree), w / (EPS * yScale), 1e3, "", ""); }
        // (b) exact reproduction of polynomials of degree < m, whatever the smoothing
        bool reproduces = dataKind != 8 && dataKind < m;
        // (c) each knot interval is one polynomial of degree <= 2m-1 ; (d) continuity ; (b)
        LD wPoly = 0, wRep = 0, wHigh = 0; std::vector<LD> S(2 * m + 1, 0);   // S[k] = max |k-th derivative| seen (scale for the jumps)
        std::vector<std::vector<LD>> left(n), right(n);   // derivatives 0..2m-1 at the knots from the reconstruction of the interval on either side
        for (int iv = 0; iv + 1 < n; ++iv) {
            LD a = xk[iv], b = xk[iv + 1], h = b - a; int np = 2 * m;
            std::vector<LD> t(np), v(np);
            for (int j = 0; j < np; ++j) { LD th = (2 * j + 1) * 3.14159265358979323846L / (2 * np); t[j] = (LD)(double)(0.5L * (a + b) - 0.5L * h * 0.98L * std::cos(th)); v[j] = s.calcValue((double)t[j]); }
            Newton P(t, v);
            for (int e = 0; e < 4; ++e) {
                double xe = e == 0 ? (double)a : e == 1 ? (double)b : (double)(a + h * (e == 2 ? 0.3L : 0.77L));
                std::vector<LD> d = P.derivs(xe, 2 * m + 1);
                if (e == 0) right[iv] = d; if (e == 1) left[iv + 1] = d;
                for (int k = 0; k <= 2 * m - 1; ++k) {
                    LD got = k == 0 ? s.calcValue(xe) : s.calcDerivative(k, xe);
                    // at a knot the top derivatives are one-sided: only compare where continuity is promised, or inside
                    if ((e == 0 || e == 1) && k > 2 * m - 2) continue;
                    LD scale = yScale / std::pow(h, (LD)k);
                    wPoly = std::max(wPoly, std::fabs(got - d[k]) / (EPS * scale));
                    S[k] = std::max(S[k], std::fabs(got));
                    if (reproduces) wRep = std::max(wRep, std::fabs(got - dataFn(dataKind, xe, k)) / (EPS * scale * cond));
                }
                if (e >= 2) for (int k = 2 * m; k <= 2 * m + 1; ++k) wHigh = std::max(wHigh, std::fabs((LD)s.calcDerivative(k, xe)) / (yScale / std::pow(h, (LD)k)));
            }
        }
        C.res("Spline.interval-is-one-polynomial.degree" + std::to_string(degree), wPoly, degBound(degree), "", "");
        C.res("Spline.derivative-beyond-degree-is-zero.degree" + std::to_string(degree), wHigh / EPS, degBound(degree), "", "");
        if (reproduces) C.res("Spline.reproduces-polynomial-of-degree<m.degree" + std::to_string(degree), wRep, degBound(degree), std::string(mode <= 2 ? "fixed-p" : "automatic-p"), "");
        // (d) continuity of derivatives 0..2m-2 across interior knots: the two one-sided reconstructions agree
        LD wJump = 0;
        for (int i = 1; i + 1 < n; ++i) for (int k = 0; k <= 2 * m - 2; ++k) { LD hmin = std::min(xk[i] - xk[i - 1], xk[i + 1] - xk[i]); wJump = std::max(wJump, std::fabs(left[i][k] - right[i][k]) / (EPS * yScale / std::pow(hmin, (LD)k))); }
        C.res("Spline.derivative-continuity-at-knots.degree" + std::to_string(degree), wJump, degBound(degree), "", "");
        // natural end conditions: derivatives m..2m-2 vanish at both ends (GCVSPL produces natural splines)
        if (m >= 2) { LD wNat = 0; for (int k = m; k <= 2 * m - 2; ++k) { LD hs = std::min(xk[1] - xk[0], xk[n - 1] - xk[n - 2]); wNat = std::max(wNat, std::max(std::fabs(right[0][k]), std::fabs(left[n - 1][k])) / (EPS * yScale / std::pow(hs, (LD)k))); }
            C.res("Spline.natural-end-conditions.degree" + std::to_string(degree), wNat, degBound(degree), "", ""); }
        (void)span;
        // Function_ interface, clone, copy
        std::unique_ptr<Function_<Real>> cl(s.clone()); Spline cp(s); bool same = true;
        for (int i = 0; i + 1 < n; ++i) { double xe = 0.5 * (xk[i] + xk[i + 1]); Vector xv(1, xe);
            if (!(cl->calcValue(xv) == s.calcValue(xe)) || !(cp.calcValue(xe) == s.calcValue(xe)) || !(s.calcValue(xv) == s.calcValue(xe))) same = false;
            for (int k = 1; k <= 2; ++k) if (!(cl->calcDerivative(Array_<int>(k, 0), xv) == s.calcDerivative(k, xe)) || !(s.calcDerivative(std::vector<int>(k, 0), xv) == s.calcDerivative(k, xe))) same = false; }
        C.exp(same, "Spline.clone-copy-or-Function-interface-differs");
        // direct construction from the control points gives the same curve
        { Spline d(degree, s.getControlPointLocations(), s.getControlPointValues()); bool eq = true; for (int i = 0; i + 1 < n; ++i) { double xe = 0.25 * xk[i] + 0.75 * xk[i + 1]; if (!(d.calcValue(xe) == s.calcValue(xe))) eq = false; } C.exp(eq, "Spline.rebuilt-from-control-points-differs"); }
        // Vec3 data: each component is the scalar spline of that component (fixed p: the components do not interact)
        if (mode <= 2) {
            SplineFitter<Vec3> f3 = fit(y3, Vec3()); Spline_<Vec3> s3 = f3.getSpline(); LD w3 = 0;
            for (int i = 0; i + 1 < n; ++i) for (int e = 0; e < 2; ++e) { double xe = e ? xk[i] : 0.4 * xk[i] + 0.6 * xk[i + 1];
                for (int k = 0; k <= 2; ++k) { Vec3 g = k == 0 ? s3.calcValue(xe) : s3.calcDerivative(k, xe); LD r = k == 0 ? s.calcValue(xe) : s.calcDerivative(k, xe); LD h = xk[i + 1] - xk[i];
                    LD sc = EPS * yScale * cond / std::pow(h, (LD)k);
                    w3 = std::max(w3, std::max(std::fabs(g[0] - r), std::max(std::fabs(g[1] + 2 * r) / 2, std::fabs(g[2] - r - (k == 0 ? 1 : 0)))) / sc); } }
            C.res("Spline.Vec3-components-match-scalar-splines.degree" + std::to_string(degree), w3, degBound(degree), "", "");
        }
        run.outcome(verif::hashPod(s.calcValue(0.5 * (xk[0] + xk[1]))));
    } catch (const std::exception& e) { threw = true; msg = e.what(); }
    C.exp(!threw, std::string("SplineFitter.throws/") + (mode <= 2 ? "fixed-p" : MODE[mode]), msg.substr(0, 200));
}

// ================================================================ section: bicubic surfaces
static LD surfFn(int kind, LD x, LD y) { switch (kind) { case 0: return 1.5L - 2 * x + 0.75L * y + 0.5L * x * y; case 1: return std::sin(0.9L * x + 0.2L) * std::cos(0.7L * y - 0.3L); default: return 0.3L * x * x - 0.1L * y * y * y + x * y; } }
static void bicubicCase(verif::Run& run, int gridKind, int dataKind, int smoothKind) {
    std::vector<double> gx, gy; bool regular = false; std::string gname;
    if (gridKind == 0) { gname = "4x4-minimal"; gx = {0, 1, 2.5, 3}; gy = {-1, 0, 0.5, 2}; }
    else if (gridKind == 1) { gname = "4x5-doc-example"; gx = {.1, 1, 2, 4}; gy = {-3, -2, 0, 1, 3}; }
    else { gname = "6x7-regular"; regular = true; for (int i = 0; i < 6; ++i) gx.push_back(-1 + 0.5 * i); for (int j = 0; j < 7; ++j) gy.push_back(2 + 0.25 * j); }
    static const double DOC[20] = {1, 2, 3, 3, 2, 1.1, 2.1, 3.1, 3.1, 2.1, 1, 2, 7, 3, 2, 1.2, 2.2, 3.2, 3.2, 2.2};
    int nx = (int)gx.size(), ny = (int)gy.size();
    if (dataKind == 3 && gridKind != 1) return;
    double smooth = smoothKind == 0 ? 0 : 1;
    Chk C{run, "bicubic grid=" + gname + " data=" + (dataKind == 0 ? "bilinear" : dataKind == 1 ? "sin*cos" : dataKind == 2 ? "cubic-poly" : "doc-example") + " smoothness=" + verif::str(smooth)};
    run.evaluationDistinct(true);
    Vector x(nx), y(ny); Matrix f(nx, ny); LD fs = 1;
    for (int i = 0; i < nx; ++i) x[i] = gx[i]; for (int j = 0; j < ny; ++j) y[j] = gy[j];
    for (int i = 0; i < nx; ++i) for (int j = 0; j < ny; ++j) { f(i, j) = dataKind == 3 ? DOC[i * ny + j] : (double)surfFn(dataKind, gx[i], gy[j]); fs = std::max(fs, std::fabs((LD)f(i, j))); }
    bool threw = false; std::string msg;
    try {
        BicubicSurface S(x, y, f, smooth);
        C.exp(!S.isEmpty() && S.getMinXY() == Vec2(gx[0], gy[0]) && S.getMaxXY() == Vec2(gx[nx - 1], gy[ny - 1]), "BicubicSurface.extent");
        int px, py; S.getNumPatches(px, py); C.exp(px == nx - 1 && py == ny - 1, "BicubicSurface.patch-count");
        // interpolation / reproduction
        if (smooth == 0) { LD w = 0; for (int i = 0; i < nx; ++i) for (int j = 0; j < ny; ++j) w = std::max(w, std::fabs((LD)S.calcValue(Vec2(gx[i], gy[j])) - f(i, j))); C.res("BicubicSurface.passes-through-samples(smoothness=0)", w / (EPS * fs), 1e3); }
        BicubicSurface::PatchHint hint; BicubicFunction BF(S);
        LD wPoly = 0, wBil = 0, wHint = 0, wOrd = 0, wNormal = 0; LD wJump[3] = {0, 0, 0};
        std::vector<std::vector<int>> multis = {{}, {0}, {1}, {0, 0}, {0, 1}, {1, 1}, {0, 0, 0}, {0, 0, 1}, {0, 1, 1}, {1, 1, 1}};
        for (int pi = 0; pi + 1 < nx; ++pi) for (int pj = 0; pj + 1 < ny; ++pj) {
            LD ax = gx[pi], bx = gx[pi + 1], ay = gy[pj], by = gy[pj + 1], hx = bx - ax, hy = by - ay;
            // the patch is one bicubic polynomial: reconstruct from 4x4 samples (tensor Newton form) and compare all partials at other points
            std::vector<LD> tx(4), ty(4); for (int k = 0; k < 4; ++k) { tx[k] = (LD)(double)(ax + hx * (0.04L + 0.3L * k)); ty[k] = (LD)(double)(ay + hy * (0.06L + 0.29L * k)); }
            for (int e = 0; e < 3; ++e) {
                double xe = (double)(ax + hx * (e == 0 ? 0.5L : e == 1 ? 0.13L : 0.91L)), ye = (double)(ay + hy * (e == 0 ? 0.5L : e == 1 ? 0.82L : 0.21L));
                // derivatives in x of each row polynomial at xe, then polynomial in y of those
                for (auto& mu : multis) {
                    int ox = 0, oy = 0; for (int c : mu) (c == 0 ? ox : oy)++;
                    std::vector<LD> col(4);
                    for (int b = 0; b < 4; ++b) { std::vector<LD> v(4); for (int a = 0; a < 4; ++a) v[a] = S.calcValue(Vec2((double)tx[a], (double)ty[b])); col[b] = Newton(tx, v).derivs(xe, 3)[ox]; }
                    LD ref = Newton(ty, col).derivs(ye, 3)[oy];
                    Array_<int> dc; for (int c : mu) dc.push_back(c);
                    LD got = mu.empty() ? S.calcValue(Vec2(xe, ye)) : S.calcDerivative(dc, Vec2(xe, ye));
                    LD scale = fs / (std::pow(hx, (LD)ox) * std::pow(hy, (LD)oy));
                    wPoly = std::max(wPoly, std::fabs(got - ref) / (EPS * scale));
                    // hint and Function interface give the same numbers; order of the components does not matter
                    LD gh = mu.empty() ? S.calcValue(Vec2(xe, ye), hint) : S.calcDerivative(dc, Vec2(xe, ye), hint);
                    Vector xy(2); xy[0] = xe; xy[1] = ye;
                    LD gf = mu.empty() ? BF.calcValue(xy) : BF.calcDerivative(dc, xy);
                    if (gh != got || gf != got) wHint = 1;
                    if (mu.size() >= 2) { std::vector<int> pm = mu; std::sort(pm.begin(), pm.end()); do { Array_<int> rv; for (int c2 : pm) rv.push_back(c2); if ((LD)S.calcDerivative(rv, Vec2(xe, ye)) != got) wOrd = 1; } while (std::next_permutation(pm.begin(), pm.end())); }   // every ordering of the multiset
                    if (dataKind == 0) { LD ex = ox + oy == 0 ? surfFn(0, xe, ye) : (ox == 1 && oy == 0) ? -2 + 0.5L * ye : (ox == 0 && oy == 1) ? 0.75L + 0.5L * xe : (ox == 1 && oy == 1) ? 0.5L : 0; wBil = std::max(wBil, std::fabs(got - ex) / (EPS * scale)); }
                }
                // fourth pure derivatives vanish
                C.exp(S.calcDerivative(comps({0, 0, 0, 0}), Vec2(xe, ye)) == 0 && S.calcDerivative(comps({1, 1, 1, 1}), Vec2(xe, ye)) == 0, "BicubicSurface.fourth-pure-derivative-nonzero");
                // unit normal = normalize(-fx, -fy, 1)
                LD fx = S.calcDerivative(comps({0}), Vec2(xe, ye)), fy = S.calcDerivative(comps({1}), Vec2(xe, ye)); LD nn = std::sqrt(fx * fx + fy * fy + 1);
                UnitVec3 nrm = S.calcUnitNormal(Vec2(xe, ye));
                wNormal = std::max(wNormal, std::max(std::fabs(nrm[0] + fx / nn), std::max(std::fabs(nrm[1] + fy / nn), std::fabs(nrm[2] - 1 / nn))) / EPS);
            }
            // C2 across the patch boundaries: one-sided reconstructions of f, first and second partials agree on the shared edge
            if (pi + 2 < nx) for (int e = 0; e < 2; ++e) {
                double ye = (double)(ay + hy * (e ? 0.35L : 0.8L)); LD hx2 = gx[pi + 2] - bx;
                for (int ord = 0; ord <= 2; ++ord) {
                    std::vector<LD> tl(4), tr(4), vl(4), vr(4);
                    for (int k = 0; k < 4; ++k) { tl[k] = (LD)(double)(bx - hx * (0.05L + 0.3L * k)); tr[k] = (LD)(double)(bx + hx2 * (0.05L + 0.3L * k)); vl[k] = S.calcValue(Vec2((double)tl[k], ye)); vr[k] = S.calcValue(Vec2((double)tr[k], ye)); }
                    LD l = Newton(tl, vl).derivs(bx, 3)[ord], r = Newton(tr, vr).derivs(bx, 3)[ord];
                    wJump[ord] = std::max(wJump[ord], std::fabs(l - r) / (EPS * fs / std::pow(std::min(hx, hx2), (LD)ord)));
                }
            }
            if (pj + 2 < ny) for (int e = 0; e < 2; ++e) {
                double xe = (double)(ax + hx * (e ? 0.35L : 0.8L)); LD hy2 = gy[pj + 2] - by;
                for (int ord = 0; ord <= 2; ++ord) {
                    std::vector<LD> tl(4), tr(4), vl(4), vr(4);
                    for (int k = 0; k < 4; ++k) { tl[k] = (LD)(double)(by - hy * (0.05L + 0.3L * k)); tr[k] = (LD)(double)(by + hy2 * (0.05L + 0.3L * k)); vl[k] = S.calcValue(Vec2(xe, (double)tl[k])); vr[k] = S.calcValue(Vec2(xe, (double)tr[k])); }
                    LD l = Newton(tl, vl).derivs(by, 3)[ord], r = Newton(tr, vr).derivs(by, 3)[ord];
                    wJump[ord] = std::max(wJump[ord], std::fabs(l - r) / (EPS * fs / std::pow(std::min(hy, hy2), (LD)ord)));
                }
            }
        }
        C.res("BicubicSurface.patch-is-one-bicubic-polynomial(all-partials<=3)", wPoly, 1e5);
        C.exp(wHint == 0, "BicubicSurface.hint-or-BicubicFunction-differs-from-plain-call");
        C.exp(wOrd == 0, "BicubicSurface.mixed-partial-depends-on-component-order");
        C.res("BicubicSurface.unit-normal", wNormal, 100);
        if (dataKind == 0 && smooth == 0) C.res("BicubicSurface.reproduces-bilinear-function", wBil, 1e4);
        C.res("BicubicSurface.continuity-across-patches.value", wJump[0], 1e5);
        C.res("BicubicSurface.continuity-across-patches.first-derivative", wJump[1], 1e5);
        C.res("BicubicSurface.continuity-across-patches.second-derivative", wJump[2], 1e5);
        // regular-spacing constructor describes the same surface
        if (regular) { BicubicSurface R(Vec2(gx[0], gy[0]), Vec2(gx[1] - gx[0], gy[1] - gy[0]), f, smooth); LD w = 0;
            for (int i = 0; i + 1 < nx; ++i) for (int j = 0; j + 1 < ny; ++j) { Vec2 p(0.3 * gx[i] + 0.7 * gx[i + 1], 0.6 * gy[j] + 0.4 * gy[j + 1]); w = std::max(w, std::fabs((LD)R.calcValue(p) - S.calcValue(p)) / (EPS * fs)); }
            C.res("BicubicSurface.regular-spacing-constructor-agrees", w, 1e3); }
        // range: defined inside (edges included), refused outside
        C.exp(S.isSurfaceDefined(Vec2(gx[0], gy[0])) && S.isSurfaceDefined(Vec2(gx[nx - 1], gy[ny - 1])) && !S.isSurfaceDefined(Vec2(gx[0] - 1e-9, gy[0])) && !S.isSurfaceDefined(Vec2(gx[0], gy[ny - 1] + 1e-9)), "BicubicSurface.isSurfaceDefined");
        { bool t = false; try { (void)S.calcValue(Vec2(gx[nx - 1] + 1, gy[0])); } catch (const std::exception&) { t = true; } C.exp(t, "BicubicSurface.out-of-range-evaluation-not-refused"); }
        BicubicSurface cp(S); C.exp(cp.calcValue(Vec2(gx[1], gy[1])) == S.calcValue(Vec2(gx[1], gy[1])), "BicubicSurface.copy-differs");
        run.outcome(verif::hashPod(S.calcValue(Vec2(0.5 * (gx[0] + gx[1]), 0.5 * (gy[0] + gy[1])))));
    } catch (const std::exception& e) { threw = true; msg = e.what(); }
    C.exp(!threw, "BicubicSurface.throws", msg.substr(0, 200));
}

int main(int argc, char** argv) {
    verif::Run run("C41", argc, argv);
    run.setDeadline(120, 1500);
    const bool thorough = run.thorough();
    run.rule = "E3: (functions) every parameter tuple of the stated alphabets for Function::Constant/Linear/Polynomial/Sinusoid/Step x every derivative multiset up to the stated order x argument lattice; (steps) stepUp/stepDown/stepAny and derivatives in double and float on a 101-point grid, the ends and their neighbours, 108 stepAny parameter tuples; (splines) degree {1,3,5,7} x 5 knot sets x data {polynomials of degree 0..degree, sine} x 6 fitting modes x {Real, Vec3}; (bicubic) 3 grids x 4 data sets x smoothness {0,1}. A case = one tuple; distinct by construction.";
    run.assumptions = {"long double closed forms are exact enough to judge double results", "finite-difference oracles only where the Richardson pair (h, h/2) agrees; otherwise skipped and counted",
                       "splines are not evaluated outside their knot range (not specified)", "automatic smoothing (GCV / error variance / dof) on noise-free data may be degenerate: a non-finite result there is counted, not judged"};
    const int64_t nFunc = 5 * 200;
    run.parallel("functions", nFunc, [&](int64_t i) { functionCases(run, i, thorough); });
    run.parallel("steps", 2, [&](int64_t i) { if (i == 0) stepCases<double>(run, "double"); else stepCases<float>(run, "float"); });
    verif::Odometer os; os.dim("mode", 6); os.dim("data", 9); os.dim("knots", thorough ? 7 : 5); os.dim("degree", 4);
    run.parallel("splines", os.size(), [&](int64_t i) { auto d = os.digits(i); splineCase(run, d[3], d[2], d[1], d[0]); if (i % 97 == 0) run.sample("spline case " + os.describe(i)); });
    verif::Odometer ob; ob.dim("smooth", 2); ob.dim("data", 4); ob.dim("grid", 3);
    run.parallel("bicubic", ob.size(), [&](int64_t i) { auto d = ob.digits(i); bicubicCase(run, d[2], d[1], d[0]); });
    return run.finish();
}
