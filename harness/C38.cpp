// C38 -- Non-contact force elements follow their documented laws.
// Engine E3 + E2.  Sections:
//   laws      every element of the shared force alphabet (engine/forcemodels.h) x parameter set x attachment x host x
//             STATE: forces / mobility forces / potential energy by the formula transcribed below from the header
//             documentation (long double, harness arithmetic on the library's body poses and velocities) against
//             Force::calcForceContribution, calcPotentialEnergyContribution, the system totals after
//             realize(Dynamics), MultibodySystem::calcPotentialEnergy and the element's own accessors; a disabled
//             element contributes exactly nothing.
//   gravity   Force::Gravity x every exclusion subset of the 3 bodies (by default flag or by state setter) x
//             magnitude {0, 9.80665, 3.7} x the 26-direction lattice x zero height {0, 1.3} x constructor form x
//             system up direction.
//   defaults  topology-stage parameter setters (setDefault*, UniformGravity::setGravity...) take effect in the next
//             default State.
//   history   E2: all operation histories up to a depth over {state-taking parameter setters, realize(stage),
//             energy query, q/u change, disable/enable}; after every history the documented law evaluated at the
//             harness's shadow copy of the parameters must match what the next realization produces.
#include "Simbody.h"
#include "verif.h"
#include "models.h"
#include "forcemodels.h"
#include "refkit.h"
#include "mbref.h"

using namespace SimTK;
using ref::LD; using ref::V3; using ref::DMat;

static const double TOL = 1e-11;     // relative to the magnitude of the law's terms; calibration in notes/C38.md

// ---------------------------------------------------------------- small long-double vector kit
static V3 v3(const Vec3& v) { return {{(LD)v[0], (LD)v[1], (LD)v[2]}}; }
static V3 operator+(const V3& a, const V3& b) { return {{a[0] + b[0], a[1] + b[1], a[2] + b[2]}}; }
static V3 operator-(const V3& a, const V3& b) { return {{a[0] - b[0], a[1] - b[1], a[2] - b[2]}}; }
static V3 operator*(LD s, const V3& a) { return {{s * a[0], s * a[1], s * a[2]}}; }
static LD norm3(const V3& a) { return sqrtl(ref::dot(a, a)); }
static V3 mulM(const DMat& R, const V3& x) { V3 r = {{0, 0, 0}}; for (int i = 0; i < 3; ++i) for (int j = 0; j < 3; ++j) r[i] += R(i, j) * x[j]; return r; }
static V3 mulMt(const DMat& R, const V3& x) { V3 r = {{0, 0, 0}}; for (int i = 0; i < 3; ++i) for (int j = 0; j < 3; ++j) r[i] += R(j, i) * x[j]; return r; }
static DMat rotOf(const Rotation& R) { DMat m(3, 3); for (int i = 0; i < 3; ++i) for (int j = 0; j < 3; ++j) m(i, j) = R[i][j]; return m; }

struct Kin { DMat R; V3 p, w, v; };    // pose and velocity of a body frame in Ground (library kinematics)
static Kin kinOf(const MobilizedBody& B, const State& s) {
    Kin k; k.R = rotOf(B.getBodyRotation(s)); k.p = v3(B.getBodyOriginLocation(s));
    const SpatialVec& V = B.getBodyVelocity(s); k.w = v3(V[0]); k.v = v3(V[1]);
    return k;
}
static V3 stationPos(const Kin& k, const V3& sB) { return k.p + mulM(k.R, sB); }
static V3 stationVel(const Kin& k, const V3& sB) { return k.v + ref::cross(k.w, mulM(k.R, sB)); }

// what the documentation says the element does
struct Expected {
    std::vector<V3> mom, frc; std::vector<LD> mob; LD pe = 0;
    LD scale = 0, peScale = 0;       // magnitude of the terms entering the formulas (for relative residuals)
    bool peSpecified = true;
    Expected(int nb, int nu) : mom(nb, V3{{0, 0, 0}}), frc(nb, V3{{0, 0, 0}}), mob(nu, 0) {}
    void atStation(int mbx, const Kin& k, const V3& sB, const V3& fG) {       // force fG applied at body station sB
        const V3 sG = mulM(k.R, sB);
        frc[mbx] = frc[mbx] + fG; mom[mbx] = mom[mbx] + ref::cross(sG, fG);
        scale = std::max(scale, norm3(fG) * (1 + norm3(sG)));
    }
    void atPoint(int mbx, const Kin& k, const V3& pG, const V3& fG) {         // force fG applied at Ground location pG of the body
        const V3 r = pG - k.p;
        frc[mbx] = frc[mbx] + fG; mom[mbx] = mom[mbx] + ref::cross(r, fG);
        scale = std::max(scale, norm3(fG) * (1 + norm3(r)));
    }
    void torque(int mbx, const V3& tG) { mom[mbx] = mom[mbx] + tG; scale = std::max(scale, norm3(tG)); }
};

static int uIndex(const MobilizedBody& B, const State& s, int local) { return (int)B.getFirstUIndex(s) + local; }
static int qIndex(const MobilizedBody& B, const State& s, int local) { return (int)B.getFirstQIndex(s) + local; }

// ---------------------------------------------------------------- THE LAWS (transcribed from Simbody/include/simbody/internal/Force*.h)
// `I` supplies element kind and attachment, `p` the current parameter values (the shadow copy in the history part).
static Expected law(const mb::Model& M, const fm::Instance& I, const fm::Params& p, const State& s) {
    const int nb = M.matter.getNumBodies(), nu = s.getNU();
    Expected E(nb, nu);
    const fm::Attach& a = I.at;
    const MobilizedBody& B1 = fm::bodyOf(M, a.b1 == -2 ? -1 : a.b1);
    const MobilizedBody& B2 = fm::bodyOf(M, a.b2 == -2 ? -1 : a.b2);
    const int x1 = (int)B1.getMobilizedBodyIndex(), x2 = (int)B2.getMobilizedBodyIndex();
    switch (I.elem) {
        case fm::ETwoPointLinearSpring: case fm::ECustomTwoPointSpring: {
            // Force.h: "if d is the unit vector from point1 to point2, and x the current separation, we have f = k(x-x0)
            // and we apply a force f*d to point1 and -f*d to point2.  pe = 1/2 k (x-x0)^2."
            const Kin k1 = kinOf(B1, s), k2 = kinOf(B2, s);
            const V3 r = stationPos(k2, v3(a.s2)) - stationPos(k1, v3(a.s1)); const LD x = norm3(r); const V3 d = (1 / x) * r;
            const LD f = (LD)p.k * (x - (LD)p.x0);
            E.atStation(x1, k1, v3(a.s1), f * d); E.atStation(x2, k2, v3(a.s2), (-f) * d);
            E.pe = (LD)p.k * (x - (LD)p.x0) * (x - (LD)p.x0) / 2;
            E.scale = std::max(E.scale, (LD)p.k * (x + fabsl((LD)p.x0)) * (1 + norm3(k1.p) + norm3(k2.p))); E.peScale = (LD)p.k * (x * x + (LD)p.x0 * p.x0);
            break;
        }
        case fm::ETwoPointLinearDamper: {
            // Force.h: "resists changes in the distance between two points, acting along the line between those points ...
            // If the relative (scalar) velocity between the points is v, then we apply a force of magnitude f=c*|v| to each
            // point in a direction which opposes their separation [rate]."  -> separating (v>0): point1 is pulled towards point2.
            const Kin k1 = kinOf(B1, s), k2 = kinOf(B2, s);
            const V3 r = stationPos(k2, v3(a.s2)) - stationPos(k1, v3(a.s1)); const V3 d = (1 / norm3(r)) * r;
            const V3 vr = stationVel(k2, v3(a.s2)) - stationVel(k1, v3(a.s1)); const LD v = ref::dot(vr, d);
            E.atStation(x1, k1, v3(a.s1), ((LD)p.c * v) * d); E.atStation(x2, k2, v3(a.s2), (-(LD)p.c * v) * d);
            E.scale = std::max(E.scale, (LD)p.c * norm3(vr) * (1 + norm3(k1.p) + norm3(k2.p)));
            break;
        }
        case fm::ETwoPointConstantForce: {
            // Force.h: "A constant force f (a signed scalar) which acts along the line between two points ... A positive force
            // acts to separate the points; negative pulls them together.  ... does not contribute to the potential energy"
            const Kin k1 = kinOf(B1, s), k2 = kinOf(B2, s);
            const V3 r = stationPos(k2, v3(a.s2)) - stationPos(k1, v3(a.s1)); const V3 d = (1 / norm3(r)) * r;
            E.atStation(x1, k1, v3(a.s1), (-(LD)p.f) * d); E.atStation(x2, k2, v3(a.s2), ((LD)p.f) * d);
            break;
        }
        case fm::ELinearBushing: {
            // Force_LinearBushing.h: q = [x-y-z body(B2)-fixed Euler angles of R_FM ; p_FM expressed in F], qdot their time
            // derivatives (p_FM differentiated in F);  f_i = -(k_i*q_i + c_i*qdot_i);  e_i = k_i*q_i^2/2;  the rotational
            // f_0..2 act about the rotated axes, the translational f_3..5 form a vector in F.
            const Kin k1 = kinOf(B1, s), k2 = kinOf(B2, s);
            const DMat R_GF = ref::mul(k1.R, rotOf(a.X_B1F.R())), R_GM = ref::mul(k2.R, rotOf(a.X_B2M.R()));
            const V3 pF = stationPos(k1, v3(a.X_B1F.p())), pM = stationPos(k2, v3(a.X_B2M.p()));
            const DMat R_FM = ref::mul(ref::transpose(R_GF), R_GM);
            LD q[6], qd[6];
            q[1] = asinl(R_FM(0, 2)); q[0] = atan2l(-R_FM(1, 2), R_FM(2, 2)); q[2] = atan2l(-R_FM(0, 1), R_FM(0, 0));
            const V3 pFM = mulMt(R_GF, pM - pF); for (int i = 0; i < 3; ++i) q[3 + i] = pFM[i];
            // angular velocity of M in F, expressed in M:  w_M = E(q) * qdot  for the body-fixed 1-2-3 sequence
            const LD cb = cosl(q[1]), sb = sinl(q[1]), cc = cosl(q[2]), sc = sinl(q[2]);
            DMat Em(3, 3); Em(0, 0) = cb * cc; Em(0, 1) = sc; Em(1, 0) = -cb * sc; Em(1, 1) = cc; Em(2, 0) = sb; Em(2, 2) = 1;
            const V3 wM = mulMt(R_GM, k2.w - k1.w);
            DMat rhs(3, 1), sol; for (int i = 0; i < 3; ++i) rhs(i, 0) = wM[i];
            ref::solve(Em, rhs, sol); for (int i = 0; i < 3; ++i) qd[i] = sol(i, 0);
            const V3 vM = stationVel(k2, v3(a.X_B2M.p())), vF = stationVel(k1, v3(a.X_B1F.p()));
            const V3 pd = mulMt(R_GF, vM - vF - ref::cross(k1.w, pM - pF)); for (int i = 0; i < 3; ++i) qd[3 + i] = pd[i];
            LD f[6]; LD fs = 0;
            for (int i = 0; i < 6; ++i) { f[i] = -((LD)p.K6[i] * q[i] + (LD)p.C6[i] * qd[i]); E.pe += (LD)p.K6[i] * q[i] * q[i] / 2; E.peScale += (LD)p.K6[i] * q[i] * q[i]; fs += fabsl((LD)p.K6[i] * q[i]) + fabsl((LD)p.C6[i] * qd[i]); }
            // moment on body 2 (in M) from the three scalar rotational forces: virtual power m . w = f_rot . qdot  =>  E^T m = f_rot
            DMat fr(3, 1), mm; for (int i = 0; i < 3; ++i) fr(i, 0) = f[i];
            ref::solve(ref::transpose(Em), fr, mm);
            const V3 mG = mulM(R_GM, V3{{mm(0, 0), mm(1, 0), mm(2, 0)}});
            const V3 fG = mulM(R_GF, V3{{f[3], f[4], f[5]}});
            // translational force on body 2 at M's origin; equal and opposite on body 1 at the same point in space
            E.atPoint(x2, k2, pM, fG); E.torque(x2, mG);
            E.atPoint(x1, k1, pM, (-1.0L) * fG); E.torque(x1, (-1.0L) * mG);
            E.scale = std::max(E.scale, fs * (1 + norm3(pM - k1.p) + norm3(pM - k2.p)) / std::max<LD>(fabsl(cb), 0.05L));
            break;
        }
        case fm::ECustomTorquePair: {
            const Kin k1 = kinOf(B1, s);
            const V3 t = (LD)p.f * mulM(k1.R, v3(p.vec));
            E.torque(x1, t); E.torque(x2, (-1.0L) * t);
            break;
        }
        case fm::EConstantForce: {
            // Force.h: "A constant force applied to a body station. The force is a vector fixed forever in the Ground frame. ... no potential energy"
            E.atStation(x1, kinOf(B1, s), v3(a.s1), v3(p.vec));
            break;
        }
        case fm::EConstantTorque:
            // Force.h: "A constant torque to a body. The torque is a vector fixed forever in the Ground frame."
            E.torque(x1, v3(p.vec));
            break;
        case fm::ECustomOriginSpring: {
            // Force_Custom.h example: "apply a force of magnitude kx to OB, directed towards O";  pe = k x^2 / 2
            const Kin k1 = kinOf(B1, s);
            E.atStation(x1, k1, V3{{0, 0, 0}}, (-(LD)p.k) * k1.p);
            E.pe = (LD)p.k * ref::dot(k1.p, k1.p) / 2; E.peScale = E.pe;
            break;
        }
        case fm::EMobilityLinearSpring: {
            // Force_MobilityLinearSpring.h: "The generated force is k*(q-q0) [restoring], pe = 1/2 k (q-q0)^2"; property text: -k*(q-q0)
            const LD q = s.getQ()[qIndex(B1, s, a.coord)];
            E.mob[uIndex(B1, s, a.coord)] = -(LD)p.k * (q - (LD)p.x0);
            E.pe = (LD)p.k * (q - (LD)p.x0) * (q - (LD)p.x0) / 2;
            E.scale = (LD)p.k * (fabsl(q) + fabsl((LD)p.x0)); E.peScale = (LD)p.k * (q * q + (LD)p.x0 * p.x0);
            break;
        }
        case fm::EMobilityLinearStop: {
            // Force_MobilityLinearStop.h:   f = 0                        q_low <= q <= q_high
            //                               f = min(0, -k*x*(1+d*qdot))  q > q_high, x = q-q_high
            //                               f = max(0, -k*x*(1-d*qdot))  q < q_low,  x = q-q_low
            // (the energy of the "stiffness force linear in the violation" is 1/2 k x^2; implied, see notes)
            const LD q = s.getQ()[qIndex(B1, s, a.coord)], qdot = s.getU()[uIndex(B1, s, a.coord)];   // documented precondition: qdot == u
            LD f = 0, x = 0;
            if (q > (LD)p.qHigh) { x = q - (LD)p.qHigh; f = std::min<LD>(0, -(LD)p.k * x * (1 + (LD)p.d * qdot)); }
            else if (q < (LD)p.qLow) { x = q - (LD)p.qLow; f = std::max<LD>(0, -(LD)p.k * x * (1 - (LD)p.d * qdot)); }
            E.mob[uIndex(B1, s, a.coord)] = f;
            E.pe = (LD)p.k * x * x / 2;
            E.scale = (LD)p.k * fabsl(x) * (1 + (LD)p.d * fabsl(qdot)); E.peScale = E.pe;
            break;
        }
        case fm::EMobilityLinearDamper:
            // Force_MobilityLinearDamper.h: "the generated force being -c*u"
            E.mob[uIndex(B1, s, a.coord)] = -(LD)p.c * (LD)s.getU()[uIndex(B1, s, a.coord)];
            break;
        case fm::EMobilityConstantForce: case fm::EMobilityDiscreteForce:
            // "A constant generalized force f (a scalar) applied to a mobility" / "A discrete mobility (generalized) force f"
            E.mob[uIndex(B1, s, a.coord)] = p.f;
            break;
        case fm::EGlobalDamper:
            // Force.h: "Each generalized speed u_i feels a force -dampingFactor*u_i."
            for (int i = 0; i < nu; ++i) E.mob[i] = -(LD)p.c * (LD)s.getU()[i];
            break;
        case fm::EUniformGravity: case fm::EGravity: {
            // Force_Gravity.h: "Each body B that has not been explicitly excluded will experience a force fb = mb*g*d, applied to its
            // center of mass";  "potential energy for a body B is mb*g*hb where ... hb = pb*(-d) - hz".
            // Force.h (UniformGravity): "specified by a vector in the Ground frame. You can optionally specify a height at which the
            // gravitational potential energy is zero."   -> same law with g*d = the vector.
            V3 gv; LD g;
            if (I.elem == fm::EGravity) { g = p.g; gv = g * v3(Vec3(p.down)); } else { gv = v3(p.vec); g = norm3(gv); }
            for (int b = 0; b < 3; ++b) {
                if (I.elem == fm::EGravity && p.excluded[b]) continue;
                const mbref::MassRef mr = mbref::massRef(M.specs[b].mass);
                const Kin k = kinOf(M.bodies[b], s);
                E.atStation((int)M.bodies[b].getMobilizedBodyIndex(), k, mr.com, mr.m * gv);
                const V3 pc = stationPos(k, mr.com);
                E.pe += -mr.m * ref::dot(gv, pc) - mr.m * g * (LD)p.zeroHeight;
                E.peScale += mr.m * (g * norm3(pc) + g * fabsl((LD)p.zeroHeight));
            }
            break;
        }
        case fm::EDiscreteForces:
            // Force_DiscreteForces.h: the spatial forces (applied at the body origins, in Ground; entry 0 is Ground) and the
            // generalized forces stored in the state "will be applied until they are changed"; empty = all zero.
            for (int b = 0; b < nb && b < p.bodyF.size(); ++b) { E.mom[b] = v3(p.bodyF[b][0]); E.frc[b] = v3(p.bodyF[b][1]); E.scale = std::max(E.scale, norm3(E.mom[b]) + norm3(E.frc[b])); }
            for (int i = 0; i < nu && i < p.mobF.size(); ++i) E.mob[i] = p.mobF[i];
            break;
        case fm::EThermostat: {
            // Force_Thermostat.h: "f = -c[0] * M * u where M is the system mass matrix"; "does not produce any potential energy"
            DMat J = mbref::jacobianRef(M, s), Mr = mbref::massMatrixRef(M, s, J), Mu = ref::mul(Mr, mbref::fromVector(s.getU()));
            const LD c0 = p.chain.size() ? (LD)p.chain[0] : 0;
            for (int i = 0; i < nu; ++i) { E.mob[i] = -c0 * Mu(i, 0); E.scale = std::max(E.scale, fabsl(c0) * ref::normInf(Mr) * (LD)s.getU().normInf()); }
            break;
        }
    }
    LD ms = 0; for (LD x : E.mob) ms = std::max(ms, fabsl(x));
    E.scale = std::max(E.scale, ms);
    return E;
}

// ---------------------------------------------------------------- comparisons
static LD diffForces(const Expected& E, const Vector_<SpatialVec>& F, const Vector& f, LD& obsScale) {
    LD w = 0; obsScale = 0;
    for (int b = 0; b < (int)E.frc.size(); ++b) {
        w = std::max(w, std::max(norm3(E.mom[b] - v3(F[b][0])), norm3(E.frc[b] - v3(F[b][1]))));
        obsScale = std::max(obsScale, (LD)std::max(F[b][0].norm(), F[b][1].norm()));
    }
    for (int i = 0; i < (int)E.mob.size(); ++i) { w = std::max(w, fabsl(E.mob[i] - (LD)f[i])); obsScale = std::max(obsScale, fabsl((LD)f[i])); }
    return w;
}
static bool allZero(const Vector_<SpatialVec>& F, const Vector& f) {
    for (int b = 0; b < F.size(); ++b) if (F[b][0].norm() != 0 || F[b][1].norm() != 0) return false;
    for (int i = 0; i < f.size(); ++i) if (f[i] != 0) return false;
    return true;
}
// key suffix for UniformGravity's zero-height clause, so that the finding does not mask the rest of the PE oracle
static bool isUGzh(const fm::Instance& I, const fm::Params& p) { return I.elem == fm::EUniformGravity && p.zeroHeight != 0; }
static const char* UGZH_KEY = "UniformGravity-PE-with-nonzero-zeroHeight";

// Compare the element's observable behaviour in state `s` (realized here to Dynamics) with the law at parameters p.
// keyPrefix names the section / culprit.  Returns a hash of the observed forces (outcome).
static uint64_t checkAgainstLaw(verif::Run& run, const mb::Model& M, const fm::Instance& I, const fm::Params& p, bool disabled, State& s,
                                const std::string& keyPrefix, const std::function<std::string()>& where, bool* nontrivial = nullptr) {
    const std::string en = fm::elemName(I.elem);
    M.system.realize(s, Stage::Dynamics);
    Expected E = law(M, I, p, s);
    {   // floor for the relative scales: (size of the parameters) x (1 + speeds).  Same-body attachments produce forces that are
        // pure round-off (1e-31); without a floor they would be compared with themselves.
        LD paramMag = fabsl((LD)p.k) + fabsl((LD)p.c) + fabsl((LD)p.f) + (LD)p.vec.norm() + (LD)p.g;
        for (int i = 0; i < 6; ++i) paramMag += (LD)p.K6[i] + (LD)p.C6[i];
        LD vmax = 0; for (MobilizedBodyIndex b(0); b < M.matter.getNumBodies(); ++b) { const SpatialVec& V = M.matter.getMobilizedBody(b).getBodyVelocity(s); vmax = std::max(vmax, (LD)V[0].norm() + (LD)V[1].norm()); }
        E.scale = std::max(E.scale, paramMag * (1 + vmax)); E.peScale = std::max(E.peScale, paramMag);
    }
    if (disabled) { E = Expected(M.matter.getNumBodies(), s.getNU()); }
    Vector_<SpatialVec> F; Vector_<Vec3> pF; Vector f;
    I.force.calcForceContribution(s, F, pF, f);
    LD obs = 0; LD w = diffForces(E, F, f, obs);
    const LD sc = std::max(E.scale, obs);
    if (nontrivial) *nontrivial = sc > 0 || E.pe != 0;
    if (disabled) run.expect(allZero(F, f), keyPrefix + "disabled-element-applies-force/" + en, where);
    else if (sc > 0) run.residual(keyPrefix + "force-vs-law/" + en, (double)(w / sc), TOL, where);
    // system totals (the element is the only enabled one)
    const Vector_<SpatialVec>& Fs = M.system.getRigidBodyForces(s, Stage::Dynamics);
    const Vector& fs = M.system.getMobilityForces(s, Stage::Dynamics);
    LD obs2 = 0; LD w2 = diffForces(E, Fs, fs, obs2);
    const LD sc2 = std::max(E.scale, obs2);
    if (disabled) run.expect(allZero(Fs, fs), keyPrefix + "disabled-element-in-system-totals/" + en, where);
    else if (sc2 > 0) run.residual(keyPrefix + "system-totals-vs-law/" + en, (double)(w2 / sc2), TOL, where);
    // potential energy
    const LD pe1 = I.force.calcPotentialEnergyContribution(s), pe2 = M.system.calcPotentialEnergy(s);
    const LD pes = std::max(E.peScale, std::max(fabsl(pe1), fabsl(pe2)));
    if (disabled) run.expect(pe1 == 0 && pe2 == 0, keyPrefix + "disabled-element-reports-PE/" + en, where);
    else if (pes > 0) {
        // (one stable key for the UniformGravity zero-height finding, whatever the section or route; see notes/C38.md)
        run.residual(isUGzh(I, p) ? UGZH_KEY : keyPrefix + "PE-vs-law/" + en, (double)(fabsl(pe1 - E.pe) / pes), TOL, where);
        run.residual(isUGzh(I, p) ? UGZH_KEY : keyPrefix + "system-PE-vs-law/" + en, (double)(fabsl(pe2 - E.pe) / pes), TOL, where);
    } else run.expect(pe1 == 0 && pe2 == 0, keyPrefix + "PE-not-zero/" + en, where);
    // element-specific accessors and parameter getters
    if (!disabled) {
        if (I.elem == fm::EGravity) {
            Force::Gravity G = Force::Gravity::downcast(I.force);
            const Vector_<SpatialVec>& GF = G.getBodyForces(s); Vector zero(s.getNU(), 0.0);
            LD o3 = 0; LD w3 = diffForces(E, GF, zero, o3);
            if (std::max(E.scale, o3) > 0) run.residual(keyPrefix + "Gravity.getBodyForces-vs-law", (double)(w3 / std::max(E.scale, o3)), TOL, where);
            const LD pe3 = G.getPotentialEnergy(s);
            if (pes > 0) run.residual(keyPrefix + "Gravity.getPotentialEnergy-vs-law", (double)(fabsl(pe3 - E.pe) / pes), TOL, where);
            bool ok = G.getMagnitude(s) == p.g && G.getZeroHeight(s) == p.zeroHeight && (G.getDownDirection(s) - Vec3(p.down)).norm() <= 4e-16 && G.getBodyIsExcluded(s, MobilizedBodyIndex(0));
            for (int b = 0; b < 3; ++b) ok = ok && G.getBodyIsExcluded(s, M.bodies[b].getMobilizedBodyIndex()) == p.excluded[b];
            ok = ok && (G.getGravityVector(s) - p.g * Vec3(p.down)).norm() <= 4e-16 * std::max<Real>(1, p.g);
            run.expect(ok, keyPrefix + "Gravity-getters", where);
        } else if (I.elem == fm::ELinearBushing) {
            Force::LinearBushing Bu = Force::LinearBushing::downcast(I.force);
            const LD pe3 = Bu.getPotentialEnergy(s);
            if (pes > 0) run.residual(keyPrefix + "LinearBushing.getPotentialEnergy-vs-law", (double)(fabsl(pe3 - E.pe) / pes), TOL, where);
            run.expect(Bu.getStiffness(s) == p.K6 && Bu.getDamping(s) == p.C6, keyPrefix + "LinearBushing-getters", where);
        } else if (I.elem == fm::EMobilityLinearSpring) {
            Force::MobilityLinearSpring S = Force::MobilityLinearSpring::downcast(I.force);
            run.expect(S.getStiffness(s) == p.k && S.getQZero(s) == p.x0, keyPrefix + "MobilityLinearSpring-getters", where);
        } else if (I.elem == fm::EMobilityLinearStop) {
            Force::MobilityLinearStop S = Force::MobilityLinearStop::downcast(I.force);
            run.expect(S.getStiffness(s) == p.k && S.getDissipation(s) == p.d && S.getLowerBound(s) == p.qLow && S.getUpperBound(s) == p.qHigh, keyPrefix + "MobilityLinearStop-getters", where);
        } else if (I.elem == fm::EMobilityLinearDamper) run.expect(Force::MobilityLinearDamper::downcast(I.force).getDamping(s) == p.c, keyPrefix + "MobilityLinearDamper-getters", where);
        else if (I.elem == fm::EMobilityConstantForce) run.expect(Force::MobilityConstantForce::downcast(I.force).getForce(s) == p.f, keyPrefix + "MobilityConstantForce-getters", where);
        else if (I.elem == fm::EMobilityDiscreteForce) run.expect(Force::MobilityDiscreteForce::downcast(I.force).getMobilityForce(s) == p.f, keyPrefix + "MobilityDiscreteForce-getters", where);
    }
    if (run.verbose) {
        printf("  [%s] %s disabled=%d  law-scale=%Lg  |contribution-law|=%Lg  |system-law|=%Lg  PE law=%.15Lg contribution=%.15Lg system=%.15Lg\n", keyPrefix.c_str(), I.str().c_str(), (int)disabled, E.scale, w, w2, E.pe, pe1, pe2);
        for (int b = 0; b < F.size(); ++b) printf("    body %d law: m(%.12Lg %.12Lg %.12Lg) f(%.12Lg %.12Lg %.12Lg)   lib: m(%.12g %.12g %.12g) f(%.12g %.12g %.12g)\n", b, E.mom[b][0], E.mom[b][1], E.mom[b][2], E.frc[b][0], E.frc[b][1], E.frc[b][2], F[b][0][0], F[b][0][1], F[b][0][2], F[b][1][0], F[b][1][1], F[b][1][2]);
        for (int i = 0; i < f.size(); ++i) if (E.mob[i] != 0 || f[i] != 0) printf("    mobility %d law %.15Lg lib %.15g\n", i, E.mob[i], f[i]);
    }
    uint64_t h = 7; for (int b = 0; b < F.size(); ++b) h = verif::hashPod((float)F[b][1].norm(), verif::hashPod((float)F[b][0].norm(), h));
    for (int i = 0; i < f.size(); ++i) h = verif::hashPod((float)f[i], h);
    return verif::hashPod((float)pe1, h);
}

static bool preconditionsHold(verif::Run& run, const mb::Model& M, const fm::Instance& I, const State& s) {
    const fm::Attach& a = I.at;
    if (I.elem == fm::ELinearBushing) {
        const Vec6 q = Force::LinearBushing::downcast(I.force).getQ(s);
        if (std::abs(std::cos(q[1])) < 0.2) { run.count("skipped:bushing-near-documented-singularity"); return false; }
    } else if (fm::elemClass(I.elem) == fm::CTwoBody && I.elem != fm::ECustomTorquePair) {
        const Real dist = (fm::bodyOf(M, a.b2).findStationLocationInGround(s, a.s2) - fm::bodyOf(M, a.b1).findStationLocationInGround(s, a.s1)).norm();
        if (dist < 1e-3) { run.count("skipped:coincident-stations(documented-error)"); return false; }
    }
    return true;
}

// ---------------------------------------------------------------- section laws
struct Unit { int host, elem, pset, attach; };
static void lawCase(verif::Run& run, const Unit& u, int stateKind, int valueSet, const std::string& desc) {
    Force::GlobalDamper by;      // a bystander, disabled in the state, so that enable flags of several elements are exercised
    auto C = fm::buildCase(u.host, u.elem, u.pset, u.attach, stateKind, valueSet, [&](mb::Model& M) { by = Force::GlobalDamper(M.forces, M.matter, 0.7); });
    mb::Model& M = *C->M; fm::Instance& I = C->I; State& s = C->s;
    by.disable(s);
    M.system.realize(s, Stage::Velocity);
    auto where = [&] { return desc; };
    if (!preconditionsHold(run, M, I, s)) { run.evaluation(verif::hashStr(desc), false); return; }
    if (run.verbose) printf("%s\n", desc.c_str());
    bool nontrivial = false;
    uint64_t h = checkAgainstLaw(run, M, I, I.p, false, s, "", where, &nontrivial);
    run.evaluation(verif::hashStr(desc), nontrivial);
    run.outcome(h);
    run.count(std::string(nontrivial ? "nontrivial/" : "trivial/") + fm::elemName(u.elem));
    // branch counters (vacuity guards)
    if (u.elem == fm::EMobilityLinearStop) {
        const MobilizedBody& B = fm::bodyOf(M, I.at.b1); const Real q = B.getOneQ(s, I.at.coord), qd = B.getOneU(s, I.at.coord);
        std::string br = q > I.p.qHigh ? "above" : q < I.p.qLow ? "below" : "inside";
        if (q > I.p.qHigh && 1 + I.p.d * qd < 0) br += "+clamped"; if (q < I.p.qLow && 1 - I.p.d * qd < 0) br += "+clamped";
        run.count("stop-branch:" + br + (I.p.k == 0 ? "(k=0)" : ""));
        // the same configuration with the coordinate's speed reversed, so that both signs of qdot meet both bounds
        State sm = s; B.setOneU(sm, I.at.coord, -qd);
        M.system.realize(sm, Stage::Velocity);
        checkAgainstLaw(run, M, I, I.p, false, sm, "reversed-speed:", where);
        std::string br2 = q > I.p.qHigh ? "above" : q < I.p.qLow ? "below" : "inside";
        if (q > I.p.qHigh && 1 - I.p.d * qd < 0) br2 += "+clamped"; if (q < I.p.qLow && 1 + I.p.d * qd < 0) br2 += "+clamped";
        run.count("stop-branch(reversed-speed):" + br2 + (I.p.k == 0 ? "(k=0)" : ""));
    }
    // Thermostat: documented auxiliary laws (chain derivatives, temperature, bath energy)
    if (u.elem == fm::EThermostat) {
        Force::Thermostat T = Force::Thermostat::downcast(I.force);
        M.system.realize(s, Stage::Acceleration);
        const int m = T.getNumChains(s); const int N = std::max(1, s.getNU() - I.p.nExcludedDofs);
        const LD KE = M.system.calcKineticEnergy(s), kB = I.p.kB, Tb = I.p.Tb, t = I.p.tRelax;
        const LD Tcur = 2 * KE / (N * kB);
        run.residual("Thermostat.getCurrentTemperature-vs-law", (double)(fabsl((LD)T.getCurrentTemperature(s) - Tcur) / std::max<LD>(Tcur, 1e-300L)), TOL, where);
        run.expect(T.getNumThermalDofs(s) == N, "Thermostat.getNumThermalDofs", where);
        const Vector& zd = M.forces.getZDot(s); const Vector& z = M.forces.getZ(s);
        // the subsystem's z pool holds the chain variables [c0..cm-1, s0..sm-1] after (or before) the external-work variable
        int off = -1;
        for (int o = 0; o + 2 * m <= z.size() && off < 0; ++o) { bool same = true; for (int i = 0; same && i < 2 * m; ++i) same = z[o + i] == I.p.chain[i]; if (same) off = o; }
        if (off >= 0 && m == 3) {   // documented for m>1; m==2 is ambiguous in the text and not compared
            const LD c0 = z[off], c1 = z[off + 1], c2 = z[off + 2];
            const LD e[6] = {(Tcur / Tb - 1) / (t * t) - c0 * c1, N * c0 * c0 - 1 / (t * t) - c1 * c2, c1 * c1 - 1 / (t * t), c0, c1, c2};
            LD w = 0, sc = 0; for (int i = 0; i < 6; ++i) { w = std::max(w, fabsl(e[i] - (LD)zd[off + i])); sc = std::max(sc, fabsl(e[i])); }
            sc = std::max(sc, std::max(Tcur / Tb, (LD)1) / (t * t));
            run.residual("Thermostat-chain-derivatives-vs-law", (double)(w / sc), TOL, where);
            const LD KEb = 0.5L * kB * Tb * t * t * (N * c0 * c0 + c1 * c1 + c2 * c2), PEb = kB * Tb * (N * (LD)z[off + 3] + (LD)z[off + 4] + (LD)z[off + 5]);
            run.residual("Thermostat.calcBathEnergy-vs-law", (double)(fabsl((LD)T.calcBathEnergy(s) - (KEb + PEb)) / (fabsl(KEb) + fabsl(PEb))), TOL, where);
        } else run.count("unspecified:thermostat-chain-layout-or-length");
    }
    // disabled element contributes nothing
    { State sd = s; I.force.disable(sd); run.expect(I.force.isDisabled(sd), "isDisabled-after-disable", where); checkAgainstLaw(run, M, I, I.p, true, sd, "", where); I.force.enable(sd); run.expect(!I.force.isDisabled(sd), "isDisabled-after-enable", where); checkAgainstLaw(run, M, I, I.p, false, sd, "re-enabled:", where); }
}

// ---------------------------------------------------------------- section gravity
static std::vector<Vec3> directionLattice() { std::vector<Vec3> v; for (int x = -1; x <= 1; ++x) for (int y = -1; y <= 1; ++y) for (int z = -1; z <= 1; ++z) if (x || y || z) v.push_back(Vec3(x, y, z)); return v; }
struct GravCase { int subset, how, mag, dir, zh, ctor, up, state; };
static void gravityCase(verif::Run& run, const GravCase& g, int valueSet, const std::string& desc) {
    static const Real mags[3] = {0.0, 9.80665, 3.7};
    static const std::vector<Vec3> lat = directionLattice();
    auto Mp = fm::buildHost(fm::HostFBPq); mb::Model& M = *Mp;
    fm::Instance I; I.host = fm::HostFBPq; I.elem = fm::EGravity; I.at.str = "system";
    fm::Params& p = I.p;
    static const CoordinateDirection ups[3] = {CoordinateDirection(YAxis), CoordinateDirection(ZAxis), CoordinateDirection(XAxis, -1)};
    static const Vec3 upv[3] = {Vec3(0, 1, 0), Vec3(0, 0, 1), Vec3(-1, 0, 0)};
    if (g.ctor == 2) M.system.setUpDirection(ups[g.up]);
    p.g = mags[g.mag]; p.zeroHeight = g.zh ? 1.3 : 0.0;
    const UnitVec3 d(lat[g.dir]);
    Force::Gravity G;
    if (g.ctor == 0) { G = Force::Gravity(M.forces, M.matter, d, p.g, p.zeroHeight); p.down = d; }
    else if (g.ctor == 1) {
        // "If the magnitude is exactly zero we'll set the down direction to the opposite of the containing System's up direction"
        G = Force::Gravity(M.forces, M.matter, p.g * Vec3(d)); const Vec3 gv = p.g * Vec3(d); p.g = gv.norm(); p.down = p.g > 0 ? UnitVec3(gv) : UnitVec3(0, -1, 0);
        if (g.zh) G.setDefaultZeroHeight(p.zeroHeight);
    } else { G = Force::Gravity(M.forces, M.matter, p.g); p.down = UnitVec3(-upv[g.up]); if (g.zh) G.setDefaultZeroHeight(p.zeroHeight); }
    I.force = G;
    if (g.how == 0) for (int b = 0; b < 3; ++b) if (g.subset >> b & 1) G.setDefaultBodyIsExcluded(M.bodies[b].getMobilizedBodyIndex(), true);
    State s = mb::makeState(M, g.state, valueSet);
    if (g.how == 1) for (int b = 0; b < 3; ++b) if (g.subset >> b & 1) G.setBodyIsExcluded(s, M.bodies[b].getMobilizedBodyIndex(), true);
    if (g.how == 2) {   // exclude everything in the state, realize, then re-include the complement (exercises the un-exclude path)
        for (int b = 0; b < 3; ++b) G.setBodyIsExcluded(s, M.bodies[b].getMobilizedBodyIndex(), true);
        M.system.realize(s, Stage::Dynamics);
        for (int b = 0; b < 3; ++b) if (!(g.subset >> b & 1)) G.setBodyIsExcluded(s, M.bodies[b].getMobilizedBodyIndex(), false);
    }
    for (int b = 0; b < 3; ++b) p.excluded[b] = (g.subset >> b & 1) != 0;
    auto where = [&] { return desc; };
    if (run.verbose) printf("%s\n", desc.c_str());
    bool nontrivial = false;
    uint64_t h = checkAgainstLaw(run, M, I, p, false, s, "gravity:", where, &nontrivial);
    run.evaluation(verif::hashStr(desc), nontrivial);
    run.outcome(h);
    run.count(nontrivial ? "gravity-nontrivial" : "gravity-trivial(zero magnitude or all excluded)");
}

// ---------------------------------------------------------------- section defaults (topology-stage parameter setters)
static void defaultsCase(verif::Run& run, int host, int elem, int attach, int stateKind, int valueSet, const std::string& desc) {
    auto Mp = fm::buildHost(host); mb::Model& M = *Mp;
    fm::Instance I0 = fm::add(M, host, elem, 0, attach);
    // the values of parameter set 1, obtained by constructing the same element on a scratch model
    fm::Params p1; { auto M2 = fm::buildHost(host); p1 = fm::add(*M2, host, elem, 1, attach).p; }
    M.system.realizeTopology();     // the element first lives with the old defaults
    fm::Instance I = I0; I.p = p1; I.pset = 1;
    switch (elem) {
        case fm::EMobilityLinearSpring: Force::MobilityLinearSpring::updDowncast(I.force).setDefaultStiffness(p1.k).setDefaultQZero(p1.x0); break;
        case fm::EMobilityLinearDamper: Force::MobilityLinearDamper::updDowncast(I.force).setDefaultDamping(p1.c); break;
        case fm::EMobilityConstantForce: Force::MobilityConstantForce::updDowncast(I.force).setDefaultForce(p1.f); break;
        case fm::EMobilityLinearStop: Force::MobilityLinearStop::updDowncast(I.force).setDefaultBounds(p1.qLow, p1.qHigh).setDefaultMaterialProperties(p1.k, p1.d); break;
        case fm::EMobilityDiscreteForce: Force::MobilityDiscreteForce::updDowncast(I.force).setDefaultMobilityForce(p1.f); break;
        case fm::ELinearBushing: Force::LinearBushing::updDowncast(I.force).setDefaultStiffness(p1.K6).setDefaultDamping(p1.C6); break;
        case fm::EUniformGravity: { Force::UniformGravity& U = Force::UniformGravity::updDowncast(I.force); U.setGravity(p1.vec); U.setZeroHeight(p1.zeroHeight); break; }
        case fm::EGravity: { Force::Gravity& G = Force::Gravity::updDowncast(I.force); G.setDefaultDownDirection(p1.down).setDefaultMagnitude(p1.g).setDefaultZeroHeight(p1.zeroHeight); for (int b = 0; b < 3; ++b) G.setDefaultBodyIsExcluded(M.bodies[b].getMobilizedBodyIndex(), p1.excluded[b]); break; }
        default: return;
    }
    State s = mb::makeState(M, stateKind, valueSet);
    M.system.realize(s, Stage::Velocity);
    auto where = [&] { return desc; };
    if (!preconditionsHold(run, M, I, s)) { run.evaluation(verif::hashStr(desc), false); return; }
    if (run.verbose) printf("%s\n", desc.c_str());
    bool nontrivial = false;
    run.outcome(checkAgainstLaw(run, M, I, p1, false, s, "defaults:", where, &nontrivial));
    run.evaluation(verif::hashStr(desc), nontrivial);
}

// ---------------------------------------------------------------- section history (E2)
struct Shadow { fm::Params p; bool disabled = false; };
struct HFix;
struct HOp { std::string name; bool isSetter; std::function<void(HFix&, State&, Shadow&)> f; };
struct HFix {
    std::unique_ptr<mb::Model> M; fm::Instance I; State base; std::vector<HOp> ops; Force::GlobalDamper by;
    HFix(int host, int elem, int attach, int valueSet) {
        M = fm::buildHost(host); I = fm::add(*M, host, elem, 0, attach);
        by = Force::GlobalDamper(M->forces, M->matter, 0.7);
        base = mb::makeState(*M, 1, valueSet);
        if (fm::needsStateInit(elem)) fm::initStateParams(*M, I, base);
        by.disable(base);
        makeOps();
    }
    void add(const std::string& n, bool setter, std::function<void(HFix&, State&, Shadow&)> f) { ops.push_back({n, setter, f}); }
    void makeOps() {
        add("realize(Position)", false, [](HFix& F, State& s, Shadow&) { F.M->system.realize(s, Stage::Position); });
        add("realize(Velocity)", false, [](HFix& F, State& s, Shadow&) { F.M->system.realize(s, Stage::Velocity); });
        add("realize(Dynamics)", false, [](HFix& F, State& s, Shadow&) { F.M->system.realize(s, Stage::Dynamics); });
        add("realize(Acceleration)", false, [](HFix& F, State& s, Shadow&) { F.M->system.realize(s, Stage::Acceleration); });
        add("query.PE@Position", false, [](HFix& F, State& s, Shadow&) { F.M->system.realize(s, Stage::Position); (void)F.M->system.calcPotentialEnergy(s); });
        add("setQ", true, [](HFix& F, State& s, Shadow&) { Vector q = s.getQ(); for (int i = 0; i < q.size(); ++i) q[i] += 0.11 * ((i % 3) - 1) + 0.05; s.updQ() = q; });
        add("setU", true, [](HFix& F, State& s, Shadow&) { Vector u = s.getU(); for (int i = 0; i < u.size(); ++i) u[i] = -0.8 * u[i] + 0.1; s.updU() = u; });
        add("disable", true, [](HFix& F, State& s, Shadow& sh) { F.I.force.disable(s); sh.disabled = true; });
        add("enable", true, [](HFix& F, State& s, Shadow& sh) { F.I.force.enable(s); sh.disabled = false; });
        const int e = I.elem;
        for (int v = 0; v < 2; ++v) {
            const std::string sv = "#" + std::to_string(v);
            if (e == fm::EMobilityLinearSpring) {
                add("setStiffness" + sv, true, [v](HFix& F, State& s, Shadow& sh) { sh.p.k = v ? 100 : 25; Force::MobilityLinearSpring::downcast(F.I.force).setStiffness(s, sh.p.k); });
                add("setQZero" + sv, true, [v](HFix& F, State& s, Shadow& sh) { sh.p.x0 = v ? -0.3 : 0.2; Force::MobilityLinearSpring::downcast(F.I.force).setQZero(s, sh.p.x0); });
            } else if (e == fm::EMobilityLinearDamper) {
                add("setDamping" + sv, true, [v](HFix& F, State& s, Shadow& sh) { sh.p.c = v ? 7 : 0.5; Force::MobilityLinearDamper::downcast(F.I.force).setDamping(s, sh.p.c); });
            } else if (e == fm::EMobilityConstantForce) {
                add("setForce" + sv, true, [v](HFix& F, State& s, Shadow& sh) { sh.p.f = v ? -3 : 4; Force::MobilityConstantForce::downcast(F.I.force).setForce(s, sh.p.f); });
            } else if (e == fm::EMobilityDiscreteForce) {
                add("setMobilityForce" + sv, true, [v](HFix& F, State& s, Shadow& sh) { sh.p.f = v ? 1.75 : -2; Force::MobilityDiscreteForce::downcast(F.I.force).setMobilityForce(s, sh.p.f); });
            } else if (e == fm::EMobilityLinearStop) {
                add("setBounds" + sv, true, [v](HFix& F, State& s, Shadow& sh) { sh.p.qLow = v ? -0.05 : -1; sh.p.qHigh = v ? 0.05 : 1; Force::MobilityLinearStop::downcast(F.I.force).setBounds(s, sh.p.qLow, sh.p.qHigh); });
                add("setMaterialProperties" + sv, true, [v](HFix& F, State& s, Shadow& sh) { sh.p.k = v ? 30 : 250; sh.p.d = v ? 0 : 0.8; Force::MobilityLinearStop::downcast(F.I.force).setMaterialProperties(s, sh.p.k, sh.p.d); });
            } else if (e == fm::ELinearBushing) {
                add("setStiffness" + sv, true, [v](HFix& F, State& s, Shadow& sh) { sh.p.K6 = v ? Vec6(1, 2, 3, 4, 5, 6) : Vec6(0); Force::LinearBushing::downcast(F.I.force).setStiffness(s, sh.p.K6); });
                add("setDamping" + sv, true, [v](HFix& F, State& s, Shadow& sh) { sh.p.C6 = v ? Vec6(3, 2, 1, 3, 2, 1) : Vec6(0); Force::LinearBushing::downcast(F.I.force).setDamping(s, sh.p.C6); });
                add("setFrameOnBody1" + sv, true, [v](HFix& F, State& s, Shadow&) { F.I.at.X_B1F = fm::bushingFrame(F.I.at.b1, v); Force::LinearBushing::downcast(F.I.force).setFrameOnBody1(s, F.I.at.X_B1F); });
                add("setFrameOnBody2" + sv, true, [v](HFix& F, State& s, Shadow&) { F.I.at.X_B2M = fm::bushingFrame(F.I.at.b2, 1 - v); Force::LinearBushing::downcast(F.I.force).setFrameOnBody2(s, F.I.at.X_B2M); });
            } else if (e == fm::EGravity) {
                add("setMagnitude" + sv, true, [v](HFix& F, State& s, Shadow& sh) { sh.p.g = v ? 3.7 : 0; Force::Gravity::downcast(F.I.force).setMagnitude(s, sh.p.g); });
                add("setDownDirection" + sv, true, [v](HFix& F, State& s, Shadow& sh) { sh.p.down = v ? UnitVec3(1, 0, 0) : UnitVec3(0.6, 0, -0.8); Force::Gravity::downcast(F.I.force).setDownDirection(s, sh.p.down); });
                add("setZeroHeight" + sv, true, [v](HFix& F, State& s, Shadow& sh) { sh.p.zeroHeight = v ? 2 : -1; Force::Gravity::downcast(F.I.force).setZeroHeight(s, sh.p.zeroHeight); });
                add("setBodyIsExcluded(b1)" + sv, true, [v](HFix& F, State& s, Shadow& sh) { sh.p.excluded[1] = v != 0; Force::Gravity::downcast(F.I.force).setBodyIsExcluded(s, F.M->bodies[1].getMobilizedBodyIndex(), v != 0); });
                add("setBodyIsExcluded(b2)" + sv, true, [v](HFix& F, State& s, Shadow& sh) { sh.p.excluded[2] = v != 0; Force::Gravity::downcast(F.I.force).setBodyIsExcluded(s, F.M->bodies[2].getMobilizedBodyIndex(), v != 0); });
                // "If the given vector is exactly zero, then only the magnitude will be changed here."
                add("setGravityVector" + sv, true, [v](HFix& F, State& s, Shadow& sh) { const Vec3 gv = v ? Vec3(0, -1.6, 0) : Vec3(0); Force::Gravity::downcast(F.I.force).setGravityVector(s, gv); sh.p.g = gv.norm(); if (sh.p.g > 0) sh.p.down = UnitVec3(gv); });
            } else if (e == fm::EDiscreteForces) {
                add("setOneMobilityForce" + sv, true, [v](HFix& F, State& s, Shadow& sh) {
                    if (sh.p.mobF.size() == 0) { sh.p.mobF.resize(s.getNU()); sh.p.mobF.setToZero(); }
                    sh.p.mobF[(int)F.M->bodies[1].getFirstUIndex(s)] = v ? 2.5 : -1.25; Force::DiscreteForces::downcast(F.I.force).setOneMobilityForce(s, F.M->bodies[1], MobilizerUIndex(0), v ? 2.5 : -1.25); });
                add("setOneBodyForce" + sv, true, [v](HFix& F, State& s, Shadow& sh) {
                    const SpatialVec X = v ? SpatialVec(Vec3(1, 2, 3), Vec3(-1, 0, 2)) : SpatialVec(Vec3(0), Vec3(0, 5, 0));
                    if (sh.p.bodyF.size() == 0) { sh.p.bodyF.resize(F.M->matter.getNumBodies()); sh.p.bodyF.setToZero(); }
                    sh.p.bodyF[F.M->bodies[0].getMobilizedBodyIndex()] = X; Force::DiscreteForces::downcast(F.I.force).setOneBodyForce(s, F.M->bodies[0], X); });
            } else if (e == fm::EThermostat) {
                add("setChainState" + sv, true, [v](HFix& F, State& s, Shadow& sh) { Vector z(sh.p.chain.size()); for (int i = 0; i < z.size(); ++i) z[i] = (v ? -0.4 : 0.9) + 0.1 * i; sh.p.chain = z; Force::Thermostat::downcast(F.I.force).setChainState(s, z); });
                add("setBathTemperature" + sv, true, [v](HFix& F, State& s, Shadow& sh) { sh.p.Tb = v ? 10 : 500; Force::Thermostat::downcast(F.I.force).setBathTemperature(s, sh.p.Tb); });
            }
        }
        if (e == fm::EDiscreteForces) {
            add("clearAllBodyForces", true, [](HFix& F, State& s, Shadow& sh) { sh.p.bodyF.resize(0); Force::DiscreteForces::downcast(F.I.force).clearAllBodyForces(s); });
            add("clearAllMobilityForces", true, [](HFix& F, State& s, Shadow& sh) { sh.p.mobF.resize(0); Force::DiscreteForces::downcast(F.I.force).clearAllMobilityForces(s); });
            add("addForceToBodyPoint", true, [](HFix& F, State& s, Shadow& sh) {
                F.M->system.realize(s, Stage::Position);        // documented precondition of this setter
                const Vec3 st(0.2, -0.1, 0.3), fG(0.4, -1.1, 0.6); const MobilizedBody& B = F.M->bodies[2];
                if (sh.p.bodyF.size() == 0) { sh.p.bodyF.resize(F.M->matter.getNumBodies()); sh.p.bodyF.setToZero(); }
                const Vec3 sG = B.getBodyRotation(s) * st;
                sh.p.bodyF[B.getMobilizedBodyIndex()] += SpatialVec(Vec3(sG[1] * fG[2] - sG[2] * fG[1], sG[2] * fG[0] - sG[0] * fG[2], sG[0] * fG[1] - sG[1] * fG[0]), fG);
                Force::DiscreteForces::downcast(F.I.force).addForceToBodyPoint(s, B, st, fG); });
            add("setAllBodyForces", true, [](HFix& F, State& s, Shadow& sh) {
                const int nb = F.M->matter.getNumBodies(); Vector_<SpatialVec> all(nb); for (int b = 0; b < nb; ++b) all[b] = SpatialVec(Vec3(0.3 * b - 0.2, 0.5, -0.1 * b), Vec3(1.0 - b, 0.25 * b, -0.75));
                sh.p.bodyF = all; Force::DiscreteForces::downcast(F.I.force).setAllBodyForces(s, all); });
            add("setAllMobilityForces", true, [](HFix& F, State& s, Shadow& sh) { Vector mf(s.getNU()); for (int i = 0; i < mf.size(); ++i) mf[i] = mb::uv(2, i); sh.p.mobF = mf; Force::DiscreteForces::downcast(F.I.force).setAllMobilityForces(s, mf); });
        }
    }
};
struct HSpec { int host, elem, attach; };
static std::vector<HSpec> historySpecs() {
    // one fixture per element that has state-taking setters; attachments chosen so that the element acts on moving bodies
    auto findAttach = [](int host, int elem, const std::string& str) { auto v = fm::attachments(host, elem); for (int i = 0; i < (int)v.size(); ++i) if (v[i].str == str) return i; return 0; };
    const int H = fm::HostCGS;
    return {{H, fm::EMobilityLinearSpring, findAttach(H, fm::EMobilityLinearSpring, "b1.q1")}, {H, fm::EMobilityLinearDamper, findAttach(H, fm::EMobilityLinearDamper, "b0.u1")},
            {H, fm::EMobilityConstantForce, findAttach(H, fm::EMobilityConstantForce, "b2.u0")}, {H, fm::EMobilityDiscreteForce, findAttach(H, fm::EMobilityDiscreteForce, "b1.u2")},
            {H, fm::EMobilityLinearStop, findAttach(H, fm::EMobilityLinearStop, "b0.q1")}, {fm::HostFBPq, fm::ELinearBushing, findAttach(fm::HostFBPq, fm::ELinearBushing, "b0-b2/s1")},
            {fm::HostFBPq, fm::EGravity, 0}, {fm::HostFBPe, fm::EDiscreteForces, 0}, {H, fm::EThermostat, 0}};
}
static std::string histStr(const HFix& F, const std::vector<int>& h) { std::string s; for (int o : h) s += F.ops[o].name + " ; "; return s; }
static std::string histIdx(const std::vector<int>& h) { std::string s; for (size_t i = 0; i < h.size(); ++i) s += (i ? "," : "") + std::to_string(h[i]); return s; }
static std::vector<int> parseIdx(const std::string& s) { std::vector<int> v; std::stringstream ss(s); std::string t; while (std::getline(ss, t, ',')) if (!t.empty()) v.push_back(atoi(t.c_str())); return v; }

static void runHistory(verif::Run& run, HFix& F, const std::vector<int>& hist, const std::string& replay) {
    State s = F.base; Shadow sh; sh.p = F.I.p;
    const fm::Attach at0 = F.I.at;
    std::string lastSetter = "none";
    bool nontrivialHist = false;
    try { for (int o : hist) { F.ops[o].f(F, s, sh); if (F.ops[o].isSetter) { lastSetter = F.ops[o].name.substr(0, F.ops[o].name.find('#')); nontrivialHist = true; } } }
    catch (const std::exception& e) { run.count("history-rejected-by-library"); F.I.at = at0; run.evaluationDistinct(false); return; }
    run.evaluationDistinct(nontrivialHist);
    auto where = [&] { return std::string(fm::elemName(F.I.elem)) + " history [" + histStr(F, hist) + "]"; };
    try {
        F.M->system.realize(s, Stage::Velocity);
        if (preconditionsHold(run, *F.M, F.I, s)) {
            if (run.verbose) printf("%s\n", where().c_str());
            // local keys carry the culprit; violations are re-emitted with a replay naming the history
            const size_t before = run.acc.viols.size();
            run.outcome(checkAgainstLaw(run, *F.M, F.I, sh.p, sh.disabled, s, "history/" + lastSetter + "/", where));
            for (size_t i = before; i < run.acc.viols.size(); ++i) run.acc.viols[i].replay = replay;
        }
    } catch (const std::exception& e) {
        run.violation(std::string("history/") + lastSetter + "/exception/" + fm::elemName(F.I.elem), std::string("exception ") + e.what() + " at " + where(), replay);
    }
    F.I.at = at0;
}

int main(int argc, char** argv) {
    verif::Run run("C38", argc, argv);
    run.setDeadline(400, 2700);
    const bool th = run.thorough();
    run.rule = "E3: (host, element, parameter set, attachment, state kind, value set) over the whole force alphabet; Gravity x exclusion subset x how-excluded x magnitude x 26 directions x zero height x constructor x up direction; topology-default setters; E2: all histories up to depth d over {state-taking setters (2 values each), realize(stage) x4, energy query, q change, u change, disable, enable} per element with state-resident parameters, law evaluated at the harness's shadow parameters after every history. non-trivial = the law predicts a non-zero force or energy (laws) / the history contains a setter (history)";
    run.assumptions = {"continuous values only from the fixed tables of engine/models.h and engine/forcemodels.h", "body poses / velocities entering the formulas are the library's kinematics (checked by C03-C05); mass properties from the harness's own table (mbref::massRef)", "MobilityLinearSpring/Stop only on coordinates with qdot_i == u_i (documented restriction)", "LinearBushing: where the translational force is applied on each body is fixed by action-reaction at M's origin (the header documents only the generalized forces)", "MobilityLinearStop potential energy 1/2 k x^2 is implied by, not written in, the header", "Thermostat chain-derivative law compared only for the default 3 chains"};
    for (int h = 0; h < fm::NHOST_ALL; ++h) { std::string why; if (!fm::checkHostTables(h, &why)) { run.harnessError(why); return run.finish(); } }
    std::vector<int> valueSets = th ? std::vector<int>{0, 1, 2} : std::vector<int>{(int)(((run.seed % 3) + 3) % 3)};
    const int depth = th ? 4 : 3;

    // ---- history replay
    if (run.replaying() && run.replayField("section") == "history") {
        auto specs = historySpecs(); const int fx = atoi(run.replayField("fixture").c_str()); const int vs = atoi(run.replayField("valueset").c_str());
        HFix F(specs[fx].host, specs[fx].elem, specs[fx].attach, vs);
        runHistory(run, F, parseIdx(run.replayField("history")), "");
        return run.finish();
    }

    // ---- laws
    {
        std::vector<Unit> units;
        for (int h = 0; h < (th ? fm::NHOST_ALL : fm::NHOST); ++h) for (int e = 0; e < fm::NELEM; ++e) for (int p = 0; p < fm::numParamSets(e); ++p) for (int a = 0; a < fm::numAttachments(h, e); ++a) units.push_back({h, e, p, a});
        verif::Odometer od; od.dim("state", 4); od.dim("valueset", (int64_t)valueSets.size()); od.dim("unit", (int64_t)units.size());
        run.parallel("laws", od.size(), [&](int64_t idx) {
            auto d = od.digits(idx); const Unit& u = units[d[2]];
            std::string desc = "laws item=" + std::to_string(idx) + " host=" + fm::hostName(u.host) + " " + fm::elemName(u.elem) + "/p" + std::to_string(u.pset) + "/" + fm::attachments(u.host, u.elem)[u.attach].str + " state=" + std::to_string(d[0]) + " vs=" + std::to_string(valueSets[d[1]]);
            try { lawCase(run, u, d[0], valueSets[d[1]], desc); }
            catch (const std::exception& e) { run.violation(std::string("exception/") + fm::elemName(u.elem), std::string("exception: ") + e.what() + " at " + desc, run.replayHeader()); }
            if (idx % 2003 == 0) run.sample(desc);
        });
    }
    // ---- gravity
    {
        std::vector<GravCase> gc;
        for (int st = 1; st <= (th ? 2 : 1); ++st) for (int subset = 0; subset < 8; ++subset) for (int how = 0; how < 3; ++how) for (int mag = 0; mag < 3; ++mag) for (int zh = 0; zh < 2; ++zh) {
            for (int dir = 0; dir < 26; ++dir) for (int ctor = 0; ctor < 2; ++ctor) gc.push_back({subset, how, mag, dir, zh, ctor, 0, st});
            for (int up = 0; up < 3; ++up) gc.push_back({subset, how, mag, 0, zh, 2, up, st});
        }
        verif::Odometer od; od.dim("valueset", (int64_t)valueSets.size()); od.dim("case", (int64_t)gc.size());
        run.parallel("gravity", od.size(), [&](int64_t idx) {
            auto d = od.digits(idx); const GravCase& g = gc[d[1]];
            std::string desc = "gravity item=" + std::to_string(idx) + " excluded-subset=" + std::to_string(g.subset) + " how=" + (g.how == 0 ? "default-flag" : g.how == 1 ? "state-setter" : "exclude-all-realize-reinclude") + " magnitude#" + std::to_string(g.mag) + " direction#" + std::to_string(g.dir) + " zeroHeight#" + std::to_string(g.zh) + " ctor=" + std::to_string(g.ctor) + " up#" + std::to_string(g.up) + " state=" + std::to_string(g.state) + " vs=" + std::to_string(valueSets[d[0]]);
            try { gravityCase(run, g, valueSets[d[0]], desc); }
            catch (const std::exception& e) { run.violation("exception/gravity-section", std::string("exception: ") + e.what() + " at " + desc, run.replayHeader()); }
            if (idx % 1499 == 0) run.sample(desc);
        });
    }
    // ---- defaults
    {
        struct DU { int host, elem, attach; }; std::vector<DU> du;
        const int elems[] = {fm::EMobilityLinearSpring, fm::EMobilityLinearDamper, fm::EMobilityConstantForce, fm::EMobilityLinearStop, fm::EMobilityDiscreteForce, fm::ELinearBushing, fm::EUniformGravity, fm::EGravity};
        for (int h = 0; h < (th ? fm::NHOST_ALL : fm::NHOST); ++h) for (int e : elems) for (int a = 0; a < fm::numAttachments(h, e); ++a) du.push_back({h, e, a});
        verif::Odometer od; od.dim("state", 4); od.dim("valueset", (int64_t)valueSets.size()); od.dim("unit", (int64_t)du.size());
        run.parallel("defaults", od.size(), [&](int64_t idx) {
            auto d = od.digits(idx); const DU& u = du[d[2]];
            std::string desc = "defaults item=" + std::to_string(idx) + " host=" + fm::hostName(u.host) + " " + fm::elemName(u.elem) + "/" + fm::attachments(u.host, u.elem)[u.attach].str + " state=" + std::to_string(d[0]) + " vs=" + std::to_string(valueSets[d[1]]);
            try { defaultsCase(run, u.host, u.elem, u.attach, d[0], valueSets[d[1]], desc); }
            catch (const std::exception& e) { run.violation(std::string("exception/defaults/") + fm::elemName(u.elem), std::string("exception: ") + e.what() + " at " + desc, run.replayHeader()); }
        });
    }
    // ---- history: plain enumeration of all histories, sharded over (fixture, value set, first two operations)
    {
        auto specs = historySpecs();
        struct HU { int fx, vs, a, b; }; std::vector<HU> hu;
        std::vector<int> nops; for (auto& sp : specs) { HFix F(sp.host, sp.elem, sp.attach, 0); nops.push_back((int)F.ops.size()); }
        for (int fx = 0; fx < (int)specs.size(); ++fx) for (int vs : valueSets) for (int a = 0; a < nops[fx]; ++a) for (int b = 0; b < nops[fx]; ++b) hu.push_back({fx, vs, a, b});
        run.parallel("history", (int64_t)hu.size(), [&](int64_t i) {
            const HU& u = hu[i];
            static int built = -1, builtVs = -1; static std::unique_ptr<HFix> F;
            if (built != u.fx || builtVs != u.vs) { F.reset(new HFix(specs[u.fx].host, specs[u.fx].elem, specs[u.fx].attach, u.vs)); built = u.fx; builtVs = u.vs; }
            const int n = (int)F->ops.size();
            std::vector<std::vector<int> > hs;
            if (u.b == 0) hs.push_back({u.a});
            hs.push_back({u.a, u.b});
            std::function<void(std::vector<int>&)> ext = [&](std::vector<int>& h) { if ((int)h.size() >= depth) return; for (int o = 0; o < n; ++o) { h.push_back(o); hs.push_back(h); ext(h); h.pop_back(); } };
            { std::vector<int> h = {u.a, u.b}; ext(h); }
            for (auto& h : hs) runHistory(run, *F, h, "section=history\nitem=" + std::to_string(i) + "\nfixture=" + std::to_string(u.fx) + "\nvalueset=" + std::to_string(u.vs) + "\nhistory=" + histIdx(h) + "\n# " + histStr(*F, h) + "\n");
            if (i % 211 == 0) run.sample(std::string(fm::elemName(F->I.elem)) + " history: " + histStr(*F, hs.back()));
        });
        run.extraCoverage["history_depth"] = std::to_string(depth);
    }
    return run.finish();
}
