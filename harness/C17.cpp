// VERIF_SOURCES: engine/vsched.cpp
// VERIF_LIBS: -ldl
// VERIF_TSAN_SOURCES: Simbody/src/GeneralForceSubsystem.cpp SimTKcommon/src/ParallelExecutor.cpp
//
// C17 -- Force totals are independent of threading and scheduling.
// Engine E1: a real MultibodySystem (2 pin bodies) + GeneralForceSubsystem with every subset of five
// harness Force::Custom kinds {parallel P1, parallel P2, non-parallel velocity-dependent N,
// non-parallel position-only C, parallel position-only PC}; thread counts {2,3}; three consecutive
// realizations (cache invalid -> mode CachedAndNonCached or All; after a u change -> NonCached;
// after an enable-flag flip -> cache invalid again).  Harness forces add small integers with a
// read / scheduling point / write in the middle of their "+=", so "equal up to summation order"
// becomes bitwise equality with the serial (1 thread) reference.  Every interleaving of the explored
// realization with <= B preemptions is executed; the other realizations run on the default schedule.
#include "Simbody.h"
#include "verif.h"
#ifndef VERIF_FREE
#include "vsched.h"
#endif
#include <thread>

using namespace SimTK;

#ifdef VERIF_FREE
static void yieldPoint(const char*) { std::this_thread::yield(); }
static void setExploring(bool) {}
#else
static void yieldPoint(const char* t) { sched::yield(t); }
static void setExploring(bool on) { sched::setExploring(on); }
#endif

struct Kind { const char* name; bool par; bool posOnly; int kMob; int kBody; };
static const Kind KINDS[5] = {
    {"P1", true, false, 1, 10},
    {"P2", true, false, 2, 20},
    {"N", false, false, 4, 40},
    {"C", false, true, 8, 80},
    {"PC", true, true, 16, 160},
};

class HForce : public Force::Custom::Implementation {
public:
    explicit HForce(int k) : k(k) {}
    void calcForce(const State& s, Vector_<SpatialVec>& bf, Vector_<Vec3>& pf, Vector& mf) const override {
        const Kind& K = KINDS[k];
        // integer-valued so that floating-point addition is exact and order-free
        Real add = K.kMob + (K.posOnly ? 0 : s.getU()[0]);
        Real v = mf[0];
        yieldPoint(K.name);
        mf[0] = v + add;
        Vec3 f = bf[1][1];
        yieldPoint(K.name);
        bf[1][1] = f + Vec3(K.kBody, 0, K.posOnly ? 0 : s.getU()[1]);
        Real w = mf[1];
        mf[1] = w + 2 * K.kMob;
    }
    Real calcPotentialEnergy(const State&) const override { return 0; }
    bool dependsOnlyOnPositions() const override { return KINDS[k].posOnly; }
    bool shouldBeParallelIfPossible() const override { return KINDS[k].par; }
private:
    int k;
};

struct Totals { std::vector<double> v; bool operator==(const Totals& o) const { return v == o.v; } };
static std::string totalsStr(const Totals& t) { std::string s; for (double x : t.v) s += verif::str(x) + " "; return s; }

// Build the system with force mix `mask`, T threads, run the three realizations; explore only realization `phase`
// (0,1,2; -1 = all, -2 = none).  Returns the totals observed after each realization.
static std::vector<Totals> runCase(int mask, int T, int phase) {
    setExploring(false);
    MultibodySystem sys; SimbodyMatterSubsystem matter(sys); GeneralForceSubsystem forces(sys);
    Body::Rigid body(MassProperties(1.0, Vec3(0), Inertia(1)));
    MobilizedBody::Pin b1(matter.Ground(), Transform(), body, Transform(Vec3(0, 1, 0)));
    MobilizedBody::Pin b2(b1, Transform(), body, Transform(Vec3(0, 1, 0)));
    std::vector<ForceIndex> fidx;
    for (int k = 0; k < 5; ++k) if (mask & (1 << k)) { Force::Custom f(forces, new HForce(k)); fidx.push_back(f.getForceIndex()); }
    forces.setNumberOfThreads(T);
    sys.realizeTopology();
    State s = sys.getDefaultState();
    s.updU()[0] = 2; s.updU()[1] = 3;
    std::vector<Totals> out;
    auto snapshot = [&] {
        Totals t;
        const Vector_<SpatialVec>& bf = sys.getRigidBodyForces(s, Stage::Dynamics);
        const Vector& mf = sys.getMobilityForces(s, Stage::Dynamics);
        for (int i = 0; i < bf.size(); ++i) for (int a = 0; a < 2; ++a) for (int c = 0; c < 3; ++c) t.v.push_back(bf[i][a][c]);
        for (int i = 0; i < mf.size(); ++i) t.v.push_back(mf[i]);
        out.push_back(t);
    };
    // realization 1: cache invalid
    sys.realize(s, Stage::Velocity);
    setExploring(phase == 0 || phase == -1);
    sys.realize(s, Stage::Dynamics);
    setExploring(false);
    snapshot();
    // realization 2: only u changed -> position-only cache stays valid
    s.updU()[0] = 5; s.updU()[1] = 7;
    sys.realize(s, Stage::Velocity);
    setExploring(phase == 1 || phase == -1);
    sys.realize(s, Stage::Dynamics);
    setExploring(false);
    snapshot();
    // realization 3: flip an enable flag (the first force of the mix) -> Instance invalidated, cache invalid again
    if (!fidx.empty()) forces.setForceIsDisabled(s, fidx[0], true);
    sys.realize(s, Stage::Velocity);
    setExploring(phase == 2 || phase == -1);
    sys.realize(s, Stage::Dynamics);
    setExploring(false);
    snapshot();
    return out;
}

// Independent expectation of the totals after each realization, from the harness's own knowledge of what each enabled
// force contributes (integers).  The serial run is NOT trusted as the only reference: a defect that is the same for
// every thread count (e.g. a cached contribution counted twice) would otherwise be invisible.
static std::vector<Totals> expectedTotals(int mask) {
    std::vector<Totals> out;
    const double u0s[3] = {2, 5, 5}, u1s[3] = {3, 7, 7};
    int first = -1; for (int k = 0; k < 5; ++k) if (mask & (1 << k)) { first = k; break; }
    for (int r = 0; r < 3; ++r) {
        Totals t; t.v.assign(3 * 6 + 2, 0.0);     // Ground + 2 bodies, then 2 mobilities
        for (int k = 0; k < 5; ++k) {
            if (!(mask & (1 << k))) continue;
            if (r == 2 && k == first) continue;     // disabled in realization 3
            const Kind& K = KINDS[k];
            t.v[18 + 0] += K.kMob + (K.posOnly ? 0 : u0s[r]);
            t.v[18 + 1] += 2 * K.kMob;
            t.v[1 * 6 + 3 + 0] += K.kBody;                       // bf[1][1][0]
            t.v[1 * 6 + 3 + 2] += K.posOnly ? 0 : u1s[r];        // bf[1][1][2]
        }
        out.push_back(t);
    }
    return out;
}

static std::string maskStr(int mask) { std::string s; for (int k = 0; k < 5; ++k) if (mask & (1 << k)) s += std::string(s.empty() ? "" : "+") + KINDS[k].name; return s.empty() ? "none" : s; }

#ifdef VERIF_FREE
int main(int argc, char** argv) {
    int iters = argc > 1 ? atoi(argv[1]) : 50;
    long runs = 0, bad = 0;
    for (int mask = 0; mask < 32; ++mask) {
        printf("FREE-PROGRESS mask %d\n", mask); fflush(stdout);
        auto refT = runCase(mask, 1, -2);
        for (int T : {2, 3, 4, 8})
            for (int it = 0; it < iters; ++it) {
                auto got = runCase(mask, T, -2); runs++;
                for (int r = 0; r < 3; ++r) if (!(got[r] == refT[r])) { bad++; if (bad <= 5) printf("FREE-ORACLE-FAIL mask=%s T=%d realization=%d got %s want %s\n", maskStr(mask).c_str(), T, r + 1, totalsStr(got[r]).c_str(), totalsStr(refT[r]).c_str()); break; }
            }
    }
    printf("FREE-RUNS %ld\nFREE-BAD %ld\n", runs, bad);
    return 0;
}
#else
struct Scn { int mask, T, phase, bound; bool prune; std::string str() const { return "mix=" + maskStr(mask) + " mask=" + std::to_string(mask) + " T=" + std::to_string(T) + " phase=" + std::to_string(phase); } };
static Scn parseScn(const std::string& s) {
    Scn c{0, 2, 0, 2, false}; std::istringstream is(s); std::string tok;
    while (is >> tok) { size_t e = tok.find('='); if (e == std::string::npos) continue; std::string k = tok.substr(0, e); if (k == "mask") c.mask = atoi(tok.c_str() + e + 1); else if (k == "T") c.T = atoi(tok.c_str() + e + 1); else if (k == "phase") c.phase = atoi(tok.c_str() + e + 1); }
    return c;
}

int main(int argc, char** argv) {
    verif::Run run("C17", argc, argv);
    run.setDeadline(200, 3000);
    run.pinWorkers = true; run.maxSamples = 12;
    const bool th = run.thorough();
    run.rule = "E1: force mix (all 32 subsets of 5 harness force kinds) x threads {2,3} x explored realization {1: cache invalid, 2: cache valid after u change, 3: after enable flip}; every interleaving with <= B preemptions of the explored realization (scheduling points: pthread calls, hooks, the read/yield/write inside every harness force); a case = one complete schedule; non-trivial = worker threads existed. Grid: threads 1..16 x 32 mixes on the default schedule. Oracle: totals bitwise equal to the 1-thread reference after every realization.";
    run.assumptions = {"harness forces add integers, so floating-point sums are exact and order-free", "library force elements contain no scheduling points (their thread-safety is only monitored by the free-running pass)", "sequential consistency between scheduling points", "thread counts above 3 only on the default schedule"};

    std::vector<Scn> scns;
    for (int T : {2, 3}) for (int mask = 0; mask < 32; ++mask) for (int phase = 0; phase < 3; ++phase) {
        bool anyPar = mask & (1 | 2 | 16);
        if (!anyPar && phase > 0) continue;   // serial task: nothing to interleave, one phase is enough
        int bound = T == 2 ? 2 : (th ? 2 : 1);
        scns.push_back(Scn{mask, T, phase, bound, T == 3 && th});
        if (th && T == 2) scns.push_back(Scn{mask, T, phase, 3, true});
    }
    if (th) for (int mask : {1 | 4 | 8, 1 | 2 | 4 | 8 | 16, 16 | 4, 3}) scns.push_back(Scn{mask, 2, -1, 2, true});   // all three realizations explored jointly

    // serial references (1 thread), computed outside the scheduler
    std::vector<std::vector<Totals>> refs(32);
    for (int mask = 0; mask < 32; ++mask) {
        refs[mask] = runCase(mask, 1, -2);
        auto want = expectedTotals(mask);
        run.transition(1);
        for (int r = 0; r < 3; ++r) if (!(refs[mask][r] == want[r]))
            run.violation("serial-totals-differ-from-sum-of-contributions", "mix=" + maskStr(mask) + " 1 thread, realization " + std::to_string(r + 1) + ": totals " + totalsStr(refs[mask][r]) + "!= sum of the enabled forces' contributions " + totalsStr(want[r]), "section=serial\nmask=" + std::to_string(mask) + "\n");
        refs[mask] = want;      // every schedule is compared with the independent expectation
    }

    std::vector<Totals> got;
    auto explore = [&](const Scn& c, bool single) {
        sched::Explorer E;
        E.maxBound = single ? -1 : c.bound; E.hashPrune = c.prune;
        E.opt.horizon = 200000;
        E.reset = [&] { got.clear(); };
        E.body = [&] { got = runCase(c.mask, c.T, single ? -2 : c.phase); };
        E.stop = [&] { return run.expired(); };
        E.onFatal = [&](const sched::Trace& t) {
            std::string rp = run.replayHeader() + "scenario=" + c.str() + "\nchoices=" + sched::choicesToString(t.choices()) + "\n";
            if (t.outcome == "diverged") run.harnessError("schedule replay diverged: " + t.detail + " in " + c.str());
            else run.violation(t.outcome, t.outcome + " in [" + c.str() + "]: " + t.detail, rp);
            run.flushAndExitWorker();
        };
        E.onExecution = [&](const sched::Trace& t, int used) {
            run.evaluationDistinct(t.threads >= 2);
            run.transition((int64_t)t.steps);
            run.count("executions_with_" + std::to_string(used) + "_preemptions");
            bool ok = t.outcome == "ok" && got.size() == 3;
            int badR = -1;
            for (int r = 0; ok && r < 3; ++r) if (!(got[r] == refs[c.mask][r])) { ok = false; badR = r; }
            uint64_t oh = 7; for (auto& g : got) for (double x : g.v) oh = verif::hashPod(x, oh);
            run.outcome(oh);
            if (!ok) {
                std::string rp = run.replayHeader() + "scenario=" + c.str() + "\nchoices=" + sched::choicesToString(t.choices()) + "\n";
                bool cached = c.mask & (8 | 16);
                std::string key = t.outcome != "ok" ? "outcome/" + t.outcome : std::string("totals-differ/") + (cached ? "with-position-only-cache" : "no-cache");
                run.violation(key, "[" + c.str() + "] preemptions=" + std::to_string(used) + (badR >= 0 ? " realization " + std::to_string(badR + 1) + ": totals " + totalsStr(got[badR]) + "!= serial " + totalsStr(refs[c.mask][badR]) : " outcome " + t.outcome + " " + t.detail), rp);
            }
        };
        auto R = E.explore();
        run.count("choice_points", R.points);
        run.count("pruned_by_state_hash", R.pruned);
        run.count(single ? "scenario_states:grid" : "scenario_states:sched", R.distinctStates);
        if (!R.complete) run.acc.expired = true;
        if (!single && (c.mask == 13 || c.mask == 31 || c.mask == 1)) run.sample(c.str() + " -> executions=" + std::to_string(R.executions) + " bound=" + std::to_string(c.bound) + (c.prune ? " state-hash-pruned" : " plain") + " max_steps=" + std::to_string(R.maxSteps) + " threads=" + std::to_string(R.maxThreads));
        return R;
    };

    if (run.replaying()) {
        Scn c = parseScn(run.replayField("scenario"));
        auto choices = sched::choicesFromString(run.replayField("choices"));
        bool single = run.replayField("section") == "grid";
        sched::Explorer E; E.opt.horizon = 200000;
        E.reset = [&] { got.clear(); };
        E.body = [&] { got = runCase(c.mask, c.T, single ? -2 : c.phase); };
        E.onFatal = [&](const sched::Trace& t) { printf("replay outcome: %s (%s)\nVIOLATION property=C17 replay=%s\n", t.outcome.c_str(), t.detail.c_str(), run.replayPath.c_str()); _exit(1); };
        sched::Trace t1 = E.replay(choices); auto g1 = got;
        sched::Trace t2 = E.replay(choices); auto g2 = got;
        printf("scenario: %s\nchoices: %s\noutcome: %s steps=%lld threads=%d\n", c.str().c_str(), sched::choicesToString(t1.choices()).c_str(), t1.outcome.c_str(), (long long)t1.steps, t1.threads);
        bool bad = false;
        for (int r = 0; r < (int)g1.size(); ++r) {
            bool eq = g1[r] == refs[c.mask][r];
            printf("  realization %d totals: %s%s\n", r + 1, totalsStr(g1[r]).c_str(), eq ? "(= serial)" : ("!= serial " + totalsStr(refs[c.mask][r])).c_str());
            bad |= !eq;
        }
        if (g1.size() != g2.size() || !std::equal(g1.begin(), g1.end(), g2.begin())) { printf("replay is not deterministic\n"); return 2; }
        if (bad) { printf("VIOLATION property=C17 replay=%s\n", run.replayPath.c_str()); return 1; }
        return 0;
    }

    run.parallel("sched", (int64_t)scns.size(), [&](int64_t i) { explore(scns[i], false); });
    // grid: threads 1..16 x all mixes, default schedule
    std::vector<Scn> grid;
    for (int T = 1; T <= 16; ++T) for (int mask = 0; mask < 32; ++mask) grid.push_back(Scn{mask, T, -2, 0, false});
    run.parallel("grid", (int64_t)grid.size(), [&](int64_t i) { explore(grid[i], true); });

    // free-running monitor (TSan build; same bodies; totals oracle)
    {
        // same (relative) spelling of the build directory as bin/check and bin/setup.sh, so the depfile targets match
        std::string bdir = run.buildDir.rfind(run.verifDir + "/", 0) == 0 ? run.buildDir.substr(run.verifDir.size() + 1) : run.buildDir;
        std::string mk = "make -s -C " + run.verifDir + " -f harness/Makefile REPO=" + run.repoDir + " B=" + bdir + " " + bdir + "/bin/C17_tsan 2>&1";
        FILE* p = popen(mk.c_str(), "r"); std::string out; char buf[4096];
        while (p && fgets(buf, sizeof buf, p)) out += buf;
        int rc = p ? pclose(p) : -1;
        if (rc != 0) run.harnessError("building the TSan race-pass harness failed: " + out.substr(0, 2000));
        else {
            // no wall-clock limit: the pass prints a progress line per force mix and is killed only after 900 s of silence (see verif::runWatched)
            std::string cmd = "TSAN_OPTIONS='halt_on_error=0 report_signal_unsafe=0 history_size=4' " + run.buildDir + "/bin/C17_tsan " + std::to_string(th ? 40 : 6) + " 2>&1";
            std::string rep; bool hung = false;
            int prc = verif::runWatched(cmd, 900, rep, hung);
            int reports = 0; long freeRuns = 0, freeBad = 0; std::string first;
            std::istringstream is(rep); std::string l;
            while (std::getline(is, l)) {
                if (l.find("WARNING: ThreadSanitizer") != std::string::npos) reports++;
                if (l.rfind("FREE-RUNS", 0) == 0) freeRuns = atol(l.substr(9).c_str());
                if (l.rfind("FREE-BAD", 0) == 0) freeBad = atol(l.substr(8).c_str());
                if (first.empty() && l.rfind("FREE-ORACLE-FAIL", 0) == 0) first = l;
            }
            run.extraCoverage["race_pass"] = "{\"runs\": " + std::to_string(freeRuns) + ", \"tsan_reports\": " + std::to_string(reports) + ", \"oracle_failures\": " + std::to_string(freeBad) + "}";
            if (freeRuns == 0 && prc != 0 && rep.find("FREE-ORACLE-FAIL") == std::string::npos)
                run.violation("free-run-hang-or-crash", std::string(hung ? "the free-running pass printed no progress for 900 s (hang: deadlock or lost wake-up on the real, unscheduled code)" : "the free-running pass crashed") + " (wait status " + std::to_string(prc) + ")", "section=race\ncommand=" + cmd + "\n" + rep.substr(0, 2000));
            else if (freeRuns == 0) run.harnessError("free-running pass produced no runs: " + rep.substr(0, 1500));
            if (reports > 0) run.violation("race/GeneralForceSubsystem", "ThreadSanitizer reported " + std::to_string(reports) + " data race(s) in the free-running pass", "section=race\ncommand=" + cmd + "\n" + rep.substr(0, 6000));
            if (freeBad > 0) run.violation("free-run-totals-differ", "free-running pass: totals differ from the serial reference in " + std::to_string(freeBad) + " of " + std::to_string(freeRuns) + " runs; first: " + first, "section=race\ncommand=" + cmd + "\n" + rep.substr(0, 3000));
        }
    }
    run.statesOverride = run.acc.counters["scenario_states:sched"] + run.acc.counters["scenario_states:grid"];
    return run.finish();
}
#endif
