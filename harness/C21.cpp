// C21 -- Integrators keep constrained states on the manifold.
// Engine E3.  Systems: single- and pair-constraint systems over the C08 instance tables (engine/consmodels.h) on the host
// trees, with gravity, x prescribed pattern {none, Motion::Sinusoid at Position level on R4, R2 locked at Position level},
// plus unconstrained quaternion models (every quaternion mobilizer kind x direction x role).  Each is integrated from an
// assembled state over a short horizon by every integrator x accuracy x constraint tolerance x setProjectEveryStep x
// (setAllowInterpolation, setProjectInterpolatedStates) x setUseInfinityNorm x {no event, one triggered time witness},
// with setReturnEveryInternalStep(true) and a dense report grid (forces interpolated returns).
// Oracle on EVERY state the integrator returns (initial, every internal step, every report, the pre-event state, the state
// after event handling, the final state):
//   * unless it is an interpolated state and setProjectInterpolatedStates(false):
//       max( norm(W .* perr), norm(quaternion length errors) ) <= getConstraintToleranceInUse(), same for W .* verr,
//       norm = RMS or infinity according to setUseInfinityNorm, recomputed by the harness in long double;
//       every quaternion recomputed from q has unit length within that norm
//   * always: prescribed motion exact (locked q bitwise, locked u = 0, Sinusoid q/u = a sin(wt+p), a w cos(wt+p)); state finite.
// Integration failures (exceptions) are allowed outcomes and counted.
//
// OPTIONS section (namespace opt): integrator x scenario x model x the integrator OPTIONS under which projection is decided:
//   step-size control {adaptive, setFixedStepSize(hA|hB|hC), setMinimumStepSize(hB), setMaximumStepSize(hA)} (h from a table per
//   integrator x accuracy: error estimate mostly below accuracy / inside (accuracy, 2^p accuracy] / beyond) x setProjectEveryStep {not
//   called, false, true} x setProjectInterpolatedStates x setUseInfinityNorm x setConstraintTolerance {not called, looser, tighter than
//   accuracy/10} x accuracy; scenarios: no event, {triggered, scheduled} x handler {no-op, leaves q 10 x tolerance off, leaves u off,
//   jumps q and u and projects itself}.  Same manifold oracle; interpolated REPORT states are exempt when interpolated-state projection
//   is off, step states and the states after events never are.  Documented (System::handleEvents): a handler that changes continuous
//   variables must leave the state within the tolerance -> the one state returned right after a handler that did not is not judged
//   (counted), every later one is; the state returned after a handler changed q/u must be the handler's state, bit for bit, with status
//   StartOfContinuousInterval.
#include "Simbody.h"
#include "verif.h"
#include "models.h"
#include "consmodels.h"
#include "refkit.h"
#include "IntegratorRep.h"           // white box: OPTIONS section, naming the regime of a violating step (opt::reattempt)
#include "AbstractIntegratorRep.h"

using namespace SimTK;
using ref::LD;

std::string mb::nodeTypeName(const mb::Model&, int) { return ""; }

#include <new>
void* operator new(std::size_t n) { void* p = std::malloc(n ? n : 1); if (!p) throw std::bad_alloc(); std::memset(p, 0xFF, n); return p; }
void* operator new[](std::size_t n) { void* p = std::malloc(n ? n : 1); if (!p) throw std::bad_alloc(); std::memset(p, 0xFF, n); return p; }
void operator delete(void* p) noexcept { std::free(p); }
void operator delete[](void* p) noexcept { std::free(p); }
void operator delete(void* p, std::size_t) noexcept { std::free(p); }
void operator delete[](void* p, std::size_t) noexcept { std::free(p); }

static const double NORM_REL = 1e-9, NORM_ABS = 1e-13;   // as in C09
static const double SIN_A = 0.3, SIN_W = 2.0, SIN_P = 0.4;
static const double HORIZON = 0.3, REPORT_DT = 0.0125, WITNESS_T = 0.137;
static const int MAX_RETURNS = 300;

// ---------------------------------------------------------------- instance tables (identical to harness/C08.cpp)
static const int NINST = 20;
static cons::ConsSpec instanceSpec(int i, int variantList) {
    using namespace cons;
    static const int tab[NINST][5] = {
        {CRod, ASiblings, 0, 0, 0}, {CBall, AGroundBody, 1, 1, 0}, {CWeld, AViaGround, 0, 2, 0}, {CPointInPlane, AAncDesc2, 0, 0, 0},
        {CPointOnLine, AParentChild, 1, 1, 0}, {CConstantAngle, ASiblings, 0, 2, 1}, {CConstantOrientation, AGroundBody, 0, 1, 0}, {CNoSlip1D, ASiblings, 0, 0, 2},
        {CConstantCoordinate, AAncDesc2, 0, 0, 0}, {CConstantSpeed, AParentChild, 0, 0, 0}, {CConstantAcceleration, ASiblings, 0, 0, 0}, {CCoordinateCoupler, AParentChild, 0, 0, 1},
        {CSpeedCoupler, AAncDesc2, 0, 0, 0}, {CPrescribedMotion, AViaGround, 0, 0, 1}, {CPointOnPlaneContact, AGroundBody, 0, 2, 0}, {CSphereOnPlaneContact, AViaGround, 1, 0, 1},
        {CSphereOnSphereContact, AParentChild, 0, 2, 1}, {CLineOnLineContact, ASiblings, 1, 1, 1}, {CCustomRod, ASiblings, 0, 0, 0}, {CCustomConstantSpeed, AParentChild, 0, 0, 0}};
    static const int tab2[NINST][5] = {
        {CRod, AAncDesc2, 1, 2, 0}, {CBall, ASiblings, 0, 0, 0}, {CWeld, AGroundBody, 1, 1, 0}, {CPointInPlane, AViaGround, 1, 1, 0},
        {CPointOnLine, ASiblings, 0, 2, 0}, {CConstantAngle, AAncDesc2, 1, 0, 0}, {CConstantOrientation, AViaGround, 1, 2, 0}, {CNoSlip1D, AGroundBody, 0, 1, 1},
        {CConstantCoordinate, AGroundBody, 0, 0, 0}, {CConstantSpeed, ASiblings, 0, 0, 0}, {CConstantAcceleration, AViaGround, 0, 0, 0}, {CCoordinateCoupler, ASiblings, 1, 0, 0},
        {CSpeedCoupler, AParentChild, 0, 0, 2}, {CPrescribedMotion, AAncDesc2, 0, 0, 0}, {CPointOnPlaneContact, ASiblings, 1, 0, 0}, {CSphereOnPlaneContact, AAncDesc2, 0, 2, 0},
        {CSphereOnSphereContact, AGroundBody, 1, 0, 1}, {CLineOnLineContact, AViaGround, 0, 2, 0}, {CCustomRod, AAncDesc2, 1, 2, 0}, {CCustomConstantSpeed, ASiblings, 0, 0, 0}};
    const int* t = variantList ? tab2[i] : tab[i];
    ConsSpec cs; cs.type = t[0]; cs.attach = t[1]; cs.swap = t[2]; cs.lat = t[3]; cs.var = t[4];
    return cs;
}

// a witness on time: its sign is exact
class Witness : public TriggeredEventHandler {
public:
    explicit Witness(Real c) : TriggeredEventHandler(Stage::Time), c(c) {}
    Real getValue(const State& s) const override { return s.getTime() - c; }
    void handleEvent(State&, Real, bool&) const override {}
private:
    Real c;
};

static const int NINTEG = 10;
static const char* integName(int i) { static const char* n[] = {"RungeKuttaMerson", "RungeKutta3", "RungeKuttaFeldberg", "RungeKutta2", "ExplicitEuler", "Verlet", "SemiExplicitEuler", "SemiExplicitEuler2", "CPodes(BDF)", "CPodes(Adams)"}; return n[i]; }
static Integrator* makeIntegrator(int i, const System& sys) {
    switch (i) {
        case 0: return new RungeKuttaMersonIntegrator(sys);
        case 1: return new RungeKutta3Integrator(sys);
        case 2: return new RungeKuttaFeldbergIntegrator(sys);
        case 3: return new RungeKutta2Integrator(sys);
        case 4: return new ExplicitEulerIntegrator(sys);
        case 5: return new VerletIntegrator(sys);
        case 6: return new SemiExplicitEulerIntegrator(sys, 0.004);
        case 7: return new SemiExplicitEuler2Integrator(sys);
        case 8: return new CPodesIntegrator(sys, CPodes::BDF);
        default: return new CPodesIntegrator(sys, CPodes::Adams);
    }
}

// ---------------------------------------------------------------- harness-side norms (as in C09)
static LD normOf(const std::vector<LD>& v, bool inf) {
    if (v.empty()) return 0;
    LD m = 0, ss = 0;
    for (LD x : v) { if (!(fabsl(x) <= m)) m = fabsl(x); ss += x * x; }
    if (inf) return m;
    return std::isnan((double)m) ? m : sqrtl(ss / (LD)v.size());
}
static bool sameBits(Real a, Real b) { return std::memcmp(&a, &b, sizeof(Real)) == 0; }
static bool allFinite(const Vector& v) { for (int i = 0; i < v.size(); ++i) if (!std::isfinite(v[i])) return false; return true; }

struct Sut {
    std::unique_ptr<mb::Model> M;
    std::string name;
    std::vector<int> quatStart;
    int presc = 0;                  // 0 none, 1 Sinusoid(Position) on body sinBody, 2 body lockBody locked at Position level
    int sinBody = -1, lockBody = -1;
    Vector lockedQ;
    bool hasEvent = false;
    bool touchesQuat = false;
};

struct RunCfg { int integ, acc, tol, pes, interp, inf, event; };
static std::string cfgStr(const RunCfg& c) {
    static const char* in[] = {"interp+projected", "interp+unprojected", "no-interp"};
    return std::string(integName(c.integ)) + " acc=" + (c.acc ? "1e-6" : "1e-3") + " tol=" + (c.tol ? "1e-8" : "default") + (c.pes ? " projectEveryStep" : "") + " " + in[c.interp] + (c.inf ? " infnorm" : " rms") + (c.event ? " event" : "");
}

struct Judge {
    verif::Run& run; const Sut& S; const std::string& desc; int64_t nJudged = 0, nInterp = 0, nUnprojected = 0; bool postEvent = false; Real prevT = -Infinity, prevStepT = -Infinity; std::string prevStatus;
    // returns false if the state is unusable
    void state(const Integrator& I, const State& s, bool interpolated, bool projInterp, bool inf, const char* status, const std::string& integ) {
        mb::Model& M = *S.M;
        const Real tol = I.getConstraintToleranceInUse();
        auto where = [&] { return desc + " status=" + status + " t=" + verif::fmtd(s.getTime()) + (interpolated ? " (interpolated)" : ""); };
        auto rp = [&] { return run.replayHeader() + where() + "\n"; };
        ++nJudged; if (interpolated) ++nInterp;
        if (!run.expect(allFinite(s.getQ()) && allFinite(s.getU()), "returned-state-not-finite/" + integ, where, rp)) return;
        try { M.system.realize(s, Stage::Velocity); } catch (const std::exception& e) { run.count("unspecified:returned-state-cannot-be-realized"); return; }
        // prescribed motion: always
        if (S.presc == 1) {
            const MobilizedBody& b = M.bodies[S.sinBody]; const Real t = s.getTime();
            const Real q = b.getOneQ(s, 0), u = b.getOneU(s, 0);
            run.residual("prescribed-sinusoid-q", std::abs(q - SIN_A * std::sin(SIN_W * t + SIN_P)), 1e-14, where, rp, integ);
            run.residual("prescribed-sinusoid-u", std::abs(u - SIN_A * SIN_W * std::cos(SIN_W * t + SIN_P)), 1e-14, where, rp, integ);
        } else if (S.presc == 2) {
            const MobilizedBody& b = M.bodies[S.lockBody]; const Vector q = b.getQAsVector(s), u = b.getUAsVector(s);
            bool same = true; for (int i = 0; i < q.size(); ++i) same = same && sameBits(q[i], S.lockedQ[i]);
            for (int i = 0; i < u.size(); ++i) same = same && u[i] == 0;
            run.expect(same, "locked-coordinates-not-kept/" + integ, where, rp);
        }
        const bool judgeManifold = !(interpolated && !projInterp);
        if (!judgeManifold) { ++nUnprojected; return; }
        // step size collapsed (the dynamics are numerically singular here): a TimeHasAdvanced state less than 1e-5 after the previous
        // trajectory state (a step end that coincides with a report is returned twice and is not counted as a step of length 0)
        const bool sameStateAgain = prevStatus == "ReachedReportTime" && s.getTime() == prevT;
        const bool stalled = !interpolated && !postEvent && !sameStateAgain && s.getTime() - prevStepT < 1e-5 && std::string(status) == "TimeHasAdvanced";
        if (stalled) run.count("stalled-steps(h<1e-5)/" + integ);
        const std::string kind = interpolated ? "interpolated" : (postEvent ? "first-state-after-event-handling" : stalled ? "step-with-h-below-1e-5" : "step");
        prevT = s.getTime(); prevStatus = status; if (!interpolated) prevStepT = s.getTime();
        const Vector& e = s.getQErr(); const Vector& w = s.getQErrWeights();
        const int mq = M.matter.getNumQuaternionsInUse(s), mh = e.size() - mq;
        std::vector<LD> a(mh), b(mq), c;
        for (int i = 0; i < mh; ++i) a[i] = (LD)e[i] * (LD)w[i];
        for (int i = 0; i < mq; ++i) b[i] = e[mh + i];
        for (int q0 : S.quatStart) { LD ss = 0; for (int k = 0; k < 4; ++k) ss += (LD)s.getQ()[q0 + k] * (LD)s.getQ()[q0 + k]; c.push_back(sqrtl(ss) - 1); }
        const Vector& ve = s.getUErr(); const Vector& vw = s.getUErrWeights();
        std::vector<LD> v(ve.size()); for (int i = 0; i < ve.size(); ++i) v[i] = (LD)ve[i] * (LD)vw[i];
        if (run.verbose && getenv("C21_TRACE")) printf("    t=%.17g %-26s %s perr/tol=%.3g quat/tol=%.3g verr/tol=%.3g\n", s.getTime(), status, interpolated ? "I" : " ", (double)(normOf(a, inf) / tol), (double)(std::max(normOf(b, inf), normOf(c, inf)) / tol), (double)(normOf(v, inf) / tol));
        run.residual("perr-norm/tolerance:" + integ, (double)((normOf(a, inf) - NORM_ABS) / tol), 1 + NORM_REL, where, rp, kind + (S.touchesQuat ? "/constraint-on-quaternion-component" : ""));
        run.residual("quaternion-norm/tolerance:" + integ, (double)((std::max(normOf(b, inf), normOf(c, inf)) - NORM_ABS) / tol), 1 + NORM_REL, where, rp, kind);
        run.residual("verr-norm/tolerance:" + integ, (double)((normOf(v, inf) - NORM_ABS) / tol), 1 + NORM_REL, where, rp, kind);
    }
};

// one integration run
static void integrate(verif::Run& run, Sut& S, const State& init, const RunCfg& c, const std::string& desc) {
    mb::Model& M = *S.M;
    std::unique_ptr<Integrator> I(makeIntegrator(c.integ, M.system));
    const std::string integ = integName(c.integ);
    I->setAccuracy(c.acc ? 1e-6 : 1e-3);
    if (c.tol) I->setConstraintTolerance(1e-8);
    I->setProjectEveryStep(c.pes != 0);
    I->setAllowInterpolation(c.interp != 2);
    I->setProjectInterpolatedStates(c.interp != 1);
    I->setUseInfinityNorm(c.inf != 0);
    I->setReturnEveryInternalStep(true);
    I->setFinalTime(init.getTime() + HORIZON);
    const bool projInterp = c.interp != 1, inf = c.inf != 0;
    Judge J{run, S, desc};
    run.evaluationDistinct(true);
    const Real t0 = init.getTime();
    try {
        I->initialize(init);
        const Real tolUse = I->getConstraintToleranceInUse();
        const Real tolExpected = c.tol ? 1e-8 : (c.acc ? 1e-6 : 1e-3) / 10;   // documented: default = accuracy/10 (IntegratorRep.h)
        if (I->methodHasErrorControl()) run.expect(tolUse == tolExpected, "constraint-tolerance-in-use/" + integ, [&] { return "tolerance in use " + verif::fmtd(tolUse) + " expected " + verif::fmtd(tolExpected) + ": " + desc; });
        J.state(*I, I->getState(), false, projInterp, inf, "Initialized", integ);
        int k = 1, returns = 0; bool ended = false;
        HandleEventsOptions hopts(tolUse); if (inf) hopts.setOption(HandleEventsOptions::UseInfinityNorm);
        while (!ended && returns < MAX_RETURNS) {
            const Real tReport = t0 + k * REPORT_DT;
            Integrator::SuccessfulStepStatus st = I->stepTo(tReport);
            ++returns;
            const char* sn = Integrator::getSuccessfulStepStatusString(st).c_str();
            run.count(std::string("status:") + Integrator::getSuccessfulStepStatusString(st).c_str());
            if (st == Integrator::EndOfSimulation) { ended = true; J.state(*I, I->getState(), I->isStateInterpolated(), projInterp, inf, "EndOfSimulation", integ); break; }
            J.state(*I, I->getState(), I->isStateInterpolated(), projInterp, inf, Integrator::getSuccessfulStepStatusString(st).c_str(), integ);
            (void)sn; J.postEvent = false;
            if (st == Integrator::ReachedReportTime) { while (t0 + k * REPORT_DT <= I->getTime()) ++k; }
            else if (st == Integrator::ReachedEventTrigger) {
                HandleEventsResults hres;
                M.system.handleEvents(I->updAdvancedState(), Event::Cause::Triggered, I->getTriggeredEvents(), hopts, hres);
                I->reinitialize(hres.getLowestModifiedStage(), hres.getExitStatus() == HandleEventsResults::ShouldTerminate);
                run.count("events-handled"); J.postEvent = true;
            }
        }
        if (!ended) run.count("run:truncated-after-max-returns"); else run.count("run:completed");
    } catch (const std::exception& e) {
        run.count("run:integration-threw/" + integ);
        if (run.verbose) printf("  %s: threw %s\n", desc.c_str(), e.what());
    }
    run.count("states-judged/" + integ, J.nJudged);
    run.count("interpolated-states/" + integ, J.nInterp);
    run.count("interpolated-states-not-projected(by-option)/" + integ, J.nUnprojected);
    run.outcome(verif::hashMix(verif::hashPod(J.nJudged), verif::hashPod(J.nInterp * 1000 + c.integ)));
    if (run.verbose) printf("  %s: %lld states judged, %lld interpolated\n", desc.c_str(), (long long)J.nJudged, (long long)J.nInterp);
}

static void addGravity(mb::Model& M) { Force::UniformGravity(M.forces, M.matter, Vec3(0.3, -9.8, 1.1)); }

struct OptSpace { std::vector<int> integs; std::vector<std::pair<int, int> > accTols; std::vector<int> pess, interps, infs; };
static void runAll(verif::Run& run, Sut& S, const State& init, const OptSpace& sp, int eventFlag) {
    int n = 0;
    for (int ig : sp.integs) for (auto& at : sp.accTols) for (int p : sp.pess) for (int ip : sp.interps) for (int f : sp.infs) {
        RunCfg c{ig, at.first, at.second, p, ip, f, eventFlag};
        integrate(run, S, init, c, S.name + " run=" + std::to_string(n++) + " {" + cfgStr(c) + "}");
    }
}


// =====================================================================================================================
// OPTIONS section: the integrator options under which projection is decided x state-modifying / scheduled event handlers.
// The Sut, the manifold norms and the bound are those of the sections above (normsOf() repeats Judge::state's formulas).
// =====================================================================================================================
namespace opt {

enum { SC_ADAPTIVE, SC_FIXED_A, SC_FIXED_B, SC_FIXED_C, SC_MIN_B, SC_MAX_A, NSC };
static const char* scName(int s) { static const char* n[] = {"adaptive", "fixed-hA", "fixed-hB", "fixed-hC", "min-hB", "max-hA"}; return n[s]; }
enum { EV_NONE, EV_TRIG_NOOP, EV_TRIG_Q, EV_TRIG_U, EV_TRIG_WELL, EV_SCHED_NOOP, EV_SCHED_Q, EV_SCHED_U, EV_SCHED_WELL, NEV };
static const char* evName(int e) { static const char* n[] = {"no-event", "triggered/handler-noop", "triggered/handler-perturbs-q", "triggered/handler-perturbs-u", "triggered/handler-jumps-q-u-and-projects",
    "scheduled/handler-noop", "scheduled/handler-perturbs-q", "scheduled/handler-perturbs-u", "scheduled/handler-jumps-q-u-and-projects"}; return n[e]; }
enum { ACT_NOOP, ACT_Q, ACT_U, ACT_WELL };
static int evKind(int ev) { return ev == EV_NONE ? 0 : (ev <= EV_TRIG_WELL ? 1 : 2); }      // 0 none, 1 triggered, 2 scheduled
static int evAction(int ev) { return ev == EV_NONE ? ACT_NOOP : (ev - 1) % 4; }
static const Real TRIG_T = 0.0537, SCHED_T[2] = {0.0411, 0.0925};

static const double ACCS[2] = {1e-3, 1e-6};
static const int NPES = 3, NINTERP = 2, NINF = 2, NTOL = 3, NACC = 2, NREST = NINTERP * NINF * NTOL * NACC;
struct Cfg { int integ, stepctl, pes /*0 not called, 1 false, 2 true*/, interp /*0 interpolated states projected, 1 not projected*/, inf, tol /*0 default, 1 loose, 2 tight*/, acc; };
static double accOf(const Cfg& c) { return ACCS[c.acc]; }
static double tolOf(const Cfg& c) { const double a = accOf(c); return c.tol == 0 ? a / 10 : (c.tol == 1 ? a : a / 100); }

// step sizes per integrator x accuracy: hA (local error estimate mostly below accuracy), hB (mostly between accuracy and 2^p x accuracy,
// the window in which a failed step is still projected), hC (mostly above the window).  Calibrated on the unchanged tree (notes/C21.md);
// value set (seed%3) scales them by {1, 1.25, 0.8}.
static double hTable(int integ, int acc, int cls, int vs) {
    static const double T[NINTEG][2][3] = {
        /* RungeKuttaMerson   */ {{0.04, 0.15, 0.3}, {0.006, 0.05, 0.2}},
        /* RungeKutta3        */ {{0.01, 0.07, 0.3}, {0.001, 0.0075, 0.05}},
        /* RungeKuttaFeldberg */ {{0.05, 0.15, 0.3}, {0.02, 0.12, 0.3}},
        /* RungeKutta2        */ {{0.0025, 0.018, 0.09}, {0.00025, 0.00057, 0.0028}},
        /* ExplicitEuler      */ {{0.002, 0.011, 0.06}, {0.00025, 0.0007, 0.003}},
        /* Verlet             */ {{0.004, 0.02, 0.1}, {0.001, 0.0055, 0.03}},
        /* SemiExplicitEuler  */ {{0.002, 0.011, 0.06}, {0.00025, 0.0007, 0.003}},
        /* SemiExplicitEuler2 */ {{0.002, 0.011, 0.06}, {0.00025, 0.0007, 0.003}},
        /* CPodes(BDF)        */ {{0.003, 0.02, 0.1}, {0.0006, 0.006, 0.03}},
        /* CPodes(Adams)      */ {{0.003, 0.02, 0.1}, {0.0006, 0.006, 0.03}}};
    static const double scale[3] = {1, 1.25, 0.8};
    return T[integ][acc][cls] * scale[vs];
}
static double hOf(const Cfg& c, int vs) {
    switch (c.stepctl) { case SC_FIXED_A: case SC_MAX_A: return hTable(c.integ, c.acc, 0, vs); case SC_FIXED_B: case SC_MIN_B: return hTable(c.integ, c.acc, 1, vs); case SC_FIXED_C: return hTable(c.integ, c.acc, 2, vs); default: return 0; }
}
static std::string cfgStr(const Cfg& c, int vs) {
    static const char* pn[] = {"projectEveryStep:default", "projectEveryStep:false", "projectEveryStep:true"}, *tn[] = {"tol=default", "tol=loose(=acc)", "tol=tight(=acc/100)"};
    std::string s = std::string(integName(c.integ)) + " stepctl=" + scName(c.stepctl);
    if (c.stepctl != SC_ADAPTIVE) s += "(h=" + verif::fmtd(hOf(c, vs)) + ")";
    return s + " " + pn[c.pes] + (c.interp ? " interpolated-states-unprojected" : " interpolated-states-projected") + (c.inf ? " infnorm" : " rms") + " acc=" + (c.acc ? "1e-6" : "1e-3") + " " + tn[c.tol];
}

// ---------------------------------------------------------------- event handlers that change the state
struct HandlerCtl {
    const MultibodySystem* sys = nullptr; int action = ACT_NOOP; bool inf = false; Real t0 = 0;
    int fired = 0; bool haveOut = false; Vector qOut, uOut;
};
static const Real PERT[8] = {1, -0.7, 0.5, -1.3, 0.9, -0.4, 1.1, -0.8};
static void handlerAct(HandlerCtl& c, State& s, Real accuracy) {
    ++c.fired;
    if (c.action == ACT_NOOP) return;
    if (c.action == ACT_Q || c.action == ACT_WELL) { const Real d = c.action == ACT_Q ? 10 * accuracy : 2e-3; Vector& q = s.updQ(); for (int i = 0; i < q.size(); ++i) q[i] += d * PERT[i % 8]; }
    if (c.action == ACT_U || c.action == ACT_WELL) { const Real d = c.action == ACT_U ? 10 * accuracy : 5e-2; Vector& u = s.updU(); for (int i = 0; i < u.size(); ++i) u[i] += d * PERT[(i + 3) % 8]; }
    if (c.action == ACT_WELL) {   // "the handler is required to make sure the returned state satisfies the constraints to the accuracy level specified" (System::handleEvents)
        ProjectOptions po(accuracy); if (c.inf) po.setOption(ProjectOptions::UseInfinityNorm);
        ProjectResults r; Vector none;
        c.sys->realize(s, Stage::Time); c.sys->prescribeQ(s); c.sys->realize(s, Stage::Position);
        c.sys->projectQ(s, none, po, r);
        c.sys->prescribeU(s); c.sys->realize(s, Stage::Velocity);
        r.clear(); c.sys->projectU(s, none, po, r);
    }
    c.qOut = s.getQ(); c.uOut = s.getU(); c.haveOut = true;
}
class TrigHandler : public TriggeredEventHandler {
public:
    explicit TrigHandler(HandlerCtl* c) : TriggeredEventHandler(Stage::Time), c(c) {}
    Real getValue(const State& s) const override { return s.getTime() - (c->t0 + TRIG_T); }      // a witness on time: its sign is exact
    void handleEvent(State& s, Real accuracy, bool&) const override { handlerAct(*c, s, accuracy); }
private:
    HandlerCtl* c;
};
class SchedHandler : public ScheduledEventHandler {
public:
    explicit SchedHandler(HandlerCtl* c) : c(c) {}
    Real getNextEventTime(const State& s, bool includeCurrentTime) const override {
        for (Real dt : SCHED_T) { const Real te = c->t0 + dt; if (te > s.getTime() || (includeCurrentTime && te == s.getTime())) return te; }
        return Infinity;
    }
    void handleEvent(State& s, Real accuracy, bool&) const override { handlerAct(*c, s, accuracy); }
private:
    HandlerCtl* c;
};

// ---------------------------------------------------------------- norms of a state realized to Velocity (the formulas of Judge::state)
struct Norms { LD perr, quat, verr; };
static Norms normsOf(const Sut& S, const State& s, bool inf) {
    mb::Model& M = *S.M;
    const Vector& e = s.getQErr(); const Vector& w = s.getQErrWeights();
    const int mq = M.matter.getNumQuaternionsInUse(s), mh = e.size() - mq;
    std::vector<LD> a(mh), b(mq), c;
    for (int i = 0; i < mh; ++i) a[i] = (LD)e[i] * (LD)w[i];
    for (int i = 0; i < mq; ++i) b[i] = e[mh + i];
    for (int q0 : S.quatStart) { LD ss = 0; for (int k = 0; k < 4; ++k) ss += (LD)s.getQ()[q0 + k] * (LD)s.getQ()[q0 + k]; c.push_back(sqrtl(ss) - 1); }
    const Vector& ve = s.getUErr(); const Vector& vw = s.getUErrWeights();
    std::vector<LD> v(ve.size()); for (int i = 0; i < ve.size(); ++i) v[i] = (LD)ve[i] * (LD)vw[i];
    return Norms{normOf(a, inf), std::max(normOf(b, inf), normOf(c, inf)), normOf(v, inf)};
}
static bool within(LD n, Real tol) { return (double)((n - NORM_ABS) / tol) <= 1 + NORM_REL; }

static Integrator* makeIntegratorOpt(const Cfg& c, const System& sys, int vs) {
    if (c.integ == 6) return new SemiExplicitEulerIntegrator(sys, c.stepctl == SC_ADAPTIVE ? 0.004 : hOf(c, vs));   // no error control: the step size is a constructor argument
    return makeIntegrator(c.integ, sys);
}
static void configure(Integrator& I, const Cfg& c, int vs, Real tFinal) {
    I.setAccuracy(accOf(c));
    if (c.tol) I.setConstraintTolerance(tolOf(c));
    if (c.pes) I.setProjectEveryStep(c.pes == 2);
    I.setAllowInterpolation(true);
    I.setProjectInterpolatedStates(c.interp == 0);
    I.setUseInfinityNorm(c.inf != 0);
    I.setReturnEveryInternalStep(true);
    I.setFinalTime(tFinal);
    const Real h = hOf(c, vs);
    switch (c.stepctl) {
        case SC_FIXED_A: case SC_FIXED_B: case SC_FIXED_C: I.setFixedStepSize(h); break;
        case SC_MIN_B: I.setMinimumStepSize(h); break;
        case SC_MAX_A: I.setMaximumStepSize(h); break;
        default: break;
    }
}

// White box, used ONLY to name the regime of a step state that already violates the oracle at a user-limited (fixed / minimum) step
// size: the step [tPrev, tAdvanced] is re-attempted on a twin integrator from the original's saved start of step.
//   "error-estimate-beyond-projection-window": the ODE step converged and its error estimate exceeds 2^p x accuracy (the step is
//        "not worth projecting" for attemptDAEStep, yet adjustStepSize accepts it because the step size cannot shrink);
//   "after-convergence-failure": attemptDAEStep reports failure (e.g. projection did not converge), yet the step is accepted.
// Also used in calibration mode (C21_CALIB) to histogram the error estimate of every fixed-size step.
struct Regime { bool valid = false, odeConverged = false, daeConverged = false; Real errOverAcc = NaN; int errOrder = 0; };
static Regime reattempt(Sut& S, const Integrator& I, const Cfg& c, int vs, const State& init, std::unique_ptr<Integrator>& twin) {
    Regime R;
    const AbstractIntegratorRep* ar = dynamic_cast<const AbstractIntegratorRep*>(&I.getRep());
    if (!ar) return R;
    try {
        if (!twin) { twin.reset(makeIntegratorOpt(c, S.M->system, vs)); configure(*twin, c, vs, init.getTime() + HORIZON); twin->initialize(init); }
        AbstractIntegratorRep& tr = dynamic_cast<AbstractIntegratorRep&>(twin->updRep());
        const Real t1 = I.getAdvancedState().getTime();
        if (!(t1 > ar->getPreviousTime())) return R;      // not the end of a step (e.g. the initial state)
        auto restart = [&] {
            State& adv = tr.updAdvancedState();
            adv = I.getAdvancedState();
            adv.updTime() = ar->getPreviousTime(); adv.updY() = ar->getPreviousY();
            tr.realizeStateDerivatives(adv);
            tr.saveStateAndDerivsAsPrevious(adv);
        };
        const int ny = I.getAdvancedState().getNY();
        if (c.integ <= 3) {     // the integrators that use AbstractIntegratorRep::attemptDAEStep
            restart();
            Vector yErrEst(ny); int errOrder = 0, nIt = 1, worst;
            bool conv = false;
            try { conv = tr.attemptODEStep(t1, yErrEst, errOrder, nIt); } catch (...) { conv = false; }
            R.odeConverged = conv; R.errOrder = errOrder;
            if (conv) R.errOverAcc = tr.calcErrorNorm(tr.getAdvancedState(), yErrEst, worst) / tr.getAccuracyInUse();
        }
        restart();
        { Vector yErrEst(ny); int errOrder = 0, nIt = 1; R.daeConverged = tr.attemptDAEStep(t1, yErrEst, errOrder, nIt); if (c.integ > 3) R.errOrder = errOrder; }
        R.valid = true;
    } catch (const std::exception&) { R.valid = false; }
    return R;
}
static std::string regimeName(const Cfg& c, const Regime& R) {
    if (!R.valid) return "";
    if (c.integ <= 3 && R.odeConverged && R.errOverAcc > std::pow(2.0, R.errOrder)) return "step-accepted-at-user-limited-step-size/error-estimate-beyond-projection-window";
    if (!R.daeConverged) return "step-accepted-at-user-limited-step-size/after-convergence-failure";
    return "";
}

struct OJudge {
    verif::Run& run; Sut& S; const Cfg& c; int vs; const State& init; const std::string& desc; const std::string integ;
    int64_t nJudged = 0, nInterp = 0, nUnprojected = 0;
    int postEvent = 0;            // 0 no, 1 first return after a triggered event was handled, 2 after a scheduled event
    bool handlerLeftOff = false;  // the handler's output state violates the tolerance (the handler, not the integrator, is responsible for it)
    bool fromOff = false;         // the current step starts from such a state
    const HandlerCtl* ctl = nullptr; bool checkOut = false;
    Real prevT = -Infinity, prevStepT = -Infinity; std::string prevStatus;
    std::unique_ptr<Integrator> twin;
    void state(const Integrator& I, const State& s, bool interpolated, const char* status) {
        mb::Model& M = *S.M;
        const Real tol = I.getConstraintToleranceInUse(); const bool inf = c.inf != 0, projInterp = c.interp == 0;
        auto where = [&] { return desc + " status=" + status + " t=" + verif::fmtd(s.getTime()) + (interpolated ? " (interpolated)" : ""); };
        auto rp = [&] { return run.replayHeader() + where() + "\n"; };
        ++nJudged; if (interpolated) ++nInterp;
        if (!run.expect(allFinite(s.getQ()) && allFinite(s.getU()), "returned-state-not-finite/" + integ, where, rp)) return;
        if (postEvent && checkOut && ctl && ctl->haveOut) {     // the state returned after a handler changed q/u is the handler's state
            bool same = !interpolated && s.getNQ() == ctl->qOut.size() && s.getNU() == ctl->uOut.size();
            for (int i = 0; same && i < s.getNQ(); ++i) same = sameBits(s.getQ()[i], ctl->qOut[i]);
            for (int i = 0; same && i < s.getNU(); ++i) same = sameBits(s.getU()[i], ctl->uOut[i]);
            run.expect(same && std::string(status) == "StartOfContinuousInterval", "state-after-handler-is-not-the-handlers-state/" + integ, where, rp);
            checkOut = false;
        }
        try { M.system.realize(s, Stage::Velocity); } catch (const std::exception&) { run.count("unspecified:returned-state-cannot-be-realized"); return; }
        if (interpolated && !projInterp) { ++nUnprojected; return; }
        if (postEvent && handlerLeftOff) {   // documented: the HANDLER must leave the state within tolerance; nothing is promised for this state
            run.count("unspecified:first-state-after-a-handler-that-left-the-state-off-the-manifold/" + integ);
            prevT = s.getTime(); prevStatus = status; prevStepT = s.getTime(); fromOff = true; handlerLeftOff = false; return;
        }
        const bool sameStateAgain = prevStatus == "ReachedReportTime" && s.getTime() == prevT;
        const bool stalled = !interpolated && !postEvent && !sameStateAgain && s.getTime() - prevStepT < 1e-5 && std::string(status) == "TimeHasAdvanced";
        if (stalled) run.count("stalled-steps(h<1e-5)/" + integ);
        std::string kind = interpolated ? (fromOff ? "interpolated-in-first-step-after-handler-left-state-off-manifold" : "interpolated")
            : postEvent == 1 ? "first-state-after-event-handling" : postEvent == 2 ? "first-state-after-scheduled-event-handling"
            : fromOff ? "first-step-after-handler-left-state-off-manifold" : std::string(status) == "ReachedScheduledEvent" ? "state-at-scheduled-event" : stalled ? "step-with-h-below-1e-5" : "step";
        const bool ordinaryStep = !interpolated && !postEvent;     // the end of an internal step exactly as takeOneStep left it
        if (!interpolated) fromOff = false;
        prevT = s.getTime(); prevStatus = status; if (!interpolated) prevStepT = s.getTime();
        const Norms n = normsOf(S, s, inf);
        if (run.verbose && getenv("C21_TRACE")) printf("    t=%.17g %-26s %s perr/tol=%.3g quat/tol=%.3g verr/tol=%.3g\n", s.getTime(), status, interpolated ? "I" : " ", (double)(n.perr / tol), (double)(n.quat / tol), (double)(n.verr / tol));
        const bool limited = c.stepctl >= SC_FIXED_A && c.stepctl <= SC_MIN_B;
        static const bool calib = getenv("C21_CALIB") != nullptr;
        if (limited && ordinaryStep && (calib || !within(n.perr, tol) || !within(n.quat, tol) || !within(n.verr, tol))) {
            const Regime R = reattempt(S, I, c, vs, init, twin);
            const std::string r = regimeName(c, R);
            if (calib && R.valid) {
                const double w = std::pow(2.0, R.errOrder);
                const char* cls = c.integ > 3 ? (R.daeConverged ? "converged" : "not-converged") : !R.odeConverged ? "ode-not-converged" : R.errOverAcc <= 1 ? "below-accuracy" : R.errOverAcc <= w ? "in-window" : "beyond-window";
                run.count(std::string("calib:error-estimate/") + integ + "/acc=" + (c.acc ? "1e-6" : "1e-3") + "/" + scName(c.stepctl) + "/" + cls);
                if (c.integ <= 3 && R.odeConverged && getenv("C21_CALIB_H")) {   // h at which this step's estimate would equal the accuracy (err ~ h^p): log2 buckets of h* = h (acc/err)^(1/p)
                    const double hs = (I.getAdvancedState().getTime() - I.getRep().getPreviousTime()) * std::pow(1 / std::max(R.errOverAcc, 1e-300), 1.0 / R.errOrder);
                    char b[64]; snprintf(b, sizeof b, "%+03d", (int)std::floor(2 * std::log2(hs)));
                    run.count(std::string("calibh:") + integ + "/acc=" + (c.acc ? "1e-6" : "1e-3") + "/p=" + std::to_string(R.errOrder) + "/2log2(hstar)=" + b);
                }
            }
            if (!(within(n.perr, tol) && within(n.quat, tol) && within(n.verr, tol))) { run.count("limited-step-violations-classified/" + (!R.valid ? std::string("not-an-AbstractIntegratorRep-step") : r.empty() ? std::string("ordinary-step") : r)); if (!r.empty()) kind = r; }
        }
        // the kinds that exist only in this section are judged by ONE residual, the largest of the three ratios (equivalent to the three
        // separate comparisons; keeps the number of keys per regime at one per integrator); the kinds shared with the sections above keep
        // their three oracles and keys
        const bool oneKey = kind == "state-at-scheduled-event" || kind.compare(0, 40, "step-accepted-at-user-limited-step-size/") == 0;
        const double rP = (double)((n.perr - NORM_ABS) / tol), rQ = (double)((n.quat - NORM_ABS) / tol), rV = (double)((n.verr - NORM_ABS) / tol);
        if (oneKey) {
            const double worst = (std::isnan(rP) || std::isnan(rQ) || std::isnan(rV)) ? NaN : std::max(rP, std::max(rQ, rV));
            run.residual("constraint-norm/tolerance:" + integ, worst, 1 + NORM_REL, [&] { return where() + " perr/tol=" + verif::fmtd(rP) + " quat/tol=" + verif::fmtd(rQ) + " verr/tol=" + verif::fmtd(rV); }, rp, kind);
            return;
        }
        run.residual("perr-norm/tolerance:" + integ, rP, 1 + NORM_REL, where, rp, kind + (S.touchesQuat ? "/constraint-on-quaternion-component" : ""));
        run.residual("quaternion-norm/tolerance:" + integ, rQ, 1 + NORM_REL, where, rp, kind);
        run.residual("verr-norm/tolerance:" + integ, rV, 1 + NORM_REL, where, rp, kind);
    }
};

// one integration run, driven the way TimeStepper::stepTo drives an Integrator (scheduled event time from the System, handleEvents on
// the advanced state, reinitialize with the lowest modified stage)
static void integrateOpt(verif::Run& run, Sut& S, const State& init, const Cfg& c, int vs, int ev, HandlerCtl& ctl, const std::string& desc) {
    mb::Model& M = *S.M;
    std::unique_ptr<Integrator> I(makeIntegratorOpt(c, M.system, vs));
    const std::string integ = integName(c.integ);
    const Real t0 = init.getTime();
    configure(*I, c, vs, t0 + HORIZON);
    ctl.action = evAction(ev); ctl.inf = c.inf != 0; ctl.t0 = t0; ctl.fired = 0; ctl.haveOut = false;
    OJudge J{run, S, c, vs, init, desc, integ}; J.ctl = &ctl;
    run.evaluationDistinct(true);
    const std::string tag = std::string(scName(c.stepctl)) + "/" + integ;
    int eventsHandled = 0; bool reachedMin = false;
    try {
        I->initialize(init);
        const Real tolUse = I->getConstraintToleranceInUse();
        if (I->methodHasErrorControl()) run.expect(tolUse == tolOf(c), "constraint-tolerance-in-use/" + integ, [&] { return "tolerance in use " + verif::fmtd(tolUse) + " expected " + verif::fmtd(tolOf(c)) + ": " + desc; });
        J.state(*I, I->getState(), false, "Initialized");
        int k = 1, returns = 0; bool ended = false; Real lastEventTime = -Infinity;
        HandleEventsOptions hopts(tolUse); if (I->isInfinityNormInUse()) hopts.setOption(HandleEventsOptions::UseInfinityNorm);
        Array_<EventId> schedIds;
        while (!ended && returns < MAX_RETURNS) {
            const Real tReport = t0 + k * REPORT_DT;
            Real tSched = Infinity;
            if (evKind(ev) == 2) {
                M.system.realize(I->getState(), Stage::Time); M.system.realize(I->getAdvancedState(), Stage::Time);
                M.system.calcTimeOfNextScheduledEvent(I->getState(), tSched, schedIds, lastEventTime != I->getTime());
            }
            Integrator::SuccessfulStepStatus st = I->stepTo(tReport, tSched);
            ++returns;
            const std::string sn = Integrator::getSuccessfulStepStatusString(st);
            run.count("opt-status:" + sn);
            J.state(*I, I->getState(), I->isStateInterpolated(), sn.c_str());
            J.postEvent = 0;
            if (st == Integrator::EndOfSimulation) { ended = true; break; }
            if (c.stepctl == SC_ADAPTIVE && st == Integrator::TimeHasAdvanced && c.tol == 0 && getenv("C21_CALIB_H")) { char b[64]; snprintf(b, sizeof b, "%+03d", (int)std::floor(2 * std::log2(I->getPreviousStepSizeTaken()))); run.count(std::string("calibadapt:") + integ + "/acc=" + (c.acc ? "1e-6" : "1e-3") + "/2log2(h)=" + b); }
            if (c.stepctl == SC_MIN_B && st == Integrator::TimeHasAdvanced && I->getPreviousStepSizeTaken() <= hOf(c, vs) * (1 + 1e-12)) reachedMin = true;
            if (st == Integrator::ReachedReportTime) { while (t0 + k * REPORT_DT <= I->getTime()) ++k; }
            else if (st == Integrator::ReachedEventTrigger || st == Integrator::ReachedScheduledEvent) {
                const bool sched = st == Integrator::ReachedScheduledEvent;
                HandleEventsResults hres;
                ctl.haveOut = false;
                if (sched) { M.system.handleEvents(I->updAdvancedState(), Event::Cause::Scheduled, schedIds, hopts, hres); lastEventTime = I->getTime(); }
                else M.system.handleEvents(I->updAdvancedState(), Event::Cause::Triggered, I->getTriggeredEvents(), hopts, hres);
                if (ctl.haveOut) {   // the handler changed q/u: is its output within tolerance?
                    State tmp = I->getAdvancedState();
                    bool off = true;
                    try { M.system.realize(tmp, Stage::Velocity); const Norms n = normsOf(S, tmp, c.inf != 0); off = !(within(n.perr, tolUse) && within(n.quat, tolUse) && within(n.verr, tolUse)); } catch (const std::exception&) { off = true; }
                    J.handlerLeftOff = off; J.checkOut = true;
                    run.count(std::string("handler-output:") + evName(ev) + (off ? "/off-manifold" : "/within-tolerance"));
                }
                I->reinitialize(hres.getLowestModifiedStage(), hres.getExitStatus() == HandleEventsResults::ShouldTerminate);
                // after a triggered event the next return is the upper end of the event window (or the handler's state); after a
                // scheduled event whose handler changed nothing the next return is simply the end of the next step
                ++eventsHandled; J.postEvent = !sched ? 1 : (hres.getLowestModifiedStage() < Stage::Report ? 2 : 0);
            }
        }
        run.count(!ended ? "opt-run:truncated-after-max-returns" : "opt-run:completed");
    } catch (const std::exception& e) {
        run.count("opt-run:integration-threw/" + tag);
        if (run.verbose) printf("  %s: threw %s\n", desc.c_str(), e.what());
    }
    run.count(std::string("opt-events-handled:") + evName(ev), eventsHandled);
    if (ev != EV_NONE && !eventsHandled) run.count(std::string("opt-run:event-not-reached/") + tag);
    if (c.stepctl == SC_MIN_B) run.count(std::string("opt-run:minimum-step-size-") + (reachedMin ? "reached/" : "not-reached/") + integ);
    run.count("opt-states-judged/" + tag, J.nJudged);
    run.count("opt-interpolated-states/" + integ, J.nInterp);
    run.count("opt-interpolated-states-not-projected(by-option)/" + integ, J.nUnprojected);
    run.outcome(verif::hashMix(verif::hashPod(J.nJudged * 7 + eventsHandled), verif::hashPod(J.nInterp * 1000 + c.integ * 10 + c.stepctl)));
    if (run.verbose) printf("  %s: %lld states judged, %lld interpolated, %d events handled\n", desc.c_str(), (long long)J.nJudged, (long long)J.nInterp, eventsHandled);
}

}  // namespace opt

int main(int argc, char** argv) {
    verif::Run run("C21", argc, argv);
    run.setDeadline(900, 3600);
    if (const char* mv = getenv("C21_MAXV")) run.maxViolsPerKey = atoi(mv);
    const bool th = run.thorough();
    const int vs = (int)(((run.seed % 3) + 3) % 3);
    int64_t onlyLo = 0, onlyHi = INT64_MAX;
    if (const char* o = getenv("C21_ONLY")) { sscanf(o, "%ld:%ld", &onlyLo, &onlyHi); run.exhaustive = false; }
    int optLo = -1; if (const char* o = getenv("C21_OPTRUN")) { optLo = atoi(o); run.exhaustive = false; }   // replay aid: only this run= of an options item
    int optScen = -1; if (const char* o = getenv("C21_OPTSCEN")) { optScen = atoi(o); run.exhaustive = false; }   // development aid: only this scenario
    int optInteg = -1; if (const char* o = getenv("C21_OPTINTEG")) { optInteg = atoi(o); run.exhaustive = false; }   // development aid: only this integrator
    const bool skipOld = getenv("C21_SKIPOLD") != nullptr;   // development aid (marks the run non-exhaustive)
    if (skipOld) run.exhaustive = false;
    run.rule = "E3. constrained systems: constraint sets over the 20 canonical instances of the C08 tables (quick: every singleton of table 0 on host tree (i mod 3) and the 20 cyclic neighbour pairs {i,i+1} of table 0 on host tree (i mod 3); thorough: every singleton of both tables on every host tree and every unordered pair {i<j} of table 0 on host tree ((i+j) mod 3)) x quaternion/Euler x variant {plain, Motion::Sinusoid(Position) on R4, R2 locked at Position level, triggered time witness at t0+0.137} (pairs: plain only); gravity; initial state = generic state (value set seed%3) assembled by cons::makeState(4). "
               "quaternion models: {Ball, Free, Ellipsoid, LineOrientation, FreeLine, CustomBall} x direction x {base with a Pin child, tip on a Pin parent}, generic initial state. "
               "each x integrator (RungeKuttaMerson, RungeKutta3, RungeKuttaFeldberg, RungeKutta2, ExplicitEuler, Verlet, SemiExplicitEuler(h=0.004), SemiExplicitEuler2, CPodes BDF, CPodes Adams) x (accuracy, constraint tolerance) in {(1e-3,default),(1e-6,1e-8)} (thorough: {1e-3,1e-6} x {default,1e-8}) x setProjectEveryStep x {interpolation allowed + projected, allowed + not projected, not allowed} x setUseInfinityNorm; horizon 0.3 (at most 300 returned states), report grid 0.0125, setReturnEveryInternalStep(true). "
               "OPTIONS section: integrator (10) x scenario (9: no event; {triggered time witness at t0+0.0537, scheduled events at t0+0.0411 and t0+0.0925} x handler {changes nothing, adds 10 x tolerance x fixed pattern to every q, the same to every u, jumps q by 2e-3 and u by 5e-2 x pattern and projects to the tolerance and norm in use}) x model (62: every singleton of table 0 on host tree (i mod 3) x quaternion/Euler, the 22 quaternion models) "
               "x step-size control (6: adaptive, setFixedStepSize(hA|hB|hC), setMinimumStepSize(hB), setMaximumStepSize(hA); hA<hB<hC from a table per integrator x accuracy, calibrated so that the error estimate is mostly below accuracy / between accuracy and 2^p accuracy / above) x setProjectEveryStep (3: not called, false, true) "
               "x setProjectInterpolatedStates (2) x setUseInfinityNorm (2) x setConstraintTolerance (3: not called, = accuracy (10 x looser than the default), = accuracy/100) x accuracy (2: 1e-3, 1e-6); setReturnEveryInternalStep(true), interpolation allowed. thorough: the complete product (432 option vectors per integrator x scenario x model); "
               "quick: step-size control x setProjectEveryStep complete (18 per integrator x scenario x model), the other four option dimensions rotate with (5 model + 7 scenario + 11 stepctl + 13 projectEveryStep) mod 24, so every option value and every combination of the four occurs with every integrator x scenario x stepctl x projectEveryStep. distinct = distinct tuple; every run is non-trivial.";
    run.assumptions = {"continuous values only from the fixed tables", "norm recomputed in long double and accepted if <= tolerance*(1+1e-9)+1e-13", "interpolated states are exempt from the manifold clause when setProjectInterpolatedStates(false)",
        "exceptions thrown by initialize/stepTo are allowed outcomes (counted)", "runs are cut after 300 returned states (counted)", "the integrator is driven directly (Integrator::stepTo + System::handleEvents + reinitialize, as TimeStepper does; scheduled event times from System::calcTimeOfNextScheduledEvent)",
        "documented (System::handleEvents): a handler that changes continuous variables must itself leave the state within the tolerance; the state returned right after a handler that did not (10 x tolerance off) is not judged (counted unspecified:...), every later state is",
        "white box only to NAME the regime of an already violating step taken at a fixed / minimum step size (twin integrator re-attempts the step: error estimate vs 2^p x accuracy, convergence of attemptDAEStep); no oracle depends on it"};

    OptSpace full{{0, 1, 2, 3, 4, 5, 6, 7, 8, 9}, th ? std::vector<std::pair<int, int> >{{0, 0}, {0, 1}, {1, 0}, {1, 1}} : std::vector<std::pair<int, int> >{{0, 0}, {1, 1}}, {0, 1}, {0, 1, 2}, {0, 1}};
    struct SetDef { std::vector<int> inst; int list, host; };
    std::vector<SetDef> sets;
    if (th) {
        for (int list = 0; list < 2; ++list) for (int h = 0; h < 3; ++h) for (int i = 0; i < NINST; ++i) sets.push_back({{i}, list, h});
        for (int i = 0; i < NINST; ++i) for (int j = i + 1; j < NINST; ++j) sets.push_back({{i, j}, 0, (i + j) % 3});
    } else {
        for (int i = 0; i < NINST; ++i) sets.push_back({{i}, 0, i % 3});
        for (int i = 0; i < NINST; ++i) sets.push_back({{i, (i + 1) % NINST}, 0, i % 3});
    }
    {
        verif::Odometer od; od.dim("integ", NINTEG); od.dim("event", 2); od.dim("presc", 3); od.dim("coord", 2); od.dim("set", (int64_t)sets.size());
        run.parallel("constrained", od.size(), [&](int64_t idx) {
            if (skipOld || idx < onlyLo || idx >= onlyHi) return;
            auto d = od.digits(idx);
            const int integ = d[0], ev = d[1], presc = d[2], euler = d[3]; const SetDef& sd = sets[d[4]];
            if (ev && presc) { run.count("skipped:event-combined-only-with-presc-none"); return; }
            if (sd.inst.size() > 1 && (ev || presc)) { run.count("skipped:pairs-run-without-event-and-prescription"); return; }
            Sut S; S.M = mb::build(cons::hostSpecs(sd.host), euler != 0);
            mb::Model& M = *S.M; S.presc = presc; S.hasEvent = ev != 0;
            std::string setName;
            for (int i : sd.inst) {
                cons::ConsSpec cs = instanceSpec(i, sd.list);
                if (!cons::legalCombination(cs, sd.host, euler != 0)) { run.count("skipped:illegal-instance"); return; }
                cons::Added a = cons::addConstraint(M, cs, sd.host);
                S.touchesQuat = S.touchesQuat || a.touchesQuaternionCoordinate;
                setName += (setName.empty() ? "" : ",") + cs.str();
            }
            addGravity(M);
            if (presc == 1) { S.sinBody = 4; Motion::Sinusoid(M.bodies[4], Motion::Position, SIN_A, SIN_W, SIN_P); }
            if (ev) M.system.addEventHandler(new Witness(0.3 + WITNESS_T));
            S.name = "host=" + std::to_string(sd.host) + (euler ? " euler" : " quat") + " list=" + std::to_string(sd.list) + " set={" + setName + "} presc=" + std::to_string(presc) + (ev ? " event" : "") + " vs=" + std::to_string(vs) + " [" + od.describe(idx) + "]";
            bool ok = true; std::string err;
            State init;
            try {
                init = cons::makeState(M, 4, vs, &ok, &err, [&](State& st) { if (presc == 2) { S.lockBody = 2; M.bodies[2].lock(st, Motion::Position); } });
            } catch (const std::exception& e) { ok = false; err = e.what(); }
            if (!ok) { run.count("skipped:initial-state-not-assemblable"); if (run.verbose) printf("initial state failed: %s\n", err.c_str()); return; }
            for (size_t b = 0; b < M.bodies.size(); ++b) if (!M.euler && (M.specs[b].kind == mb::KBall || M.specs[b].kind == mb::KFree)) S.quatStart.push_back((int)M.bodies[b].getFirstQIndex(init));
            if (presc == 2) S.lockedQ = M.bodies[2].getQAsVector(init);
            run.count("items-run:constrained");
            OptSpace sp = full; sp.integs = {integ};
            runAll(run, S, init, sp, ev);
            if (idx % 97 == 0) run.sample(S.name);
        });
    }
    // ------------------------------------------------------------ unconstrained quaternion models
    {
        const int kinds[] = {mb::KBall, mb::KFree, mb::KEllipsoid, mb::KLineOrientation, mb::KFreeLine, mb::KCustomBall};
        struct QM { int kind, dir, role; }; std::vector<QM> qms;
        for (int k : kinds) for (int dir = 0; dir < 2; ++dir) for (int role = 0; role < 2; ++role) { if (dir && !mb::kindReversible(k)) continue; qms.push_back({k, dir, role}); }
        verif::Odometer od; od.dim("integ", NINTEG); od.dim("model", (int64_t)qms.size());
        run.parallel("quaternion-models", od.size(), [&](int64_t idx) {
            if (skipOld || idx < onlyLo || idx >= onlyHi) return;
            auto d = od.digits(idx); const QM& qm = qms[d[1]];
            mb::BodySpec g; g.kind = qm.kind; g.dir = qm.dir; g.frames = 3; g.mass = 0;
            mb::BodySpec p; p.kind = mb::KPin; p.frames = 3; p.mass = 1;
            std::vector<mb::BodySpec> specs; int gi;
            if (qm.role == 0) { g.parent = -1; p.parent = 0; specs = {g, p}; gi = 0; } else { p.parent = -1; g.parent = 0; specs = {p, g}; gi = 1; }
            Sut S; S.M = mb::build(specs, false); mb::Model& M = *S.M;
            addGravity(M);
            State init = mb::makeState(M, 1, vs);
            S.quatStart.push_back((int)M.bodies[gi].getFirstQIndex(init));
            S.name = std::string("quaternion-model ") + mb::kindName(qm.kind) + (qm.dir ? "/rev" : "/fwd") + (qm.role ? "/tip" : "/base") + " vs=" + std::to_string(vs) + " [" + od.describe(idx) + "]";
            run.count("items-run:quaternion-models");
            OptSpace sp = full; sp.integs = {d[0]};
            runAll(run, S, init, sp, 0);
            if (idx % 41 == 0) run.sample(S.name);
        });
    }
    // ------------------------------------------------------------ OPTIONS: step-size control x projection options x norms x tolerances x event handlers
    {
        using namespace opt;
        const int kinds[] = {mb::KBall, mb::KFree, mb::KEllipsoid, mb::KLineOrientation, mb::KFreeLine, mb::KCustomBall};
        struct QM { int kind, dir, role; }; std::vector<QM> qms;
        for (int k : kinds) for (int dir = 0; dir < 2; ++dir) for (int role = 0; role < 2; ++role) { if (dir && !mb::kindReversible(k)) continue; qms.push_back({k, dir, role}); }
        const int nCons = NINST * 2, nModels = nCons + (int)qms.size();      // model = singleton i of table 0 on host (i mod 3) x quaternion/Euler, then the quaternion models
        verif::Odometer od; od.dim("integ", NINTEG); od.dim("scenario", NEV); od.dim("model", nModels);
        run.parallel("options", od.size(), [&](int64_t idx) {
            if (idx < onlyLo || idx >= onlyHi) return;
            auto d = od.digits(idx);
            const int integ = d[0], ev = d[1], model = d[2];
            if ((optScen >= 0 && ev != optScen) || (optInteg >= 0 && integ != optInteg)) return;
            HandlerCtl ctl;
            Sut S; State init;
            if (model < nCons) {
                const int i = model / 2, euler = model % 2, host = i % 3;
                S.M = mb::build(cons::hostSpecs(host), euler != 0);
                mb::Model& M = *S.M;
                cons::ConsSpec cs = instanceSpec(i, 0);
                if (!cons::legalCombination(cs, host, euler != 0)) { run.count("opt-skipped:illegal-instance"); return; }
                cons::Added a = cons::addConstraint(M, cs, host);
                S.touchesQuat = a.touchesQuaternionCoordinate;
                addGravity(M);
                ctl.sys = &M.system;
                if (evKind(ev) == 1) M.system.addEventHandler(new TrigHandler(&ctl)); else if (evKind(ev) == 2) M.system.addEventHandler(new SchedHandler(&ctl));
                S.name = "host=" + std::to_string(host) + (euler ? " euler" : " quat") + " set={" + cs.str() + "}";
                bool ok = true; std::string err;
                try { init = cons::makeState(M, 4, vs, &ok, &err); } catch (const std::exception& e) { ok = false; err = e.what(); }
                if (!ok) { run.count("opt-skipped:initial-state-not-assemblable"); return; }
                for (size_t b = 0; b < M.bodies.size(); ++b) if (!M.euler && (M.specs[b].kind == mb::KBall || M.specs[b].kind == mb::KFree)) S.quatStart.push_back((int)M.bodies[b].getFirstQIndex(init));
            } else {
                const QM& qm = qms[model - nCons];
                mb::BodySpec g; g.kind = qm.kind; g.dir = qm.dir; g.frames = 3; g.mass = 0;
                mb::BodySpec p; p.kind = mb::KPin; p.frames = 3; p.mass = 1;
                std::vector<mb::BodySpec> specs; int gi;
                if (qm.role == 0) { g.parent = -1; p.parent = 0; specs = {g, p}; gi = 0; } else { p.parent = -1; g.parent = 0; specs = {p, g}; gi = 1; }
                S.M = mb::build(specs, false); mb::Model& M = *S.M;
                addGravity(M);
                ctl.sys = &M.system;
                if (evKind(ev) == 1) M.system.addEventHandler(new TrigHandler(&ctl)); else if (evKind(ev) == 2) M.system.addEventHandler(new SchedHandler(&ctl));
                init = mb::makeState(M, 1, vs);
                S.quatStart.push_back((int)M.bodies[gi].getFirstQIndex(init));
                S.name = std::string("quaternion-model ") + mb::kindName(qm.kind) + (qm.dir ? "/rev" : "/fwd") + (qm.role ? "/tip" : "/base");
            }
            S.name += std::string(" scenario=") + evName(ev) + " vs=" + std::to_string(vs) + " [" + od.describe(idx) + "]";
            run.count("items-run:options");
            int n = 0;
            for (int sc = 0; sc < NSC; ++sc) for (int pes = 0; pes < NPES; ++pes) {
                // thorough: the complete product; quick: (stepctl x projectEveryStep) complete, the other four option dimensions
                // rotate with (model, scenario, stepctl, projectEveryStep) so that every combination of them occurs with every
                // integrator x scenario x stepctl x projectEveryStep over the models (5 is coprime to 24)
                const int r0 = th ? 0 : (model * 5 + ev * 7 + sc * 11 + pes * 13) % NREST, r1 = th ? NREST : r0 + 1;
                for (int r = r0; r < r1; ++r) {
                    Cfg c{integ, sc, pes, r % NINTERP, (r / NINTERP) % NINF, (r / (NINTERP * NINF)) % NTOL, (r / (NINTERP * NINF * NTOL)) % NACC};
                    if (optLo >= 0 && n != optLo) { ++n; continue; }
                    integrateOpt(run, S, init, c, vs, ev, ctl, S.name + " run=" + std::to_string(n++) + " {" + cfgStr(c, vs) + "}");
                }
            }
            if (idx % 211 == 0) run.sample(S.name);
        });
    }
    return run.finish();
}
