// C21 -- Integrators keep constrained states on the manifold.
// Engine E3.  Systems: single- and pair-constraint systems over the C08 instance tables (engine/consmodels.h) on the host
// trees, with gravity, x prescribed pattern {none, Motion::Sinusoid at Position level on R4, R2 locked at Position level},
// plus unconstrained quaternion models (every quaternion mobilizer kind x direction x role).  Each is integrated from an
// assembled state over a short horizon by every integrator x accuracy x constraint tolerance x setProjectEveryStep x
// (setAllowInterpolation, setProjectInterpolatedStates) x setUseInfinityNorm x {no event, one triggered time witness},
// with setReturnEveryInternalStep(true) and a dense report grid (forces interpolated returns).
// Oracle on EVERY state the integrator returns (initial, every internal step, every report, the pre-event state, the state
// after event handling, the final state):
//   * unless it is an interpolated state and setProjectInterpolatedStates(false):
//       max( norm(W .* perr), norm(quaternion length errors) ) <= getConstraintToleranceInUse(), same for W .* verr,
//       norm = RMS or infinity according to setUseInfinityNorm, recomputed by the harness in long double;
//       every quaternion recomputed from q has unit length within that norm
//   * always: prescribed motion exact (locked q bitwise, locked u = 0, Sinusoid q/u = a sin(wt+p), a w cos(wt+p)); state finite.
// Integration failures (exceptions) are allowed outcomes and counted.
#include "Simbody.h"
#include "verif.h"
#include "models.h"
#include "consmodels.h"
#include "refkit.h"

using namespace SimTK;
using ref::LD;

std::string mb::nodeTypeName(const mb::Model&, int) { return ""; }

#include <new>
void* operator new(std::size_t n) { void* p = std::malloc(n ? n : 1); if (!p) throw std::bad_alloc(); std::memset(p, 0xFF, n); return p; }
void* operator new[](std::size_t n) { void* p = std::malloc(n ? n : 1); if (!p) throw std::bad_alloc(); std::memset(p, 0xFF, n); return p; }
void operator delete(void* p) noexcept { std::free(p); }
void operator delete[](void* p) noexcept { std::free(p); }
void operator delete(void* p, std::size_t) noexcept { std::free(p); }
void operator delete[](void* p, std::size_t) noexcept { std::free(p); }

static const double NORM_REL = 1e-9, NORM_ABS = 1e-13;   // as in C09
static const double SIN_A = 0.3, SIN_W = 2.0, SIN_P = 0.4;
static const double HORIZON = 0.3, REPORT_DT = 0.0125, WITNESS_T = 0.137;
static const int MAX_RETURNS = 300;

// ---------------------------------------------------------------- instance tables (identical to harness/C08.cpp)
static const int NINST = 20;
static cons::ConsSpec instanceSpec(int i, int variantList) {
    using namespace cons;
    static const int tab[NINST][5] = {
        {CRod, ASiblings, 0, 0, 0}, {CBall, AGroundBody, 1, 1, 0}, {CWeld, AViaGround, 0, 2, 0}, {CPointInPlane, AAncDesc2, 0, 0, 0},
        {CPointOnLine, AParentChild, 1, 1, 0}, {CConstantAngle, ASiblings, 0, 2, 1}, {CConstantOrientation, AGroundBody, 0, 1, 0}, {CNoSlip1D, ASiblings, 0, 0, 2},
        {CConstantCoordinate, AAncDesc2, 0, 0, 0}, {CConstantSpeed, AParentChild, 0, 0, 0}, {CConstantAcceleration, ASiblings, 0, 0, 0}, {CCoordinateCoupler, AParentChild, 0, 0, 1},
        {CSpeedCoupler, AAncDesc2, 0, 0, 0}, {CPrescribedMotion, AViaGround, 0, 0, 1}, {CPointOnPlaneContact, AGroundBody, 0, 2, 0}, {CSphereOnPlaneContact, AViaGround, 1, 0, 1},
        {CSphereOnSphereContact, AParentChild, 0, 2, 1}, {CLineOnLineContact, ASiblings, 1, 1, 1}, {CCustomRod, ASiblings, 0, 0, 0}, {CCustomConstantSpeed, AParentChild, 0, 0, 0}};
    static const int tab2[NINST][5] = {
        {CRod, AAncDesc2, 1, 2, 0}, {CBall, ASiblings, 0, 0, 0}, {CWeld, AGroundBody, 1, 1, 0}, {CPointInPlane, AViaGround, 1, 1, 0},
        {CPointOnLine, ASiblings, 0, 2, 0}, {CConstantAngle, AAncDesc2, 1, 0, 0}, {CConstantOrientation, AViaGround, 1, 2, 0}, {CNoSlip1D, AGroundBody, 0, 1, 1},
        {CConstantCoordinate, AGroundBody, 0, 0, 0}, {CConstantSpeed, ASiblings, 0, 0, 0}, {CConstantAcceleration, AViaGround, 0, 0, 0}, {CCoordinateCoupler, ASiblings, 1, 0, 0},
        {CSpeedCoupler, AParentChild, 0, 0, 2}, {CPrescribedMotion, AAncDesc2, 0, 0, 0}, {CPointOnPlaneContact, ASiblings, 1, 0, 0}, {CSphereOnPlaneContact, AAncDesc2, 0, 2, 0},
        {CSphereOnSphereContact, AGroundBody, 1, 0, 1}, {CLineOnLineContact, AViaGround, 0, 2, 0}, {CCustomRod, AAncDesc2, 1, 2, 0}, {CCustomConstantSpeed, ASiblings, 0, 0, 0}};
    const int* t = variantList ? tab2[i] : tab[i];
    ConsSpec cs; cs.type = t[0]; cs.attach = t[1]; cs.swap = t[2]; cs.lat = t[3]; cs.var = t[4];
    return cs;
}

// a witness on time: its sign is exact
class Witness : public TriggeredEventHandler {
public:
    explicit Witness(Real c) : TriggeredEventHandler(Stage::Time), c(c) {}
    Real getValue(const State& s) const override { return s.getTime() - c; }
    void handleEvent(State&, Real, bool&) const override {}
private:
    Real c;
};

static const int NINTEG = 10;
static const char* integName(int i) { static const char* n[] = {"RungeKuttaMerson", "RungeKutta3", "RungeKuttaFeldberg", "RungeKutta2", "ExplicitEuler", "Verlet", "SemiExplicitEuler", "SemiExplicitEuler2", "CPodes(BDF)", "CPodes(Adams)"}; return n[i]; }
static Integrator* makeIntegrator(int i, const System& sys) {
    switch (i) {
        case 0: return new RungeKuttaMersonIntegrator(sys);
        case 1: return new RungeKutta3Integrator(sys);
        case 2: return new RungeKuttaFeldbergIntegrator(sys);
        case 3: return new RungeKutta2Integrator(sys);
        case 4: return new ExplicitEulerIntegrator(sys);
        case 5: return new VerletIntegrator(sys);
        case 6: return new SemiExplicitEulerIntegrator(sys, 0.004);
        case 7: return new SemiExplicitEuler2Integrator(sys);
        case 8: return new CPodesIntegrator(sys, CPodes::BDF);
        default: return new CPodesIntegrator(sys, CPodes::Adams);
    }
}

// ---------------------------------------------------------------- harness-side norms (as in C09)
static LD normOf(const std::vector<LD>& v, bool inf) {
    if (v.empty()) return 0;
    LD m = 0, ss = 0;
    for (LD x : v) { if (!(fabsl(x) <= m)) m = fabsl(x); ss += x * x; }
    if (inf) return m;
    return std::isnan((double)m) ? m : sqrtl(ss / (LD)v.size());
}
static bool sameBits(Real a, Real b) { return std::memcmp(&a, &b, sizeof(Real)) == 0; }
static bool allFinite(const Vector& v) { for (int i = 0; i < v.size(); ++i) if (!std::isfinite(v[i])) return false; return true; }

struct Sut {
    std::unique_ptr<mb::Model> M;
    std::string name;
    std::vector<int> quatStart;
    int presc = 0;                  // 0 none, 1 Sinusoid(Position) on body sinBody, 2 body lockBody locked at Position level
    int sinBody = -1, lockBody = -1;
    Vector lockedQ;
    bool hasEvent = false;
    bool touchesQuat = false;
};

struct RunCfg { int integ, acc, tol, pes, interp, inf, event; };
static std::string cfgStr(const RunCfg& c) {
    static const char* in[] = {"interp+projected", "interp+unprojected", "no-interp"};
    return std::string(integName(c.integ)) + " acc=" + (c.acc ? "1e-6" : "1e-3") + " tol=" + (c.tol ? "1e-8" : "default") + (c.pes ? " projectEveryStep" : "") + " " + in[c.interp] + (c.inf ? " infnorm" : " rms") + (c.event ? " event" : "");
}

struct Judge {
    verif::Run& run; const Sut& S; const std::string& desc; int64_t nJudged = 0, nInterp = 0, nUnprojected = 0; bool postEvent = false; Real prevT = -Infinity, prevStepT = -Infinity; std::string prevStatus;
    // returns false if the state is unusable
    void state(const Integrator& I, const State& s, bool interpolated, bool projInterp, bool inf, const char* status, const std::string& integ) {
        mb::Model& M = *S.M;
        const Real tol = I.getConstraintToleranceInUse();
        auto where = [&] { return desc + " status=" + status + " t=" + verif::fmtd(s.getTime()) + (interpolated ? " (interpolated)" : ""); };
        auto rp = [&] { return run.replayHeader() + where() + "\n"; };
        ++nJudged; if (interpolated) ++nInterp;
        if (!run.expect(allFinite(s.getQ()) && allFinite(s.getU()), "returned-state-not-finite/" + integ, where, rp)) return;
        try { M.system.realize(s, Stage::Velocity); } catch (const std::exception& e) { run.count("unspecified:returned-state-cannot-be-realized"); return; }
        // prescribed motion: always
        if (S.presc == 1) {
            const MobilizedBody& b = M.bodies[S.sinBody]; const Real t = s.getTime();
            const Real q = b.getOneQ(s, 0), u = b.getOneU(s, 0);
            run.residual("prescribed-sinusoid-q", std::abs(q - SIN_A * std::sin(SIN_W * t + SIN_P)), 1e-14, where, rp, integ);
            run.residual("prescribed-sinusoid-u", std::abs(u - SIN_A * SIN_W * std::cos(SIN_W * t + SIN_P)), 1e-14, where, rp, integ);
        } else if (S.presc == 2) {
            const MobilizedBody& b = M.bodies[S.lockBody]; const Vector q = b.getQAsVector(s), u = b.getUAsVector(s);
            bool same = true; for (int i = 0; i < q.size(); ++i) same = same && sameBits(q[i], S.lockedQ[i]);
            for (int i = 0; i < u.size(); ++i) same = same && u[i] == 0;
            run.expect(same, "locked-coordinates-not-kept/" + integ, where, rp);
        }
        const bool judgeManifold = !(interpolated && !projInterp);
        if (!judgeManifold) { ++nUnprojected; return; }
        // step size collapsed (the dynamics are numerically singular here): a TimeHasAdvanced state less than 1e-5 after the previous
        // trajectory state (a step end that coincides with a report is returned twice and is not counted as a step of length 0)
        const bool sameStateAgain = prevStatus == "ReachedReportTime" && s.getTime() == prevT;
        const bool stalled = !interpolated && !postEvent && !sameStateAgain && s.getTime() - prevStepT < 1e-5 && std::string(status) == "TimeHasAdvanced";
        if (stalled) run.count("stalled-steps(h<1e-5)/" + integ);
        const std::string kind = interpolated ? "interpolated" : (postEvent ? "first-state-after-event-handling" : stalled ? "step-with-h-below-1e-5" : "step");
        prevT = s.getTime(); prevStatus = status; if (!interpolated) prevStepT = s.getTime();
        const Vector& e = s.getQErr(); const Vector& w = s.getQErrWeights();
        const int mq = M.matter.getNumQuaternionsInUse(s), mh = e.size() - mq;
        std::vector<LD> a(mh), b(mq), c;
        for (int i = 0; i < mh; ++i) a[i] = (LD)e[i] * (LD)w[i];
        for (int i = 0; i < mq; ++i) b[i] = e[mh + i];
        for (int q0 : S.quatStart) { LD ss = 0; for (int k = 0; k < 4; ++k) ss += (LD)s.getQ()[q0 + k] * (LD)s.getQ()[q0 + k]; c.push_back(sqrtl(ss) - 1); }
        const Vector& ve = s.getUErr(); const Vector& vw = s.getUErrWeights();
        std::vector<LD> v(ve.size()); for (int i = 0; i < ve.size(); ++i) v[i] = (LD)ve[i] * (LD)vw[i];
        if (run.verbose && getenv("C21_TRACE")) printf("    t=%.17g %-26s %s perr/tol=%.3g quat/tol=%.3g verr/tol=%.3g\n", s.getTime(), status, interpolated ? "I" : " ", (double)(normOf(a, inf) / tol), (double)(std::max(normOf(b, inf), normOf(c, inf)) / tol), (double)(normOf(v, inf) / tol));
        run.residual("perr-norm/tolerance:" + integ, (double)((normOf(a, inf) - NORM_ABS) / tol), 1 + NORM_REL, where, rp, kind + (S.touchesQuat ? "/constraint-on-quaternion-component" : ""));
        run.residual("quaternion-norm/tolerance:" + integ, (double)((std::max(normOf(b, inf), normOf(c, inf)) - NORM_ABS) / tol), 1 + NORM_REL, where, rp, kind);
        run.residual("verr-norm/tolerance:" + integ, (double)((normOf(v, inf) - NORM_ABS) / tol), 1 + NORM_REL, where, rp, kind);
    }
};

// one integration run
static void integrate(verif::Run& run, Sut& S, const State& init, const RunCfg& c, const std::string& desc) {
    mb::Model& M = *S.M;
    std::unique_ptr<Integrator> I(makeIntegrator(c.integ, M.system));
    const std::string integ = integName(c.integ);
    I->setAccuracy(c.acc ? 1e-6 : 1e-3);
    if (c.tol) I->setConstraintTolerance(1e-8);
    I->setProjectEveryStep(c.pes != 0);
    I->setAllowInterpolation(c.interp != 2);
    I->setProjectInterpolatedStates(c.interp != 1);
    I->setUseInfinityNorm(c.inf != 0);
    I->setReturnEveryInternalStep(true);
    I->setFinalTime(init.getTime() + HORIZON);
    const bool projInterp = c.interp != 1, inf = c.inf != 0;
    Judge J{run, S, desc};
    run.evaluationDistinct(true);
    const Real t0 = init.getTime();
    try {
        I->initialize(init);
        const Real tolUse = I->getConstraintToleranceInUse();
        const Real tolExpected = c.tol ? 1e-8 : (c.acc ? 1e-6 : 1e-3) / 10;   // documented: default = accuracy/10 (IntegratorRep.h)
        if (I->methodHasErrorControl()) run.expect(tolUse == tolExpected, "constraint-tolerance-in-use/" + integ, [&] { return "tolerance in use " + verif::fmtd(tolUse) + " expected " + verif::fmtd(tolExpected) + ": " + desc; });
        J.state(*I, I->getState(), false, projInterp, inf, "Initialized", integ);
        int k = 1, returns = 0; bool ended = false;
        HandleEventsOptions hopts(tolUse); if (inf) hopts.setOption(HandleEventsOptions::UseInfinityNorm);
        while (!ended && returns < MAX_RETURNS) {
            const Real tReport = t0 + k * REPORT_DT;
            Integrator::SuccessfulStepStatus st = I->stepTo(tReport);
            ++returns;
            const char* sn = Integrator::getSuccessfulStepStatusString(st).c_str();
            run.count(std::string("status:") + Integrator::getSuccessfulStepStatusString(st).c_str());
            if (st == Integrator::EndOfSimulation) { ended = true; J.state(*I, I->getState(), I->isStateInterpolated(), projInterp, inf, "EndOfSimulation", integ); break; }
            J.state(*I, I->getState(), I->isStateInterpolated(), projInterp, inf, Integrator::getSuccessfulStepStatusString(st).c_str(), integ);
            (void)sn; J.postEvent = false;
            if (st == Integrator::ReachedReportTime) { while (t0 + k * REPORT_DT <= I->getTime()) ++k; }
            else if (st == Integrator::ReachedEventTrigger) {
                HandleEventsResults hres;
                M.system.handleEvents(I->updAdvancedState(), Event::Cause::Triggered, I->getTriggeredEvents(), hopts, hres);
                I->reinitialize(hres.getLowestModifiedStage(), hres.getExitStatus() == HandleEventsResults::ShouldTerminate);
                run.count("events-handled"); J.postEvent = true;
            }
        }
        if (!ended) run.count("run:truncated-after-max-returns"); else run.count("run:completed");
    } catch (const std::exception& e) {
        run.count("run:integration-threw/" + integ);
        if (run.verbose) printf("  %s: threw %s\n", desc.c_str(), e.what());
    }
    run.count("states-judged/" + integ, J.nJudged);
    run.count("interpolated-states/" + integ, J.nInterp);
    run.count("interpolated-states-not-projected(by-option)/" + integ, J.nUnprojected);
    run.outcome(verif::hashMix(verif::hashPod(J.nJudged), verif::hashPod(J.nInterp * 1000 + c.integ)));
    if (run.verbose) printf("  %s: %lld states judged, %lld interpolated\n", desc.c_str(), (long long)J.nJudged, (long long)J.nInterp);
}

static void addGravity(mb::Model& M) { Force::UniformGravity(M.forces, M.matter, Vec3(0.3, -9.8, 1.1)); }

struct OptSpace { std::vector<int> integs; std::vector<std::pair<int, int> > accTols; std::vector<int> pess, interps, infs; };
static void runAll(verif::Run& run, Sut& S, const State& init, const OptSpace& sp, int eventFlag) {
    int n = 0;
    for (int ig : sp.integs) for (auto& at : sp.accTols) for (int p : sp.pess) for (int ip : sp.interps) for (int f : sp.infs) {
        RunCfg c{ig, at.first, at.second, p, ip, f, eventFlag};
        integrate(run, S, init, c, S.name + " run=" + std::to_string(n++) + " {" + cfgStr(c) + "}");
    }
}

int main(int argc, char** argv) {
    verif::Run run("C21", argc, argv);
    run.setDeadline(900, 5400);
    if (const char* mv = getenv("C21_MAXV")) run.maxViolsPerKey = atoi(mv);
    const bool th = run.thorough();
    const int vs = (int)(((run.seed % 3) + 3) % 3);
    int64_t onlyLo = 0, onlyHi = INT64_MAX;
    if (const char* o = getenv("C21_ONLY")) { sscanf(o, "%ld:%ld", &onlyLo, &onlyHi); run.exhaustive = false; }
    run.rule = "E3. constrained systems: constraint sets over the 20 canonical instances of the C08 tables (quick: every singleton of table 0 on host tree (i mod 3) and the 20 cyclic neighbour pairs {i,i+1} of table 0 on host tree (i mod 3); thorough: every singleton of both tables on every host tree and every unordered pair {i<j} of table 0 on host tree ((i+j) mod 3)) x quaternion/Euler x variant {plain, Motion::Sinusoid(Position) on R4, R2 locked at Position level, triggered time witness at t0+0.137} (pairs: plain only); gravity; initial state = generic state (value set seed%3) assembled by cons::makeState(4). "
               "quaternion models: {Ball, Free, Ellipsoid, LineOrientation, FreeLine, CustomBall} x direction x {base with a Pin child, tip on a Pin parent}, generic initial state. "
               "each x integrator (RungeKuttaMerson, RungeKutta3, RungeKuttaFeldberg, RungeKutta2, ExplicitEuler, Verlet, SemiExplicitEuler(h=0.004), SemiExplicitEuler2, CPodes BDF, CPodes Adams) x (accuracy, constraint tolerance) in {(1e-3,default),(1e-6,1e-8)} (thorough: {1e-3,1e-6} x {default,1e-8}) x setProjectEveryStep x {interpolation allowed + projected, allowed + not projected, not allowed} x setUseInfinityNorm; horizon 0.3 (at most 300 returned states), report grid 0.0125, setReturnEveryInternalStep(true). distinct = distinct tuple; every run is non-trivial.";
    run.assumptions = {"continuous values only from the fixed tables", "norm recomputed in long double and accepted if <= tolerance*(1+1e-9)+1e-13", "interpolated states are exempt from the manifold clause when setProjectInterpolatedStates(false)",
        "exceptions thrown by initialize/stepTo are allowed outcomes (counted)", "runs are cut after 300 returned states (counted)", "the integrator is driven directly (Integrator::stepTo + System::handleEvents + reinitialize, as TimeStepper does)"};

    OptSpace full{{0, 1, 2, 3, 4, 5, 6, 7, 8, 9}, th ? std::vector<std::pair<int, int> >{{0, 0}, {0, 1}, {1, 0}, {1, 1}} : std::vector<std::pair<int, int> >{{0, 0}, {1, 1}}, {0, 1}, {0, 1, 2}, {0, 1}};
    struct SetDef { std::vector<int> inst; int list, host; };
    std::vector<SetDef> sets;
    if (th) {
        for (int list = 0; list < 2; ++list) for (int h = 0; h < 3; ++h) for (int i = 0; i < NINST; ++i) sets.push_back({{i}, list, h});
        for (int i = 0; i < NINST; ++i) for (int j = i + 1; j < NINST; ++j) sets.push_back({{i, j}, 0, (i + j) % 3});
    } else {
        for (int i = 0; i < NINST; ++i) sets.push_back({{i}, 0, i % 3});
        for (int i = 0; i < NINST; ++i) sets.push_back({{i, (i + 1) % NINST}, 0, i % 3});
    }
    {
        verif::Odometer od; od.dim("integ", NINTEG); od.dim("event", 2); od.dim("presc", 3); od.dim("coord", 2); od.dim("set", (int64_t)sets.size());
        run.parallel("constrained", od.size(), [&](int64_t idx) {
            if (idx < onlyLo || idx >= onlyHi) return;
            auto d = od.digits(idx);
            const int integ = d[0], ev = d[1], presc = d[2], euler = d[3]; const SetDef& sd = sets[d[4]];
            if (ev && presc) { run.count("skipped:event-combined-only-with-presc-none"); return; }
            if (sd.inst.size() > 1 && (ev || presc)) { run.count("skipped:pairs-run-without-event-and-prescription"); return; }
            Sut S; S.M = mb::build(cons::hostSpecs(sd.host), euler != 0);
            mb::Model& M = *S.M; S.presc = presc; S.hasEvent = ev != 0;
            std::string setName;
            for (int i : sd.inst) {
                cons::ConsSpec cs = instanceSpec(i, sd.list);
                if (!cons::legalCombination(cs, sd.host, euler != 0)) { run.count("skipped:illegal-instance"); return; }
                cons::Added a = cons::addConstraint(M, cs, sd.host);
                S.touchesQuat = S.touchesQuat || a.touchesQuaternionCoordinate;
                setName += (setName.empty() ? "" : ",") + cs.str();
            }
            addGravity(M);
            if (presc == 1) { S.sinBody = 4; Motion::Sinusoid(M.bodies[4], Motion::Position, SIN_A, SIN_W, SIN_P); }
            if (ev) M.system.addEventHandler(new Witness(0.3 + WITNESS_T));
            S.name = "host=" + std::to_string(sd.host) + (euler ? " euler" : " quat") + " list=" + std::to_string(sd.list) + " set={" + setName + "} presc=" + std::to_string(presc) + (ev ? " event" : "") + " vs=" + std::to_string(vs) + " [" + od.describe(idx) + "]";
            bool ok = true; std::string err;
            State init;
            try {
                init = cons::makeState(M, 4, vs, &ok, &err, [&](State& st) { if (presc == 2) { S.lockBody = 2; M.bodies[2].lock(st, Motion::Position); } });
            } catch (const std::exception& e) { ok = false; err = e.what(); }
            if (!ok) { run.count("skipped:initial-state-not-assemblable"); if (run.verbose) printf("initial state failed: %s\n", err.c_str()); return; }
            for (size_t b = 0; b < M.bodies.size(); ++b) if (!M.euler && (M.specs[b].kind == mb::KBall || M.specs[b].kind == mb::KFree)) S.quatStart.push_back((int)M.bodies[b].getFirstQIndex(init));
            if (presc == 2) S.lockedQ = M.bodies[2].getQAsVector(init);
            run.count("items-run:constrained");
            OptSpace sp = full; sp.integs = {integ};
            runAll(run, S, init, sp, ev);
            if (idx % 97 == 0) run.sample(S.name);
        });
    }
    // ------------------------------------------------------------ unconstrained quaternion models
    {
        const int kinds[] = {mb::KBall, mb::KFree, mb::KEllipsoid, mb::KLineOrientation, mb::KFreeLine, mb::KCustomBall};
        struct QM { int kind, dir, role; }; std::vector<QM> qms;
        for (int k : kinds) for (int dir = 0; dir < 2; ++dir) for (int role = 0; role < 2; ++role) { if (dir && !mb::kindReversible(k)) continue; qms.push_back({k, dir, role}); }
        verif::Odometer od; od.dim("integ", NINTEG); od.dim("model", (int64_t)qms.size());
        run.parallel("quaternion-models", od.size(), [&](int64_t idx) {
            if (idx < onlyLo || idx >= onlyHi) return;
            auto d = od.digits(idx); const QM& qm = qms[d[1]];
            mb::BodySpec g; g.kind = qm.kind; g.dir = qm.dir; g.frames = 3; g.mass = 0;
            mb::BodySpec p; p.kind = mb::KPin; p.frames = 3; p.mass = 1;
            std::vector<mb::BodySpec> specs; int gi;
            if (qm.role == 0) { g.parent = -1; p.parent = 0; specs = {g, p}; gi = 0; } else { p.parent = -1; g.parent = 0; specs = {p, g}; gi = 1; }
            Sut S; S.M = mb::build(specs, false); mb::Model& M = *S.M;
            addGravity(M);
            State init = mb::makeState(M, 1, vs);
            S.quatStart.push_back((int)M.bodies[gi].getFirstQIndex(init));
            S.name = std::string("quaternion-model ") + mb::kindName(qm.kind) + (qm.dir ? "/rev" : "/fwd") + (qm.role ? "/tip" : "/base") + " vs=" + std::to_string(vs) + " [" + od.describe(idx) + "]";
            run.count("items-run:quaternion-models");
            OptSpace sp = full; sp.integs = {d[0]};
            runAll(run, S, init, sp, 0);
            if (idx % 41 == 0) run.sample(S.name);
        });
    }
    return run.finish();
}
