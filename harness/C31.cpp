// C31 -- Random generators are deterministic and in range.
// Engine E3 (enum): every (seed, range, mode, scenario) tuple of a fixed finite grid is executed on
// the real Random::Uniform / Random::Gaussian / SimTK_SFMT code.  Nothing is sampled: the seeds are
// enumerated, and each stream is a deterministic function of its seed.
//   sfmt      : raw SFMT words (gen_rand32 / gen_rand64 / fill_array32 / fill_array64 / init_by_array)
//               against an independent scalar SFMT-19937 written here from the published recurrence
//               (128-bit integer arithmetic, no SIMD, no shared code)
//   uniform   : seeds x 8 ranges: same seed => same stream (two objects, interleaved with a third,
//               re-seed after k draws, fillArray), every value in [min,max), integer mode in range and
//               onto for small ranges, mean / variance inside fixed 6-sigma bands, Uniform(0,1)
//               reproduces the reference words, setMin/setMax mid-stream
//   gaussian  : seeds x 3 (mean, stddev): determinism, re-seed after an odd number of draws (pair
//               cache), mean / variance / fourth-moment bands, affine relation between parameter sets
//   extremes  : white-box: the extreme raw 64-bit words are injected into the generator's buffer and
//               pushed through the real getValue()/getIntValue() for every range (the largest words
//               are the only ones that can break "max is exclusive")
//   defaults  : default-constructed objects use pairwise different seeds
#include "SimTKcommon.h"
#include "verif.h"

#include <memory>

using namespace SimTK;

// ---- the library's internal SFMT interface (exported from libSimTKcommon; header lives in src/)
namespace SimTK_SFMT {
class SFMTData;
uint32_t gen_rand32(SFMTData& data);
uint64_t gen_rand64(SFMTData& data);
void fill_array32(uint32_t* array, int size, SFMTData& data);
void fill_array64(uint64_t* array, int size, SFMTData& data);
void init_gen_rand(uint32_t seed, SFMTData& data);
void init_by_array(uint32_t* init_key, int key_length, SFMTData& data);
const char* get_idstring(void);
int get_min_array_size32(void);
int get_min_array_size64(void);
SFMTData* createSFMTData(void);
void deleteSFMTData(SFMTData* data);
}

// ------------------------------------------------------------------ independent reference SFMT-19937
// Saito & Matsumoto, "SIMD-oriented Fast Mersenne Twister", MCQMC 2006:
//   w_{i+N} = w_i ^ (w_i <<128 8*SL2) ^ ((w_{i+POS1} >>32 SR1) & MSK) ^ (w_{i+N-2} >>128 8*SR2) ^ (w_{i+N-1} <<32 SL1)
struct RefSFMT {
    static const int N = 156, N32 = 624, POS1 = 122, SL1 = 18, SL2 = 1, SR1 = 11, SR2 = 1;
    typedef unsigned __int128 u128;
    uint32_t s[N32]; int idx = N32;
    static uint32_t msk(int l) { static const uint32_t m[4] = {0xdfffffefU, 0xddfecb7fU, 0xbffaffffU, 0xbffffff6U}; return m[l]; }
    static uint32_t parity(int l) { static const uint32_t p[4] = {0x00000001U, 0x00000000U, 0x00000000U, 0x13c9e684U}; return p[l]; }
    u128 word(int i) const { return (u128)s[4 * i] | (u128)s[4 * i + 1] << 32 | (u128)s[4 * i + 2] << 64 | (u128)s[4 * i + 3] << 96; }
    void genAll() {
        int r1 = N - 2, r2 = N - 1;
        for (int i = 0; i < N; ++i) {
            int ib = (i + POS1) % N;
            u128 x = word(i) << (8 * SL2), y = word(r1) >> (8 * SR2);
            uint32_t r[4];
            for (int l = 0; l < 4; ++l)
                r[l] = s[4 * i + l] ^ (uint32_t)(x >> (32 * l)) ^ ((s[4 * ib + l] >> SR1) & msk(l)) ^ (uint32_t)(y >> (32 * l)) ^ (s[4 * r2 + l] << SL1);
            for (int l = 0; l < 4; ++l) s[4 * i + l] = r[l];
            r1 = r2; r2 = i;
        }
    }
    void certify() {
        uint32_t inner = 0;
        for (int i = 0; i < 4; ++i) inner ^= s[i] & parity(i);
        for (int i = 16; i > 0; i >>= 1) inner ^= inner >> i;
        if (inner & 1) return;
        for (int i = 0; i < 4; ++i) { uint32_t work = 1; for (int j = 0; j < 32; ++j) { if (work & parity(i)) { s[i] ^= work; return; } work <<= 1; } }
    }
    void init(uint32_t seed) {
        s[0] = seed;
        for (int i = 1; i < N32; ++i) s[i] = 1812433253U * (s[i - 1] ^ (s[i - 1] >> 30)) + (uint32_t)i;
        idx = N32; certify();
    }
    static uint32_t f1(uint32_t x) { return (x ^ (x >> 27)) * 1664525U; }
    static uint32_t f2(uint32_t x) { return (x ^ (x >> 27)) * 1566083941U; }
    void initByArray(const uint32_t* key, int len) {
        const int lag = 11, mid = (N32 - lag) / 2;
        for (int i = 0; i < N32; ++i) s[i] = 0x8b8b8b8bU;
        int count = len + 1 > N32 ? len + 1 : N32;
        uint32_t r = f1(s[0] ^ s[mid] ^ s[N32 - 1]);
        s[mid] += r; r += (uint32_t)len; s[mid + lag] += r; s[0] = r;
        count--;
        int i = 1, j = 0;
        for (; j < count && j < len; ++j) {
            r = f1(s[i] ^ s[(i + mid) % N32] ^ s[(i + N32 - 1) % N32]);
            s[(i + mid) % N32] += r; r += key[j] + (uint32_t)i; s[(i + mid + lag) % N32] += r; s[i] = r; i = (i + 1) % N32;
        }
        for (; j < count; ++j) {
            r = f1(s[i] ^ s[(i + mid) % N32] ^ s[(i + N32 - 1) % N32]);
            s[(i + mid) % N32] += r; r += (uint32_t)i; s[(i + mid + lag) % N32] += r; s[i] = r; i = (i + 1) % N32;
        }
        for (j = 0; j < N32; ++j) {
            r = f2(s[i] + s[(i + mid) % N32] + s[(i + N32 - 1) % N32]);
            s[(i + mid) % N32] ^= r; r -= (uint32_t)i; s[(i + mid + lag) % N32] ^= r; s[i] = r; i = (i + 1) % N32;
        }
        idx = N32; certify();
    }
    uint32_t next32() { if (idx >= N32) { genAll(); idx = 0; } return s[idx++]; }
    uint64_t next64() { if (idx >= N32) { genAll(); idx = 0; } uint64_t r = (uint64_t)s[idx] | (uint64_t)s[idx + 1] << 32; idx += 2; return r; }
};

// ------------------------------------------------------------------ grids
static std::vector<uint32_t> seedGrid(bool thorough) {
    std::vector<uint32_t> v;
    for (uint32_t s = 0; s < (thorough ? 2048u : 256u); ++s) v.push_back(s);
    v.push_back(2147483647u); v.push_back(4294967295u);
    if (thorough) { v.push_back(2147483648u); v.push_back(1234u); v.push_back(0x12345678u); v.push_back(4294967294u); }
    return v;
}
struct Range { const char* name; double lo, hi; bool integerBounds; bool smallInt; };
static const Range kRanges[] = {
    {"[0,1)", 0.0, 1.0, true, true}, {"[-1,1)", -1.0, 1.0, true, true}, {"[-1e-9,1e-9)", -1e-9, 1e-9, false, false}, {"[5,6)", 5.0, 6.0, true, true},
    {"[0,2)", 0.0, 2.0, true, true}, {"[-3,4)", -3.0, 4.0, true, true}, {"[0,2^31-1)", 0.0, 2147483647.0, true, false}, {"[1e6,1e6+1e-3)", 1e6, 1e6 + 1e-3, false, false}};
static const int kNRanges = 8;
struct GParam { const char* name; double mean, sd; };
static const GParam kGauss[] = {{"(0,1)", 0.0, 1.0}, {"(-5,0.1)", -5.0, 0.1}, {"(1e6,1e3)", 1e6, 1e3}};
static const int kNGauss = 3;

// mirror of Random::RandomImpl (Random.cpp: vptr, SFMTData*, uint64_t buffer[1024], int nextIndex), used only
// by the "extremes" section and only after its layout has been validated against the reference stream
struct ImplMirror { void* vptr; SimTK_SFMT::SFMTData* sfmt; uint64_t buffer[1024]; int nextIndex; };

static uint64_t bitsOf(double d) { uint64_t u; memcpy(&u, &d, 8); return u; }

int main(int argc, char** argv) {
    verif::Run run("C31", argc, argv);
    run.setDeadline(300, 2400);
    const bool thorough = run.thorough();
    const int L = 100000;            // stream length per case
    const auto seeds = seedGrid(thorough);
    run.rule = "a case = (section, seed, range or (mean,stddev), scenario); seeds {0..255, 2^31-1, 2^32-1} (thorough 0..2047 + 6 specials) x 8 uniform ranges / 3 Gaussian parameter sets, "
               "stream length 1e5; SFMT section: every seed x {gen_rand32, gen_rand64, fill_array64 (Random's usage pattern), fill_array32, mixed} + init_by_array keys; "
               "extremes: 24 boundary raw words x 8 ranges injected into the real generator buffer; distinct = distinct tuple; every case is non-trivial (>= 1e3 values compared)";
    run.assumptions = {"statistical clauses are deterministic band checks (6 sigma) on the enumerated seeds, not a test of randomness",
                       "the reference SFMT-19937 is written from the published recurrence and anchored to the published first outputs for seed 1234 and key {0x1234,0x5678,0x9abc,0xdef0}",
                       "the extremes section writes raw words into Random's private buffer (layout validated at run time against the reference stream)"};

    // ================================================================ sfmt
    run.parallel("sfmt", (int64_t)seeds.size(), [&](int64_t si) {
        const uint32_t seed = seeds[si];
        using namespace SimTK_SFMT;
        SFMTData* d = createSFMTData();
        auto rp = [&] { return run.replayHeader() + "seed=" + std::to_string(seed) + "\n"; };
        auto mismatch = [&](const std::string& scenario, int64_t at, uint64_t got, uint64_t want) {
            return scenario + " seed=" + std::to_string(seed) + ": word #" + std::to_string(at) + " is " + verif::str(got) + ", reference SFMT-19937 gives " + verif::str(want);
        };
        uint64_t oh = 0;
        // A: gen_rand32
        { RefSFMT ref; ref.init(seed); init_gen_rand(seed, *d);
          int64_t bad = -1; uint64_t g = 0, w = 0;
          for (int i = 0; i < 2500; ++i) { uint32_t a = gen_rand32(*d), b = ref.next32(); if (i < 4) oh = verif::hashPod(a, oh); if (a != b && bad < 0) { bad = i; g = a; w = b; } }
          run.evaluation(verif::hashMix(1, seed), true);
          run.expect(bad < 0, "sfmt/gen_rand32", [&] { return mismatch("gen_rand32", bad, g, w); }, rp); }
        // B: gen_rand64
        { RefSFMT ref; ref.init(seed); init_gen_rand(seed, *d);
          int64_t bad = -1; uint64_t g = 0, w = 0;
          for (int i = 0; i < 1250; ++i) { uint64_t a = gen_rand64(*d), b = ref.next64(); if (a != b && bad < 0) { bad = i; g = a; w = b; } }
          run.evaluation(verif::hashMix(2, seed), true);
          run.expect(bad < 0, "sfmt/gen_rand64", [&] { return mismatch("gen_rand64", bad, g, w); }, rp); }
        // C: Random's pattern: fill_array64(1024) three times, then the generator continues seamlessly
        { RefSFMT ref; ref.init(seed); init_gen_rand(seed, *d);
          std::vector<uint64_t> buf(1024); int64_t bad = -1; uint64_t g = 0, w = 0; int64_t n = 0;
          for (int rep = 0; rep < 3; ++rep) { fill_array64(buf.data(), 1024, *d); for (int i = 0; i < 1024; ++i, ++n) { uint64_t b = ref.next64(); if (buf[i] != b && bad < 0) { bad = n; g = buf[i]; w = b; } } }
          for (int i = 0; i < 400; ++i, ++n) { uint64_t a = gen_rand64(*d), b = ref.next64(); if (a != b && bad < 0) { bad = n; g = a; w = b; } }
          run.evaluation(verif::hashMix(3, seed), true);
          run.expect(bad < 0, "sfmt/fill_array64-then-gen_rand64", [&] { return mismatch("fill_array64(1024)x3 + gen_rand64", bad, g, w); }, rp); }
        // D: fill_array64 at the minimum size and at an odd multiple, fill_array32
        for (int size : {312, 314, 2000}) {
            RefSFMT ref; ref.init(seed); init_gen_rand(seed, *d);
            std::vector<uint64_t> buf(size); fill_array64(buf.data(), size, *d);
            int64_t bad = -1; uint64_t g = 0, w = 0;
            for (int i = 0; i < size; ++i) { uint64_t b = ref.next64(); if (buf[i] != b && bad < 0) { bad = i; g = buf[i]; w = b; } }
            run.evaluation(verif::hashMix(40 + size, seed), true);
            run.expect(bad < 0, "sfmt/fill_array64", [&] { return mismatch("fill_array64(" + std::to_string(size) + ")", bad, g, w); }, rp);
        }
        for (int size : {624, 628, 3000}) {
            RefSFMT ref; ref.init(seed); init_gen_rand(seed, *d);
            std::vector<uint32_t> buf(size); fill_array32(buf.data(), size, *d);
            int64_t bad = -1; uint64_t g = 0, w = 0; int64_t n = 0;
            for (int i = 0; i < size; ++i, ++n) { uint32_t b = ref.next32(); if (buf[i] != b && bad < 0) { bad = n; g = buf[i]; w = b; } }
            for (int i = 0; i < 700; ++i, ++n) { uint32_t a = gen_rand32(*d), b = ref.next32(); if (a != b && bad < 0) { bad = n; g = a; w = b; } }
            run.evaluation(verif::hashMix(50 + size, seed), true);
            run.expect(bad < 0, "sfmt/fill_array32-then-gen_rand32", [&] { return mismatch("fill_array32(" + std::to_string(size) + ") + gen_rand32", bad, g, w); }, rp);
        }
        // E: init_by_array with keys derived from the seed (lengths 1, 4, 7)
        for (int len : {1, 4, 7}) {
            uint32_t key[7]; for (int i = 0; i < 7; ++i) key[i] = seed * 2654435761u + 0x9e3779b9u * (uint32_t)i;
            RefSFMT ref; ref.initByArray(key, len); init_by_array(key, len, *d);
            int64_t bad = -1; uint64_t g = 0, w = 0;
            for (int i = 0; i < 1300; ++i) { uint32_t a = gen_rand32(*d), b = ref.next32(); if (a != b && bad < 0) { bad = i; g = a; w = b; } }
            run.evaluation(verif::hashMix(60 + len, seed), true);
            run.expect(bad < 0, "sfmt/init_by_array", [&] { return mismatch("init_by_array(len " + std::to_string(len) + ")", bad, g, w); }, rp);
        }
        run.outcome(oh);
        if (si % 64 == 0) { RefSFMT ref; ref.init(seed); run.sample("sfmt seed=" + std::to_string(seed) + " first words " + verif::str(ref.next32()) + " " + verif::str(ref.next32()) + " ... all scenarios equal the reference"); }
        deleteSFMTData(d);
    });
    // anchors of the reference itself (published SFMT.19937.out.txt) + parameter identity
    run.parallel("sfmt-anchor", 1, [&](int64_t) {
        RefSFMT ref; ref.init(1234);
        const uint32_t a1[5] = {3440181298u, 1564997079u, 1510669302u, 2930277156u, 1452439940u};
        bool ok1 = true; for (int i = 0; i < 5; ++i) if (ref.next32() != a1[i]) ok1 = false;
        uint32_t key[4] = {0x1234, 0x5678, 0x9abc, 0xdef0};
        ref.initByArray(key, 4);
        const uint32_t a2[5] = {2920711183u, 3885745737u, 3501893680u, 856470934u, 1421864068u};
        bool ok2 = true; for (int i = 0; i < 5; ++i) if (ref.next32() != a2[i]) ok2 = false;
        run.evaluation(verif::hashStr("anchor"), true);
        if (!ok1 || !ok2) run.harnessError("reference SFMT does not reproduce the published first outputs (init_gen_rand(1234) ok=" + std::to_string(ok1) + ", init_by_array ok=" + std::to_string(ok2) + ")");
        run.expect(std::string(SimTK_SFMT::get_idstring()) == "SFMT-19937:122-18-1-11-1:dfffffef-ddfecb7f-bffaffff-bffffff6", "sfmt/idstring",
                   [&] { return std::string("get_idstring() = ") + SimTK_SFMT::get_idstring(); });
        run.expect(SimTK_SFMT::get_min_array_size32() == 624 && SimTK_SFMT::get_min_array_size64() == 312, "sfmt/min-array-size", [&] { return std::string("minimum array sizes differ from N32=624 / N64=312"); });
    });

    // ================================================================ uniform
    {
        verif::Odometer od; od.dim("range", kNRanges); od.dim("seed", (int64_t)seeds.size());
        run.parallel("uniform", od.size(), [&](int64_t idx) {
            auto dg = od.digits(idx);
            const Range& R = kRanges[dg[0]]; const uint32_t seed = seeds[dg[1]];
            const std::string tag = std::string("uniform ") + R.name + " seed=" + std::to_string(seed);
            auto rp = [&] { return run.replayHeader() + "case=" + tag + "\n"; };
            run.evaluation(verif::hashStr(tag), true);
            Random::Uniform A(R.lo, R.hi), B(R.lo, R.hi), C(R.lo, R.hi);
            A.setSeed((int)seed); B.setSeed((int)seed); C.setSeed((int)(seed + 1));
            std::vector<double> a(L);
            // (1) same seed => identical stream, with a third object interleaved
            int64_t badDet = -1; int64_t outLo = -1, outHi = -1; bool differsFromC = false;
            long double sum = 0, sum2 = 0;
            for (int i = 0; i < L; ++i) {
                double va = A.getValue(); double vc = C.getValue(); double vb = B.getValue();
                a[i] = va;
                if (bitsOf(va) != bitsOf(vb) && badDet < 0) badDet = i;
                if (va != vc) differsFromC = true;
                if (!(va >= R.lo) && outLo < 0) outLo = i;
                if (!(va < R.hi) && outHi < 0) outHi = i;
                long double x = ((long double)va - R.lo) / ((long double)R.hi - R.lo);   // normalised to [0,1)
                sum += x; sum2 += x * x;
            }
            run.count("uniform_values_drawn", 3LL * L);
            run.expect(badDet < 0, "uniform/same-seed-same-stream", [&] { return tag + ": two objects with the same seed differ at draw " + std::to_string(badDet); }, rp);
            run.expect(differsFromC, "uniform/different-seed-different-stream", [&] { return tag + ": seed and seed+1 give the same 1e5 values"; }, rp);
            run.expect(outLo < 0, "uniform/value-below-min", [&] { return tag + ": draw " + std::to_string(outLo) + " = " + verif::fmtd(a[outLo]) + " < min"; }, rp);
            run.expect(outHi < 0, std::string("uniform/value-reaches-max/") + R.name, [&] { return tag + ": draw " + std::to_string(outHi) + " = " + verif::fmtd(a[outHi]) + " >= max"; }, rp);
            // (2) moments of the normalised stream: mean 1/2 (sd 1/sqrt(12 n)), second moment 1/3 (sd sqrt(4/45 n))
            {
                long double m1 = sum / L, m2 = sum2 / L;
                long double z1 = std::abs(m1 - 0.5L) / std::sqrt(1.0L / 12 / L), z2 = std::abs(m2 - 1.0L / 3) / std::sqrt(4.0L / 45 / L);
                run.residual("uniform/mean-sigmas", (double)z1, 6.0, [&] { return tag; }, rp);
                run.residual("uniform/second-moment-sigmas", (double)z2, 6.0, [&] { return tag; }, rp);
            }
            // (3) a fresh object alone, fillArray, and re-seeding after k draws reproduce the stream
            {
                Random::Uniform D(R.lo, R.hi); D.setSeed((int)seed);
                std::vector<double> f(3000); D.fillArray(f.data(), 3000);
                int64_t bad = -1; for (int i = 0; i < 3000; ++i) if (bitsOf(f[i]) != bitsOf(a[i]) && bad < 0) bad = i;
                run.expect(bad < 0, "uniform/fillArray-equals-getValue-stream", [&] { return tag + ": fillArray differs from the getValue stream at " + std::to_string(bad); }, rp);
                for (int k : {0, 1, 2, 1023, 1024, 1025, 2500}) {
                    Random::Uniform E(R.lo, R.hi); E.setSeed((int)(seed ^ 0x5a5a5a5au));
                    for (int i = 0; i < k; ++i) E.getValue();
                    E.setSeed((int)seed);
                    int64_t b2 = -1; for (int i = 0; i < 2100; ++i) { double v = E.getValue(); if (bitsOf(v) != bitsOf(a[i]) && b2 < 0) b2 = i; }
                    run.expect(b2 < 0, "uniform/reseed-restarts-stream", [&] { return tag + ": after " + std::to_string(k) + " draws and setSeed the stream differs at " + std::to_string(b2); }, rp);
                }
            }
            // (4) Uniform(0,1) reproduces the reference SFMT words (53-bit resolution)
            if (dg[0] == 0) {
                RefSFMT ref; ref.init(seed);
                int64_t bad = -1;
                for (int i = 0; i < L; ++i) { long double want = (long double)ref.next64() / 18446744073709551616.0L; if (std::abs((long double)a[i] - want) > 1.2e-16L && bad < 0) bad = i; }
                run.expect(bad < 0, "uniform/unit-stream-equals-reference-sfmt", [&] { return tag + ": value " + std::to_string(bad) + " is not the reference 64-bit word scaled by 2^-64"; }, rp);
            }
            // (5) integer mode
            if (R.integerBounds) {
                Random::Uniform I(R.lo, R.hi); I.setSeed((int)seed);
                Random::Uniform J(R.lo, R.hi); J.setSeed((int)seed);
                int64_t badI = -1, badDetI = -1; int bv = 0;
                std::set<int> seen;
                const int lo = (int)R.lo, hi = (int)R.hi;
                for (int i = 0; i < L; ++i) {
                    int v = I.getIntValue(), w = J.getIntValue();
                    if (v != w && badDetI < 0) badDetI = i;
                    if ((v < lo || v >= hi) && badI < 0) { badI = i; bv = v; }
                    if (R.smallInt) seen.insert(v);
                }
                run.count("uniform_int_values_drawn", 2LL * L);
                run.expect(badI < 0, "uniform/int-value-out-of-range", [&] { return tag + ": getIntValue draw " + std::to_string(badI) + " = " + std::to_string(bv) + " not in [min,max)"; }, rp);
                run.expect(badDetI < 0, "uniform/int-same-seed-same-stream", [&] { return tag + ": getIntValue streams differ at " + std::to_string(badDetI); }, rp);
                if (R.smallInt) run.expect((int)seen.size() == hi - lo, "uniform/int-small-range-onto", [&] { return tag + ": only " + std::to_string(seen.size()) + " of " + std::to_string(hi - lo) + " admissible integers appeared in 1e5 draws"; }, rp);
            }
            // (6) setMin / setMax mid-stream: the raw stream is unaffected, values follow the new range
            {
                const Range& R2 = kRanges[(dg[0] + 3) % kNRanges];
                Random::Uniform F(R.lo, R.hi); F.setSeed((int)seed);
                Random::Uniform G(R2.lo, R2.hi); G.setSeed((int)seed);
                for (int i = 0; i < 700; ++i) { F.getValue(); G.getValue(); }
                F.setMin(R2.lo - 1); F.setMax(R2.hi); F.setMin(R2.lo);       // two-step change, as a user would
                bool get = F.getMin() == R2.lo && F.getMax() == R2.hi;
                int64_t bad = -1; for (int i = 0; i < 1500; ++i) { double v = F.getValue(), w = G.getValue(); if (bitsOf(v) != bitsOf(w) && bad < 0) bad = i; }
                run.expect(get && bad < 0, "uniform/setMin-setMax-midstream", [&] { return tag + ": after setMin/setMax to " + R2.name + " the stream differs from an object built with that range (at " + std::to_string(bad) + ")"; }, rp);
            }
            run.outcome(verif::hashMix(bitsOf(a[0]), bitsOf(a[L - 1])));
            if (idx % 509 == 0) run.sample(tag + " -> first " + verif::fmtd(a[0]) + " last " + verif::fmtd(a[L - 1]));
        });
    }

    // ================================================================ gaussian
    {
        verif::Odometer od; od.dim("param", kNGauss); od.dim("seed", (int64_t)seeds.size());
        run.parallel("gaussian", od.size(), [&](int64_t idx) {
            auto dg = od.digits(idx);
            const GParam& P = kGauss[dg[0]]; const uint32_t seed = seeds[dg[1]];
            const std::string tag = std::string("gaussian ") + P.name + " seed=" + std::to_string(seed);
            auto rp = [&] { return run.replayHeader() + "case=" + tag + "\n"; };
            run.evaluation(verif::hashStr(tag), true);
            Random::Gaussian A(P.mean, P.sd), B(P.mean, P.sd), C(P.mean, P.sd), S(0, 1);
            A.setSeed((int)seed); B.setSeed((int)seed); C.setSeed((int)(seed + 1)); S.setSeed((int)seed);
            std::vector<double> a(L);
            int64_t badDet = -1, badFinite = -1; bool differsFromC = false;
            long double s1 = 0, s2 = 0, s4 = 0; double worstAffine = 0;
            for (int i = 0; i < L; ++i) {
                double va = A.getValue(), vc = C.getValue(), vb = B.getValue(), vs = S.getValue();
                a[i] = va;
                if (bitsOf(va) != bitsOf(vb) && badDet < 0) badDet = i;
                if (va != vc) differsFromC = true;
                if (!std::isfinite(va) && badFinite < 0) badFinite = i;
                long double z = ((long double)va - P.mean) / P.sd;
                s1 += z; s2 += z * z; s4 += z * z * z * z;
                // the documented parameterisation: value = mean + stddev * (standard normal of the same seed)
                double aff = std::abs(va - (P.mean + P.sd * vs)) / (std::abs(P.mean) + P.sd * (1 + std::abs(vs)));
                if (aff > worstAffine) worstAffine = aff;
            }
            run.count("gaussian_values_drawn", 4LL * L);
            run.expect(badDet < 0, "gaussian/same-seed-same-stream", [&] { return tag + ": two objects with the same seed differ at draw " + std::to_string(badDet); }, rp);
            run.expect(differsFromC, "gaussian/different-seed-different-stream", [&] { return tag + ": seed and seed+1 give the same 1e5 values"; }, rp);
            run.expect(badFinite < 0, "gaussian/value-not-finite", [&] { return tag + ": draw " + std::to_string(badFinite) + " is not finite"; }, rp);
            run.residual("gaussian/affine-in-mean-and-stddev", worstAffine, 1e-14, [&] { return tag; }, rp);
            {   // standardised moments: mean 0 (sd 1/sqrt n), variance 1 (sd sqrt(2/n)), fourth moment 3 (sd sqrt(96/n))
                long double m1 = s1 / L, m2 = s2 / L, m4 = s4 / L;
                run.residual("gaussian/mean-sigmas", (double)(std::abs(m1) / std::sqrt(1.0L / L)), 6.0, [&] { return tag; }, rp);
                run.residual("gaussian/variance-sigmas", (double)(std::abs(m2 - 1) / std::sqrt(2.0L / L)), 6.0, [&] { return tag; }, rp);
                run.residual("gaussian/fourth-moment-sigmas", (double)(std::abs(m4 - 3) / std::sqrt(96.0L / L)), 6.0, [&] { return tag; }, rp);
            }
            {   // fillArray and re-seeding (odd k leaves a cached second value of the Box-Muller pair behind)
                Random::Gaussian D(P.mean, P.sd); D.setSeed((int)seed);
                std::vector<double> f(3001); D.fillArray(f.data(), 3001);
                int64_t bad = -1; for (int i = 0; i < 3001; ++i) if (bitsOf(f[i]) != bitsOf(a[i]) && bad < 0) bad = i;
                run.expect(bad < 0, "gaussian/fillArray-equals-getValue-stream", [&] { return tag + ": fillArray differs from the getValue stream at " + std::to_string(bad); }, rp);
                for (int k : {0, 1, 2, 3, 1023, 1024, 1301}) {
                    Random::Gaussian E(P.mean, P.sd); E.setSeed((int)(seed ^ 0x5a5a5a5au));
                    for (int i = 0; i < k; ++i) E.getValue();
                    E.setSeed((int)seed);
                    int64_t b2 = -1; for (int i = 0; i < 2100; ++i) { double v = E.getValue(); if (bitsOf(v) != bitsOf(a[i]) && b2 < 0) b2 = i; }
                    run.expect(b2 < 0, std::string("gaussian/reseed-restarts-stream/") + (k % 2 ? "odd-draw-count" : "even-draw-count"),
                               [&] { return tag + ": after " + std::to_string(k) + " draws and setSeed the stream differs at " + std::to_string(b2); }, rp);
                }
                // setMean / setStdDev mid-stream
                const GParam& P2 = kGauss[(dg[0] + 1) % kNGauss];
                Random::Gaussian F(P.mean, P.sd), G(P2.mean, P2.sd); F.setSeed((int)seed); G.setSeed((int)seed);
                for (int i = 0; i < 701; ++i) { F.getValue(); G.getValue(); }
                F.setMean(P2.mean); F.setStdDev(P2.sd);
                bool get = F.getMean() == P2.mean && F.getStdDev() == P2.sd;
                int64_t b3 = -1; for (int i = 0; i < 1500; ++i) { double v = F.getValue(), w = G.getValue(); if (bitsOf(v) != bitsOf(w) && b3 < 0) b3 = i; }
                run.expect(get && b3 < 0, "gaussian/setMean-setStdDev-midstream", [&] { return tag + ": after setMean/setStdDev to " + P2.name + " the stream differs from an object built with those parameters (at " + std::to_string(b3) + ")"; }, rp);
            }
            run.outcome(verif::hashMix(bitsOf(a[0]), bitsOf(a[L - 1])));
            if (idx % 211 == 0) run.sample(tag + " -> first " + verif::fmtd(a[0]) + " last " + verif::fmtd(a[L - 1]));
        });
    }

    // ================================================================ extremes (white-box injection of raw words)
    {
        std::vector<uint64_t> words = {0ull, 1ull, 2047ull, 2048ull, 1ull << 32, (1ull << 63) - 1, 1ull << 63, (1ull << 63) + 1024, (1ull << 63) + 1025,
                                       ~0ull - 4096, ~0ull - 2048, ~0ull - 2047, ~0ull - 1536, ~0ull - 1025, ~0ull - 1024, ~0ull - 1023, ~0ull - 512, ~0ull - 2, ~0ull - 1, ~0ull,
                                       0x7fffffffffffffffull - 1023, 0xfffffffffffff000ull, 0xfffffffffffff7ffull, 0xfffffffffffff800ull};
        verif::Odometer od; od.dim("range", kNRanges); od.dim("word", (int64_t)words.size());
        run.parallel("extremes", od.size(), [&](int64_t idx) {
            auto dg = od.digits(idx);
            const Range& R = kRanges[dg[0]]; const uint64_t w = words[dg[1]];
            char wb[32]; snprintf(wb, sizeof wb, "0x%016llx", (unsigned long long)w);
            const std::string tag = std::string("extremes ") + R.name + " raw-word=" + wb;
            auto rp = [&] { return run.replayHeader() + "case=" + tag + "\n"; };
            Random::Uniform U(R.lo, R.hi);
            U.setSeed(4321);
            ImplMirror* m = reinterpret_cast<ImplMirror*>(U.impl);
            // validate the mirror's layout before trusting it: after one getValue() the buffer must hold exactly what the
            // library's own fill_array64 produces for this seed (independent of the reference SFMT, so that an SFMT
            // defect is reported by the sfmt section and not as a harness error here)
            std::vector<uint64_t> own(1024);
            { SimTK_SFMT::SFMTData* d = SimTK_SFMT::createSFMTData(); SimTK_SFMT::init_gen_rand(4321, *d); SimTK_SFMT::fill_array64(own.data(), 1024, *d); SimTK_SFMT::deleteSFMTData(d); }
            bool layoutOk = m->nextIndex == 1024;
            (void)U.getValue();
            layoutOk = layoutOk && m->nextIndex == 1 && m->buffer[0] == own[0] && m->buffer[511] == own[511] && m->buffer[1023] == own[1023];
            if (!layoutOk) { run.harnessError("Random::RandomImpl layout differs from the harness mirror; extremes section cannot inject words"); return; }
            run.evaluation(verif::hashStr(tag), true);
            // two mechanisms can reach max: the word -> [0,1) conversion rounds up to exactly 1.0, or min + u*range rounds up to max
            const double u = (double)((long double)w / 18446744073709551616.0L);
            const std::string cls = u >= 1.0 ? "word-to-unit-conversion-rounds-to-1" : "min+u*range-rounds-to-max";
            m->buffer[5] = w; m->nextIndex = 5;
            double v = U.getValue();
            run.expect(v >= R.lo, "extremes/value-below-min/" + cls, [&] { return tag + ": getValue() = " + verif::fmtd(v) + " < min"; }, rp);
            run.expect(v < R.hi, "extremes/value-reaches-max/" + cls, [&] { return tag + ": getValue() = " + verif::fmtd(v) + " is not below max = " + verif::fmtd(R.hi) + " (max is documented as exclusive)"; }, rp);
            if (R.integerBounds) {
                m->buffer[6] = w; m->nextIndex = 6;
                int iv = U.getIntValue();
                run.expect(iv >= (int)R.lo && iv < (int)R.hi, "extremes/int-value-out-of-range/" + cls, [&] { return tag + ": getIntValue() = " + std::to_string(iv) + " not in [min,max)"; }, rp);
            }
            run.outcome(bitsOf(v));
            if (idx % 37 == 0) run.sample(tag + " -> " + verif::fmtd(v));
        });
    }

    // ================================================================ defaults
    run.parallel("defaults", 1, [&](int64_t) {
        const int K = 64;
        std::vector<std::unique_ptr<Random::Uniform>> us; std::vector<std::unique_ptr<Random::Gaussian>> gs;
        for (int i = 0; i < K; ++i) { if (i % 2) us.emplace_back(new Random::Uniform()); else gs.emplace_back(new Random::Gaussian()); }
        std::set<uint64_t> firstU, firstG;
        for (auto& u : us) firstU.insert(bitsOf(u->getValue()));
        for (auto& g : gs) firstG.insert(bitsOf(g->getValue()));
        run.evaluation(verif::hashStr("defaults"), true);
        run.expect((int)firstU.size() == K / 2 && (int)firstG.size() == K / 2, "defaults/different-seed-per-object",
                   [&] { return "default-constructed generators do not all start with different values: " + std::to_string(firstU.size()) + " distinct Uniform, " + std::to_string(firstG.size()) + " distinct Gaussian of " + std::to_string(K / 2); });
    });
    return run.finish();
}
