// C28 -- Angular-velocity rate helpers are exact derivatives.
// Engine E3.  Every helper of Rotation_<P> that relates angular velocity / acceleration to
// body-fixed XYZ (and 3-2-1) Euler-angle or quaternion derivatives is evaluated on a lattice of
// orientations x angular velocities x angular accelerations x {body, parent} x {float, double}
// and compared with first principles in long double:
//   * NInv columns are vee(R^T dR/dq_i) resp. vee(dR/dq_i R^T) of the product of textbook elementary
//     rotations, N is its dense inverse, N*NInv = I;
//   * a coordinate rate qdot returned by the library is *integrated*: d/dt R(q + t qdot) (4th-order
//     central differences, Richardson pair (h, h/2) that must agree, else skipped and counted) must
//     equal R w^ (w in body) resp. w^ R (w in parent);
//   * a second derivative qddot returned by the library is integrated the same way:
//     for q(t) = q + t qdot + t^2/2 qddot the angular acceleration vee(skew(R^T R'')) resp.
//     vee(skew(R'' R^T)) must equal the input;
//   * NDot equals the finite-difference time derivative of the reference N along q(t).
// All helpers are inline in Rotation.h, so the harness needs no simbody library.
// VERIF_NOLIBS
#include "SimTKcommon.h"
#include "verif.h"
#include "refmath.h"

using namespace SimTK;
using ref::LD; using ref::M3; using ref::V3;

template <class P> struct Prec;
template <> struct Prec<double> { static const char* tag() { return "d"; } static double eps() { return 2.220446049250313e-16; } static double angEps() { return 1e-7; } };
template <> struct Prec<float> { static const char* tag() { return "f"; } static double eps() { return 1.1920928955078125e-07; } static double angEps() { return 1e-3; } };
template <class P> static double TOL() { return 4500 * Prec<P>::eps(); }
// finite-difference oracles: never tighter than 1e-9 (Richardson-extrapolated truncation error <= 1e-12 measured)
template <class P> static double FDTOL() { return std::max(TOL<P>(), 1e-9); }

#define NM(lit) ([]() -> const std::string& { static const std::string s_ = std::string(lit) + "." + Prec<P>::tag(); return s_; }())

static std::string fmt(const char* f, ...) __attribute__((format(printf, 1, 2)));
static std::string fmt(const char* f, ...) { char b[1200]; va_list ap; va_start(ap, f); vsnprintf(b, sizeof b, f, ap); va_end(ap); return b; }

// ---------------------------------------------------------------- first-principles references
static M3 inv3(const M3& m) {
    LD d = ref::det(m); M3 r;
    for (int i = 0; i < 3; ++i) for (int j = 0; j < 3; ++j) {
        int a = (j + 1) % 3, b = (j + 2) % 3, c = (i + 1) % 3, e = (i + 2) % 3;
        r.a[i][j] = (m.a[a][c] * m.a[b][e] - m.a[a][e] * m.a[b][c]) / d;
    }
    return r;
}
static V3 vee(const M3& m) { return ref::vec((m.a[2][1] - m.a[1][2]) / 2, (m.a[0][2] - m.a[2][0]) / 2, (m.a[1][0] - m.a[0][1]) / 2); }
static LD symPart(const M3& m) { LD r = 0; for (int i = 0; i < 3; ++i) for (int j = 0; j < 3; ++j) r = fmaxl(r, fabsl(m.a[i][j] + m.a[j][i]) / 2); return r; }

// body-fixed sequence about axes (x1,x2,x3): R = E1 E2 E3
struct Seq { int x[3]; };
static const Seq XYZ = {{0, 1, 2}}, ZYX = {{2, 1, 0}};
static M3 Rseq(const Seq& s, const V3& q) { return ref::mul(ref::mul(ref::elem(s.x[0], q[0]), ref::elem(s.x[1], q[1])), ref::elem(s.x[2], q[2])); }
static V3 eAxis(int a) { V3 v = ref::vec(0, 0, 0); v[a] = 1; return v; }
// NInv such that w = NInv * qdot;  body: w expressed in B, else in P
static M3 NInvRef(const Seq& s, const V3& q, bool body) {
    M3 E1 = ref::elem(s.x[0], q[0]), E2 = ref::elem(s.x[1], q[1]), E3 = ref::elem(s.x[2], q[2]);
    V3 c0, c1, c2;
    if (body) { c0 = ref::mul(ref::transp(ref::mul(E2, E3)), eAxis(s.x[0])); c1 = ref::mul(ref::transp(E3), eAxis(s.x[1])); c2 = eAxis(s.x[2]); }
    else      { c0 = eAxis(s.x[0]); c1 = ref::mul(E1, eAxis(s.x[1])); c2 = ref::mul(ref::mul(E1, E2), eAxis(s.x[2])); }
    M3 m; for (int i = 0; i < 3; ++i) { m.a[i][0] = c0[i]; m.a[i][1] = c1[i]; m.a[i][2] = c2[i]; }
    return m;
}
static M3 NRef(const Seq& s, const V3& q, bool body) { return inv3(NInvRef(s, q, body)); }

// 4th-order central first / second derivative of a matrix function of t at 0
template <class F> static M3 d1(F f, LD h) { return ref::scale(ref::add(ref::scale(ref::sub(f(h), f(-h)), 8), ref::sub(f(-2 * h), f(2 * h))), 1 / (12 * h)); }
template <class F> static M3 d2(F f, LD h) {
    M3 s = ref::add(ref::scale(ref::add(f(h), f(-h)), 16), ref::scale(ref::add(f(2 * h), f(-2 * h)), -1));
    return ref::scale(ref::add(s, ref::scale(f(0), -30)), 1 / (12 * h * h));
}
struct FD { M3 val; LD est; };
// step: 2^-8 divided by the next power of two above (1 + rate), rate = size of the path's velocity (time-scale invariance)
static LD stepFor(LD rate) { LD h = 1.0L / 256; LD r = 1; while (r < 1 + rate) r *= 2; return h / r; }
template <class F> static FD rich1(F f, LD h) { M3 a = d1(f, h), b = d1(f, h / 2); FD r; r.val = ref::add(b, ref::scale(ref::sub(b, a), 1.0L / 15)); r.est = ref::maxAbsDiff(a, b) / 15; return r; }
template <class F> static FD rich2(F f, LD h) { M3 a = d2(f, h), b = d2(f, h / 2); FD r; r.val = ref::add(b, ref::scale(ref::sub(b, a), 1.0L / 15)); r.est = ref::maxAbsDiff(a, b) / 15; return r; }

template <class P> static M3 m3of(const Mat<3, 3, P>& m) { return ref::toM3(m); }
template <class P> static V3 v3of(const Vec<3, P>& v) { return ref::toV3(v); }
template <class P> static Vec<3, P> vecP(const V3& v) { return Vec<3, P>((P)v[0], (P)v[1], (P)v[2]); }

struct Ctx {
    verif::Run& run; std::string s, hdr;
    std::function<std::string()> w() const { const Ctx* p = this; return [p] { return p->s; }; }
    std::function<std::string()> r() const { const Ctx* p = this; return [p] { return p->hdr + "case=" + p->s + "\n"; }; }
};
// FD result accepted only when the Richardson pair agrees
static bool fdOk(verif::Run& run, const std::string& name, const FD& f, LD scale) {
    if ((double)f.est <= 1e-9 * (double)scale) { run.count(name + ":richardson-agreed"); return true; }
    run.count(name + ":skipped-richardson-disagreed");
    return false;
}

// ================================================================ body-fixed XYZ
template <class P> static void caseXYZ(verif::Run& run, const V3& q0, const V3& w0, const V3& b0) {
    typedef Rotation_<P> Rot; typedef Vec<3, P> V; typedef Mat<3, 3, P> M;
    const V q = vecP<P>(q0), w = vecP<P>(w0), b = vecP<P>(b0);
    const V3 ql = v3of<P>(q), wl = v3of<P>(w), bl = v3of<P>(b);     // the exact values the library sees
    const LD c1 = cosl(ql[1]);
    const double cond = (double)(1 / fabsl(c1));
    Ctx C{run, fmt("P=%s bodyXYZ q=(%.9g, %.9g, %.9g) w=(%.9g, %.9g, %.9g) wdot=(%.9g, %.9g, %.9g)", Prec<P>::tag(), (double)ql[0], (double)ql[1], (double)ql[2], (double)wl[0], (double)wl[1], (double)wl[2], (double)bl[0], (double)bl[1], (double)bl[2]), run.replayHeader()};
    run.evaluationDistinct(ref::maxAbs(ql) != 0);
    const double tol = TOL<P>(), fdtol = FDTOL<P>();
    const V cq(std::cos(q[0]), std::cos(q[1]), std::cos(q[2])), sq(std::sin(q[0]), std::sin(q[1]), std::sin(q[2]));
    const Vec<2, P> cxy(cq[0], cq[1]), sxy(sq[0], sq[1]);
    const P ooc = 1 / cq[1];
    const M3 R0 = Rseq(XYZ, ql);
    uint64_t oh = 0;

    for (int body = 1; body >= 0; --body) {
        const char* fr = body ? "body" : "parent";
        const M N = body ? Rot::calcNForBodyXYZInBodyFrame(q) : Rot::calcNForBodyXYZInParentFrame(q);
        const M NI = body ? Rot::calcNInvForBodyXYZInBodyFrame(q) : Rot::calcNInvForBodyXYZInParentFrame(q);
        const M N2 = body ? Rot::calcNForBodyXYZInBodyFrame(cq, sq) : Rot::calcNForBodyXYZInParentFrame(cq, sq);
        const M NI2 = body ? Rot::calcNInvForBodyXYZInBodyFrame(cq, sq) : Rot::calcNInvForBodyXYZInParentFrame(cq, sq);
        run.expect(N == N2 && NI == NI2, NM("xyz-angle-and-sincos-overloads-agree"), [&] { return std::string(fr) + ": N/NInv(q) != N/NInv(cq,sq) at " + C.s; }, C.r());
        const M3 Nl = m3of<P>(N), NIl = m3of<P>(NI);
        const M3 NIref = NInvRef(XYZ, ql, body), Nref = inv3(NIref);
        run.residual(NM("xyz-N-times-NInv-is-identity"), (double)fmaxl(ref::maxAbsDiff(ref::mul(Nl, NIl), ref::ident3()), ref::maxAbsDiff(ref::mul(NIl, Nl), ref::ident3())) / (cond * cond), tol, C.w(), C.r(), fr);
        run.residual(NM("xyz-NInv-vs-first-principles"), (double)ref::maxAbsDiff(NIl, NIref), tol, C.w(), C.r(), fr);
        run.residual(NM("xyz-N-vs-first-principles"), (double)ref::maxAbsDiff(Nl, Nref) / (cond * cond), tol, C.w(), C.r(), fr);
        // documented frame relations N_P = N_B * ~R_PB,  NInv_B = ~R_PB * NInv_P are implied by the two lines above for both frames.

        // ---- first order: qdot = N w integrates to a rotation moving with angular velocity w
        V qd;
        if (body) {
            qd = Rot::convertAngVelInBodyFrameToBodyXYZDot(q, w);
            V qd2 = Rot::convertAngVelInBodyFrameToBodyXYZDot(cq, sq, w);
            run.expect(qd == qd2, NM("xyz-qdot-overloads-agree"), [&] { return "convertAngVelInBodyFrameToBodyXYZDot(q,w) != (cq,sq,w) at " + C.s; }, C.r());
            run.residual(NM("xyz-qdot-equals-N-w"), (double)ref::maxAbsDiff(v3of<P>(qd), ref::mul(Nl, wl)) / (cond * cond) / (1 + (double)ref::maxAbs(wl)), tol, C.w(), C.r(), fr);
        } else {
            qd = Rot::convertAngVelInParentToBodyXYZDot(cxy, sxy, ooc, w);
            V qd2 = Rot::multiplyByBodyXYZ_N_P(cxy, sxy, ooc, w);
            run.expect(qd == qd2, NM("xyz-qdot-overloads-agree"), [&] { return "convertAngVelInParentToBodyXYZDot != multiplyByBodyXYZ_N_P at " + C.s; }, C.r());
            run.residual(NM("xyz-qdot-equals-N-w"), (double)ref::maxAbsDiff(v3of<P>(qd), ref::mul(Nl, wl)) / (cond * cond) / (1 + (double)ref::maxAbs(wl)), tol, C.w(), C.r(), fr);
            // the transposed / inverse fast products
            V3 x = wl;
            LD e = 0;
            e = fmaxl(e, ref::maxAbsDiff(v3of<P>(Rot::multiplyByBodyXYZ_NT_P(cxy, sxy, ooc, w)), ref::mul(ref::transp(Nref), x)) / (cond * cond));
            e = fmaxl(e, ref::maxAbsDiff(v3of<P>(Rot::multiplyByBodyXYZ_NInv_P(cxy, sxy, w)), ref::mul(NIref, x)));
            e = fmaxl(e, ref::maxAbsDiff(v3of<P>(Rot::multiplyByBodyXYZ_NInvT_P(cxy, sxy, w)), ref::mul(ref::transp(NIref), x)));
            run.residual(NM("xyz-fast-products-vs-first-principles"), (double)e / (1 + (double)ref::maxAbs(x)), tol, C.w(), C.r());
        }
        const V3 qdl = v3of<P>(qd);
        const LD sc1 = 1 + ref::maxAbs(qdl);
        {
            auto Rt = [&](LD t) { return Rseq(XYZ, ref::add(ql, ref::scale(qdl, t))); };
            FD f = rich1(Rt, stepFor(ref::maxAbs(qdl)));
            if (fdOk(run, NM("xyz-first-order-fd"), f, sc1)) {
                M3 want = body ? ref::mul(R0, ref::crossMat(wl)) : ref::mul(ref::crossMat(wl), R0);
                run.residual(NM("xyz-qdot-is-true-derivative"), (double)(ref::maxAbsDiff(f.val, want) / sc1) / (cond * cond), fdtol, C.w(), C.r(), fr);
                if (run.verbose) printf("%s [%s]\n  qdot = %s\n  dR/dt by FD = %s\n  expected    = %s\n", C.s.c_str(), fr, ref::str(qdl).c_str(), ref::str(f.val).c_str(), ref::str(want).c_str());
            }
        }
        // inverse direction
        if (body) {
            V wb = Rot::convertBodyXYZDotToAngVelInBodyFrame(q, qd), wb2 = Rot::convertBodyXYZDotToAngVelInBodyFrame(cq, sq, qd);
            run.expect(wb == wb2, NM("xyz-angvel-overloads-agree"), [&] { return "convertBodyXYZDotToAngVelInBodyFrame overloads differ at " + C.s; }, C.r());
            run.residual(NM("xyz-angvel-from-qdot-roundtrip"), (double)ref::maxAbsDiff(v3of<P>(wb), wl) / (cond * cond) / (1 + (double)ref::maxAbs(wl)), tol, C.w(), C.r());
        }

        // ---- NDot: time derivative of N along q(t) = q + t qdot
        {
            M ND, ND2;
            if (body) { ND = Rot::calcNDotForBodyXYZInBodyFrame(q, qd); ND2 = Rot::calcNDotForBodyXYZInBodyFrame(cq, sq, qd); }
            else      { ND = Rot::calcNDotForBodyXYZInParentFrame(q, qd); ND2 = Rot::calcNDotForBodyXYZInParentFrame(cxy, sxy, ooc, qd); }
            run.expect(ND == ND2, NM("xyz-NDot-overloads-agree"), [&] { return std::string(fr) + ": NDot(q,qdot) != NDot(cq,sq,qdot) at " + C.s; }, C.r());
            auto Nt = [&](LD t) { return NRef(XYZ, ref::add(ql, ref::scale(qdl, t)), body); };
            FD f = rich1(Nt, stepFor(ref::maxAbs(qdl) * cond));
            const LD sc = sc1 * cond * cond * cond;
            if (fdOk(run, NM("xyz-NDot-fd"), f, sc))
                run.residual(NM("xyz-NDot-is-derivative-of-N"), (double)(ref::maxAbsDiff(m3of<P>(ND), f.val) / sc), fdtol, C.w(), C.r(), fr);
            oh = verif::hashPod(ND, oh);
        }

        // ---- second order: qddot integrates to the given angular acceleration
        {
            V qdd;
            if (body) {
                qdd = Rot::convertAngVelDotInBodyFrameToBodyXYZDotDot(q, w, b);
                V qdd2 = Rot::convertAngVelDotInBodyFrameToBodyXYZDotDot(cq, sq, w, b);
                run.expect(qdd == qdd2, NM("xyz-qddot-overloads-agree"), [&] { return "convertAngVelDotInBodyFrameToBodyXYZDotDot overloads differ at " + C.s; }, C.r());
            } else qdd = Rot::convertAngAccInParentToBodyXYZDotDot(cxy, sxy, ooc, qd, b);
            const V3 qddl = v3of<P>(qdd);
            const LD sc = (1 + ref::maxAbs(wl) * ref::maxAbs(wl) + ref::maxAbs(bl)) * cond * cond * cond;
            auto Rt = [&](LD t) { return Rseq(XYZ, ref::add(ref::add(ql, ref::scale(qdl, t)), ref::scale(qddl, t * t / 2))); };
            const LD hh = stepFor(ref::maxAbs(qdl) + sqrtl(ref::maxAbs(qddl)));
            FD f1 = rich1(Rt, hh), f2 = rich2(Rt, hh);
            if (fdOk(run, NM("xyz-second-order-fd"), f2, sc) && fdOk(run, NM("xyz-second-order-fd1"), f1, sc)) {
                M3 A = body ? ref::mul(ref::transp(R0), f2.val) : ref::mul(f2.val, ref::transp(R0));
                M3 W = body ? ref::mul(ref::transp(R0), f1.val) : ref::mul(f1.val, ref::transp(R0));
                // skew(R^T R'') = wdot^ ;  sym(R^T R'') = (w^)^2 ; both are checked
                run.residual(NM("xyz-qddot-is-true-second-derivative"), (double)(ref::maxAbsDiff(vee(A), bl) / sc), fdtol, C.w(), C.r(), fr);
                M3 w2 = ref::mul(ref::crossMat(vee(W)), ref::crossMat(vee(W)));
                M3 symA; for (int i = 0; i < 3; ++i) for (int j = 0; j < 3; ++j) symA.a[i][j] = (A.a[i][j] + A.a[j][i]) / 2;
                run.residual(NM("fd-self-consistency"), (double)(ref::maxAbsDiff(symA, w2) / sc), fdtol, C.w(), C.r());
                if (run.verbose) printf("  [%s] qddot = %s -> angular acceleration by FD %s, expected %s\n", fr, ref::str(qddl).c_str(), ref::str(vee(A)).c_str(), ref::str(bl).c_str());
            }
            // documented decomposition qddot = N wdot + NDot w with the library's own pieces
            M ND = body ? Rot::calcNDotForBodyXYZInBodyFrame(q, qd) : Rot::calcNDotForBodyXYZInParentFrame(q, qd);
            V3 comp = ref::add(ref::mul(m3of<P>(N), bl), ref::mul(m3of<P>(ND), wl));
            run.residual(NM("xyz-qddot-equals-N-wdot-plus-NDot-w"), (double)(ref::maxAbsDiff(qddl, comp) / sc), tol, C.w(), C.r(), fr);
            oh = verif::hashPod(qdd, oh);
        }
    }
    run.outcome(oh);
    (void)symPart;
}

// ================================================================ body-fixed 3-2-1
template <class P> static void case321(verif::Run& run, const V3& q0, const V3& w0, const V3& b0) {
    typedef Rotation_<P> Rot; typedef Vec<3, P> V;
    const V q = vecP<P>(q0), w = vecP<P>(w0), b = vecP<P>(b0);
    const V3 ql = v3of<P>(q), wl = v3of<P>(w), bl = v3of<P>(b);
    const double cond = (double)(1 / fabsl(cosl(ql[1])));
    Ctx C{run, fmt("P=%s body321 q=(%.9g, %.9g, %.9g) w=(%.9g, %.9g, %.9g) wdot=(%.9g, %.9g, %.9g)", Prec<P>::tag(), (double)ql[0], (double)ql[1], (double)ql[2], (double)wl[0], (double)wl[1], (double)wl[2], (double)bl[0], (double)bl[1], (double)bl[2]), run.replayHeader()};
    run.evaluationDistinct(ref::maxAbs(ql) != 0);
    const double tol = TOL<P>(), fdtol = FDTOL<P>();
    const M3 R0 = Rseq(ZYX, ql);
    const M3 NIref = NInvRef(ZYX, ql, true), Nref = inv3(NIref);
    V qd = Rot::convertAngVelToBodyFixed321Dot(q, w);
    const V3 qdl = v3of<P>(qd);
    run.residual(NM("321-qdot-vs-first-principles"), (double)ref::maxAbsDiff(qdl, ref::mul(Nref, wl)) / (cond * cond) / (1 + (double)ref::maxAbs(wl)), tol, C.w(), C.r());
    V wb = Rot::convertBodyFixed321DotToAngVel(q, qd);
    run.residual(NM("321-angvel-from-qdot-roundtrip"), (double)ref::maxAbsDiff(v3of<P>(wb), wl) / (cond * cond) / (1 + (double)ref::maxAbs(wl)), tol, C.w(), C.r());
    run.residual(NM("321-angvel-vs-first-principles"), (double)ref::maxAbsDiff(v3of<P>(Rot::convertBodyFixed321DotToAngVel(q, w)), ref::mul(NIref, wl)) / (1 + (double)ref::maxAbs(wl)), tol, C.w(), C.r());
    const LD sc1 = 1 + ref::maxAbs(qdl);
    {
        auto Rt = [&](LD t) { return Rseq(ZYX, ref::add(ql, ref::scale(qdl, t))); };
        FD f = rich1(Rt, stepFor(ref::maxAbs(qdl)));
        if (fdOk(run, NM("321-first-order-fd"), f, sc1))
            run.residual(NM("321-qdot-is-true-derivative"), (double)(ref::maxAbsDiff(f.val, ref::mul(R0, ref::crossMat(wl))) / sc1) / (cond * cond), fdtol, C.w(), C.r());
    }
    V qdd = Rot::convertAngVelDotToBodyFixed321DotDot(q, w, b);
    const V3 qddl = v3of<P>(qdd);
    const LD sc = (1 + ref::maxAbs(wl) * ref::maxAbs(wl) + ref::maxAbs(bl)) * cond * cond * cond;
    auto Rt = [&](LD t) { return Rseq(ZYX, ref::add(ref::add(ql, ref::scale(qdl, t)), ref::scale(qddl, t * t / 2))); };
    FD f2 = rich2(Rt, stepFor(ref::maxAbs(qdl) + sqrtl(ref::maxAbs(qddl))));
    if (fdOk(run, NM("321-second-order-fd"), f2, sc)) {
        M3 A = ref::mul(ref::transp(R0), f2.val);
        run.residual(NM("321-qddot-is-true-second-derivative"), (double)(ref::maxAbsDiff(vee(A), bl) / sc), fdtol, C.w(), C.r());
        if (run.verbose) printf("%s\n  qdot = %s qddot = %s\n  angular acceleration by FD %s, expected %s\n", C.s.c_str(), ref::str(qdl).c_str(), ref::str(qddl).c_str(), ref::str(vee(A)).c_str(), ref::str(bl).c_str());
    }
    run.outcome(verif::hashPod(qdd, verif::hashPod(qd)));
}

// ================================================================ quaternions
struct Q4 { LD v[4]; };
static Q4 qmul(const Q4& a, const Q4& b) {
    Q4 r;
    r.v[0] = a.v[0] * b.v[0] - a.v[1] * b.v[1] - a.v[2] * b.v[2] - a.v[3] * b.v[3];
    r.v[1] = a.v[0] * b.v[1] + a.v[1] * b.v[0] + a.v[2] * b.v[3] - a.v[3] * b.v[2];
    r.v[2] = a.v[0] * b.v[2] - a.v[1] * b.v[3] + a.v[2] * b.v[0] + a.v[3] * b.v[1];
    r.v[3] = a.v[0] * b.v[3] + a.v[1] * b.v[2] - a.v[2] * b.v[1] + a.v[3] * b.v[0];
    return r;
}
template <class P> static void caseQuat(verif::Run& run, const Q4& qin, const V3& w0, const V3& b0) {
    typedef Rotation_<P> Rot; typedef Vec<3, P> V; typedef Vec<4, P> V4;
    const V4 q((P)qin.v[0], (P)qin.v[1], (P)qin.v[2], (P)qin.v[3]);
    const V w = vecP<P>(w0), b = vecP<P>(b0);
    Q4 ql; for (int i = 0; i < 4; ++i) ql.v[i] = (LD)q[i];
    const V3 wl = v3of<P>(w), bl = v3of<P>(b);
    LD n2 = 0; for (int i = 0; i < 4; ++i) n2 += ql.v[i] * ql.v[i];
    const LD nq = sqrtl(n2);
    Ctx C{run, fmt("P=%s quaternion q=(%.9g, %.9g, %.9g, %.9g) |q|=%.6Lg w=(%.9g, %.9g, %.9g) wdot=(%.9g, %.9g, %.9g)", Prec<P>::tag(), (double)q[0], (double)q[1], (double)q[2], (double)q[3], nq, (double)wl[0], (double)wl[1], (double)wl[2], (double)bl[0], (double)bl[1], (double)bl[2]), run.replayHeader()};
    run.evaluationDistinct(true);
    const double tol = TOL<P>(), fdtol = FDTOL<P>();
    const Mat<4, 3, P> N = Rot::calcUnnormalizedNForQuaternion(q);
    const Mat<3, 4, P> NI = Rot::calcUnnormalizedNInvForQuaternion(q);
    // documented: NInv*N = |q|^2 I
    LD e = 0;
    for (int i = 0; i < 3; ++i) for (int j = 0; j < 3; ++j) { LD s = 0; for (int k = 0; k < 4; ++k) s += (LD)NI(i, k) * (LD)N(k, j); e = fmaxl(e, fabsl(s - (i == j ? n2 : 0))); }
    run.residual(NM("quat-NInv-times-N-is-normsq-identity"), (double)(e / n2), tol, C.w(), C.r());
    // qdot = N w = 1/2 (0,w) (x) q   (w in the parent frame, q the rotation parent<-body)
    V4 qd = Rot::convertAngVelToQuaternionDot(q, w);
    Q4 wq = {{0, wl[0], wl[1], wl[2]}};
    Q4 want = qmul(wq, ql);
    e = 0; for (int i = 0; i < 4; ++i) e = fmaxl(e, fabsl((LD)qd[i] - want.v[i] / 2));
    run.residual(NM("quat-qdot-vs-first-principles"), (double)(e / nq / (1 + ref::maxAbs(wl))), tol, C.w(), C.r());
    { V4 viaN = N * w; run.expect(viaN == qd, NM("quat-qdot-equals-N-w"), [&] { return "convertAngVelToQuaternionDot != N*w at " + C.s; }, C.r()); }
    // inverse: w = NInv qdot / |q|^2 ... documented as exact inverse only for |q| = 1; general: NInv*qdot = |q|^2 w
    V wb = Rot::convertQuaternionDotToAngVel(q, qd);
    run.residual(NM("quat-angvel-from-qdot-roundtrip"), (double)(ref::maxAbsDiff(v3of<P>(wb), ref::scale(wl, n2)) / n2 / (1 + ref::maxAbs(wl))), tol, C.w(), C.r());
    // integrate: R(q + t qdot) must move with angular velocity w in the parent
    Q4 qdl; for (int i = 0; i < 4; ++i) qdl.v[i] = (LD)qd[i];
    const M3 R0 = ref::fromQuat(ql.v[0], ql.v[1], ql.v[2], ql.v[3]);
    const LD sc1 = 1 + ref::maxAbs(wl);
    {
        auto Rt = [&](LD t) { return ref::fromQuat(ql.v[0] + t * qdl.v[0], ql.v[1] + t * qdl.v[1], ql.v[2] + t * qdl.v[2], ql.v[3] + t * qdl.v[3]); };
        FD f = rich1(Rt, stepFor(ref::maxAbs(wl)));
        if (fdOk(run, NM("quat-first-order-fd"), f, sc1))
            run.residual(NM("quat-qdot-is-true-derivative"), (double)(ref::maxAbsDiff(f.val, ref::mul(ref::crossMat(wl), R0)) / sc1), fdtol, C.w(), C.r());
    }
    // NDot(qdot): derivative of the (linear) N along q + t qdot
    {
        Mat<4, 3, P> ND = Rot::calcUnnormalizedNDotForQuaternion(qd);
        LD en = 0;
        for (int c = 0; c < 3; ++c) {   // column c of N(q) is 1/2 q (x) (0,e_c)^~ ... simply: N(q) e_c = 1/2 (0,e_c) (x) q
            Q4 ec = {{0, 0, 0, 0}}; ec.v[1 + c] = 1;
            Q4 col = qmul(ec, qdl);
            for (int r = 0; r < 4; ++r) en = fmaxl(en, fabsl((LD)ND(r, c) - col.v[r] / 2));
        }
        run.residual(NM("quat-NDot-is-derivative-of-N"), (double)(en / nq / sc1), tol, C.w(), C.r());
    }
    // second order
    V4 qdd = Rot::convertAngVelDotToQuaternionDotDot(q, w, b);
    Q4 qddl; for (int i = 0; i < 4; ++i) qddl.v[i] = (LD)qdd[i];
    const LD sc = 1 + ref::maxAbs(wl) * ref::maxAbs(wl) + ref::maxAbs(bl);
    {   // first principles: qddot = 1/2 (0,b)(x)q - |w|^2/4 q
        Q4 bq = {{0, bl[0], bl[1], bl[2]}}; Q4 t1 = qmul(bq, ql);
        LD w2 = ref::dot(wl, wl); LD en = 0;
        for (int i = 0; i < 4; ++i) en = fmaxl(en, fabsl(qddl.v[i] - (t1.v[i] / 2 - w2 / 4 * ql.v[i])));
        run.residual(NM("quat-qddot-vs-first-principles"), (double)(en / nq / sc), tol, C.w(), C.r());
    }
    {
        auto Rt = [&](LD t) { LD u = t * t / 2; return ref::fromQuat(ql.v[0] + t * qdl.v[0] + u * qddl.v[0], ql.v[1] + t * qdl.v[1] + u * qddl.v[1], ql.v[2] + t * qdl.v[2] + u * qddl.v[2], ql.v[3] + t * qdl.v[3] + u * qddl.v[3]); };
        FD f2 = rich2(Rt, stepFor(ref::maxAbs(wl) + sqrtl(ref::maxAbs(bl))));
        if (fdOk(run, NM("quat-second-order-fd"), f2, sc)) {
            M3 A = ref::mul(f2.val, ref::transp(R0));
            run.residual(NM("quat-qddot-is-true-second-derivative"), (double)(ref::maxAbsDiff(vee(A), bl) / sc), fdtol, C.w(), C.r());
            if (run.verbose) printf("%s\n  angular acceleration by FD %s, expected %s\n", C.s.c_str(), ref::str(vee(A)).c_str(), ref::str(bl).c_str());
        }
        // the norm stays constant to second order:  q.qddot + |qdot|^2 = 0
        LD s = 0; for (int i = 0; i < 4; ++i) s += ql.v[i] * qddl.v[i] + qdl.v[i] * qdl.v[i];
        run.residual(NM("quat-norm-constant-to-second-order"), (double)(fabsl(s) / n2 / sc), tol, C.w(), C.r());
    }
    run.outcome(verif::hashPod(qdd, verif::hashPod(qd)));
}

// ================================================================ driver
static const double GEN[3][3][3] = {   // [seed set][which][xyz]
    {{0.3, -1.1, 0.7}, {-0.9, 0.4, 1.3}, {1.7, 0.2, -0.6}},
    {{-0.5, 0.8, 1.1}, {1.2, -0.3, -0.7}, {0.1, 1.9, 0.4}},
    {{0.9, 0.6, -1.3}, {-1.3, -0.2, 0.5}, {0.4, -1.6, 0.8}}};

template <class P> static void runAll(verif::Run& run) {
    const std::string t = std::string(".") + Prec<P>::tag();
    const int s0 = (int)(((run.seed % 3) + 3) % 3);
    const LD pi = (LD)NTraits<P>::getPi(), e = Prec<P>::angEps();
    // outer angles: anything; middle angle: |cos| >= 0.2
    std::vector<LD> outer = {0, e, -e, pi / 6, -pi / 6, pi / 2, -pi / 2, pi - e, -(pi - e), pi};
    std::vector<LD> mid = {0, e, -e, pi / 6, -pi / 6, (LD)1.2, (LD)-1.2, (LD)1.36, (LD)-1.36, pi - e, (LD)2.6, (LD)-2.6, pi};
    std::vector<V3> ws = {ref::vec(1, 0, 0), ref::vec(0, 1, 0), ref::vec(0, 0, 1)};
    std::vector<V3> bs = {ref::vec(0, 0, 0), ref::vec(1, 0, 0), ref::vec(0, 1, 0), ref::vec(0, 0, 1)};
    for (int s = 0; s < 3; ++s) {
        if (!run.thorough() && s != s0) continue;
        outer.push_back(GEN[s][0][0]); outer.push_back(GEN[s][1][2]);
        mid.push_back(GEN[s][0][2]);
        ws.push_back(ref::vec(GEN[s][0][0], GEN[s][0][1], GEN[s][0][2])); ws.push_back(ref::scale(ref::vec(GEN[s][1][0], GEN[s][1][1], GEN[s][1][2]), 10));
        bs.push_back(ref::vec(GEN[s][2][0], GEN[s][2][1], GEN[s][2][2]));
    }
    if (run.thorough()) for (LD x : {(LD)0.25, (LD)-0.25, (LD)2.0, (LD)-2.0, (LD)1e-5}) { outer.push_back(x); if (fabsl(cosl(x)) >= 0.2) mid.push_back(x); }
    for (LD m : mid) if (fabsl(cosl(m)) < 0.2) { run.harnessError("middle-angle alphabet violates |cos| >= 0.2"); }
    run.count("alphabet-outer" + t, (int64_t)outer.size()); run.count("alphabet-middle" + t, (int64_t)mid.size());
    {
        verif::Odometer od; od.dim("wdot", (int64_t)bs.size()); od.dim("w", (int64_t)ws.size()); od.dim("q2", (int64_t)outer.size()); od.dim("q1", (int64_t)mid.size()); od.dim("q0", (int64_t)outer.size());
        run.parallel("xyz" + t, od.size(), [&](int64_t idx) { auto d = od.digits(idx); caseXYZ<P>(run, ref::vec(outer[d[4]], mid[d[3]], outer[d[2]]), ws[d[1]], bs[d[0]]); });
        run.parallel("321" + t, od.size(), [&](int64_t idx) { auto d = od.digits(idx); case321<P>(run, ref::vec(outer[d[4]], mid[d[3]], outer[d[2]]), ws[d[1]], bs[d[0]]); });
    }
    {   // quaternions: the 24 cube rotations' quaternions (exact zeros / ties), axis-angle over the lattice directions, generic; x scale
        std::vector<Q4> qs;
        const LD r2 = sqrtl(0.5L);
        for (int a = 0; a < 4; ++a) { Q4 q = {{0, 0, 0, 0}}; q.v[a] = 1; qs.push_back(q); }
        for (int a = 0; a < 4; ++a) for (int b2 = a + 1; b2 < 4; ++b2) for (int sg : {1, -1}) { Q4 q = {{0, 0, 0, 0}}; q.v[a] = r2; q.v[b2] = sg * r2; qs.push_back(q); }
        for (int m = 0; m < 8; ++m) { Q4 q = {{0.5L, (m & 1) ? -0.5L : 0.5L, (m & 2) ? -0.5L : 0.5L, (m & 4) ? -0.5L : 0.5L}}; qs.push_back(q); }
        for (LD ang : {e, pi / 6, (LD)GEN[s0][0][0], pi - e, pi}) for (int x = -1; x <= 1; ++x) for (int y = -1; y <= 1; ++y) for (int z = -1; z <= 1; ++z) {
            if (!x && !y && !z) continue;
            if (!run.thorough() && (x + 2 * y + 3 * z) % 2) continue;   // quick: half of the 26 directions
            V3 u = ref::unit(ref::vec(x, y, z)); Q4 q = {{cosl(ang / 2), sinl(ang / 2) * u[0], sinl(ang / 2) * u[1], sinl(ang / 2) * u[2]}}; qs.push_back(q);
        }
        static const LD SC[] = {1, 0.5L, 2, -1, 1e-3L, 1e3L};
        verif::Odometer od; od.dim("wdot", (int64_t)bs.size()); od.dim("w", (int64_t)ws.size()); od.dim("scale", 6); od.dim("q", (int64_t)qs.size());
        run.count("quaternion-orientations" + t, (int64_t)qs.size());
        run.parallel("quat" + t, od.size(), [&](int64_t idx) {
            auto d = od.digits(idx); Q4 q = qs[d[3]]; for (int i = 0; i < 4; ++i) q.v[i] *= SC[d[2]];
            caseQuat<P>(run, q, ws[d[1]], bs[d[0]]);
        });
    }
}

int main(int argc, char** argv) {
    verif::Run run("C28", argc, argv);
    run.setDeadline(900, 3400);   // guards only
    run.rule = "E3: every tuple (precision, helper family {bodyXYZ in body frame, bodyXYZ in parent frame, body321, quaternion}, orientation from the angle lattice with |cos q1| >= 0.2 "
               "resp. quaternion lattice x 6 scales, angular velocity from basis + generic, angular acceleration from {0} + basis + generic); distinct by construction; non-trivial = orientation != 0";
    run.assumptions = {"Euler middle angle restricted to |cos q1| >= 0.2 (the helpers are documented singular at 90 degrees); residuals are scaled by the matching power of 1/cos q1",
                       "finite differences in x87 long double, 4th-order central, step pair (h, h/2) with h = 2^-8 / pow2ceil(1 + path rate), Richardson-extrapolated; a case is used only if the pair agrees to 1e-9 relative",
                       "finite-difference oracles use the bound max(4500 eps, 1e-9); algebraic oracles 4500 eps",
                       "angular acceleration in the 321 / XYZ body-frame helpers is the body-frame component derivative (equal to the derivative taken in the parent because w x w = 0)"};
    runAll<double>(run);
    runAll<float>(run);
    return run.finish();
}
