// C03 -- Velocity kinematics is the time derivative of position kinematics.
// Engine E3: every model of sections S (one mobilized body on Ground), A and B (thorough: + C) of the
// shared multibody alphabet x COORD x STATE.  Per case, along the curve q(t) = renorm(q0 + t*qdot0),
// qdot0 = the state's own qdot (= N u), 4th-order central differences with a Richardson pair of
//   * every body's pose (p_GB, R_GB) and two stations per body  vs  getBodyVelocity / findStationVelocityInGround
//   * every column of N                                          vs  multiplyByNDot
// and the algebraic identities
//   * qdot from the state = multiplyByN(u) = calcQDot(u)
//   * multiplyByNInv(multiplyByN(e_i)) = e_i
//   * <a, N b> = <N^T a, b>, same for NInv and NDot, on all basis pairs
//   * calcQDotDot(udot*) = N udot* + NDot u  (NDot from the library: tight; NDot by finite difference: FD bound)
//   * realize(Acceleration): getQDotDot = N getUDot + NDot u
// History sections (HS, HA, HX): one State is realized at configuration A, (optionally copied,) given the q,u of configuration B
// and realized again; every kinematic read-out (X_FM, V_FM, X_GB, V_GB, A_GB, qdot, udot, every column of the system Jacobian
// = the hinge matrices H as the operators see them) must be BITWISE what a fresh State at B gives.
// Violations are attributed to one mobilizer (kind-dir-coord) so that a defect of one node class gets its own key.
#include "Simbody.h"
#include "SimbodyMatterSubsystemRep.h"
#include "RigidBodyNode.h"
#include "verif.h"
#include "models.h"
#include "mbref.h"
#include "mbchart.h"

#include <cxxabi.h>

using namespace SimTK;
using ref::LD; using ref::DMat;

static std::string vdemangle(const char* n) { int st = 0; char* d = abi::__cxa_demangle(n, 0, 0, &st); std::string s = d ? d : n; free(d); return s; }
std::string mb::nodeTypeName(const mb::Model& M, int bi) {
    const RigidBodyNode& n = M.matter.getRep().getRigidBodyNode(M.bodies[bi].getMobilizedBodyIndex());
    return vdemangle(typeid(n).name());
}

// ---- tolerances (calibration numbers in notes/C03.md)
static const double TOL = 1e-12;        // algebraic identities, relative to the operand scale
static double FD_H = 1e-3;              // step in t (seconds of motion along qdot0)
static const double FD_BOUND = 1e-8;    // finite-difference oracles, relative to the velocity scale
static const double FD_AGREE = 1e-9;    // Richardson pair must agree to this or the comparison is skipped and counted

static const Vec3 STATION[2] = {Vec3(0.1, 0.2, -0.3), Vec3(-0.25, 0.15, 0.4)};

struct Ctx {
    verif::Run& run; const std::string& desc; const mb::Model& M; bool euler;
    std::string suffix(int b) const { return std::string(mb::kindName(M.specs[b].kind)) + (M.specs[b].dir ? "-rev" : "-fwd") + (euler ? "-euler" : "-quat"); }
    bool lineQuat(int b) const { return !euler && (M.specs[b].kind == mb::KLineOrientation || M.specs[b].kind == mb::KFreeLine); }
    // defect classes found on the unchanged tree (notes/C03.md): (D1) reversed LineOrientation / FreeLine with the quaternion option
    // use the inverted rotation in qdot = N u (every oracle that follows the motion sees it); (D2) LineOrientation / FreeLine with
    // the quaternion option, either direction: multiplyByNDot omits the N_FF * d/dt(R_FM) term.
    // (D3) FunctionBased with a non-zero constant rotation function in front of coordinate-driven ones: H is built as if that
    // constant were zero (kind FBConstRot2, sections SX/AX only).
    std::string defectClass(const std::string& oracle, int b) const {
        if (M.specs[b].kind == mb::KFBConstRot2 && (oracle == "pose-derivative-vs-velocity" || oracle == "station-derivative-vs-velocity")) return "[FBConstRot2]";
        // (D4) a Custom mobilizer that precalculates H / HDot in realizePosition() / realizeVelocity() as MobilizedBody_Custom.h recommends sees
        // them one realization late (kind CustomHelixPrecalc, sections SX/AX/HX only)
        if (M.specs[b].kind == mb::KCustomHelixPrecalc) return "[CustomHelixPrecalc]";
        if (!lineQuat(b)) return "";
        if (M.specs[b].dir == 1) return "[LineOrientation|FreeLine-rev-quat]";
        if (oracle == "NDot-vs-finite-difference") return "[LineOrientation|FreeLine-fwd-quat]";
        return "";
    }
    // An oracle comparison attributed to body b.  Worst values of the known defect class are kept apart so that the
    // calibration numbers of everything else stay readable; the violation key is always <oracle>/<Kind>-<dir>-<coord>.
    bool report(const std::string& oracle, int b, double value, double bound) const {
        run.acc.transitions++;
        verif::Worst& w = run.acc.worst[oracle + defectClass(oracle, b)];
        w.n++; w.bound = bound;
        double v = std::isnan(value) ? INFINITY : value;
        if (v > w.value) { w.value = v; w.where = desc + " body=" + std::to_string(b) + " " + suffix(b); }
        bool bad = !(value <= bound);
        if (bad) run.violation(oracle + "/" + suffix(b), oracle + ": residual " + verif::fmtd(value) + " > bound " + verif::fmtd(bound) + " at " + desc + " body=" + std::to_string(b),
                               run.replayHeader() + "# " + desc + " body=" + std::to_string(b) + "\n");
        return !bad;
    }
};

static void checkModel(verif::Run& run, const std::vector<mb::BodySpec>& specs, bool euler, int stateKind, int valueSet, const std::string& desc) {
    auto Mp = mb::build(specs, euler);
    mb::Model& M = *Mp;
    State s = mb::makeState(M, stateKind, valueSet);
    M.system.realize(s, Stage::Velocity);
    const int nu = s.getNU(), nq = s.getNQ(), nb = (int)specs.size();
    Ctx cx{run, desc, M, euler};
    LD umax = 0; for (int i = 0; i < nu; ++i) umax = std::max(umax, fabsl((LD)s.getU()[i]));
    run.evaluation(verif::hashStr(desc), nu >= 1 && umax != 0);
    for (int b = 0; b < nb; ++b) { std::string nt = mb::nodeTypeName(M, b); run.outcome(verif::hashStr(nt)); run.count("node:" + nt); }
    auto rep = [&] { return run.replayHeader() + "# " + desc + "\n"; };

    // per-body slices
    std::vector<int> q0(nb), nqb(nb), u0(nb), nub(nb), qOwner(nq, -1), uOwner(nu, -1);
    for (int b = 0; b < nb; ++b) {
        q0[b] = (int)M.bodies[b].getFirstQIndex(s); nqb[b] = M.bodies[b].getNumQ(s);
        u0[b] = (int)M.bodies[b].getFirstUIndex(s); nub[b] = M.bodies[b].getNumU(s);
        for (int k = 0; k < nqb[b]; ++k) qOwner[q0[b] + k] = b;
        for (int k = 0; k < nub[b]; ++k) uOwner[u0[b] + k] = b;
    }
    std::vector<int> quatStart;
    for (int b = 0; b < nb; ++b) if (M.matter.isUsingQuaternion(s, M.bodies[b].getMobilizedBodyIndex())) quatStart.push_back(q0[b]);
    for (int a : quatStart) { LD n2 = 0; for (int k = 0; k < 4; ++k) n2 += (LD)s.getQ()[a + k] * (LD)s.getQ()[a + k]; run.expect(fabsl(sqrtl(n2) - 1) < 1e-12L, "harness/base-quaternion-not-unit", [&] { return desc; }, rep); }

    // ---- dense N, N^T, NInv, NInv^T, NDot, NDot^T by basis vectors
    DMat N(nq, nu), NT(nq, nu), NI(nu, nq), NIT(nu, nq), ND(nq, nu), NDT(nq, nu);
    bool hasCustomBall = false; for (auto& b : specs) if (b.kind == mb::KCustomBall) hasCustomBall = true;
    {
        Vector eu(nu), eq(nq), oq(nq), ou(nu);
        for (int i = 0; i < nu; ++i) {
            eu = 0; eu[i] = 1;
            oq = 0; M.matter.multiplyByN(s, false, eu, oq); for (int k = 0; k < nq; ++k) N(k, i) = oq[k];
            oq = 0; M.matter.multiplyByNDot(s, false, eu, oq); for (int k = 0; k < nq; ++k) ND(k, i) = oq[k];
            oq = 0; M.matter.multiplyByNInv(s, true, eu, oq); for (int k = 0; k < nq; ++k) NIT(i, k) = oq[k];
        }
        for (int k = 0; k < nq; ++k) {
            eq = 0; eq[k] = 1;
            ou = 0; M.matter.multiplyByN(s, true, eq, ou); for (int i = 0; i < nu; ++i) NT(k, i) = ou[i];
            ou = 0; M.matter.multiplyByNInv(s, false, eq, ou); for (int i = 0; i < nu; ++i) NI(i, k) = ou[i];
            if (!hasCustomBall) { ou = 0; M.matter.multiplyByNDot(s, true, eq, ou); for (int i = 0; i < nu; ++i) NDT(k, i) = ou[i]; }
        }
        if (hasCustomBall) run.count("skipped:NDot-transpose(CustomBall mirror does not implement it)");
    }
    // attribute an nq x nu error matrix to bodies: entry (k,i) belongs to the owner of row k (unused q slots: owner of column i)
    auto perBodyMax = [&](const std::function<LD(int, int)>& err, std::vector<LD>& out) {
        out.assign(nb, 0);
        for (int k = 0; k < nq; ++k) for (int i = 0; i < nu; ++i) { int b = qOwner[k] >= 0 ? qOwner[k] : uOwner[i]; if (b < 0) continue; LD e = fabsl(err(k, i)); if (!(e <= out[b])) out[b] = e; }
    };
    const LD Nmax = std::max<LD>(1, std::max(ref::maxAbs(N), ref::maxAbs(NI)));
    std::vector<LD> eb;
    if (nu > 0) {
        perBodyMax([&](int k, int i) { return N(k, i) - NT(k, i); }, eb);
        for (int b = 0; b < nb; ++b) if (nub[b]) cx.report("adjoint-N", b, (double)(eb[b] / Nmax), TOL);
        perBodyMax([&](int k, int i) { return NI(i, k) - NIT(i, k); }, eb);
        for (int b = 0; b < nb; ++b) if (nub[b]) cx.report("adjoint-NInv", b, (double)(eb[b] / Nmax), TOL);
        if (!hasCustomBall) {
            perBodyMax([&](int k, int i) { return ND(k, i) - NDT(k, i); }, eb);
            for (int b = 0; b < nb; ++b) if (nub[b]) cx.report("adjoint-NDot", b, (double)(eb[b] / (Nmax * std::max<LD>(umax, 1))), TOL);
        }
        // NInv * N = I (u-space); column i belongs to the owner of u_i
        DMat P = ref::mul(NI, N);
        std::vector<LD> ei(nb, 0);
        for (int i = 0; i < nu; ++i) for (int j = 0; j < nu; ++j) { LD e = fabsl(P(j, i) - (i == j ? 1 : 0)); int b = uOwner[i]; if (!(e <= ei[b])) ei[b] = e; }
        for (int b = 0; b < nb; ++b) if (nub[b]) cx.report("NInv*N-identity", b, (double)(ei[b] / (Nmax * Nmax)), TOL);
        // the same through the operators chained (not via dense products)
        Vector eu(nu), oq(nq), ou(nu); std::vector<LD> ec(nb, 0);
        for (int i = 0; i < nu; ++i) { eu = 0; eu[i] = 1; M.matter.multiplyByN(s, false, eu, oq); M.matter.multiplyByNInv(s, false, oq, ou); for (int j = 0; j < nu; ++j) { LD e = fabsl((LD)ou[j] - (i == j ? 1 : 0)); int b = uOwner[i]; if (!(e <= ec[b])) ec[b] = e; } }
        for (int b = 0; b < nb; ++b) if (nub[b]) cx.report("NInv(N(e_i))", b, (double)(ec[b] / (Nmax * Nmax)), TOL);
    }
    // ---- absolute poses: X_GB = X_GP * X_PF * X_FM * inv(X_BM), composed here in long double from the parent's reported pose, the
    //      mobilizer's default frames and its reported across-mobilizer transform (whose closed form C05 checks against the documentation)
    for (int b = 0; b < nb; ++b) {
        const MobilizedBody& mo = M.bodies[b];
        const Transform XGP = mo.getParentMobilizedBody().getBodyTransform(s), XPF = mo.getInboardFrame(s), XFM = mo.getMobilizerTransform(s), XBM = mo.getOutboardFrame(s), XGB = mo.getBodyTransform(s);
        auto toL = [](const Transform& X, LD R[3][3], LD p[3]) { for (int i = 0; i < 3; ++i) { p[i] = X.p()[i]; for (int j = 0; j < 3; ++j) R[i][j] = X.R().asMat33()(i, j); } };
        auto mul = [](const LD A[3][3], const LD a[3], const LD B[3][3], const LD bb[3], LD C[3][3], LD c[3]) {
            for (int i = 0; i < 3; ++i) { c[i] = a[i]; for (int k = 0; k < 3; ++k) c[i] += A[i][k] * bb[k]; for (int j = 0; j < 3; ++j) { C[i][j] = 0; for (int k = 0; k < 3; ++k) C[i][j] += A[i][k] * B[k][j]; } } };
        LD R1[3][3], p1[3], R2[3][3], p2[3], R3[3][3], p3[3], R4[3][3], p4[3], Ra[3][3], pa[3], Rb[3][3], pb[3], Rc[3][3], pc[3], Ri[3][3], pi_[3];
        toL(XGP, R1, p1); toL(XPF, R2, p2); toL(XFM, R3, p3); toL(XBM, R4, p4);
        for (int i = 0; i < 3; ++i) { pi_[i] = 0; for (int j = 0; j < 3; ++j) { Ri[i][j] = R4[j][i]; pi_[i] -= R4[j][i] * p4[j]; } }   // inverse of X_BM
        mul(R1, p1, R2, p2, Ra, pa); mul(Ra, pa, R3, p3, Rb, pb); mul(Rb, pb, Ri, pi_, Rc, pc);
        LD e = 0; for (int i = 0; i < 3; ++i) { e = std::max(e, fabsl(pc[i] - (LD)XGB.p()[i]) / std::max<LD>(1, fabsl(pc[i]))); for (int j = 0; j < 3; ++j) e = std::max(e, fabsl(Rc[i][j] - (LD)XGB.R().asMat33()(i, j))); }
        cx.report("pose-composition-X_GB=X_GP*X_PF*X_FM*inv(X_BM)", b, (double)e, TOL);
        // the frames the state reports are the frames the mobilized body was constructed with (nothing in these models changes them),
        // whatever node class the library picked for the body
        Transform sPF, sBM; mb::specFrames(M.specs[b], sPF, sBM);
        LD ef = 0; for (int i = 0; i < 3; ++i) { ef = std::max(ef, std::max(fabsl((LD)XPF.p()[i] - (LD)sPF.p()[i]), fabsl((LD)XBM.p()[i] - (LD)sBM.p()[i]))); for (int j = 0; j < 3; ++j) ef = std::max(ef, std::max(fabsl((LD)XPF.R().asMat33()(i, j) - (LD)sPF.R().asMat33()(i, j)), fabsl((LD)XBM.R().asMat33()(i, j) - (LD)sBM.R().asMat33()(i, j)))); }
        cx.report("reported-inboard/outboard-frames-are-the-constructed-ones", b, (double)ef, TOL);
    }
    // ---- the same operators with non-contiguous arguments and results (rows of matrices): must give the dense columns above and
    //      leave the neighbouring rows untouched
    if (nu > 0 && nq > 0) {
        Vector gu(nu), gq(nq); for (int i = 0; i < nu; ++i) gu[i] = 0.3 + 0.17 * i - 0.05 * i * i; for (int k = 0; k < nq; ++k) gq[k] = -0.4 + 0.11 * k + 0.03 * k * k;
        for (int op = 0; op < 3; ++op) for (int tr = 0; tr < 2; ++tr) {
            if (op == 2 && hasCustomBall) continue;
            // which of u / q is the input: N, NDot: in=u (tr: in=q); NInv: in=q (tr: in=u)
            const bool inIsU = (op == 1) ? tr : !tr;
            const int ni = inIsU ? nu : nq, no = inIsU ? nq : nu;
            Vector in(ni), outC(no); for (int i = 0; i < ni; ++i) in[i] = inIsU ? gu[i] : gq[i];
            Matrix Min(3, ni), Mout(3, no); Min.setTo(-7); Mout.setTo(-7);
            for (int i = 0; i < ni; ++i) Min(1, i) = in[i];
            RowVectorView ri = Min[1]; RowVectorView ro = Mout[1];
            auto call = [&](const Vector& a, Vector& b) {
                if (op == 0) M.matter.multiplyByN(s, tr, a, b); else if (op == 1) M.matter.multiplyByNInv(s, tr, a, b); else M.matter.multiplyByNDot(s, tr, a, b); };
            outC = 0; call(in, outC);
            // strided input / contiguous output, contiguous input / strided output, both strided
            LD worst = 0; bool clobber = false;
            for (int mode = 0; mode < 3; ++mode) {
                Mout.setTo(-7); Vector outS(no); outS = 0;
                if (mode == 0) { VectorView vi = ~ri; call(vi, outS); }
                else if (mode == 1) { VectorView vo = ~ro; call(in, vo); for (int k = 0; k < no; ++k) outS[k] = Mout(1, k); }
                else { VectorView vi = ~ri; VectorView vo = ~ro; call(vi, vo); for (int k = 0; k < no; ++k) outS[k] = Mout(1, k); }
                for (int k = 0; k < no; ++k) { LD e = fabsl((LD)outS[k] - (LD)outC[k]); if (!(e <= worst)) worst = e; }
                for (int k = 0; k < no; ++k) if (Mout(0, k) != -7 || Mout(2, k) != -7) clobber = true;
                for (int i = 0; i < ni; ++i) if (Min(0, i) != -7 || Min(2, i) != -7 || Min(1, i) != in[i]) clobber = true;
            }
            static const char* on[3] = {"N", "NInv", "NDot"};
            const std::string nm = std::string("strided-arguments-") + on[op] + (tr ? "-transpose" : "");
            cx.report(nm.c_str(), 0, (double)(worst / (Nmax * std::max<LD>(umax, 1))), TOL);
            cx.report((nm + "-neighbours-untouched").c_str(), 0, clobber ? 1.0 : 0.0, 0.5);
        }
    }
    // ---- qdot: state vs N u vs calcQDot
    std::vector<LD> qd0(nq);
    {
        Vector qd; M.matter.calcQDot(s, s.getU(), qd);
        std::vector<LD> e1(nb, 0), e2(nb, 0);
        for (int k = 0; k < nq; ++k) {
            qd0[k] = s.getQDot()[k];
            LD v = 0; for (int i = 0; i < nu; ++i) v += N(k, i) * (LD)s.getU()[i];
            int b = qOwner[k]; if (b < 0) { if (qd0[k] != 0) run.count("note:unused-q-slot-has-nonzero-qdot"); continue; }
            e1[b] = std::max(e1[b], fabsl(qd0[k] - v)); e2[b] = std::max(e2[b], fabsl(qd0[k] - (LD)qd[k]));
        }
        for (int b = 0; b < nb; ++b) if (nqb[b]) { cx.report("qdot-state-vs-N*u", b, (double)(e1[b] / (Nmax * std::max<LD>(umax, 1))), TOL); cx.report("qdot-state-vs-calcQDot", b, (double)(e2[b] / (Nmax * std::max<LD>(umax, 1))), TOL); }
    }

    // ---- finite differences along q(t) = renorm(q0 + t*qdot0)
    // sample layout: per body 18 numbers (p 3, R 9 row-major, station0 3, station1 3), then N (nq*nu, row-major)
    State w = s;
    const int PB = 18, offN = PB * nb;
    LD pmax = 1;
    mbchart::Memo path;
    path.f = [&](LD t) {
        std::vector<LD> q(nq);
        for (int k = 0; k < nq; ++k) q[k] = (LD)s.getQ()[k] + t * qd0[k];
        for (int a : quatStart) { LD n2 = 0; for (int k = 0; k < 4; ++k) n2 += q[a + k] * q[a + k]; LD n = sqrtl(n2); for (int k = 0; k < 4; ++k) q[a + k] /= n; }
        mbchart::setQ(w, q);
        M.system.realize(w, Stage::Position);
        std::vector<LD> r(offN + nq * nu);
        for (int b = 0; b < nb; ++b) {
            const Transform& X = M.bodies[b].getBodyTransform(w);
            for (int k = 0; k < 3; ++k) r[PB * b + k] = X.p()[k];
            for (int i = 0; i < 3; ++i) for (int j = 0; j < 3; ++j) r[PB * b + 3 + 3 * i + j] = X.R()[i][j];
            for (int st = 0; st < 2; ++st) { Vec3 loc = M.bodies[b].findStationLocationInGround(w, STATION[st]); for (int k = 0; k < 3; ++k) r[PB * b + 12 + 3 * st + k] = loc[k]; }
        }
        Vector eu(nu), oq(nq);
        for (int i = 0; i < nu; ++i) { eu = 0; eu[i] = 1; oq = 0; M.matter.multiplyByN(w, false, eu, oq); for (int k = 0; k < nq; ++k) r[offN + k * nu + i] = oq[k]; }
        return r;
    };
    auto est = [&](LD hh) { const auto &a = path(-2 * hh), &b = path(-hh), &c = path(hh), &d = path(2 * hh); std::vector<LD> r(a.size()); for (size_t i = 0; i < a.size(); ++i) r[i] = (a[i] - 8 * b[i] + 8 * c[i] - d[i]) / (12 * hh); return r; };
    const std::vector<LD> E1 = est(FD_H), E2 = est(FD_H / 2);
    for (int b = 0; b < nb; ++b) for (int k = 0; k < 3; ++k) pmax = std::max(pmax, fabsl((LD)M.bodies[b].getBodyTransform(s).p()[k]));
    const LD vscale = std::max<LD>(umax, 1) * pmax * 2;     // speeds times lever arms (stations are < 1 from the origin)

    // ---- body and station velocities
    std::vector<char> failed(nb, 0);
    for (int b = 0; b < nb; ++b) {
        const int o = PB * b;
        LD dis = 0; for (int k = 0; k < PB; ++k) dis = std::max(dis, fabsl(E1[o + k] - E2[o + k]));
        { verif::Worst& wi = run.acc.worst["(info)pose-richardson-disagreement"]; wi.n++; wi.bound = FD_AGREE; double d = (double)(dis / vscale); if (d > wi.value) { wi.value = d; wi.where = desc; } }
        const int par = specs[b].parent;
        if (par >= 0 && failed[par]) { failed[b] = 1; run.count("pose-not-attributed:ancestor-already-failed"); continue; }
        if (!(dis / vscale <= FD_AGREE)) { run.count("pose-skipped:richardson-pair-disagrees"); continue; }
        const Transform& X = M.bodies[b].getBodyTransform(s);
        const SpatialVec& V = M.bodies[b].getBodyVelocity(s);
        // W = Rdot * R^T must be the cross-product matrix of omega
        LD W[3][3];
        for (int i = 0; i < 3; ++i) for (int j = 0; j < 3; ++j) { LD v = 0; for (int k = 0; k < 3; ++k) v += E2[o + 3 + 3 * i + k] * (LD)X.R()[j][k]; W[i][j] = v; }
        LD wfd[3] = {(W[2][1] - W[1][2]) / 2, (W[0][2] - W[2][0]) / 2, (W[1][0] - W[0][1]) / 2};
        LD e = 0;
        for (int i = 0; i < 3; ++i) for (int j = 0; j < 3; ++j) e = std::max(e, fabsl(W[i][j] + W[j][i]) / 2);     // symmetric part: R stays orthogonal
        for (int k = 0; k < 3; ++k) { e = std::max(e, fabsl(wfd[k] - (LD)V[0][k])); e = std::max(e, fabsl(E2[o + k] - (LD)V[1][k])); }
        LD es = 0;
        for (int st = 0; st < 2; ++st) { Vec3 vs = M.bodies[b].findStationVelocityInGround(s, STATION[st]); for (int k = 0; k < 3; ++k) es = std::max(es, fabsl(E2[o + 12 + 3 * st + k] - (LD)vs[k])); }
        bool ok1 = cx.report("pose-derivative-vs-velocity", b, (double)(e / vscale), FD_BOUND);
        bool ok2 = cx.report("station-derivative-vs-velocity", b, (double)(es / vscale), FD_BOUND);
        if (!ok1 || !ok2) failed[b] = 1;
        if (run.verbose) printf(" body %d %-28s w_fd=(% .6Lg % .6Lg % .6Lg) w=(% .6g % .6g % .6g)  v_fd=(% .6Lg % .6Lg % .6Lg) v=(% .6g % .6g % .6g) err=%.3Lg station err=%.3Lg\n",
                                b, cx.suffix(b).c_str(), wfd[0], wfd[1], wfd[2], V[0][0], V[0][1], V[0][2], E2[o], E2[o + 1], E2[o + 2], V[1][0], V[1][1], V[1][2], e, es);
    }

    // ---- NDot by finite difference, qdotdot
    if (nu > 0) {
        const LD nscale = Nmax * std::max<LD>(umax, 1);
        std::vector<LD> dis(nb, 0), err(nb, 0);
        for (int k = 0; k < nq; ++k) for (int i = 0; i < nu; ++i) {
            int b = qOwner[k] >= 0 ? qOwner[k] : uOwner[i]; if (b < 0) continue;
            dis[b] = std::max(dis[b], fabsl(E1[offN + k * nu + i] - E2[offN + k * nu + i]));
            err[b] = std::max(err[b], fabsl(E2[offN + k * nu + i] - ND(k, i)));
        }
        if (run.verbose) for (int b = 0; b < nb; ++b) if (nub[b]) {
            printf(" body %d %s NDot columns (library | finite difference):\n", b, cx.suffix(b).c_str());
            for (int k = q0[b]; k < q0[b] + nqb[b]; ++k) { printf("   q%-2d", k); for (int i = u0[b]; i < u0[b] + nub[b]; ++i) printf(" % .9Lf", ND(k, i)); printf("  |"); for (int i = u0[b]; i < u0[b] + nub[b]; ++i) printf(" % .9Lf", E2[offN + k * nu + i]); printf("\n"); }
        }
        std::vector<char> ndOk(nb, 0);
        for (int b = 0; b < nb; ++b) if (nub[b]) {
            if (!(dis[b] / nscale <= FD_AGREE)) { run.count("NDot-skipped:richardson-pair-disagrees"); continue; }
            ndOk[b] = 1;
            if (specs[b].kind == mb::KCustomBall) { run.count("skipped:NDot-oracles-for-CustomBall(mirror's multiplyByNDot is only valid for in=u)"); continue; }
            cx.report("NDot-vs-finite-difference", b, (double)(err[b] / nscale), FD_BOUND);
        }
        // calcQDotDot(udot*) for basis and one generic udot*
        Vector us(nu), qdd;
        std::vector<LD> eAlg(nb, 0), eFd(nb, 0);
        for (int c = 0; c <= nu; ++c) {
            if (c < nu) { us = 0; us[c] = 1; } else for (int i = 0; i < nu; ++i) us[i] = mb::uv(valueSet + 1, i + 2);
            M.matter.calcQDotDot(s, us, qdd);
            for (int k = 0; k < nq; ++k) {
                int b = qOwner[k]; if (b < 0) continue;
                LD a = 0, f = 0;
                for (int i = 0; i < nu; ++i) { a += N(k, i) * (LD)us[i] + ND(k, i) * (LD)s.getU()[i]; f += N(k, i) * (LD)us[i] + E2[offN + k * nu + i] * (LD)s.getU()[i]; }
                eAlg[b] = std::max(eAlg[b], fabsl((LD)qdd[k] - a)); eFd[b] = std::max(eFd[b], fabsl((LD)qdd[k] - f));
            }
        }
        const LD qscale = Nmax * std::max<LD>(1, umax * umax) * 2;
        for (int b = 0; b < nb; ++b) if (nub[b]) {
            if (specs[b].kind != mb::KCustomBall) cx.report("calcQDotDot-vs-N*udot+NDot*u", b, (double)(eAlg[b] / qscale), TOL);
            if (ndOk[b] || (specs[b].kind == mb::KCustomBall && dis[b] / nscale <= FD_AGREE)) cx.report("calcQDotDot-vs-finite-difference-NDot", b, (double)(eFd[b] / qscale), FD_BOUND);
        }
        // the state's own qdotdot after realize(Acceleration)
        State sa = s;
        M.system.realize(sa, Stage::Acceleration);
        LD udm = 1; for (int i = 0; i < nu; ++i) udm = std::max(udm, fabsl((LD)sa.getUDot()[i]));
        std::vector<LD> eS(nb, 0);
        for (int k = 0; k < nq; ++k) {
            int b = qOwner[k]; if (b < 0) continue;
            LD a = 0; for (int i = 0; i < nu; ++i) a += N(k, i) * (LD)sa.getUDot()[i] + ND(k, i) * (LD)sa.getU()[i];
            eS[b] = std::max(eS[b], fabsl((LD)sa.getQDotDot()[k] - a));
        }
        for (int b = 0; b < nb; ++b) if (nub[b] && specs[b].kind != mb::KCustomBall) cx.report("state-qdotdot-vs-N*udot+NDot*u", b, (double)(eS[b] / (Nmax * std::max(udm, umax * umax))), TOL);
        uint64_t oh = 1469598103934665603ULL; for (int k = 0; k < nq; ++k) oh = verif::hashPod((float)qd0[k], oh);
        run.outcome(oh);
    }
    if (run.verbose) {
        printf("%s\n nq=%d nu=%d |u|=%Lg vscale=%Lg\n", desc.c_str(), nq, nu, umax, vscale);
        for (int b = 0; b < nb; ++b) printf("  body %d node %s q[%d..+%d) u[%d..+%d)\n", b, mb::nodeTypeName(M, b).c_str(), q0[b], nqb[b], u0[b], nub[b]);
        printf("  q    ="); for (int k = 0; k < nq; ++k) printf(" % .15g", s.getQ()[k]); printf("\n  u    ="); for (int i = 0; i < nu; ++i) printf(" % .15g", s.getU()[i]);
        printf("\n  qdot ="); for (int k = 0; k < nq; ++k) printf(" % .15Lg", qd0[k]); printf("\n");
    }
}

// ------------------------------------------------------------------ histories: a re-used State must give what a fresh State gives
// read-outs of one realized state, grouped per mobilized body (J columns: per owner of the speed)
struct Obs { std::vector<std::vector<std::vector<double> > > g; };      // g[group][body] = numbers
static const char* OBS_NAME[] = {"X_FM", "V_FM", "X_GB", "V_GB", "A_GB", "qdot", "udot", "SystemJacobian-columns(H)", "SystemJacobian-bias-JDot*u(HDot)"};
enum { NOBS = 9 };
static Obs observe(const mb::Model& M, State& s) {
    const int nb = (int)M.bodies.size(), nu = s.getNU();
    M.system.realize(s, Stage::Acceleration);
    Obs o; o.g.assign(NOBS, std::vector<std::vector<double> >(nb));
    Vector_<SpatialVec> JDotu; M.matter.calcBiasForSystemJacobian(s, JDotu);
    auto putX = [](std::vector<double>& v, const Transform& X) { for (int i = 0; i < 3; ++i) for (int j = 0; j < 3; ++j) v.push_back(X.R()[i][j]); for (int i = 0; i < 3; ++i) v.push_back(X.p()[i]); };
    auto putV = [](std::vector<double>& v, const SpatialVec& V) { for (int k = 0; k < 6; ++k) v.push_back(V[k / 3][k % 3]); };
    for (int b = 0; b < nb; ++b) {
        const MobilizedBody& mo = M.bodies[b];
        putX(o.g[0][b], mo.getMobilizerTransform(s)); putV(o.g[1][b], mo.getMobilizerVelocity(s));
        putX(o.g[2][b], mo.getBodyTransform(s)); putV(o.g[3][b], mo.getBodyVelocity(s)); putV(o.g[4][b], mo.getBodyAcceleration(s));
        const int q0 = (int)mo.getFirstQIndex(s), nq = mo.getNumQ(s), u0 = (int)mo.getFirstUIndex(s), nub = mo.getNumU(s);
        for (int k = 0; k < nq; ++k) o.g[5][b].push_back(s.getQDot()[q0 + k]);
        for (int k = 0; k < nub; ++k) o.g[6][b].push_back(s.getUDot()[u0 + k]);
        putV(o.g[8][b], JDotu[mo.getMobilizedBodyIndex()]);
        Vector e(nu); Vector_<SpatialVec> Je; e = 0;
        for (int k = 0; k < nub; ++k) { e[u0 + k] = 1; M.matter.multiplyBySystemJacobian(s, e, Je); e[u0 + k] = 0; for (int i = 0; i < Je.size(); ++i) for (int c = 0; c < 6; ++c) o.g[7][b].push_back(Je[i][c / 3][c % 3]); }
    }
    return o;
}
static void setConfig(const mb::Model& M, State& s, int stateKind, int valueSet) {
    for (int b = 0; b < (int)M.bodies.size(); ++b) { mb::setBodyQ(M, s, b, stateKind, valueSet); mb::setBodyU(M, s, b, stateKind, valueSet); }
}
static void checkHistories(verif::Run& run, const std::vector<mb::BodySpec>& specs, bool euler, int valueSet, bool thorough, const std::string& desc) {
    auto Mp = mb::build(specs, euler);
    mb::Model& M = *Mp;
    const int nb = (int)specs.size();
    Ctx cx{run, desc, M, euler};
    const std::vector<int> configs = thorough ? std::vector<int>{0, 1, 2, 3} : std::vector<int>{1, 2, 3};
    const Stage stages[3] = {Stage::Position, Stage::Velocity, Stage::Acceleration};
    std::vector<Obs> fresh(4);
    int nuTot = 0;
    for (int c : configs) { State f = mb::makeState(M, c, valueSet); fresh[c] = observe(M, f); nuTot = f.getNU(); }
    run.evaluation(verif::hashStr(desc), nuTot >= 1);
    // per (group, body): worst difference over all histories of this model (one report each)
    std::vector<std::vector<double> > worst(NOBS, std::vector<double>(nb, 0)); std::vector<std::vector<std::string> > at(NOBS, std::vector<std::string>(nb));
    int64_t nHist = 0;
    auto judge = [&](const Obs& o, int finalCfg, const std::string& hname) {
        ++nHist;
        for (int g = 0; g < NOBS; ++g) for (int b = 0; b < nb; ++b) {
            const std::vector<double>& x = o.g[g][b]; const std::vector<double>& y = fresh[finalCfg].g[g][b];
            double d = x.size() == y.size() ? 0 : INFINITY;
            if (d == 0 && !x.empty() && memcmp(x.data(), y.data(), x.size() * sizeof(double)) != 0)
                for (size_t i = 0; i < x.size(); ++i) { double e = std::abs(x[i] - y[i]); if (!(e <= d)) d = e; if (d == 0 && memcmp(&x[i], &y[i], sizeof(double)) != 0) d = 5e-324; }
            if (d > worst[g][b]) { worst[g][b] = d; at[g][b] = hname; }
        }
    };
    static const char* sn[3] = {"Position", "Velocity", "Acceleration"};
    for (int a : configs) for (int b2 : configs) {
        if (a == b2) continue;
        for (int st = 0; st < 3; ++st) {
            if (!thorough && st == 1) continue;
            for (int carrier = 0; carrier < 2; ++carrier) {
                State h = mb::makeState(M, a, valueSet);
                M.system.realize(h, stages[st]);
                if (st >= 1) { Vector e(h.getNU()); Vector_<SpatialVec> Je; if (h.getNU()) { e = 0; e[0] = 1; M.matter.multiplyBySystemJacobian(h, e, Je); } }   // the operators have used H at A
                State copy; State* w = &h;
                if (carrier) { copy = h; w = &copy; }
                setConfig(M, *w, b2, valueSet);
                std::string hn = std::string("realize(") + sn[st] + ")@cfg" + std::to_string(a) + (carrier ? ";copy" : "") + ";set-q,u@cfg" + std::to_string(b2);
                judge(observe(M, *w), b2, hn);
                if (!thorough) continue;
                for (int c3 : configs) {         // depth 3: ... then a third configuration on the same carrier
                    if (c3 == b2) continue;
                    setConfig(M, *w, c3, valueSet);
                    judge(observe(M, *w), c3, hn + ";set-q,u@cfg" + std::to_string(c3));
                }
            }
        }
    }
    run.count("histories", nHist);
    // attribution: a stale quantity of one mobilizer shows up in the Ground-frame read-outs and accelerations of every body, so
    // the culprits are the bodies whose OWN across-mobilizer read-outs (X_FM, V_FM, qdot) differ; failing that, the first bodies on
    // each path from Ground whose Jacobian columns differ; failing that, the first on each path whose Jacobian bias JDot*u (purely
    // kinematic: HDot of the path) differs; failing that, the first on each path whose Ground-frame read-outs differ.  Differences
    // of the other bodies (dynamics couples every udot and A_GB to every hinge) are counted, not reported.
    std::vector<char> culprit(nb, 0); bool any = false;
    auto failing = [&](int g, int b) { return worst[g][b] > 0; };
    auto noFailingAncestor = [&](int b, const std::vector<int>& groups) { for (int a = specs[b].parent; a >= 0; a = specs[a].parent) for (int g : groups) if (failing(g, a)) return false; return true; };
    for (int b = 0; b < nb; ++b) if (failing(0, b) || failing(1, b) || failing(5, b)) { culprit[b] = 1; any = true; }
    if (!any) for (int b = 0; b < nb; ++b) if (failing(7, b) && noFailingAncestor(b, {7})) { culprit[b] = 1; any = true; }
    if (!any) for (int b = 0; b < nb; ++b) if (failing(8, b) && noFailingAncestor(b, {8})) { culprit[b] = 1; any = true; }
    if (!any) for (int b = 0; b < nb; ++b) if ((failing(2, b) || failing(3, b) || failing(4, b)) && noFailingAncestor(b, {2, 3, 4})) { culprit[b] = 1; any = true; }
    if (!any) for (int b = 0; b < nb; ++b) if (failing(6, b)) culprit[b] = 1;
    uint64_t oh = 1469598103934665603ULL;
    for (int g = 0; g < NOBS; ++g) for (int b = 0; b < nb; ++b) {
        if (fresh[configs[0]].g[g][b].empty()) continue;
        for (double v : fresh[configs.back()].g[g][b]) oh = verif::hashPod((float)v, oh);
        if (failing(g, b) && !culprit[b]) { run.count("history-difference-not-attributed:another-body-is-the-culprit"); continue; }
        Ctx cb{run, desc + " history=" + at[g][b], M, euler};
        cb.report(std::string("history-vs-fresh-state(bitwise):") + OBS_NAME[g], b, worst[g][b], 0.0);
    }
    run.outcome(oh);
    if (run.verbose) for (int g = 0; g < NOBS; ++g) for (int b = 0; b < nb; ++b) printf("  %-28s body %d %-24s worst |history - fresh| = %.3g %s\n", OBS_NAME[g], b, cx.suffix(b).c_str(), worst[g][b], at[g][b].c_str());
}

int main(int argc, char** argv) {
    verif::Run run("C03", argc, argv);
    run.setDeadline(600, 2700);
    const bool th = run.thorough();
    int64_t modelStride = 1;   // calibration only (marks the run non-exhaustive)
    for (size_t i = 0; i + 1 < run.extra.size(); ++i) { if (run.extra[i] == "--h") FD_H = atof(run.extra[i + 1].c_str()); if (run.extra[i] == "--stride") modelStride = atoll(run.extra[i + 1].c_str()); }
    if (modelStride > 1) run.exhaustive = false;
    run.rule = "E3: KIND = 19 built-in mobilizers, 5 Custom/FunctionBased mirrors with a constant hinge matrix, FunctionBased with nonlinear coordinate functions and 1..6 mobilities (FBN1..6: default/custom axes), Custom helix slider (H from X_FM, HDot from V_FM); 58 KINDxDIR variants. models = section S (every variant alone on Ground x all 8 frame pairs, incl. the four 'one part only' pairs that tell the conjuncts of the frame-flag tests apart), G (variant and companion both on Ground), level A (every variant x FRAMES(4) as base/middle/tip/fork-branch of a 3-body tree with companions {Pin,Ball,Free}^2) and level B (all ordered parent->child pairs of constant-H variants x FRAMES{II,GG}^2; every q-dependent-H variant in both orders with the 8 code families x DIR and among themselves), sections SX/AX: the two FunctionBased usages the unchanged library gets wrong (coupled rotation functions, constant non-zero rotation function) alone on Ground and in level-A trees; thorough adds level C (triples over 8 code families) and all 3 value sets; x COORD{quaternion,Euler} x STATE(4: zero, generic, large-angle, zero-velocity); value set = seed%3. Per case every body + 2 stations per body, every column of N/NInv/NDot, basis+generic udot*. History sections HS/HA/HX (models of S, A, SX) x COORD: every history realize(stage in {Position,Acceleration}; thorough + Velocity) at configuration a; [copy the State]; set q,u of configuration b != a; realize -- a,b in {generic, large-angle, zero-velocity} (thorough: all 4 state kinds and a third configuration c != b on the same carrier): 24 (thorough 288) histories per model, every read-out bitwise equal to a fresh State's. distinct = distinct (model,coord,state,valueset) resp. (model,coord,valueset) for history sections; non-trivial = nu>=1 and u != 0";
    run.assumptions = {"continuous values only from the fixed tables in engine/models.h", "trees of at most 3 mobilized bodies", "finite-difference step 1e-3 along qdot; Richardson pair (h,h/2) must agree to 1e-9 relative or the comparison is skipped and counted",
                       "mass properties do not enter kinematics: generic mass only", "a body whose ancestor already failed the pose oracle is not reported again",
                       "history oracle: fresh and re-used State run the same arithmetic, so equality is demanded bitwise; a difference is attributed to the bodies whose own across-mobilizer read-outs differ (else first differing Jacobian columns / Ground-frame read-outs on each path from Ground)"};
    const int vs0 = (int)(((run.seed % 3) + 3) % 3);
    std::vector<int> valueSets = th ? std::vector<int>{0, 1, 2} : std::vector<int>{vs0};
    mb::LevelA A; mb::LevelB B; mb::LevelC C; mb::LevelG G; mb::LevelS S;
    // the two FunctionBased usages the unchanged library gets wrong (notes/C03.md D3, notes/C02.md): alone on Ground and in level-A trees
    mb::LevelS SX; SX.kd = mb::defectKindDirs(); mb::LevelA AX; AX.kd = mb::defectKindDirs();
    auto section = [&](const std::string& name, int64_t nModels, std::function<std::vector<mb::BodySpec>(int64_t)> specsOf) {
        verif::Odometer od;
        od.dim("state", 4); od.dim("coord", 2); od.dim("valueset", (int64_t)valueSets.size()); od.dim("model", nModels);
        run.parallel(name, od.size(), [&](int64_t idx) {
            auto d = od.digits(idx);
            if (modelStride > 1 && d[3] % modelStride != 0) return;
            auto specs = specsOf(d[3]);
            bool euler = d[1] == 1;
            std::string desc = name + " " + od.describe(idx) + " ";
            { std::string m = euler ? "euler[" : "quat["; for (auto& b : specs) m += b.str() + " "; desc += m + "] vs=" + std::to_string(valueSets[d[2]]); }
            try { checkModel(run, specs, euler, d[0], valueSets[d[2]], desc); }
            catch (const std::exception& e) { run.violation("exception/" + name, std::string("exception: ") + e.what() + " at " + desc, run.replayHeader() + "# " + desc + "\n"); }
            if (idx % 20011 == 0) run.sample(desc);
        });
    };
    auto historySection = [&](const std::string& name, int64_t nModels, std::function<std::vector<mb::BodySpec>(int64_t)> specsOf) {
        verif::Odometer od;
        od.dim("coord", 2); od.dim("valueset", (int64_t)valueSets.size()); od.dim("model", nModels);
        run.parallel(name, od.size(), [&](int64_t idx) {
            auto d = od.digits(idx);
            if (modelStride > 1 && d[2] % modelStride != 0) return;
            auto specs = specsOf(d[2]);
            bool euler = d[0] == 1;
            std::string desc = name + " " + od.describe(idx) + " ";
            { std::string m = euler ? "euler[" : "quat["; for (auto& b : specs) m += b.str() + " "; desc += m + "] vs=" + std::to_string(valueSets[d[1]]); }
            try { checkHistories(run, specs, euler, valueSets[d[1]], th, desc); }
            catch (const std::exception& e) { run.violation("exception/" + name, std::string("exception: ") + e.what() + " at " + desc, run.replayHeader() + "# " + desc + "\n"); }
            if (idx % 5003 == 0) run.sample(desc);
        });
    };
    section("S", S.size(), [&](int64_t i) { return S.specs(i, 0); });
    section("G", G.size(), [&](int64_t i) { return G.specs(i, 0); });
    section("A", A.size(), [&](int64_t i) { return A.specs(i, 0); });
    section("B", B.size(), [&](int64_t i) { return B.specs(i, 0); });
    if (th) section("C", C.size(), [&](int64_t i) { return C.specs(i, 0); });
    section("SX", SX.size(), [&](int64_t i) { return SX.specs(i, 0); });
    section("AX", AX.size(), [&](int64_t i) { return AX.specs(i, 0); });
    historySection("HS", S.size(), [&](int64_t i) { return S.specs(i, 0); });
    historySection("HA", A.size(), [&](int64_t i) { return A.specs(i, 0); });
    historySection("HX", SX.size(), [&](int64_t i) { return SX.specs(i, 0); });
    run.extraCoverage["fd_step"] = verif::jsonNum(FD_H);
    return run.finish();
}
