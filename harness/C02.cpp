// C02 -- Forward and inverse dynamics of trees are exact inverses.
// Engine E3: every model of level A (quick) / A+B+C (thorough) of the shared multibody alphabet
// x COORD x MASS x STATE; inside each case every applied-force pattern {none; unit mobility force
// on each u; unit spatial force (6 components) on each body incl. Ground; one generic pattern}
// is pushed through both forward-dynamics routes (operator calcAccelerationIgnoringConstraints and
// realize(Acceleration) with the forces injected through Force::DiscreteForces) and through the
// inverse-dynamics operator.  Oracles:
//   fwd-residual        inverse dynamics at the returned udot gives a zero residual (both routes)
//   routes-agree        operator udot / A_GB == realized udot / body accelerations
//   dense-eom           M_ref*udot + c_lib = f + J_ref^T F   (harness long-double dense arithmetic)
//   inv-applied-vs-JtF  inverse dynamics at udot=0 with forces = c_lib - (f + J_ref^T F)
//   inv-vs-Mref         inverse(e_i) - c_lib = M_ref e_i
//   fwd-of-inv          forward(inverse(udot*)) = udot* for basis and generic udot*, with and without applied forces
//   c-vs-lagrangian     c_lib = independent Lagrangian reference by 4th-order finite differences of M_ref
//                       (Richardson-checked) in a local chart of the configuration manifold
#include "Simbody.h"
#include "SimbodyMatterSubsystemRep.h"
#include "RigidBodyNode.h"
#include "verif.h"
#include "models.h"
#include "mbref.h"
#include "mbchart.h"

#include <cxxabi.h>

using namespace SimTK;
using ref::LD; using ref::DMat;

static std::string vdemangle(const char* n) { int st = 0; char* d = abi::__cxa_demangle(n, 0, 0, &st); std::string s = d ? d : n; free(d); return s; }
std::string mb::nodeTypeName(const mb::Model& M, int bi) {
    const RigidBodyNode& n = M.matter.getRep().getRigidBodyNode(M.bodies[bi].getMobilizedBodyIndex());
    return vdemangle(typeid(n).name());
}

// ---- tolerances (calibration numbers in notes/C02.md)
static const double TOL = 1e-11;        // algebraic oracles, relative to the force / acceleration scale (x cond(M) where M^-1 is involved)
static const double TOL_FI = 1e-10;     // forward(inverse(udot*)): two chained O(n) solves; worst measured 1.4e-13 (x cond)
static double FD_H = 1e-3;              // finite-difference step in the chart coordinates (calibrated: see notes/C02.md)
static const double FD_BOUND = 1e-8;    // c-vs-lagrangian, relative to |M| * |u|^2
static const double FD_AGREE = 1e-9;    // Richardson pair must agree to this (same scale) or the case is skipped and counted

static bool PROFILE = false;   // calibration only: adds time counters (non-deterministic) to the evidence
struct Tick { verif::Run& run; const char* name; std::chrono::steady_clock::time_point t0;
    Tick(verif::Run& r, const char* n) : run(r), name(n), t0(std::chrono::steady_clock::now()) {}
    ~Tick() { if (PROFILE) run.count(std::string("profile-us:") + name, std::chrono::duration_cast<std::chrono::microseconds>(std::chrono::steady_clock::now() - t0).count()); } };

static LD vmax(const std::vector<LD>& v) { LD m = 0; for (LD x : v) { LD a = fabsl(x); if (!(a <= m)) m = a; } return m; }
static LD vmaxV(const Vector& v) { LD m = 0; for (int i = 0; i < v.size(); ++i) { LD a = fabsl((LD)v[i]); if (!(a <= m)) m = a; } return m; }

// ------------------------------------------------------------------ Lagrangian reference for the velocity-dependent term
// Coordinates theta (mbchart.h), T(theta,thetadot) = 1/2 u^T M_ref u with u = NInv(q(theta)) G(theta) thetadot.
// Along the straight chart line theta(t) = t*u0 (thetadot = u0):
//     c_ref = d/dt[ G^T NInv^T M_ref u ] - grad_theta T |_{thetadot=u0} - M_ref(0) * d/dt u
// because the equations of motion along that curve read M*udot_line + c = d/dt(dT/dthetadot) - dT/dtheta.
struct CRef { bool usable = false; std::vector<LD> c; LD disagree = 0; int64_t samples = 0; };

static CRef lagrangianCRef(const mb::Model& M, const State& s, const DMat& Mref0, LD h) {
    CRef out;
    const int nu = s.getNU(), nq = s.getNQ();
    mbchart::Chart ch = mbchart::makeChart(M, s);
    if (ch.quatNormDefect > 1e-12L) return out;     // base quaternion not normalised: harness problem, reported by caller
    State w = s;
    std::vector<LD> u0(nu); for (int i = 0; i < nu; ++i) u0[i] = s.getU()[i];
    Vector qd(nq), uu(nu), Mu(nu), pq(nq);

    // returns [T, p_theta(nu), u(nu)] at chart point theta
    auto sample = [&](const std::vector<LD>& theta) {
        std::vector<LD> q; DMat G;
        mbchart::eval(ch, theta, q, &G);
        mbchart::setQ(w, q);
        M.system.realize(w, Stage::Position);
        for (int k = 0; k < nq; ++k) { LD v = 0; for (int i = 0; i < nu; ++i) v += G(k, i) * u0[i]; qd[k] = (double)v; }
        M.matter.multiplyByNInv(w, false, qd, uu);
        DMat J = mbchart::jacobianInPlace(M, w);
        DMat Mr = mbref::massMatrixRef(M, w, J);
        std::vector<LD> r(1 + 2 * nu);
        LD T = 0;
        for (int i = 0; i < nu; ++i) { LD v = 0; for (int j = 0; j < nu; ++j) v += Mr(i, j) * (LD)uu[j]; Mu[i] = (double)v; T += 0.5L * (LD)uu[i] * v; }
        M.matter.multiplyByNInv(w, true, Mu, pq);          // p_q = NInv^T (M u)
        r[0] = T;
        for (int i = 0; i < nu; ++i) { LD v = 0; for (int k = 0; k < nq; ++k) v += G(k, i) * (LD)pq[k]; r[1 + i] = v; r[1 + nu + i] = uu[i]; }
        out.samples++;
        return r;
    };
    // along the motion
    mbchart::Memo line; line.f = [&](LD t) { std::vector<LD> th(nu); for (int i = 0; i < nu; ++i) th[i] = t * u0[i]; return sample(th); };
    LD dLine = 0;
    std::vector<LD> D = ref::fd4([&](LD t) { return line(t); }, 0, h, &dLine);
    // Richardson disagreement separately for the p part and the u part
    LD dP = 0, dU = 0;
    {
        auto est = [&](LD hh) { auto a = line(-2 * hh), b = line(-hh), c = line(hh), d = line(2 * hh); std::vector<LD> r(a.size()); for (size_t i = 0; i < a.size(); ++i) r[i] = (a[i] - 8 * b[i] + 8 * c[i] - d[i]) / (12 * hh); return r; };
        auto e1 = est(h), e2 = est(h / 2);
        for (int i = 0; i < nu; ++i) { dP = std::max(dP, fabsl(e1[1 + i] - e2[1 + i])); dU = std::max(dU, fabsl(e1[1 + nu + i] - e2[1 + nu + i])); }
    }
    // across the motion
    std::vector<LD> gradT(nu); LD dT = 0;
    for (int i = 0; i < nu; ++i) {
        mbchart::Memo cross; cross.f = [&](LD t) { std::vector<LD> th(nu, 0); th[i] = t; auto r = sample(th); r.resize(1); return r; };
        LD d = 0;
        gradT[i] = ref::fd4([&](LD t) { return cross(t); }, 0, h, &d)[0];
        if (!(d <= dT)) dT = d;
    }
    out.c.assign(nu, 0);
    for (int i = 0; i < nu; ++i) {
        LD v = D[1 + i] - gradT[i];
        for (int j = 0; j < nu; ++j) v -= Mref0(i, j) * D[1 + nu + j];
        out.c[i] = v;
    }
    out.disagree = dP + dT + ref::normInf(Mref0) * dU;
    out.usable = true;
    return out;
}

// ------------------------------------------------------------------ one case
static void checkModel(verif::Run& run, const std::vector<mb::BodySpec>& specs, bool euler,
                       int stateKind, int valueSet, bool doCRef, const std::string& desc) {
    std::unique_ptr<Tick> tk(new Tick(run, "build"));
    auto Mp = mb::build(specs, euler);
    mb::Model& M = *Mp;
    Force::DiscreteForces DF(M.forces, M.matter);
    State s = mb::makeState(M, stateKind, valueSet);
    M.system.realize(s, Stage::Velocity);
    tk.reset(new Tick(run, "refs"));
    const int nu = s.getNU(), nb = (int)specs.size(), nbt = M.matter.getNumBodies();
    auto where = [&] { return desc; };
    auto rep = [&] { return run.replayHeader() + "# " + desc + "\n"; };
    run.evaluation(verif::hashStr(desc), nu >= 1);
    for (int b = 0; b < nb; ++b) { std::string nt = mb::nodeTypeName(M, b); run.outcome(verif::hashStr(nt)); run.count("node:" + nt); }
    if (nu == 0) { run.count("nu=0"); return; }
    run.expect(nbt == nb + 1, "harness/body-count", [&] { return "getNumBodies != specs+1 at " + desc; }, rep);

    // ---- references
    DMat J = mbref::jacobianRef(M, s);
    DMat Mref = mbref::massMatrixRef(M, s, J);
    const LD Mscale = std::max<LD>(ref::maxAbs(Mref), 1e-300L);
    DMat MrefInv; if (!ref::inverse(Mref, MrefInv)) { run.count("skipped:Mref-singular"); return; }
    const LD cond = ref::normInf(Mref) * ref::normInf(MrefInv);
    const LD ic = 1 / cond;   // oracles involving M^-1 are reported as residual / cond(M_ref) against the fixed bound TOL
    std::vector<int> mbx(nb); for (int b = 0; b < nb; ++b) mbx[b] = (int)M.bodies[b].getMobilizedBodyIndex();

    // ---- velocity-dependent term from inverse dynamics at udot = 0, no forces
    const Vector noF; const Vector_<SpatialVec> noFB; const Vector noUdot;
    Vector cLib;
    M.matter.calcResidualForceIgnoringConstraints(s, noF, noFB, noUdot, cLib);
    {   // zero-length arguments mean all-zero (documented)
        Vector z(nu); z = 0; Vector_<SpatialVec> zb(nbt); zb = SpatialVec(Vec3(0), Vec3(0)); Vector c2;
        M.matter.calcResidualForceIgnoringConstraints(s, z, zb, z, c2);
        bool same = true; for (int i = 0; i < nu; ++i) if (!(c2[i] == cLib[i])) same = false;
        run.expect(same, "inv-zero-length-args", [&] { return "inverse dynamics with zero-length arguments differs from explicit zeros at " + desc; }, rep);
    }
    const LD umax = vmaxV(s.getU());
    const LD cmax = vmaxV(cLib);
    if (umax == 0) run.residual("c-zero-at-rest", (double)(cmax / Mscale), TOL, where, rep);
    else if (cmax != 0) run.count("nonzero-c-cases");

    // ---- independent Lagrangian reference for c
    tk.reset(new Tick(run, "cref"));
    if (doCRef && umax != 0) {
        bool nonholonomic = false;
        for (auto& b : specs) if (b.kind == mb::KLineOrientation || b.kind == mb::KFreeLine) nonholonomic = true;
        if (nonholonomic) run.count("cref-skipped:nonholonomic-kind(LineOrientation/FreeLine)");
        else {
            CRef cr = lagrangianCRef(M, s, Mref, FD_H);
            const LD cscale = Mscale * umax * umax;
            run.expect(cr.usable, "harness/base-quaternion-not-unit", [&] { return "base state quaternion not normalised at " + desc; }, rep);
            if (cr.usable) {
                run.count("cref-samples", cr.samples);
                double dis = (double)(cr.disagree / cscale);
                {   // record the Richardson disagreement itself (never a violation)
                    verif::Worst& w = run.acc.worst["(info)cref-richardson-disagreement"]; w.n++; w.bound = FD_AGREE;
                    if (dis > w.value) { w.value = dis; w.where = desc; }
                }
                if (!(dis <= FD_AGREE)) run.count("cref-skipped:richardson-pair-disagrees");
                else {
                    LD e = 0, cm = 0; for (int i = 0; i < nu; ++i) { e = std::max(e, fabsl((LD)cLib[i] - cr.c[i])); cm = std::max(cm, fabsl(cr.c[i])); }
                    // FunctionBased whose rotation functions share coordinates (kind FBCoupled3, sections SX/AX only): the library's
                    // HDot is wrong there (notes/C02.md); judged under its own key so that nothing else can hide behind it
                    bool coupledFB = false; for (auto& b : specs) if (b.kind == mb::KFBCoupled3) coupledFB = true;
                    run.residual(coupledFB ? "c-vs-lagrangian/FunctionBased-rotation-functions-sharing-coordinates" : "c-vs-lagrangian", (double)(e / cscale), FD_BOUND, where, rep);
                    run.count(cm > 1e-6L * cscale ? "cref-compared:nonzero" : "cref-compared:zero");
                    if (run.verbose) { printf(" c_lib vs c_ref (h=%g, disagreement %.3g, scale %.3Lg):\n", FD_H, dis, cscale); for (int i = 0; i < nu; ++i) printf("  [%d] % .15g  % .15Lg  diff % .3Lg\n", i, cLib[i], cr.c[i], (LD)cLib[i] - cr.c[i]); }
                }
            }
        }
    }

    // ---- inverse dynamics is affine in udot with slope M_ref
    tk.reset(new Tick(run, "patterns"));
    {
        LD e = 0; Vector ei(nu), r;
        for (int i = 0; i < nu; ++i) {
            ei = 0; ei[i] = 1;
            M.matter.calcResidualForceIgnoringConstraints(s, noF, noFB, ei, r);
            for (int k = 0; k < nu; ++k) e = std::max(e, fabsl((LD)r[k] - (LD)cLib[k] - Mref(k, i)));
        }
        run.residual("inv-vs-Mref", (double)(e / std::max(Mscale, cmax)), TOL, where, rep);
    }

    // ---- force patterns
    const int nPat = 1 + nu + 6 * nbt + 1;
    Vector f(nu), udotA, udotB, r, r0, fres, udot2;
    Vector_<SpatialVec> F(nbt), A_GB;
    std::vector<LD> fapp(nu);
    uint64_t oh = 1469598103934665603ULL;
    int64_t bitwiseSame = 0;
    for (int p = 0; p < nPat; ++p) {
        f = 0; F = SpatialVec(Vec3(0), Vec3(0));
        const char* cls; std::string pname;
        DF.clearAllForces(s);
        if (p == 0) { cls = "none"; pname = "none"; }
        else if (p <= nu) {
            int i = p - 1; cls = "mobility"; pname = "mobility u" + std::to_string(i);
            f[i] = 1;
            for (int b = 0; b < nb; ++b) {
                int first = (int)M.bodies[b].getFirstUIndex(s), n = M.bodies[b].getNumU(s);
                if (i >= first && i < first + n) DF.setOneMobilityForce(s, M.bodies[b], MobilizerUIndex(i - first), 1.0);
            }
        } else if (p <= nu + 6 * nbt) {
            int k = p - 1 - nu, bb = k / 6, comp = k % 6;       // bb = MobilizedBodyIndex, 0 = Ground
            cls = bb == 0 ? "ground" : "body"; pname = "body " + std::to_string(bb) + " comp " + std::to_string(comp);
            F[bb][comp / 3][comp % 3] = 1;
            DF.setOneBodyForce(s, M.matter.getMobilizedBody(MobilizedBodyIndex(bb)), F[bb]);
        } else {
            cls = "generic"; pname = "generic";
            for (int i = 0; i < nu; ++i) f[i] = mb::uv(valueSet + 1, i + 1);
            for (int bb = 0; bb < nbt; ++bb) F[bb] = SpatialVec(Vec3(mb::qv(valueSet + 1, bb), mb::qv(valueSet + 2, bb + 3), mb::qv(valueSet, bb + 5)),
                                                              Vec3(mb::uv(valueSet + 2, bb), mb::uv(valueSet, bb + 2), mb::uv(valueSet + 1, bb + 4)));
            DF.setAllMobilityForces(s, f); DF.setAllBodyForces(s, F);
        }
        auto wh = [&] { return desc + " pattern=" + pname; };
        // dense applied generalized force f + J_ref^T F (Ground has no Jacobian block)
        for (int i = 0; i < nu; ++i) {
            LD v = f[i];
            for (int b = 0; b < nb; ++b) for (int k = 0; k < 6; ++k) v += J(6 * b + k, i) * (LD)F[mbx[b]][k / 3][k % 3];
            fapp[i] = v;
        }
        // route B: realize with the forces in the state; route A: operator on the same state
        M.system.realize(s, Stage::Acceleration);
        udotB = s.getUDot();
        M.matter.calcAccelerationIgnoringConstraints(s, f, F, udotA, A_GB);
        const LD ud = vmaxV(udotA);
        const LD fscale = std::max(std::max(vmax(fapp), cmax), std::max(Mscale * ud, Mscale));
        // routes agree
        {
            LD e = 0; bool bit = true;
            for (int i = 0; i < nu; ++i) { e = std::max(e, fabsl((LD)udotA[i] - (LD)udotB[i])); if (!(udotA[i] == udotB[i])) bit = false; }
            if (bit) ++bitwiseSame;
            run.residual("routes-agree-udot", (double)(e / std::max<LD>(ud, fscale / Mscale) * ic), TOL, wh, rep, cls);
            LD ea = 0, as = 0;
            for (int b = 0; b < nb; ++b) { const SpatialVec& Ar = M.bodies[b].getBodyAcceleration(s); for (int k = 0; k < 6; ++k) { ea = std::max(ea, fabsl((LD)Ar[k / 3][k % 3] - (LD)A_GB[mbx[b]][k / 3][k % 3])); as = std::max(as, fabsl((LD)Ar[k / 3][k % 3])); } }
            for (int k = 0; k < 6; ++k) ea = std::max(ea, fabsl((LD)A_GB[0][k / 3][k % 3]));      // Ground does not accelerate
            run.residual("routes-agree-A_GB", (double)(ea / std::max<LD>(as, fscale / Mscale) * ic), TOL, wh, rep, cls);
        }
        // inverse dynamics of the returned accelerations
        M.matter.calcResidualForceIgnoringConstraints(s, f, F, udotA, r);
        run.residual("fwd-residual-operator", (double)(vmaxV(r) / fscale * ic), TOL, wh, rep, cls);
        M.matter.calcResidualForceIgnoringConstraints(s, f, F, udotB, r);
        run.residual("fwd-residual-realize", (double)(vmaxV(r) / fscale * ic), TOL, wh, rep, cls);
        // the same inverse dynamics with NON-CONTIGUOUS argument layouts (rows of matrices) must give the same answer bitwise
        if (F.size() && f.size()) {
            Matrix_<SpatialRow> FM(3, F.size()); FM.setTo(SpatialRow(Row3(7), Row3(-7)));
            for (int i = 0; i < F.size(); ++i) FM(1, i) = ~F[i];
            Matrix fM(3, nu), uM(3, nu), rM(3, nu); fM.setTo(7); uM.setTo(-7); rM.setTo(11);
            for (int i = 0; i < nu; ++i) { fM(1, i) = f[i]; uM(1, i) = udotA[i]; }
            Vector rs(nu);
            M.matter.calcResidualForceIgnoringConstraints(s, ~fM[1], ~FM[1], ~uM[1], rs);
            M.matter.calcResidualForceIgnoringConstraints(s, f, F, udotA, r);
            bool same = true; for (int i = 0; i < nu; ++i) same &= memcmp(&rs[i], &r[i], sizeof(double)) == 0;
            run.expect(same, "inverse-dynamics-strided-arguments-differ", [&] { return "calcResidualForceIgnoringConstraints with strided f, F, udot differs from the contiguous call at " + wh(); }, rep);
            M.matter.calcResidualForceIgnoringConstraints(s, f, F, udotA, ~rM[1]);
            bool same2 = true; for (int i = 0; i < nu; ++i) same2 &= memcmp(&rM(1, i), &r[i], sizeof(double)) == 0 && rM(0, i) == 11 && rM(2, i) == 11;
            run.expect(same2, "inverse-dynamics-strided-result-differs", [&] { return "calcResidualForceIgnoringConstraints with a strided result vector differs or overwrote its neighbours at " + wh(); }, rep);
        }
        // dense equations of motion with J_ref^T F
        {
            LD e = 0;
            for (int i = 0; i < nu; ++i) { LD v = (LD)cLib[i] - fapp[i]; for (int j = 0; j < nu; ++j) v += Mref(i, j) * (LD)udotA[j]; e = std::max(e, fabsl(v)); }
            run.residual("dense-eom", (double)(e / fscale * ic), TOL, wh, rep, cls);
        }
        // inverse dynamics at udot = 0 with the forces: c - (f + J^T F)
        {
            M.matter.calcResidualForceIgnoringConstraints(s, f, F, noUdot, r0);
            LD e = 0; for (int i = 0; i < nu; ++i) e = std::max(e, fabsl((LD)r0[i] - ((LD)cLib[i] - fapp[i])));
            run.residual("inv-applied-vs-JtF", (double)(e / fscale), TOL, wh, rep, cls);
        }
        for (int i = 0; i < nu; ++i) oh = verif::hashPod((float)udotA[i], oh);
        if (run.verbose) {
            printf(" pattern %-18s udotA =", pname.c_str()); for (int i = 0; i < nu; ++i) printf(" % .6g", udotA[i]);
            printf("\n    max|udotA-udotB| = %.3Lg, residual(op) = %.3Lg\n", [&] { LD e = 0; for (int i = 0; i < nu; ++i) e = std::max(e, fabsl((LD)udotA[i] - (LD)udotB[i])); return e; }(), vmaxV(r));
        }
    }
    run.count("force-patterns", nPat);
    run.count("routes-bitwise-equal", bitwiseSame);
    run.outcome(oh);

    // ---- forward(inverse(udot*)) = udot*  for basis udot* and one generic, without and with the generic applied forces
    // (s still carries the generic pattern in DF; the operators ignore state forces)
    tk.reset(new Tick(run, "fwd-of-inv"));
    for (int withForces = 0; withForces < 2; ++withForces) {
        Vector fa(nu); fa = 0; Vector_<SpatialVec> Fa(nbt); Fa = SpatialVec(Vec3(0), Vec3(0));
        if (withForces) { fa = f; Fa = F; }
        LD e = 0; Vector us(nu), tot(nu);
        for (int i = 0; i <= nu; ++i) {
            if (i < nu) { us = 0; us[i] = 1; } else for (int k = 0; k < nu; ++k) us[k] = mb::uv(valueSet + 2, k + 2);
            M.matter.calcResidualForceIgnoringConstraints(s, fa, Fa, us, fres);
            tot = fa + fres;
            M.matter.calcAccelerationIgnoringConstraints(s, tot, Fa, udot2, A_GB);
            LD ei = 0, sc = std::max<LD>(vmaxV(us), 1);
            for (int k = 0; k < nu; ++k) ei = std::max(ei, fabsl((LD)udot2[k] - (LD)us[k]));
            e = std::max(e, ei / sc);
        }
        run.residual(withForces ? "fwd-of-inv-with-forces" : "fwd-of-inv", (double)(e * ic), TOL_FI, where, rep);
    }
    if (run.verbose) {
        printf("%s\n nu=%d cond=%Lg |Mref|=%Lg |u|=%Lg |c_lib|=%Lg\n", desc.c_str(), nu, cond, Mscale, umax, cmax);
        for (int b = 0; b < nb; ++b) printf("  body %d node %s\n", b, mb::nodeTypeName(M, b).c_str());
        printf("  c_lib ="); for (int i = 0; i < nu; ++i) printf(" % .15g", cLib[i]); printf("\n");
    }
}

int main(int argc, char** argv) {
    verif::Run run("C02", argc, argv);
    run.setDeadline(900, 3600);   // idle-machine cost: quick ~260 CPU-s (16 s on 16 cores); generous because the machine is shared
    const bool th = run.thorough();
    for (size_t i = 0; i + 1 < run.extra.size(); ++i) if (run.extra[i] == "--h") FD_H = atof(run.extra[i + 1].c_str());   // calibration only
    run.rule = "E3: KIND = 19 built-in mobilizers, 5 Custom/FunctionBased mirrors with a constant hinge matrix, FunctionBased with nonlinear coordinate functions and 1..6 mobilities (FBN1..6), Custom helix slider with H(q) from X_FM and HDot from V_FM -- 58 KINDxDIR variants (engine/models.h); models = section S (every variant alone on Ground x all 8 frame pairs incl. the four one-part-only pairs), level G, sections SX/AX (FunctionBased whose rotation functions share coordinates -- own violation key -- alone on Ground x 8 frame pairs and in level-A trees) and level A (every KINDxDIRxFRAMES variant as base/middle/tip/fork-branch of a 3-body tree with companions {Pin,Ball,Free}^2), thorough adds level B (all ordered parent->child pairs) and level C (all triples over 8 code families, chain+fork, DIR^3); x COORD{quaternion,Euler} x MASS(3) x STATE(4: zero, generic, large-angle, zero-velocity); value set = seed%3 (thorough: all 3 for level A). Inside each case: every force pattern {none, unit mobility force on each u, unit spatial force x6 on each body incl. Ground, generic} x routes {operator, realize(Acceleration) via Force::DiscreteForces}, basis+generic udot* for forward(inverse()). The Lagrangian c reference is evaluated for the moving states (generic, large-angle) with the generic mass (quick) / all masses (thorough). distinct = distinct (model,coord,mass,state,valueset); non-trivial = nu>=1";
    run.assumptions = {"continuous values only from the fixed tables in engine/models.h", "trees of at most 3 mobilized bodies", "position/velocity kinematics and N/NInv (used to build J_ref, M_ref and the Lagrangian reference) are themselves checked by C03/C05",
                       "Lagrangian reference not applicable to models containing LineOrientation/FreeLine (non-holonomic speeds): skipped and counted", "finite-difference step 1e-3 in chart coordinates; Richardson pair (h,h/2) must agree to 1e-9 relative or the case is skipped and counted"};
    int64_t modelLimit = -1, modelStride = 1;   // calibration only (marks the run non-exhaustive)
    for (size_t i = 0; i + 1 < run.extra.size(); ++i) { if (run.extra[i] == "--models") modelLimit = atoll(run.extra[i + 1].c_str()); if (run.extra[i] == "--stride") modelStride = atoll(run.extra[i + 1].c_str()); }
    PROFILE = run.hasFlag("--profile");
    if (modelLimit >= 0 || modelStride > 1 || PROFILE) run.exhaustive = false;
    const int vs0 = (int)(((run.seed % 3) + 3) % 3);
    mb::LevelA A; mb::LevelB B; mb::LevelC C; mb::LevelG G; mb::LevelS S;
    // FunctionBased with rotation functions that share coordinates (the unchanged library's HDot is wrong: notes/C02.md): alone on
    // Ground and as base/middle/tip/fork-branch of level-A trees.  (FBConstRot2, whose H is wrong, is C03's business.)
    std::vector<std::pair<int, int> > coupledKinds = {{mb::KFBCoupled3, 0}, {mb::KFBCoupled3, 1}};
    mb::LevelS SX; SX.kd = coupledKinds; mb::LevelA AX; AX.kd = coupledKinds;
    auto section = [&](const std::string& name, int64_t nModels, std::vector<int> valueSets, std::function<std::vector<mb::BodySpec>(int64_t, int)> specsOf) {
        verif::Odometer od;
        od.dim("state", 4); od.dim("mass", 3); od.dim("coord", 2); od.dim("valueset", (int64_t)valueSets.size()); od.dim("model", modelLimit >= 0 ? std::min(modelLimit, nModels) : nModels);
        run.parallel(name, od.size(), [&](int64_t idx) {
            auto d = od.digits(idx);
            if (modelStride > 1 && d[4] % modelStride != 0) return;
            auto specs = specsOf(d[4], d[1]);
            bool euler = d[2] == 1;
            std::string desc = name + " " + od.describe(idx) + " ";
            { std::string m = euler ? "euler[" : "quat["; for (auto& b : specs) m += b.str() + " "; desc += m + "] vs=" + std::to_string(valueSets[d[3]]); }
            const bool doCRef = th || d[1] == 0;
            try { checkModel(run, specs, euler, d[0], valueSets[d[3]], doCRef, desc); }
            catch (const std::exception& e) { run.violation("exception/" + name, std::string("exception: ") + e.what() + " at " + desc, run.replayHeader()); }
            if (idx % 20011 == 0) run.sample(desc);
        });
    };
    // section S: every variant alone on Ground x all 8 frame pairs (reaches the lone-particle fast path; minimal failing inputs)
    section("S", S.size(), th ? std::vector<int>{0, 1, 2} : std::vector<int>{vs0}, [&](int64_t i, int m) { return S.specs(i, m); });
    section("G", G.size(), {vs0}, [&](int64_t i, int m) { return G.specs(i, m); });   // Ground-attached pairs (lone particle behind nq != nu mobilizers)
    section("A", A.size(), th ? std::vector<int>{0, 1, 2} : std::vector<int>{vs0}, [&](int64_t i, int m) { return A.specs(i, m); });
    section("SX", SX.size(), {vs0}, [&](int64_t i, int m) { return SX.specs(i, m); });
    section("AX", AX.size(), {vs0}, [&](int64_t i, int m) { return AX.specs(i, m); });
    if (th) {
        section("B", B.size(), {vs0}, [&](int64_t i, int m) { return B.specs(i, m); });
        section("C", C.size(), {vs0}, [&](int64_t i, int m) { return C.specs(i, m); });
    }
    run.extraCoverage["fd_step"] = verif::jsonNum(FD_H);
    return run.finish();
}
