// C46 -- Simulation is deterministic and isolated.
// Engine E2 over run interleavings: an alphabet of "activities" (short simulations of four models with
// different integrators, a GCV spline fit, an LBFGSB solve, a seeded CMAES solve, a mesh/half-space
// contact evaluation, polynomial root solves).  (a) every sequence of activities up to a length,
// (b) every step-level interleaving of two simulations (3 stepTo calls each), (c) re-running a
// simulation on the same System object.  Oracle: every activity's full result bytes equal its solo
// baseline computed in a freshly forked process.
#include "Simbody.h"
#include "verif.h"

using namespace SimTK;
typedef std::vector<double> Bytes;

// ---------------------------------------------------------------- simulation models
struct SimModel {
    MultibodySystem sys; SimbodyMatterSubsystem matter; GeneralForceSubsystem forces; GeneralContactSubsystem contacts;
    SimModel() : matter(sys), forces(sys), contacts(sys) {}
};
static std::unique_ptr<SimModel> buildModel(int m) {
    std::unique_ptr<SimModel> M(new SimModel());
    Body::Rigid body(MassProperties(1.2, Vec3(0.05, -0.1, 0.02), Inertia(0.3, 0.4, 0.5, 0.01, 0.02, -0.01).shiftFromMassCenter(Vec3(0.05, -0.1, 0.02), 1.2)));
    if (m == 0) {            // pendulum chain: 3 pins with non-aligned axes
        Force::Gravity(M->forces, M->matter, UnitVec3(0, -1, 0), 9.81);
        MobilizedBody last = M->matter.Ground();
        for (int i = 0; i < 3; ++i)
            last = MobilizedBody::Pin(last, Transform(Rotation(0.3 * (i + 1), XAxis), Vec3(0.1, 0, 0)), body, Transform(Vec3(0, 0.5, 0)));
    } else if (m == 1) {     // constrained loop: two 2-link chains closed by a Rod, Ball joints (quaternions)
        Force::Gravity(M->forces, M->matter, UnitVec3(0, -1, 0), 9.81);
        MobilizedBody::Ball a(M->matter.Ground(), Transform(Vec3(0, 0, 0)), body, Transform(Vec3(0, 0.5, 0)));
        MobilizedBody::Pin b(a, Transform(Vec3(0, -0.5, 0)), body, Transform(Vec3(0, 0.5, 0)));
        MobilizedBody::Pin c(M->matter.Ground(), Transform(Vec3(1, 0, 0)), body, Transform(Vec3(0, 0.5, 0)));
        Constraint::Rod(b, Vec3(0, -0.5, 0), c, Vec3(0, -0.5, 0), 1.1);
        Force::MobilityLinearDamper(M->forces, b, MobilizerUIndex(0), 0.3);
    } else if (m == 2) {     // contact ball bouncing on a half space (Hunt-Crossley)
        Force::Gravity(M->forces, M->matter, UnitVec3(0, -1, 0), 9.81);
        ContactSetIndex set = M->contacts.createContactSet();
        MobilizedBody::Free ball(M->matter.Ground(), Transform(), Body::Rigid(MassProperties(1.0, Vec3(0), Inertia(0.1))), Transform());
        M->contacts.addBody(set, ball, ContactGeometry::Sphere(0.2), Transform());
        M->contacts.addBody(set, M->matter.updGround(), ContactGeometry::HalfSpace(), Transform(Rotation(-0.5 * Pi, ZAxis), Vec3(0)));
        HuntCrossleyForce hc(M->forces, M->contacts, set);
        hc.setBodyParameters(ContactSurfaceIndex(0), 1e4, 0.3, 0.8, 0.5, 0.1);
        hc.setBodyParameters(ContactSurfaceIndex(1), 1e4, 0.3, 0.8, 0.5, 0.1);
    } else if (m == 4 || m == 5) {   // planar 4-pin chain closed by a Rod; m==4: first pin locked (prescribed u + constraints), m==5: nothing locked (same nu)
        Force::Gravity(M->forces, M->matter, UnitVec3(0, -1, 0), 9.8);
        const Real len = m == 4 ? 1.0 : 0.7; const Real mass = m == 4 ? 1.0 : 2.5;
        Body::Rigid link(MassProperties(mass, Vec3(0), Inertia(mass * 0.1)));
        MobilizedBody parent = M->matter.Ground(); MobilizedBody::Pin pins[4];
        const Real ang[4] = {-0.4, 0.9, -1.1, 0.7};
        for (int i = 0; i < 4; ++i) { pins[i] = MobilizedBody::Pin(parent, Transform(Vec3(i == 0 ? 0 : len, 0, 0)), link, Transform(Vec3(0))); pins[i].setDefaultAngle(ang[i]); parent = pins[i]; }
        if (m == 4) pins[0].lockByDefault(Motion::Position);
        // closing rod from the tip of the last link to a Ground anchor (tip position from the zig-zag default angles)
        Real a = 0; Vec3 tip(0);
        for (int i = 0; i < 4; ++i) { a += ang[i]; if (i > 0) tip += Vec3(0); tip += Vec3(std::cos(a) * len, std::sin(a) * len, 0) * (i < 3 ? 1 : 1); }
        const Vec3 anchor = tip + Vec3(m == 4 ? 0.8 : 0.5, m == 4 ? 0.4 : 0.25, 0);
        Constraint::Rod(M->matter.updGround(), anchor, pins[3], Vec3(len, 0, 0), (m == 4 ? 0.9 : 0.6));
    } else if (m == 6 || m == 7) {   // clouds of 4 spheres in one contact set (sphere/sphere broad phase): m==6 spread about x=y, m==7 stretched along y
        ContactSetIndex set = M->contacts.createContactSet();
        HuntCrossleyForce hc(M->forces, M->contacts, set);
        for (int i = 0; i < 4; ++i) {
            MobilizedBody::Free b(M->matter.Ground(), Transform(), Body::Rigid(MassProperties(1.0, Vec3(0), Inertia(0.1))), Transform());
            M->contacts.addBody(set, b, ContactGeometry::Sphere(0.3), Transform());
            hc.setBodyParameters(ContactSurfaceIndex(i), 1e4, 0.2, 0.5, 0.3, 0.1);
        }
    } else if (m == 8 || m == 9) {   // ellipsoid pressed onto a fixed ellipsoid and a fixed sphere (ConvexConvex narrow phase); two different instances with the same surface indices
        Force::Gravity(M->forces, M->matter, UnitVec3(0, -1, 0), 9.81);
        ContactSetIndex set = M->contacts.createContactSet();
        HuntCrossleyForce hc(M->forces, M->contacts, set);
        MobilizedBody::Free e(M->matter.Ground(), Transform(), Body::Rigid(MassProperties(1.0, Vec3(0), Inertia(0.1))), Transform());
        M->contacts.addBody(set, e, ContactGeometry::Ellipsoid(m == 8 ? Vec3(0.3, 0.2, 0.25) : Vec3(0.22, 0.35, 0.18)), Transform());
        M->contacts.addBody(set, M->matter.updGround(), ContactGeometry::Ellipsoid(m == 8 ? Vec3(0.5, 0.3, 0.4) : Vec3(0.35, 0.45, 0.6)), Transform(Rotation(m == 8 ? 0.3 : -0.5, ZAxis), Vec3(0)));
        M->contacts.addBody(set, M->matter.updGround(), ContactGeometry::Sphere(m == 8 ? 0.3 : 0.4), Transform(m == 8 ? Vec3(0.7, 0.05, 0.02) : Vec3(-0.75, 0.1, -0.03)));
        for (int i = 0; i < 3; ++i) hc.setBodyParameters(ContactSurfaceIndex(i), 2e4, 0.3, 0.5, 0.3, 0.1);
    } else {                 // mesh on half space (ElasticFoundation; exercises the collision-algorithm registry and OBB tree)
        Force::Gravity(M->forces, M->matter, UnitVec3(0, -1, 0), 9.81);
        ContactSetIndex set = M->contacts.createContactSet();
        MobilizedBody::Free mesh(M->matter.Ground(), Transform(), Body::Rigid(MassProperties(1.0, Vec3(0), Inertia(0.1))), Transform());
        M->contacts.addBody(set, mesh, ContactGeometry::TriangleMesh(PolygonalMesh::createSphereMesh(0.25, 2)), Transform());
        M->contacts.addBody(set, M->matter.updGround(), ContactGeometry::HalfSpace(), Transform(Rotation(-0.5 * Pi, ZAxis), Vec3(0)));
        ElasticFoundationForce ef(M->forces, M->contacts, set);
        ef.setBodyParameters(ContactSurfaceIndex(0), 2e4, 0.2, 0.6, 0.4, 0.1);
    }
    M->sys.realizeTopology();
    return M;
}
static State initialState(SimModel& M, int m) {
    State s = M.sys.getDefaultState();
    M.sys.realizeModel(s);
    if (m == 0) { s.updQ()[0] = 0.4; s.updQ()[1] = -0.3; s.updQ()[2] = 0.6; s.updU()[0] = 0.5; }
    else if (m == 1) { s.updU()[0] = 0.3; s.updU()[3] = -0.2; }
    else if (m == 4 || m == 5) { s.updU()[1] = 0.6; s.updU()[2] = -0.3; }
    else if (m == 6 || m == 7) {
        for (int i = 0; i < 4; ++i) {   // Free: q = quat(4) + pos(3) per body; neighbours overlap by 0.05
            static const Vec3 cloudXY[4] = {Vec3(0, 0, 0), Vec3(0.55, 0.12, 0.02), Vec3(0.25, 0.60, -0.03), Vec3(0.80, 0.55, 0.01)};   // x-order 0,2,1,3 differs from y-order 0,1,3,2; body 1 touches 0,2,3
            Vec3 p = m == 6 ? cloudXY[i] : Vec3(0.05 * (i % 2), 0.55 * i, 0.01 * i);   // centre distances 0.567 / 0.552 < 2r = 0.6: neighbours touch; cloud 6 is spread slightly more along x than y, cloud 7 along y only
            for (int k = 0; k < 3; ++k) s.updQ()[7 * i + 4 + k] = p[k];
            s.updU()[6 * i + 3] = 0.2 * (i - 1.5); s.updU()[6 * i + 4] = -0.1 * i;
        }
    }
    else if (m == 8 || m == 9) {   // start slightly penetrating the fixed ellipsoid from above, offset towards the sphere, with spin
        const Vec3 p = m == 8 ? Vec3(0.28, 0.46, 0.03) : Vec3(-0.3, 0.72, -0.02);
        for (int k = 0; k < 3; ++k) s.updQ()[4 + k] = p[k];
        s.updU()[0] = 0.8; s.updU()[2] = -0.5; s.updU()[3] = m == 8 ? 0.3 : -0.3;
    }
    else { s.updQ()[5] = 0.25; s.updU()[0] = 1.0; s.updU()[3] = 0.4; s.updU()[4] = -0.5; }   // Free: q = quat(4) + pos(3); start slightly above the plane
    return s;
}
static Integrator* makeIntegrator(int kind, const System& sys) {
    Integrator* I = nullptr;
    switch (kind) {
        case 0: I = new RungeKuttaMersonIntegrator(sys); break;
        case 1: I = new CPodesIntegrator(sys); break;
        case 2: I = new VerletIntegrator(sys); break;
        default: I = new SemiExplicitEuler2Integrator(sys); break;
    }
    I->setAccuracy(1e-4);
    return I;
}
static void appendState(Bytes& b, const State& s) {
    b.push_back(s.getTime());
    for (int i = 0; i < s.getNY(); ++i) b.push_back(s.getY()[i]);
}
// a simulation that can be advanced step by step (for the interleaving section)
struct SimRun {
    int model, integ; std::unique_ptr<SimModel> M; std::unique_ptr<Integrator> I; Bytes out; int step = 0;
    SimRun(int model, int integ, SimModel* shared = nullptr) : model(model), integ(integ) {
        if (!shared) M = buildModel(model);
        SimModel& mm = shared ? *shared : *M;
        if (model == 1 || model == 4 || model == 5) { State s = initialState(mm, model); mm.sys.realize(s, Stage::Time); mm.sys.prescribe(s); mm.sys.project(s, 1e-8); I.reset(makeIntegrator(integ, mm.sys)); I->initialize(s); }
        else { I.reset(makeIntegrator(integ, mm.sys)); I->initialize(initialState(mm, model)); }
        appendState(out, I->getState());
    }
    bool done() const { return step >= 3; }
    void advance() {
        static const double T[3] = {0.05, 0.11, 0.2};
        I->stepTo(T[step++]);
        appendState(out, I->getState());
        out.push_back((double)I->getNumStepsTaken());
    }
};

// ---------------------------------------------------------------- non-simulation activities
static Bytes actSpline() {
    Vector x(12); Vector_<Vec3> y(12);
    for (int i = 0; i < 12; ++i) { x[i] = 0.1 * i * (1 + 0.05 * i); y[i] = Vec3(std::sin(x[i]), std::cos(2 * x[i]) + 0.01 * ((i * 7) % 5), x[i] * x[i]); }
    Bytes b;
    SplineFitter<Vec3> fit = SplineFitter<Vec3>::fitFromGCV(3, x, y);
    Spline_<Vec3> sp = fit.getSpline();
    b.push_back(fit.getSmoothingParameter()); b.push_back(fit.getMeanSquaredError()); b.push_back(fit.getDegreesOfFreedom());
    for (double t = 0.05; t < 1.6; t += 0.13) { Vec3 v = sp.calcValue(t); Vec3 d = sp.calcDerivative(1, t); for (int k = 0; k < 3; ++k) { b.push_back(v[k]); b.push_back(d[k]); } }
    return b;
}
class RosenSys : public OptimizerSystem {
public:
    explicit RosenSys(int n) : OptimizerSystem(n) {}
    int objectiveFunc(const Vector& x, bool, Real& f) const override {
        f = 0; for (int i = 0; i + 1 < getNumParameters(); ++i) f += 100 * square(x[i + 1] - x[i] * x[i]) + square(1 - x[i]);
        return 0;
    }
    int gradientFunc(const Vector& x, bool, Vector& g) const override {
        const int n = getNumParameters(); g = 0;
        for (int i = 0; i + 1 < n; ++i) { g[i] += -400 * x[i] * (x[i + 1] - x[i] * x[i]) - 2 * (1 - x[i]); g[i + 1] += 200 * (x[i + 1] - x[i] * x[i]); }
        return 0;
    }
};
static Bytes actLBFGSB() {
    RosenSys sys(4); Vector lo(4, -2.0), hi(4, 0.8); sys.setParameterLimits(lo, hi);
    Vector x(4, -1.2);
    Optimizer opt(sys, LBFGSB); opt.setConvergenceTolerance(1e-6); opt.setMaxIterations(200);
    Bytes b; b.push_back(opt.optimize(x)); for (int i = 0; i < 4; ++i) b.push_back(x[i]);
    return b;
}
static Bytes actCMAES() {
    RosenSys sys(3); Vector x(3, 0.3);
    Optimizer opt(sys, CMAES); opt.setConvergenceTolerance(1e-8); opt.setMaxIterations(60);
    opt.setAdvancedRealOption("init_stepsize", 0.3); opt.setAdvancedIntOption("seed", 42); opt.setAdvancedRealOption("maxTimeFractionForEigendecomposition", 1);
    Bytes b; b.push_back(opt.optimize(x)); for (int i = 0; i < 3; ++i) b.push_back(x[i]);
    return b;
}
static Bytes actRoots() {
    Bytes b;
    for (int k = 0; k < 3; ++k) {
        Vector c(7); for (int i = 0; i < 7; ++i) c[i] = ((i * 5 + k * 3) % 7) - 3.0 + (i == 0 ? 4 : 0);
        Vector_<std::complex<Real> > r(6);
        PolynomialRootFinder::findRoots(c, r);
        for (int i = 0; i < 6; ++i) { b.push_back(r[i].real()); b.push_back(r[i].imag()); }
    }
    return b;
}
static Bytes actContactQuery() {     // one Dynamics realization of the mesh model at a penetrating pose
    auto M = buildModel(3);
    State s = initialState(*M, 3); s.updQ()[5] = 0.2;
    M->sys.realize(s, Stage::Dynamics);
    Bytes b; const Vector_<SpatialVec>& f = M->sys.getRigidBodyForces(s, Stage::Dynamics);
    for (int i = 0; i < f.size(); ++i) for (int a = 0; a < 2; ++a) for (int k = 0; k < 3; ++k) b.push_back(f[i][a][k]);
    return b;
}

// ---------------------------------------------------------------- activity alphabet
static const int NACT = 16;
static const char* actName(int a) {
    static const char* n[NACT] = {"sim(chain,RKM)", "sim(loop,CPodes)", "sim(ball,Verlet)", "sim(mesh,SEE2)", "sim(chain,CPodes)", "splineGCV", "LBFGSB", "CMAES(seed42)", "polyRoots", "meshContactQuery", "sim(lockedLoop,RKM)", "sim(freeLoop,RKM)", "sim(sphereCloudXY,RKM)", "sim(sphereCloudY,RKM)", "sim(ellipsoidsA,RKM)", "sim(ellipsoidsB,RKM)"};
    return n[a];
}
static Bytes runActivity(int a) {
    auto sim = [](int m, int i) { SimRun r(m, i); while (!r.done()) r.advance(); return r.out; };
    switch (a) {
        case 0: return sim(0, 0); case 1: return sim(1, 1); case 2: return sim(2, 2); case 3: return sim(3, 3); case 4: return sim(0, 1);
        case 5: return actSpline(); case 6: return actLBFGSB(); case 7: return actCMAES(); case 8: return actRoots(); case 9: return actContactQuery();
        case 10: return sim(4, 0); case 11: return sim(5, 0); case 12: return sim(6, 0); case 13: return sim(7, 0); case 14: return sim(8, 0); default: return sim(9, 0);
    }
}
static uint64_t hashBytes(const Bytes& b) { return verif::fnv1a(b.data(), b.size() * sizeof(double), 1469598103934665603ULL ^ b.size()); }

// Run fn in a freshly forked process and return the Bytes it produced (empty + ok=false if the child died)
static bool inFreshProcess(const std::function<std::vector<Bytes>()>& fn, std::vector<Bytes>& out) {
    int fd[2]; if (pipe(fd) != 0) return false;
    fflush(stdout); fflush(stderr);
    pid_t p = fork();
    if (p == 0) {
        close(fd[0]);
        std::vector<Bytes> r;
        try { r = fn(); } catch (const std::exception& e) { r.clear(); r.push_back(Bytes{-12345.0}); }
        uint64_t n = r.size(); (void)!write(fd[1], &n, sizeof n);
        for (auto& b : r) { uint64_t m = b.size(); (void)!write(fd[1], &m, sizeof m); size_t off = 0; const char* d = (const char*)b.data(); size_t tot = m * sizeof(double); while (off < tot) { ssize_t w = write(fd[1], d + off, tot - off); if (w <= 0) break; off += w; } }
        _exit(0);
    }
    close(fd[1]);
    auto readAll = [&](void* dst, size_t tot) { size_t off = 0; while (off < tot) { ssize_t r = read(fd[0], (char*)dst + off, tot - off); if (r <= 0) return false; off += r; } return true; };
    uint64_t n = 0; bool ok = readAll(&n, sizeof n);
    out.clear();
    for (uint64_t i = 0; ok && i < n; ++i) { uint64_t m = 0; ok = readAll(&m, sizeof m); Bytes b(m); if (ok && m) ok = readAll(b.data(), m * sizeof(double)); out.push_back(b); }
    close(fd[0]);
    int st = 0; waitpid(p, &st, 0);
    return ok && WIFEXITED(st) && WEXITSTATUS(st) == 0;
}
static bool same(const Bytes& a, const Bytes& b) { return a.size() == b.size() && (a.empty() || memcmp(a.data(), b.data(), a.size() * sizeof(double)) == 0); }
static std::string firstDiff(const Bytes& a, const Bytes& b) {
    if (a.size() != b.size()) return "sizes " + std::to_string(a.size()) + " vs " + std::to_string(b.size());
    for (size_t i = 0; i < a.size(); ++i) if (memcmp(&a[i], &b[i], sizeof(double))) return "element " + std::to_string(i) + ": " + verif::fmtd(a[i]) + " vs " + verif::fmtd(b[i]);
    return "equal";
}

int main(int argc, char** argv) {
    verif::Run run("C46", argc, argv);
    run.setDeadline(240, 3000);
    const bool th = run.thorough();
    const int seqLen = th ? 3 : 2;
    run.rule = "E2: (a) all sequences of length <= L over a 16-activity alphabet, each sequence executed in a freshly forked process, every activity's result bytes compared with its solo baseline (also from a fresh process); (b) all C(6,3)=20 step-level interleavings of two simulations of 3 stepTo calls each, for all ordered pairs of 11 simulation kinds (quick: every 4th pattern for pairs involving kinds 5-10); (c) the same System object simulated twice. distinct = distinct sequence / interleaving; non-trivial = at least 2 activities";
    run.assumptions = {"single-threaded force evaluation and OPENBLAS_NUM_THREADS=1 (stated precondition of bitwise repeatability)", "short simulations (0.2 s, 3 reporting steps)", "activities are fixed instances, not families"};

    // solo baselines, each in its own fresh process; computed twice to establish that the oracle is viable
    std::vector<Bytes> base(NACT);
    for (int a = 0; a < NACT; ++a) {
        std::vector<Bytes> r1, r2;
        bool ok1 = inFreshProcess([a] { return std::vector<Bytes>{runActivity(a)}; }, r1);
        bool ok2 = inFreshProcess([a] { return std::vector<Bytes>{runActivity(a)}; }, r2);
        if (!ok1 || !ok2 || r1.size() != 1 || r1[0].size() < 3 || (r1[0].size() == 1 && r1[0][0] == -12345.0)) { run.harnessError(std::string("baseline of activity ") + actName(a) + " failed to run"); return run.finish(); }
        run.expect(same(r1[0], r2[0]), std::string("solo-not-repeatable/") + actName(a), [&] { return std::string("two solo runs in fresh processes differ: ") + firstDiff(r1[0], r2[0]); });
        base[a] = r1[0];
        run.sample(std::string(actName(a)) + " -> " + std::to_string(base[a].size()) + " doubles, hash " + std::to_string(hashBytes(base[a])));
    }

    // (a) sequences
    std::vector<std::vector<int>> seqs;
    for (int a = 0; a < NACT; ++a) for (int b = 0; b < NACT; ++b) { seqs.push_back({a, b}); if (seqLen >= 3) for (int c = 0; c < NACT; ++c) seqs.push_back({a, b, c}); }
    run.parallel("sequences", (int64_t)seqs.size(), [&](int64_t i) {
        const auto& q = seqs[i];
        std::vector<Bytes> got;
        bool ok = inFreshProcess([&] { std::vector<Bytes> r; for (int a : q) r.push_back(runActivity(a)); return r; }, got);
        run.evaluationDistinct(true);
        std::string desc; for (int a : q) desc += std::string(actName(a)) + " ; ";
        if (!ok || got.size() != q.size()) { run.violation("sequence-crashed", "sequence [" + desc + "] did not complete", run.replayHeader()); return; }
        for (size_t k = 0; k < q.size(); ++k) {
            run.outcome(hashBytes(got[k]));
            run.expect(same(got[k], base[q[k]]), std::string("result-depends-on-earlier-activity/") + actName(q[k]),
                       [&] { return "in sequence [" + desc + "] activity #" + std::to_string(k + 1) + " (" + actName(q[k]) + ") differs from its solo baseline: " + firstDiff(got[k], base[q[k]]); });
        }
        if (run.verbose) printf("sequence [%s]: all compared\n", desc.c_str());
    });

    // (b) step-level interleavings of two simulations
    struct SimKind { int model, integ, act; };
    const int NK = 11;
    const SimKind kinds[NK] = {{0, 0, 0}, {1, 1, 1}, {2, 2, 2}, {3, 3, 3}, {0, 1, 4}, {4, 0, 10}, {5, 0, 11}, {6, 0, 12}, {7, 0, 13}, {8, 0, 14}, {9, 0, 15}};
    std::vector<std::vector<int>> patterns;      // which sim advances at each of the 6 slots
    for (int mask = 0; mask < 64; ++mask) if (__builtin_popcount(mask) == 3) { std::vector<int> p; for (int k = 0; k < 6; ++k) p.push_back((mask >> k) & 1); patterns.push_back(p); }
    struct IL { int a, b, pat; };
    std::vector<IL> ils;
    for (int a = 0; a < NK; ++a) for (int b = 0; b < NK; ++b) for (int p = 0; p < (int)patterns.size(); ++p) { if (!th && (a >= 5 || b >= 5) && p % 4 != 0) continue; ils.push_back({a, b, p}); }
    run.parallel("interleavings", (int64_t)ils.size(), [&](int64_t i) {
        IL il = ils[i];
        std::vector<Bytes> got;
        bool ok = inFreshProcess([&] {
            SimRun A(kinds[il.a].model, kinds[il.a].integ), B(kinds[il.b].model, kinds[il.b].integ);
            for (int slot : patterns[il.pat]) { if (slot == 0) A.advance(); else B.advance(); }
            return std::vector<Bytes>{A.out, B.out};
        }, got);
        run.evaluationDistinct(true);
        std::string desc = std::string(actName(kinds[il.a].act)) + " || " + actName(kinds[il.b].act) + " pattern "; for (int s : patterns[il.pat]) desc += s ? "B" : "A";
        if (!ok || got.size() != 2) { run.violation("interleaving-crashed", "interleaving [" + desc + "] did not complete", run.replayHeader()); return; }
        run.expect(same(got[0], base[kinds[il.a].act]), std::string("result-depends-on-interleaved-simulation/") + actName(kinds[il.a].act), [&] { return "[" + desc + "] first simulation differs from solo: " + firstDiff(got[0], base[kinds[il.a].act]); });
        run.expect(same(got[1], base[kinds[il.b].act]), std::string("result-depends-on-interleaved-simulation/") + actName(kinds[il.b].act), [&] { return "[" + desc + "] second simulation differs from solo: " + firstDiff(got[1], base[kinds[il.b].act]); });
        run.outcome(hashBytes(got[0]) ^ (hashBytes(got[1]) * 3));
    });

    // (c) repeat in place: same System object, new integrator, run twice (and once after another model ran)
    run.parallel("repeat-in-place", NK * NK, [&](int64_t i) {
        int a = (int)(i % NK), other = (int)(i / NK);
        std::vector<Bytes> got;
        bool ok = inFreshProcess([&] {
            auto M = buildModel(kinds[a].model);
            SimRun r1(kinds[a].model, kinds[a].integ, M.get()); while (!r1.done()) r1.advance();
            (void)runActivity(kinds[other].act);
            SimRun r2(kinds[a].model, kinds[a].integ, M.get()); while (!r2.done()) r2.advance();
            return std::vector<Bytes>{r1.out, r2.out};
        }, got);
        run.evaluationDistinct(true);
        if (!ok || got.size() != 2) { run.violation("repeat-crashed", std::string("repeat-in-place of ") + actName(kinds[a].act) + " did not complete", run.replayHeader()); return; }
        run.expect(same(got[0], base[kinds[a].act]), std::string("shared-system-first-run-differs/") + actName(kinds[a].act), [&] { return firstDiff(got[0], base[kinds[a].act]); });
        run.expect(same(got[1], base[kinds[a].act]), std::string("rerun-on-same-system-differs/") + actName(kinds[a].act), [&] { return std::string("second run on the same System after ") + actName(kinds[other].act) + ": " + firstDiff(got[1], base[kinds[a].act]); });
    });
    return run.finish();
}
