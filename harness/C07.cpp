// C07 -- Constraint errors form a derivative hierarchy with adjoint forces.
// Engine E3: CONS x ATTACH x SWAP x LAT x VAR (engine/consmodels.h) x context {alone, behind other constraints} x COORD
// x STATE (satisfied and violated, zero and non-zero u, several times) on the host trees.
// Oracles on every case (whole system, every active row):
//   verr = d/dt perr, aerr = d/dt verr by 4th-order differences along the motion (time advanced too), Richardson pair;
//   Pq = d perr/dq by 4th-order differences;  Pq = P N^-1;
//   G: calcG = multiplyByG(e_j) = (calcGTranspose)^T = multiplyByGTranspose(e_i)^T = d verr/du (differences) ; PV, P, Pt sub-blocks;
//   aerr(udot) = G udot + calcBiasForAccelerationConstraints ; calcBiasForMultiplyByG ;
//   constraint forces for unit multipliers (matter-level and per-Constraint API) mapped through J_ref = G^T lambda.
#include "Simbody.h"
#include "verif.h"
#include "models.h"
#include "consmodels.h"
#include "mbref.h"

using namespace SimTK;
using ref::LD; using ref::DMat;

std::string mb::nodeTypeName(const mb::Model&, int) { return ""; }

// Tolerances (relative to 1+|operands|).  Calibration on the unchanged tree: see notes/C07.md.
static const double TOL_FD = 5e-6;        // finite-difference oracles (4th order, h = 8e-3 and 4e-3, Richardson-extrapolated)
static const double TOL_FD_ACCEPT = 3e-6; // the Richardson pair must agree to this or the row is skipped and counted
static const double TOL_ALG = 1e-10;      // different algebraic routes to the same matrix / vector: worst observed ~1e-14
static const double TOL_SAME = 1e-13;     // same arithmetic expected
static const double SING_MARGIN = 0.05;

static std::vector<LD> toLD(const Vector& v, int n0, int n) { std::vector<LD> r(n); for (int i = 0; i < n; ++i) r[i] = v[n0 + i]; return r; }
static double relErr(const DMat& A, const DMat& B) {
    LD sc = 1 + std::max(ref::maxAbs(A), ref::maxAbs(B));
    if (A.r != B.r || A.c != B.c) return INFINITY;
    if (A.a.empty()) return 0;
    return (double)(ref::maxAbsDiff(A, B) / sc);
}
static DMat rows(const DMat& A, int r0, int n) { DMat R(n, A.c); for (int i = 0; i < n; ++i) for (int j = 0; j < A.c; ++j) R(i, j) = A(r0 + i, j); return R; }
static DMat unitCols(const std::function<void(const Vector&, Vector&)>& op, int nIn, int nOut) {
    DMat R(nOut, nIn); Vector e(nIn), out;
    for (int j = 0; j < nIn; ++j) { e = 0; e[j] = 1; op(e, out); for (int i = 0; i < nOut; ++i) R(i, j) = out[i]; }
    return R;
}

struct CaseId { int host, euler, ctx, stateId, valueSet; cons::ConsSpec cs; };

static void checkCase(verif::Run& run, const CaseId& id, const std::string& desc) {
    auto where = [&] { return desc; };
    auto rp = [&] { return run.replayHeader() + desc + "\n"; };
    auto Mp = mb::build(cons::hostSpecs(id.host), id.euler != 0);
    mb::Model& M = *Mp;
    if (id.ctx) cons::addPrefixConstraints(M);
    cons::Added A = cons::addConstraint(M, id.cs, id.host);
    if (!A.legal) { run.count("illegal-combination"); return; }
    const SimbodyMatterSubsystem& matter = M.matter;
    bool projOk = true;
    std::string projErr;
    State s = cons::makeState(M, id.stateId, id.valueSet, &projOk, &projErr);
    run.evaluation(verif::hashStr(desc), true);
    run.count(std::string("type:") + cons::consName(id.cs.type));
    run.count(std::string("attach:") + cons::attachName(id.cs.attach));
    if (run.verbose) printf("case %s projOk=%d %s\n", desc.c_str(), (int)projOk, projErr.c_str());
    if (!projOk) { run.count("skipped:projection-failed"); run.count(std::string("skipped:projection-failed:") + cons::consName(id.cs.type)); return; }
    M.system.realize(s, Stage::Velocity);

    const int nq = s.getNQ(), nu = s.getNU();
    const int nquat = matter.getNumQuaternionsInUse(s);
    const int mpT = s.getNQErr() - nquat, mpvT = s.getNUErr(), mT = s.getNUDotErr();
    const int mvT = mpvT - mpT, maT = mT - mpvT;
    int mp, mv, ma; A.c.getNumConstraintEquationsInUse(s, mp, mv, ma);
    run.expect(mp == A.mp && mv == A.mv && ma == A.ma, "equation-counts-vs-documentation", [&] { return "constraint reports (mp,mv,ma)=(" + std::to_string(mp) + "," + std::to_string(mv) + "," + std::to_string(ma) + ") at " + desc; }, rp);
    MultiplierIndex px0, vx0, ax0; A.c.getIndexOfMultipliersInUse(s, px0, vx0, ax0);
    std::vector<int> ownRows;   // global row indices of the constraint under test, in its own (p,v,a) order
    for (int i = 0; i < mp; ++i) ownRows.push_back(px0 + i);
    for (int i = 0; i < mv; ++i) ownRows.push_back(vx0 + i);
    for (int i = 0; i < ma; ++i) ownRows.push_back(ax0 + i);
    if (id.ctx) run.expect((mp == 0 || px0 > 0) && (mv == 0 || vx0 > mpT) && (ma == 0 || ax0 > mpvT), "context-gives-nonzero-offsets", [&] { return "prefix context did not shift the segments at " + desc; }, rp);

    // documented singular configurations
    Real margin = cons::singularityMargin(M, s, A);
    if (id.ctx) margin = std::min(margin, (M.bodies[3].getBodyTransform(s) * Vec3(-0.1, 0.3, 0) - M.bodies[1].getBodyTransform(s) * Vec3(0.2, 0, 0.1)).norm());
    if (run.verbose) { printf(" margin=%g\n", (double)margin); std::cout << " q=" << s.getQ() << "\n u=" << s.getU() << "\n qerr=" << s.getQErr() << "\n uerr=" << s.getUErr() << std::endl; }
    if (margin < SING_MARGIN) { run.count("skipped:near-documented-singularity"); return; }

    const Real t0 = s.getTime();
    const Vector q0 = s.getQ(), u0 = s.getU(), qd0 = s.getQDot();
    Vector ud(nu); for (int i = 0; i < nu; ++i) ud[i] = mb::uv(id.valueSet + 2, i + 1);
    const Vector qerr0 = s.getQErr(), uerr0 = s.getUErr();
    State w = s;
    auto evalAt = [&](Real t, const Vector& q, const Vector& u, Stage g) { w.setTime(t); w.updQ() = q; w.updU() = u; M.system.realize(w, g); };

    // ------------------------------------------------------------ matrices from the library
    Matrix Gm, Gtm, Pqm, Pqtm, PVm, PVtm, Pm, Ptm;
    matter.calcG(s, Gm); matter.calcGTranspose(s, Gtm); matter.calcPq(s, Pqm); matter.calcPqTranspose(s, Pqtm);
    matter.calcPV(s, PVm); matter.calcPVTranspose(s, PVtm); matter.calcP(s, Pm); matter.calcPt(s, Ptm);
    const DMat G = mbref::fromMatrix(Gm), Gt = mbref::fromMatrix(Gtm), Pq = mbref::fromMatrix(Pqm), Pqt = mbref::fromMatrix(Pqtm);
    run.expect(G.r == mT && G.c == nu && Gt.r == nu && Gt.c == mT && Pq.r == mpT && Pq.c == nq && Pqt.r == nq && Pqt.c == mpT, "matrix-dimensions", [&] { return "wrong dimensions at " + desc; }, rp);
    if (!(G.r == mT && G.c == nu && Gt.r == nu && Gt.c == mT && Pq.r == mpT && Pq.c == nq)) return;

    // ------------------------------------------------------------ kinematic helpers (harness side, from J_ref)
    const DMat J = mbref::jacobianRef(M, s);
    const int nb = (int)M.bodies.size();
    auto roleOfMobod = [&](MobilizedBodyIndex mbx) { for (int b = 0; b < nb; ++b) if (M.bodies[b].getMobilizedBodyIndex() == mbx) return b; return -1; };
    const int ncbOwn = A.c.getNumConstrainedBodies();
    const int ancRole = ncbOwn ? roleOfMobod(A.c.getAncestorMobilizedBody().getMobilizedBodyIndex()) : -1;   // -1: Ground
    const Rotation R_GAnc = ancRole >= 0 ? M.bodies[ancRole].getBodyRotation(s) : Rotation();
    // spatial velocity [w; v(origin)] of body `role` in Ground for the generalized speeds x (role -1 = Ground)
    auto spatialVelG = [&](int role, const Vector& x) { SpatialVec V(Vec3(0), Vec3(0)); if (role < 0) return V; for (int j = 0; j < nu; ++j) for (int k = 0; k < 3; ++k) { V[0][k] += (Real)J(6 * role + k, j) * x[j]; V[1][k] += (Real)J(6 * role + 3 + k, j) * x[j]; } return V; };
    // angular velocity of body `role` relative to the constraint's Ancestor, expressed in the Ancestor frame
    auto angVelInAnc = [&](int role, const Vector& x) { return ~R_GAnc * (spatialVelG(role, x)[0] - spatialVelG(ancRole, x)[0]); };
    // Ball and the translational rows of Weld are documented to act on the *material point of body 1 coincident with the
    // station of body 2* ("acts as though the contact occurs at the point on body 2"), so their velocity error is
    //   verr = d/dt perr - w1 x perr   and   aerr = d/dt verr + w1 x verr      (w1 = angular velocity of body 1 in the Ancestor)
    // i.e. the literal derivative hierarchy only holds where w1 x perr = 0.  The oracle demands the exact documented relation
    // and counts the cases in which it differs from the literal one.
    const bool materialPoint = id.cs.type == cons::CBall || id.cs.type == cons::CWeld;
    const int mpRow0 = materialPoint ? (int)px0 + (id.cs.type == cons::CWeld ? 3 : 0) : -1;   // first of the three rows
    auto vec3At = [](const Vector& v, int i0) { return Vec3(v[i0], v[i0 + 1], v[i0 + 2]); };

    // ------------------------------------------------------------ 1. verr = d/dt perr, aerr = d/dt verr along the motion
    Vector aerrUd; matter.calcConstraintAccelerationErrors(s, ud, aerrUd);
    const bool sosRolling = id.cs.type == cons::CSphereOnSphereContact && mv == 2;   // tangent directions documented as non-smooth: only |slip|^2 is differentiable
    {
        Vec3 corrP(0), corrV(0);
        if (materialPoint) {
            const Vec3 w1 = angVelInAnc(A.bodyX, u0);
            corrP = w1 % vec3At(qerr0, mpRow0); corrV = w1 % vec3At(uerr0, mpRow0);
            if (corrP.norm() > 1e-9 || corrV.norm() > 1e-9) run.count(std::string("unspecified:literal-derivative-hierarchy-off-manifold(material-point-formulation):") + cons::consName(id.cs.type));
        }
        // NoSlip1D: the library differentiates the velocities of *fixed* material points; the contact point however moves
        // through both bodies, which adds  [w1 x (vP - vP1) - w0 x (vP - vP0)] . n  to the true time derivative.
        LD noSlipMissing = 0;
        if (id.cs.type == cons::CNoSlip1D) {
            auto Xg = [&](int r) { return r < 0 ? Transform() : M.bodies[r].getBodyTransform(s); };
            const Vec3 P_G = Xg(A.caseBody) * cons::station1(id.cs.lat); const Vec3 n_G = Xg(A.caseBody).R() * cons::axis1(id.cs.lat);
            auto pointVel = [&](int r) { SpatialVec V = spatialVelG(r, u0); return V[1] + V[0] % (P_G - Xg(r).p()); };   // velocity in G of the material point of body r at P
            // everything relative to the Ancestor: differences of velocities of coincident points are frame independent up to w_A x (same point) which cancels
            const Vec3 vP = pointVel(A.caseBody), v0 = pointVel(A.bodyX), v1 = pointVel(A.bodyY);
            const Vec3 wA = spatialVelG(ancRole, u0)[0];
            const Vec3 w0 = spatialVelG(A.bodyX, u0)[0] - wA, w1 = spatialVelG(A.bodyY, u0)[0] - wA;
            noSlipMissing = ~(w1 % (vP - v1) - w0 % (vP - v0)) * n_G;
        }
        auto f = [&](LD tau) {
            evalAt(t0 + (Real)tau, q0 + (Real)tau * qd0, u0 + (Real)tau * ud, Stage::Velocity);
            std::vector<LD> r = toLD(w.getQErr(), 0, mpT), v = toLD(w.getUErr(), 0, mpvT);
            if (sosRolling) { LD a = v[vx0], b = v[vx0 + 1]; v[vx0] = 0.5L * (a * a + b * b); v[vx0 + 1] = 0; }
            r.insert(r.end(), v.begin(), v.end());
            return r;
        };
        auto est = [&](LD hh) { auto a = f(-2 * hh), b = f(-hh), c = f(hh), d = f(2 * hh); std::vector<LD> r(a.size()); for (size_t i = 0; i < a.size(); ++i) r[i] = (a[i] - 8 * b[i] + 8 * c[i] - d[i]) / (12 * hh); return r; };
        auto e1 = est(8e-3L), e2 = est(4e-3L);
        for (int i = 0; i < mpT + mpvT; ++i) {
            const bool posRow = i < mpT; const int k = posRow ? i : i - mpT;
            LD refv = posRow ? (LD)uerr0[k] : (LD)aerrUd[k];   // what the library reports as the derivative
            if (sosRolling && !posRow && k == vx0) refv = (LD)uerr0[vx0] * aerrUd[vx0] + (LD)uerr0[vx0 + 1] * aerrUd[vx0 + 1];
            if (sosRolling && !posRow && k == vx0 + 1) refv = 0;
            if (materialPoint && k >= mpRow0 && k < mpRow0 + 3) refv += posRow ? (LD)corrP[k - mpRow0] : -(LD)corrV[k - mpRow0];
            const bool own = std::find(ownRows.begin(), ownRows.end(), k) != ownRows.end();
            const LD sc = 1 + fabsl(refv) + fabsl(e2[i]);
            const std::string o = posRow ? "verr-vs-ddt-perr" : (k < mpT ? "aerr-vs-ddt-verr(holonomic)" : "aerr-vs-ddt-verr(nonholonomic)");
            if (!(fabsl(e1[i] - e2[i]) <= TOL_FD_ACCEPT * sc)) { run.count("skipped:richardson-disagrees:" + o); continue; }
            const LD ex = (16 * e2[i] - e1[i]) / 15;   // extrapolated (6th order)
            run.residual(o, (double)(fabsl(ex - refv) / sc), TOL_FD, where, rp, own ? cons::consName(id.cs.type) : "context");
            if (refv != 0) run.count("nonzero-reference:" + o);
            // guard for NoSlip1D that survives the known defect (and its repair): d/dt verr must equal the reported aerr either
            // literally or after adding the contact-point transport term the unchanged library omits
            if (id.cs.type == cons::CNoSlip1D && own && !posRow)
                run.residual("NoSlip1D-aerr-vs-ddt-verr-with-or-without-transport-term", (double)(std::min(fabsl(ex - refv), fabsl(ex - (refv + noSlipMissing))) / sc), TOL_FD, where, rp);
        }
    }

    // ------------------------------------------------------------ 2. Pq = d perr / dq
    if (mpT > 0) {
        DMat PqFd(mpT, nq); std::vector<char> okRow(mpT, 1);
        const Vec3 perrMP = materialPoint ? vec3At(qerr0, mpRow0) : Vec3(0);
        for (int j = 0; j < nq; ++j) {
            auto est = [&](LD hh) {
                auto at = [&](LD x) { Vector q = q0; q[j] += (Real)x; evalAt(t0, q, u0, Stage::Position); return toLD(w.getQErr(), 0, mpT); };
                auto a = at(-2 * hh), b = at(-hh), c = at(hh), d = at(2 * hh); std::vector<LD> r(mpT);
                for (int i = 0; i < mpT; ++i) r[i] = (a[i] - 8 * b[i] + 8 * c[i] - d[i]) / (12 * hh);
                return r;
            };
            auto e1 = est(8e-3L), e2 = est(4e-3L);
            for (int i = 0; i < mpT; ++i) { PqFd(i, j) = (16 * e2[i] - e1[i]) / 15; if (!(fabsl(e1[i] - e2[i]) <= TOL_FD_ACCEPT * (1 + fabsl(e2[i])))) okRow[i] = 0; }
            if (materialPoint) {   // documented material-point formulation: Pq e_j = d perr/dq_j - w1(qdot=e_j) x perr
                Vector ej(nq, Real(0)), uj; ej[j] = 1; matter.multiplyByNInv(s, false, ej, uj);
                const Vec3 c = angVelInAnc(A.bodyX, uj) % perrMP;
                for (int k = 0; k < 3; ++k) PqFd(mpRow0 + k, j) -= c[k];
            }
        }
        evalAt(t0, q0, u0, Stage::Velocity);
        const bool quatDirect = A.touchesQuaternionCoordinate;   // own rows: P*N^-1 and d perr/dq cannot both be what calcPq returns (N^-1 is only a left inverse)
        auto ownP = [&](int i) { return mp > 0 && i >= px0 && i < px0 + mp; };
        // Pq = P N^-1 (documented), row by row
        DMat PNinv(mpT, nq); Vector urow(nu), qrow;
        for (int i = 0; i < mpT; ++i) { for (int j = 0; j < nu; ++j) urow[j] = Gm(i, j); matter.multiplyByNInv(s, true, urow, qrow); for (int j = 0; j < nq; ++j) PNinv(i, j) = qrow[j]; }
        for (int i = 0; i < mpT; ++i) {
            const std::string suffix = ownP(i) ? cons::consName(id.cs.type) : "context";
            if (!okRow[i]) run.count("skipped:richardson-disagrees:Pq");
            else run.residual("calcPq-vs-dperr-dq", relErr(rows(Pq, i, 1), rows(PqFd, i, 1)), TOL_FD, where, rp, suffix);
            if (ownP(i) && quatDirect) { run.count("unspecified:Pq-vs-P*NInv-for-coordinate-constraint-on-quaternion-component"); continue; }
            run.residual("calcPq-vs-P*NInv", relErr(rows(Pq, i, 1), rows(PNinv, i, 1)), TOL_ALG, where, rp, suffix);
            run.residual("calcPqTranspose-vs-calcPq", relErr(ref::transpose(rows(ref::transpose(Pqt), i, 1)), ref::transpose(rows(Pq, i, 1))), TOL_ALG, where, rp, suffix);
        }
        run.residual("multiplyByPq-columns", relErr(unitCols([&](const Vector& e, Vector& o) { matter.multiplyByPq(s, e, o); }, nq, mpT), Pq), TOL_SAME, where, rp);
        run.residual("multiplyByPqTranspose-columns", relErr(unitCols([&](const Vector& e, Vector& o) { matter.multiplyByPqTranspose(s, e, o); }, mpT, nq), Pqt), TOL_SAME, where, rp);
    }

    // ------------------------------------------------------------ 3. G by every route
    DMat Gref(mT, nu);
    {
        for (int j = 0; j < nu; ++j) {   // d(uerr)/du_j by differences (exact for affine and quadratic dependence)
            auto at = [&](Real x) { Vector u = u0; u[j] += x; evalAt(t0, q0, u, Stage::Velocity); return toLD(w.getUErr(), 0, mpvT); };
            const LD hh = 0.25L; auto a = at(-0.5), b = at(-0.25), c = at(0.25), d = at(0.5);
            for (int i = 0; i < mpvT; ++i) Gref(i, j) = (a[i] - 8 * b[i] + 8 * c[i] - d[i]) / (12 * hh);
        }
        Vector a0, a1, e(nu); matter.calcConstraintAccelerationErrors(s, Vector(nu, Real(0)), a0);
        for (int j = 0; j < nu; ++j) { e = 0; e[j] = 1; matter.calcConstraintAccelerationErrors(s, e, a1); for (int i = mpvT; i < mT; ++i) Gref(i, j) = (LD)a1[i] - (LD)a0[i]; }
    }
    run.residual("calcG-vs-dverr-du", relErr(G, Gref), TOL_ALG * 100, where, rp, cons::consName(id.cs.type));
    run.residual("calcGTranspose-vs-calcG", relErr(Gt, ref::transpose(G)), TOL_ALG, where, rp, cons::consName(id.cs.type));
    run.residual("multiplyByG-columns", relErr(unitCols([&](const Vector& e, Vector& o) { matter.multiplyByG(s, e, o); }, nu, mT), G), TOL_SAME, where, rp);
    run.residual("multiplyByGTranspose-columns", relErr(unitCols([&](const Vector& e, Vector& o) { matter.multiplyByGTranspose(s, e, o); }, mT, nu), Gt), TOL_SAME, where, rp);
    {   // generic vectors (not unit vectors)
        Vector x(nu), lam(mT), o; for (int i = 0; i < nu; ++i) x[i] = mb::uv(id.valueSet + 1, i); for (int i = 0; i < mT; ++i) lam[i] = mb::qv(id.valueSet + 1, i) * 2;
        matter.multiplyByG(s, x, o); run.residual("multiplyByG-generic", relErr(mbref::fromVector(o), ref::mul(G, mbref::fromVector(x))), TOL_ALG, where, rp);
        matter.multiplyByGTranspose(s, lam, o); run.residual("multiplyByGTranspose-generic", relErr(mbref::fromVector(o), ref::mul(Gt, mbref::fromVector(lam))), TOL_ALG, where, rp);
    }
    run.residual("calcPV-vs-calcG", relErr(mbref::fromMatrix(PVm), rows(G, 0, mpvT)), TOL_SAME, where, rp);
    run.residual("calcPVTranspose-vs-calcG", relErr(mbref::fromMatrix(PVtm), ref::transpose(rows(G, 0, mpvT))), TOL_ALG, where, rp);
    run.residual("multiplyByPV-columns", relErr(unitCols([&](const Vector& e, Vector& o) { matter.multiplyByPV(s, e, o); }, nu, mpvT), rows(G, 0, mpvT)), TOL_SAME, where, rp);
    run.residual("multiplyByPVTranspose-columns", relErr(unitCols([&](const Vector& e, Vector& o) { matter.multiplyByPVTranspose(s, e, o); }, mpvT, nu), ref::transpose(rows(G, 0, mpvT))), TOL_ALG, where, rp);
    run.residual("calcP-vs-calcG", relErr(mbref::fromMatrix(Pm), rows(G, 0, mpT)), TOL_ALG, where, rp);
    run.residual("calcPt-vs-calcG", relErr(mbref::fromMatrix(Ptm), ref::transpose(rows(G, 0, mpT))), TOL_ALG, where, rp);

    // ------------------------------------------------------------ 4. bias terms
    {
        Vector biasA, biasA2, biasG, aerr0; matter.calcBiasForAccelerationConstraints(s, biasA); matter.calcConstraintAccelerationErrors(s, Vector(), biasA2); matter.calcBiasForMultiplyByG(s, biasG);
        matter.calcConstraintAccelerationErrors(s, Vector(nu, Real(0)), aerr0);
        run.expect(biasA.size() == mT && biasG.size() == mT && aerr0.size() == mT, "bias-dimensions", [&] { return "bias length at " + desc; }, rp);
        if (biasA.size() == mT && biasG.size() == mT && aerr0.size() == mT) {
            run.residual("aerr(empty-udot)-vs-calcBiasForAccelerationConstraints", relErr(mbref::fromVector(biasA), mbref::fromVector(biasA2)), 0, where, rp);
            // aerr is affine in udot with slope G
            DMat pred = ref::add(ref::mul(G, mbref::fromVector(ud)), mbref::fromVector(aerr0));
            run.residual("aerr(udot)-vs-G*udot+aerr(0)", relErr(mbref::fromVector(aerrUd), pred), TOL_ALG, where, rp, cons::consName(id.cs.type));
            // documented: calcBiasForAccelerationConstraints = aerr at udot = 0
            for (int i = 0; i < mT; ++i) {
                const bool own = std::find(ownRows.begin(), ownRows.end(), i) != ownRows.end();
                run.residual("calcBiasForAccelerationConstraints-vs-aerr(udot=0)", std::abs(biasA[i] - aerr0[i]) / (1 + std::abs(aerr0[i])), TOL_ALG, where, rp, own ? cons::consName(id.cs.type) : "context");
            }
            // calcBiasForMultiplyByG: holonomic rows pverr = P u + bias ; other rows the acceleration bias
            DMat predV = ref::add(ref::mul(rows(G, 0, mpT), mbref::fromVector(u0)), rows(mbref::fromVector(biasG), 0, mpT));
            run.residual("pverr-vs-P*u+biasForMultiplyByG", relErr(rows(mbref::fromVector(uerr0), 0, mpT), predV), TOL_ALG, where, rp);
            run.residual("biasForMultiplyByG-nonholonomic-rows", relErr(rows(mbref::fromVector(biasG), mpT, mT - mpT), rows(mbref::fromVector(aerr0), mpT, mT - mpT)), TOL_ALG, where, rp);
        }
    }

    // ------------------------------------------------------------ 5. constraint forces are applied along G^T (virtual work through J_ref)
    auto genForce = [&](const Vector_<SpatialVec>& F, const Vector& f) {   // J^T F + f, F indexed by MobilizedBodyIndex
        DMat g(1, nu);
        for (int b = 0; b < nb; ++b) { const SpatialVec& Fb = F[M.bodies[b].getMobilizedBodyIndex()]; for (int j = 0; j < nu; ++j) for (int k = 0; k < 3; ++k) g(0, j) += J(6 * b + k, j) * Fb[0][k] + J(6 * b + 3 + k, j) * Fb[1][k]; }
        for (int j = 0; j < nu; ++j) g(0, j) += f[j];
        return g;
    };
    {
        Vector lam(mT), f; Vector_<SpatialVec> F;
        for (int i = 0; i < mT; ++i) {
            lam = 0; lam[i] = 1; matter.calcConstraintForcesFromMultipliers(s, lam, F, f);
            const bool own = std::find(ownRows.begin(), ownRows.end(), i) != ownRows.end();
            run.residual("matter-forces-through-Jref-vs-G-row", relErr(genForce(F, f), rows(G, i, 1)), TOL_ALG, where, rp, own ? cons::consName(id.cs.type) : "context");
        }
        if (mT > 0) {
            for (int i = 0; i < mT; ++i) lam[i] = mb::qv(id.valueSet + 2, i) * 3;
            matter.calcConstraintForcesFromMultipliers(s, lam, F, f);
            run.residual("matter-forces-generic-lambda", relErr(genForce(F, f), ref::transpose(ref::mul(ref::transpose(G), mbref::fromVector(lam)))), TOL_ALG, where, rp);
        }
    }
    {   // per-Constraint API: body forces on the constrained bodies in the Ancestor frame, mobility forces on the constrained mobilities
        const int mc = mp + mv + ma; Vector lam(mc), f; Vector_<SpatialVec> FA;
        const int ncb = A.c.getNumConstrainedBodies();
        Rotation R_GA; if (ncb) R_GA = A.c.getAncestorMobilizedBody().getBodyRotation(s);
        for (int k = 0; k <= mc; ++k) {
            if (k < mc) { lam = 0; lam[k] = 1; } else { if (mc < 2) break; for (int i = 0; i < mc; ++i) lam[i] = mb::uv(id.valueSet, i); }
            A.c.calcConstraintForcesFromMultipliers(s, lam, FA, f);
            run.expect(FA.size() == ncb && f.size() == A.c.getNumConstrainedU(s), "constraint-force-array-sizes", [&] { return "sizes at " + desc; }, rp);
            Vector_<SpatialVec> F(matter.getNumBodies(), SpatialVec(Vec3(0), Vec3(0))); Vector fu(nu, Real(0));
            for (int b = 0; b < FA.size(); ++b) F[A.c.getMobilizedBodyFromConstrainedBody(ConstrainedBodyIndex(b)).getMobilizedBodyIndex()] += R_GA * FA[b];
            for (int i = 0; i < f.size(); ++i) fu[A.c.getUIndexOfConstrainedU(s, ConstrainedUIndex(i))] += f[i];
            DMat want(1, nu); for (int i = 0; i < mc; ++i) for (int j = 0; j < nu; ++j) want(0, j) += G(ownRows[i], j) * (LD)lam[i];
            run.residual("constraint-forces-through-Jref-vs-G-rows", relErr(genForce(F, fu), want), TOL_ALG, where, rp, cons::consName(id.cs.type));
        }
    }

    // ------------------------------------------------------------ 6. per-Constraint accessors and matrices agree with the system-level ones
    {
        Vector pe = A.c.getPositionErrorsAsVector(s), ve = A.c.getVelocityErrorsAsVector(s);
        bool same = pe.size() == mp && ve.size() == mp + mv;
        for (int i = 0; same && i < mp; ++i) same = pe[i] == qerr0[px0 + i] && ve[i] == uerr0[px0 + i];
        for (int i = 0; same && i < mv; ++i) same = ve[mp + i] == uerr0[vx0 + i];
        run.expect(same, "constraint-error-accessors-vs-state", [&] { return "Constraint::get*ErrorsAsVector differ from State::getQErr/getUErr at " + desc; }, rp);
        DMat own(mp + mv + ma, nu); for (int i = 0; i < mp + mv + ma; ++i) for (int j = 0; j < nu; ++j) own(i, j) = G(ownRows[i], j);
        if (mp) {
            run.residual("Constraint::calcPositionConstraintMatrixP", relErr(mbref::fromMatrix(A.c.calcPositionConstraintMatrixP(s)), rows(own, 0, mp)), TOL_ALG, where, rp);
            run.residual("Constraint::calcPositionConstraintMatrixPt", relErr(mbref::fromMatrix(A.c.calcPositionConstraintMatrixPt(s)), ref::transpose(rows(own, 0, mp))), TOL_ALG, where, rp);
            if (!A.touchesQuaternionCoordinate) run.residual("Constraint::calcPositionConstraintMatrixPNInv", relErr(mbref::fromMatrix(A.c.calcPositionConstraintMatrixPNInv(s)), rows(Pq, px0, mp)), TOL_ALG, where, rp);
        }
        if (mv) run.residual("Constraint::calcVelocityConstraintMatrixVt", relErr(mbref::fromMatrix(A.c.calcVelocityConstraintMatrixVt(s)), ref::transpose(rows(own, mp, mv))), TOL_ALG, where, rp);
        if (ma) run.residual("Constraint::calcAccelerationConstraintMatrixAt", relErr(mbref::fromMatrix(A.c.calcAccelerationConstraintMatrixAt(s)), ref::transpose(rows(own, mp + mv, ma))), TOL_ALG, where, rp);
    }

    // ------------------------------------------------------------ 7. documented closed forms of the coordinate constraints
    if (id.cs.type == cons::CConstantCoordinate) {
        const MobilizedBody& b = M.bodies[A.mobilizers[0]];
        const Real qi = b.getOneQ(s, A.coords[0]), qdi = b.getOneQDot(s, A.coords[0]);
        run.residual("ConstantCoordinate-perr=q-p", std::abs(qerr0[px0] - (qi - cons::constantPosition())), 1e-14, where, rp);
        run.residual("ConstantCoordinate-verr=qdot", std::abs(uerr0[px0] - qdi), 1e-14 * (1 + std::abs(qdi)), where, rp);
    }
    if (id.cs.type == cons::CConstantSpeed || id.cs.type == cons::CCustomConstantSpeed) {
        const Real ui = M.bodies[A.mobilizers[0]].getOneU(s, A.coords[0]);
        run.residual("ConstantSpeed-|verr|=|u-s|", std::abs(std::abs(uerr0[vx0]) - std::abs(ui - cons::constantSpeedValue())), 1e-14, where, rp);
    }
    if (id.cs.type == cons::CConstantAcceleration) {
        UIndex ux = M.bodies[A.mobilizers[0]].getFirstUIndex(s); const Real udi = ud[ux + A.coords[0]];
        run.residual("ConstantAcceleration-|aerr|=|udot-a|", std::abs(std::abs(aerrUd[ax0]) - std::abs(udi - cons::constantAccelerationValue())), 1e-14, where, rp);
    }

    // ------------------------------------------------------------ 8. realized acceleration errors are the same operator
    try {
        M.system.realize(s, Stage::Acceleration);
        Vector ae; matter.calcConstraintAccelerationErrors(s, s.getUDot(), ae);
        LD sc = 1 + ref::maxAbs(mbref::fromVector(s.getUDot())) * (1 + ref::maxAbs(G));
        run.residual("UDotErr-vs-calcConstraintAccelerationErrors(udot)", (double)(ref::maxAbsDiff(mbref::fromVector(ae), mbref::fromVector(s.getUDotErr())) / sc), TOL_ALG, where, rp);
        Vector own = A.c.getAccelerationErrorsAsVector(s); bool same = own.size() == mp + mv + ma;
        for (int i = 0; same && i < own.size(); ++i) same = own[i] == s.getUDotErr()[ownRows[i]];
        run.expect(same, "constraint-acceleration-accessor-vs-state", [&] { return "getAccelerationErrorsAsVector differs from State::getUDotErr at " + desc; }, rp);
        // forces stored by realize(Acceleration) = forces from the stored multipliers, re-expressed in Ground (documented identity)
        Vector lam = A.c.getMultipliersAsVector(s), f1, f2; Vector_<SpatialVec> FG, FA;
        A.c.getConstraintForcesAsVectors(s, FG, f1); A.c.calcConstraintForcesFromMultipliers(s, lam, FA, f2);
        Rotation R_GA; if (FA.size()) R_GA = A.c.getAncestorMobilizedBody().getBodyRotation(s);
        LD worst = 0, fsc = 1; bool sizes = FG.size() == FA.size() && f1.size() == f2.size();
        for (int b = 0; sizes && b < FA.size(); ++b) { SpatialVec d = FG[b] - R_GA * FA[b]; for (int k = 0; k < 3; ++k) { worst = std::max<LD>(worst, std::max(std::abs(d[0][k]), std::abs(d[1][k]))); fsc = std::max<LD>(fsc, std::max(std::abs(FG[b][0][k]), std::abs(FG[b][1][k]))); } }
        for (int i = 0; sizes && i < f1.size(); ++i) { worst = std::max<LD>(worst, std::abs(f1[i] - f2[i])); fsc = std::max<LD>(fsc, std::abs(f1[i])); }
        run.expect(sizes, "stored-constraint-force-sizes", [&] { return "sizes at " + desc; }, rp);
        run.residual("stored-constraint-forces-vs-forces-from-multipliers", (double)(worst / fsc), TOL_ALG, where, rp);
        run.count("acceleration-realized");
    } catch (const std::exception& e) {
        run.count("unspecified:realize-acceleration-threw"); if (run.verbose) printf("realize(Acceleration) threw: %s\n", e.what());
    }

    run.outcome(verif::hashMix(verif::hashPod(mT * 1000 + mpT * 100 + mvT * 10 + maT), verif::hashPod((float)ref::maxAbs(G))));
    if (run.verbose) {
        printf("%s\n nq=%d nu=%d mp=%d mv=%d ma=%d (totals %d %d %d) margin=%g\n", desc.c_str(), nq, nu, mp, mv, ma, mpT, mvT, maT, (double)margin);
        std::cout << " qerr=" << qerr0 << "\n uerr=" << uerr0 << "\n aerr(ud)=" << aerrUd << "\n G=" << Gm << std::endl;
    }
}

int main(int argc, char** argv) {
    verif::Run run("C07", argc, argv);
    run.setDeadline(240, 2700);
    if (const char* mv = getenv("C07_MAXV")) run.maxViolsPerKey = atoi(mv);   // debugging aid
    const bool th = run.thorough();
    std::vector<int> hosts = {0, 1, 2};
    std::vector<int> valueSets = th ? std::vector<int>{0, 1, 2} : std::vector<int>{(int)(((run.seed % 3) + 3) % 3)};
    run.rule = "E3: CONS(20: 18 built-in types + Custom mirrors of Rod and ConstantSpeed) x ATTACH(6: Ground-body, parent-child, siblings, ancestor-descendant at distance 2, same body twice, cousins via Ground) x SWAP(2) x LAT(3 stations/axes/frames/coordinate indices) x VAR(<=3 type-specific variants) x CONTEXT(alone / behind 5 other constraints incl. a disabled one) x COORD(quaternion/Euler) x STATE(6: zero, generic violated, large-angle, zero-velocity, projected onto position+velocity manifold, projected in q only; times 0, 0.3, 0.7) on all 3 host trees with value set seed%3 (thorough: all 3 value sets). Illegal/duplicate combinations are skipped by a pure index rule (consmodels.h legalCombination). distinct = distinct legal tuple; every case is non-trivial (>= 1 active constraint row).";
    run.assumptions = {"continuous values only from the fixed tables in engine/models.h and engine/consmodels.h", "host trees of 5 mobilized bodies {Free, Ball, Pin, Slider}", "states closer than 0.05 to a documented singular configuration (Rod/SphereOnSphere coincident points, parallel LineOnLine edges or an ambiguous contact-normal sign) are skipped and counted", "finite differences: 4th-order central, h=1e-2 and 5e-3 must agree to 1e-5 or the row is skipped and counted", "SphereOnSphereContact rolling rows: the tangent directions are documented as non-smooth, so only d/dt(|slip|^2/2) = slip . aerr is demanded", "Pq rows of ConstantCoordinate/CoordinateCoupler/PrescribedMotion acting directly on a quaternion component are not compared with d perr/dq (unspecified: Pq=P*NInv has no radial component)", "J_ref (body velocities read back with u=e_i) trusts velocity kinematics (C03/C04)"};
    verif::Odometer od;
    od.dim("state", cons::NSTATE); od.dim("var", cons::NVARMAX); od.dim("lat", cons::NLAT); od.dim("swap", cons::NSWAP); od.dim("attach", cons::NATTACH);
    od.dim("ctx", 2); od.dim("coord", 2); od.dim("type", cons::NCONS); od.dim("host", (int64_t)hosts.size()); od.dim("valueset", (int64_t)valueSets.size());
    int64_t onlyLo = 0, onlyHi = od.size();   // debugging aid: C07_ONLY=lo:hi restricts the items (the run is then reported as not exhaustive)
    if (const char* o = getenv("C07_ONLY")) { sscanf(o, "%ld:%ld", &onlyLo, &onlyHi); run.exhaustive = false; }
    run.parallel("cases", od.size(), [&](int64_t idx) {
        if (idx < onlyLo || idx >= onlyHi) return;
        auto d = od.digits(idx);
        CaseId id; id.stateId = d[0]; id.cs.var = d[1]; id.cs.lat = d[2]; id.cs.swap = d[3]; id.cs.attach = d[4]; id.ctx = d[5]; id.euler = d[6]; id.cs.type = d[7]; id.host = hosts[d[8]]; id.valueSet = valueSets[d[9]];
        if (!cons::legalCombination(id.cs, id.host, id.euler != 0)) { run.count("illegal-combination"); return; }
        std::string desc = "host=" + std::to_string(id.host) + (id.euler ? " euler " : " quat ") + (id.ctx ? "ctx=prefixed " : "ctx=alone ") + id.cs.str() + " state=" + cons::stateName(id.stateId) + " vs=" + std::to_string(id.valueSet) + " [" + od.describe(idx) + "]";
        try { checkCase(run, id, desc); }
        catch (const std::exception& e) { run.violation(std::string("exception/") + cons::consName(id.cs.type), std::string("exception: ") + e.what() + " at " + desc, run.replayHeader()); }
        if (idx % 7919 == 0) run.sample(desc);
    });
    return run.finish();
}
