// C19 -- Integrators honour the step/report/final-time contract.
// Engine E2 (histories): every request sequence (stepTo / stepBy with (report, scheduled)
// from an 8x8 time lattice) up to a depth is replayed on a fresh real Integrator attached to
// the exactly integrable system qdot=u, udot=0, u=1 (q == t), for every integrator and
// every option mask; the contract clauses are evaluated after every return; every history
// is then driven to EndOfSimulation with (inf,inf).
//   section plain  : all sequences of length <= 2, no merging (quick: stepTo only).
//   section bfs    : AbstractIntegratorRep family, BFS over canonical hidden states
//                    (read through -fno-access-control), merging equal states.
//   section cpodes : CPodesIntegrator (its CPODES memory cannot be canonicalised), plain
//                    enumeration below a fixed first call.
//   section stepby-doc : documented meaning of stepBy()'s second argument.
//   section systems: the same request histories and the same clauses on four further systems (SYSTEM dimension):
//                    1 ode     nonlinear ODE with analytic solution (logistic + stiff-ish Prothero-Robinson component)
//                    2 pend3   unconstrained multibody system (three pins under gravity) through MultibodySystem
//                    3 ballrod constrained multibody system (Ball joint = quaternion, Pin, Rod loop)
//                    4 events  system 1 + nonlinear time witness whose handler modifies the state, and a handler
//                              run by the harness at every ReachedScheduledEvent (TimeStepper protocol: handleEvents +
//                              Integrator::reinitialize)
//                    Every system carries a clock coordinate (qdot=u, udot=0, u=1: q == t for every method), so the
//                    clause "the returned state is the trajectory point of its time" stays exact; in addition the
//                    returned state is compared with the analytic / tight reference trajectory and, for system 3,
//                    with the constraint manifold.  System 0 (the clock alone) keeps all its keys; keys of systems
//                    1..4 carry the suffix @<system>.
#include "Simbody.h"
#include "IntegratorRep.h"
#include "AbstractIntegratorRep.h"
#include "CPodesIntegratorRep.h"
#include "odesys.h"
#include "verif.h"

#include <fcntl.h>
#include <signal.h>
#include <memory>

using namespace SimTK;
typedef Integrator::SuccessfulStepStatus Status;

// ---------------------------------------------------------------- value alphabets
struct Lattice {
    double v[6];          // the six finite lattice times; F is one of them
    double F;             // final time (when the option is set)
    double hfix;          // "fixed step" option
    double hsee;          // step of SemiExplicitEuler when the fixed-step option is off
    double c1, c2;        // witness crossing times: generic / a few 1e-6 after a lattice time
};
static const Lattice LATTICES[3] = {
    {{.25, .5, .6, .9, 1.0, 1.2}, 1.0, .3, .125, .55, .6 + 3e-6},
    {{.2, .45, .7, .8, 1.0, 1.5}, 1.0, .35, .1, .5, .7 + 3e-6},
    {{.125, .25, .375, .75, 1.0, 1.25}, 1.0, .25, .125, .3, .375 + 3e-6},   // binary-exact: fixed steps land on lattice times
};
static const int NL = 8;   // lattice index 0 = now, 1..6 = v[0..5], 7 = infinity
static const int SYS_DEPTH_QUICK = 2, SYS_DEPTH_THOROUGH = 2;   // section systems: requests below the first call

static const char* INTEG_NAMES[] = {"ExplicitEuler", "RungeKutta2", "RungeKutta3", "RungeKuttaFeldberg", "RungeKuttaMerson",
                                    "Verlet", "SemiExplicitEuler", "SemiExplicitEuler2", "CPodes", "CPodesAdams"};
static const int CPODES0 = 8;
enum { OptReturnEvery = 1, OptNoInterp = 2, OptFixed = 4, OptLimit1 = 8, OptFinal = 16 };

// ---------------------------------------------------------------- the SYSTEM dimension
enum { SysTrivial = 0, SysOde = 1, SysPend = 2, SysBallRod = 3, SysEvents = 4, NSYS = 5 };
static const char* SYS_NAMES[NSYS] = {"trivial", "ode", "pend3", "ballrod", "events"};
// continuous parameters of the systems: one set per lattice (VERIF_SEED selects the lattice in the quick tier)
struct OdeParams { double k, eps, lam, om, del, jumpTrig, jumpSched, kappa; };
static const OdeParams ODEP[3] = {
    // overdamped pendulum z0' = -k sin z0, z0(0) = pi - eps: leaves the unstable equilibrium slowly and swings down fast at t ~ ln(2/eps)/k, which
    // lies inside the lattice; closed form tan(z0/2) = tan(z0(0)/2) exp(-k t); globally Lipschitz, so no method blows up at any imposed step size.
    // Prothero-Robinson z1' = -lam (z1 - cos(om t)) - om sin(om t), z1(0) = 1 + del, closed form cos(om t) + del exp(-lam t).
    // events system: handler of the witness adds jumpTrig to z1, the scheduled handler subtracts jumpSched; witness (t-c)(1+kappa (t-c))
    {10, .02, 9, 3, .5, .3, .2, 1.0},
    {8, .03, 8, 2, .4, .25, .15, 1.0},
    {12, .01, 10, 4, .6, .35, .25, 1.0},
};
struct MbParams { double g, L, m, q0[3], u0[3], wBall[3], uPin; };
static const MbParams MBP[3] = {
    // gravity is weak enough for the imposed fixed steps (0.25..0.35) to stay stable for the higher-order methods
    {2.5, 1.0, 1.0, {.8, -.5, .3}, {.5, -.3, .2}, {.4, -.3, .6}, .2},
    {3.0, 1.2, 1.5, {-.7, .6, -.2}, {-.4, .5, .1}, {-.5, .2, .4}, -.3},
    {2.0, 0.8, 0.8, {.6, .4, -.5}, {.3, .2, -.6}, {.3, .5, -.4}, .25},
};
static const double REF_H = 1.0 / 1024, REF_T = 3.0;      // grid of the tight reference trajectory of the multibody systems

struct Cfg {
    int lat = 0, integ = 0, mask = 0, wit = 0;   // wit: 0 none, 1 crossing at c1, 2 crossing at c2
    int sys = 0;                                 // SYSTEM dimension
    bool cpodes() const { return integ >= CPODES0; }
    const Lattice& L() const { return LATTICES[lat]; }
    double F() const { return (mask & OptFinal) ? L().F : Infinity; }
    // events system: its nonlinear witness is localised to windows of 1e-6..1e-5 (the documented requirement is <= 1e-5), so the crossing
    // follows the lattice time by 3e-7 instead of 3e-6 -- otherwise the lattice time could never lie inside a window
    // It also has the variants 3 (crossing 3e-7 before that lattice time) and 4 (3e-7 before the final time).
    double crossing() const {
        if (sys == SysEvents) return wit == 1 ? L().c1 : wit == 2 ? L().v[2] + 3e-7 : wit == 3 ? L().v[2] - 3e-7 : wit == 4 ? L().F - 3e-7 : (double)Infinity;
        return wit == 1 ? L().c1 : wit == 2 ? L().c2 : Infinity;
    }
    std::string str() const {
        return "lat=" + std::to_string(lat) + " integ=" + INTEG_NAMES[integ] + " mask=" + std::to_string(mask) + " wit=" + std::to_string(wit) +
               (sys ? " sys=" + std::to_string(sys) : std::string());
    }
    std::string optStr() const {
        std::string s;
        if (sys) s += std::string("system=") + SYS_NAMES[sys] + " ";
        if (mask & OptReturnEvery) s += "returnEveryInternalStep ";
        if (mask & OptNoInterp) s += "allowInterpolation=false ";
        if (mask & OptFixed) s += "fixedStep=" + verif::fmtd(L().hfix) + " ";
        if (mask & OptLimit1) s += "internalStepLimit=1 ";
        if (mask & OptFinal) s += "finalTime=" + verif::fmtd(L().F) + " ";
        if (wit) s += std::string(sys == SysEvents ? "witness((t-c)(1+(t-c))), c=" : "witness(t-") + verif::fmtd(crossing()) + ") ";
        return s;
    }
    std::string keyPrefix() const { return std::string(INTEG_NAMES[integ]) + ((mask & OptNoInterp) ? "/no-interp/" : "/"); }
    // system 0 keeps the keys it always had; the other systems are told apart
    std::string keySuffix() const { return sys ? std::string("@") + SYS_NAMES[sys] : std::string(); }
};

struct Op { int kind = 0, ri = 0, si = 0; };   // kind 0 stepTo, 1 stepBy
static std::string opStr(const Op& o) { return std::string(o.kind ? "B" : "T") + std::to_string(o.ri) + std::to_string(o.si); }
static std::string histStr(const std::vector<Op>& h) { std::string s; for (auto& o : h) { if (!s.empty()) s += ","; s += opStr(o); } return s; }
static std::vector<Op> parseHist(const std::string& s) {
    std::vector<Op> h; std::istringstream is(s); std::string tok;
    while (std::getline(is, tok, ',')) if (tok.size() == 3) { Op o; o.kind = tok[0] == 'B'; o.ri = tok[1] - '0'; o.si = tok[2] - '0'; h.push_back(o); }
    return h;
}
static Cfg parseCfg(const std::string& s) {
    Cfg c; std::istringstream is(s); std::string tok;
    while (is >> tok) {
        size_t e = tok.find('='); if (e == std::string::npos) continue;
        std::string k = tok.substr(0, e), v = tok.substr(e + 1);
        if (k == "lat") c.lat = atoi(v.c_str()); else if (k == "mask") c.mask = atoi(v.c_str()); else if (k == "wit") c.wit = atoi(v.c_str());
        else if (k == "sys") c.sys = atoi(v.c_str());
        else if (k == "integ") for (int i = 0; i < 10; ++i) if (v == INTEG_NAMES[i]) c.integ = i;
    }
    return c;
}

// ---------------------------------------------------------------- the systems under integration
class Witness : public TriggeredEventHandler {
public:
    // a witness on *time* (t - c): its sign is exact, so the crossing is not blurred by interpolation roundoff in q
    Witness(Real c) : TriggeredEventHandler(Stage::Time), c(c) {}
    Real getValue(const State& s) const override { return s.getTime() - c; }
    void handleEvent(State&, Real, bool&) const override {}
private:
    Real c;
};
// events system: a witness that is nonlinear in time (the secant estimates of the localisation are not exact, the window can end up
// on either side of them) but whose sign is still exact: (t-c) is exact in sign and 1+kappa(t-c) > 0 for t >= 0 (kappa c < 1).
// Its handler changes the continuous state discontinuously (z1 += jump).
class JumpWitness : public TriggeredEventHandler {
public:
    JumpWitness(const odesys::OdeSystem& sys, Real c, Real kappa, Real jump) : TriggeredEventHandler(Stage::Time), sys(sys), c(c), kappa(kappa), jump(jump) {}
    Real getValue(const State& s) const override { const Real d = s.getTime() - c; return d * (1 + kappa * d); }
    void handleEvent(State& s, Real, bool&) const override { s.updZ(sys.subsys())[1] += jump; }
private:
    const odesys::OdeSystem& sys; Real c, kappa, jump;
};
// lets the work budget of odesys.h see the realizations of a MultibodySystem
class BudgetForce : public Force::Custom::Implementation {
public:
    void calcForce(const State&, Vector_<SpatialVec>&, Vector_<Vec3>&, Vector&) const override { odesys::spendWork(); }
    Real calcPotentialEnergy(const State&) const override { return 0; }
};
struct MbModel {
    MultibodySystem system; SimbodyMatterSubsystem matter; GeneralForceSubsystem forces;
    MobilizedBody clock; std::vector<int> quatStart;
    MbModel() : matter(system), forces(system) {}
};

// tight reference trajectory of a multibody system: classical RK4 written here (step REF_H) on ydot = f(t,y) as realized by the
// system, stored with derivatives on the grid and evaluated by cubic Hermite interpolation (error ~ REF_H^4 |y''''| / 384 < 1e-10)
struct RefTable {
    int ny = 0; std::vector<Vector> y, yd;
    static void deriv(const System& sys, State& s, Real t, const Vector& y, Vector& yd) {
        s.updTime() = t; s.updY() = y; sys.realize(s, Stage::Acceleration); yd = s.getYDot();
    }
    void build(const System& sys, const State& init) {
        State s = init; ny = s.getNY();
        Vector yc = s.getY(), k1, k2, k3, k4;
        const int n = (int)std::lround(REF_T / REF_H);
        for (int i = 0; i <= n; ++i) {
            const Real t = i * REF_H;
            deriv(sys, s, t, yc, k1);
            y.push_back(yc); yd.push_back(k1);
            if (i == n) break;
            deriv(sys, s, t + REF_H / 2, Vector(yc + (REF_H / 2) * k1), k2);
            deriv(sys, s, t + REF_H / 2, Vector(yc + (REF_H / 2) * k2), k3);
            deriv(sys, s, t + REF_H, Vector(yc + REF_H * k3), k4);
            yc += (REF_H / 6) * (k1 + 2 * k2 + 2 * k3 + k4);
        }
    }
    bool covers(Real t) const { return t >= 0 && t <= REF_T; }
    Real distance(Real t, const Vector& yy) const {     // max-norm distance of yy from the reference at time t
        int i = (int)std::floor(t / REF_H); if (i >= (int)y.size() - 1) i = (int)y.size() - 2; if (i < 0) i = 0;
        const Real x = (t - i * REF_H) / REF_H, x2 = x * x, x3 = x2 * x;
        const Real h00 = 2 * x3 - 3 * x2 + 1, h10 = x3 - 2 * x2 + x, h01 = -2 * x3 + 3 * x2, h11 = x3 - x2;
        Real d = 0;
        for (int j = 0; j < ny; ++j) {
            const Real r = h00 * y[i][j] + h10 * REF_H * yd[i][j] + h01 * y[i + 1][j] + h11 * REF_H * yd[i + 1][j];
            const Real e = std::abs(yy[j] - r);
            if (!(e <= d)) d = e;        // NaN propagates
        }
        return d;
    }
};

struct Fixture {
    int sysKind = 0, lat = 0;
    std::unique_ptr<odesys::OdeSystem> ode; std::unique_ptr<MbModel> mb;
    const System* system = nullptr; State init;
    std::shared_ptr<RefTable> ref;        // multibody systems
    Fixture(const Cfg& c) : sysKind(c.sys), lat(c.lat) {
        const double crossing = c.crossing();
        if (sysKind == SysTrivial) {
            ode.reset(new odesys::OdeSystem(1, 0, [](Real, const Vector&, const Vector&, const Vector&, const Vector&, Vector& udot, Vector&) { udot[0] = 0; }));
            if (crossing < Infinity) ode->addEventHandler(new Witness(crossing));
            init = ode->makeState(0, Vector(1, Real(0)), Vector(1, Real(1)), Vector());
            system = ode.get();
        } else if (sysKind == SysOde || sysKind == SysEvents) {
            const OdeParams P = ODEP[lat];
            // z2' = 1: a second clock, in the z partition of the state (every consistent method and interpolant reproduces z2 == t)
            ode.reset(new odesys::OdeSystem(1, 3, [P](Real t, const Vector&, const Vector&, const Vector& z, const Vector&, Vector& udot, Vector& zdot) {
                udot[0] = 0; zdot[2] = 1;
                zdot[0] = -P.k * std::sin(z[0]);
                zdot[1] = -P.lam * (z[1] - std::cos(P.om * t)) - P.om * std::sin(P.om * t);
            }));
            if (crossing < Infinity) {
                if (sysKind == SysEvents) ode->addEventHandler(new JumpWitness(*ode, crossing, P.kappa, P.jumpTrig));
                else ode->addEventHandler(new Witness(crossing));
            }
            Vector z0(3); z0[0] = Pi - P.eps; z0[1] = 1 + P.del; z0[2] = 0;
            init = ode->makeState(0, Vector(1, Real(0)), Vector(1, Real(1)), z0);
            system = ode.get();
        } else {
            const MbParams P = MBP[lat];
            mb.reset(new MbModel());
            MbModel& M = *mb;
            Force::Gravity(M.forces, M.matter, -YAxis, P.g);
            Force::Custom(M.forces, new BudgetForce());
            if (crossing < Infinity) M.system.addEventHandler(new Witness(crossing));
            // the clock: a slider along x (gravity has no x component), u = 1, not touched by any constraint
            M.clock = MobilizedBody::Slider(M.matter.Ground(), Transform(Vec3(0, 0, 1)), Body::Rigid(MassProperties(1, Vec3(0), Inertia(1))), Transform());
            if (sysKind == SysPend) {
                Body::Rigid link(MassProperties(P.m, Vec3(0), P.m * UnitInertia::cylinderAlongY(.05, P.L / 2)));
                MobilizedBody::Pin b1(M.matter.Ground(), Transform(Vec3(0)), link, Transform(Vec3(0, P.L, 0)));
                MobilizedBody::Pin b2(b1, Transform(Vec3(0, -P.L * .5, 0)), link, Transform(Vec3(0, P.L, 0)));
                MobilizedBody::Pin b3(b2, Transform(Vec3(0, -P.L * .5, 0)), link, Transform(Vec3(0, P.L * .7, 0)));
                M.system.realizeTopology();
                State s = M.system.getDefaultState();
                M.system.realizeModel(s);
                MobilizedBody* bs[3] = {&b1, &b2, &b3};
                for (int i = 0; i < 3; ++i) { bs[i]->setOneQ(s, 0, P.q0[i]); bs[i]->setOneU(s, 0, P.u0[i]); }
                M.clock.setOneU(s, 0, 1);
                init = s;
            } else {
                const Vec3 comA(.2, -.4, .1);
                Inertia IA = (P.m * UnitInertia::sphere(.2)); IA = IA.shiftFromMassCenter(-comA, P.m);
                Body::Rigid bodyA(MassProperties(P.m, comA, IA));
                Body::Rigid bodyB(MassProperties(P.m * .6, Vec3(0), (P.m * .6) * UnitInertia::brick(Vec3(.1, .2, .1))));
                MobilizedBody::Ball A(M.matter.Ground(), Transform(Vec3(0)), bodyA, Transform(Vec3(0)));
                MobilizedBody::Pin B(M.matter.Ground(), Transform(Vec3(1, 0, 0)), bodyB, Transform(Vec3(0, P.L + .2, 0)));
                const Vec3 pA(.3, -.6, 0), pB(0, -.2, .1);
                {   // rod length = distance of the two stations in the default configuration (so that configuration is assembled)
                    const Vec3 a = pA, b = Vec3(1, 0, 0) - Vec3(0, P.L + .2, 0) + pB;
                    Constraint::Rod(A, pA, B, pB, (a - b).norm());
                }
                M.system.realizeTopology();
                State s = M.system.getDefaultState();
                M.system.realizeModel(s);
                A.setUToFitAngularVelocity(s, Vec3(P.wBall[0], P.wBall[1], P.wBall[2]));
                B.setOneU(s, 0, P.uPin);
                M.clock.setOneU(s, 0, 1);
                M.system.realize(s, Stage::Velocity);
                M.system.project(s, 1e-12);
                init = s;
                M.quatStart.push_back((int)A.getFirstQIndex(s));
            }
            system = &M.system;
            M.system.realize(init, Stage::Acceleration);
            // the reference trajectory does not depend on the witness variant (the time witness has a no-op handler)
            static std::map<std::pair<int, int>, std::shared_ptr<RefTable>> refs;
            auto& r = refs[{sysKind, lat}];
            if (!r) { r.reset(new RefTable()); r->build(M.system, init); }
            ref = r;
        }
    }
    // the coordinate that equals t on the exact trajectory whatever the method, and its rate (== 1)
    double clock(const State& s) const { return ode ? ode->q(s, 0) : mb->clock.getOneQ(s, 0); }
    double clockRate(const State& s) const { return ode ? ode->u(s, 0) : mb->clock.getOneU(s, 0); }
    // systems 1, 4: the clock in the z partition (NaN-free "no such clock" = the state's own time)
    double zClock(const State& s) const { return (ode && sysKind != SysTrivial) ? ode->z(s, 2) : s.getTime(); }
};
static Fixture& fixtureFor(const Cfg& c) {
    static std::map<std::tuple<int, int, int>, std::unique_ptr<Fixture>> cache;
    auto& p = cache[std::make_tuple(c.sys, c.lat, c.wit)];
    if (!p) p.reset(new Fixture(c));
    return *p;
}
static Integrator* makeIntegrator(const Cfg& c, const System& sys) {
    const Lattice& L = c.L();
    Integrator* I = nullptr;
    switch (c.integ) {
        case 0: I = new ExplicitEulerIntegrator(sys); break;
        case 1: I = new RungeKutta2Integrator(sys); break;
        case 2: I = new RungeKutta3Integrator(sys); break;
        case 3: I = new RungeKuttaFeldbergIntegrator(sys); break;
        case 4: I = new RungeKuttaMersonIntegrator(sys); break;
        case 5: I = new VerletIntegrator(sys); break;
        case 6: I = new SemiExplicitEulerIntegrator(sys, (c.mask & OptFixed) ? L.hfix : L.hsee); break;
        case 7: I = new SemiExplicitEuler2Integrator(sys); break;
        case 8: I = new CPodesIntegrator(sys, CPodes::BDF); break;
        default: I = new CPodesIntegrator(sys, CPodes::Adams); break;
    }
    if (c.mask & OptReturnEvery) I->setReturnEveryInternalStep(true);
    if (c.mask & OptNoInterp) I->setAllowInterpolation(false);
    if ((c.mask & OptFixed) && c.integ != 6) I->setFixedStepSize(L.hfix);
    if (c.mask & OptLimit1) I->setInternalStepLimit(1);
    if (c.mask & OptFinal) I->setFinalTime(L.F);
    return I;
}

// ---------------------------------------------------------------- canonical hidden state
static uint64_t hv(const Vector& v, uint64_t h) { h = verif::hashPod((int)v.size(), h); for (int i = 0; i < v.size(); ++i) h = verif::hashPod(v[i], h); return h; }
static uint64_t canonKey(const Integrator& I, bool cpodes) {
    const IntegratorRep& r = I.getRep();
    uint64_t h = verif::hashPod((int)r.stepCommunicationStatus);
    h = verif::hashPod((int)r.startOfContinuousInterval, h);
    h = verif::hashPod((int)r.useInterpolatedState, h);
    if (r.stepCommunicationStatus == IntegratorRep::FinalTimeHasBeenReturned) h = verif::hashPod((int)r.terminationReason, h);
    h = verif::hashPod(r.advancedState.getTime(), h); h = hv(r.advancedState.getY(), h);
    if (r.useInterpolatedState) { h = verif::hashPod(r.interpolatedState.getTime(), h); h = hv(r.interpolatedState.getY(), h); }
    h = verif::hashPod(r.tPrev, h); h = hv(r.yPrev, h); h = hv(r.ydotPrev, h); h = hv(r.triggersPrev, h);
    if (r.stepCommunicationStatus == IntegratorRep::CompletedInternalStepWithEvent || r.stepCommunicationStatus == IntegratorRep::StepHasBeenReturnedWithEvent) {
        h = verif::hashPod(r.tLow, h); h = verif::hashPod(r.tHigh, h);
        for (auto e : r.triggeredEvents) h = verif::hashPod((int)e, h);
        for (auto e : r.eventTransitionsSeen) h = verif::hashPod((int)e, h);
        for (auto e : r.estimatedEventTimes) h = verif::hashPod(e, h);
    }
    if (!cpodes) {
        const AbstractIntegratorRep& a = dynamic_cast<const AbstractIntegratorRep&>(r);
        h = verif::hashPod(a.currentStepSize, h); h = verif::hashPod(a.lastStepSize, h); h = verif::hashPod(a.actualInitialStepSizeTaken, h);
    } else {
        // Only what is visible of CPODES: enough to tell "no work was done", not enough to merge states.
        const CPodesIntegratorRep& cr = dynamic_cast<const CPodesIntegratorRep&>(r);
        h = verif::hashPod(cr.pendingReturnCode, h); h = verif::hashPod(cr.previousStartTime, h); h = hv(cr.savedY, h);
        int n = 0; Real x = 0;
        cr.cpodes->getNumSteps(&n); h = verif::hashPod(n, h);
        cr.cpodes->getNumFctEvals(&n); h = verif::hashPod(n, h);
        cr.cpodes->getCurrentTime(&x); h = verif::hashPod(x, h);
    }
    return h;
}

// ---------------------------------------------------------------- cheap counters (flushed once per item)
static std::map<const char*, int64_t> g_ok;          // keyed by the literal's address; merged by name at flush
static int64_t g_status[16];
static void flushCounters(verif::Run& run) {
    for (auto& kv : g_ok) run.count(std::string("oracle:") + kv.first + ":ok", kv.second);
    g_ok.clear();
    for (int i = 0; i < 16; ++i) if (g_status[i]) { run.count(std::string("status:") + Integrator::getSuccessfulStepStatusString((Status)i).c_str(), g_status[i]); g_status[i] = 0; }
}

// ---------------------------------------------------------------- calibrated bounds of the reference comparison
// max-norm distance of a returned state from the reference trajectory at the returned time, error-controlled variable-step runs at
// the default accuracy 1e-3 (which the event-window clauses rely on: window = 0.1 * accuracy * timescale = 1e-5).  Measured worst
// values are in notes/C19.md; a bound is >= 100 x the worst value seen on the unchanged tree over all three lattices.
static double referenceBound(int sys, int integ) {
    if (getenv("C19_CALIBRATE")) return Infinity;       // calibration runs: record only
    //                               Euler  RK2  RK3  RKF  RKM  Verlet SEE  SEE2 CPodes Adams     (SEE has no error control: recorded only)
    static const double B[NSYS][10] = {{0, 0, 0, 0, 0, 0, 0, 0, 0, 0},
                                       {50, 4, 2, 2, 4, 20, 0, 40, 20, 5},          // ode
                                       {30, .3, .2, 3, .3, 2, 0, 8, 2, .9},         // pend3
                                       {10, .3, .2, 2, .5, 2, 0, 3, .5, 60},        // ballrod
                                       {50, 4, 2, 2, 4, 20, 0, 40, 40, 8}};         // events
    return B[sys][integ] > 0 ? B[sys][integ] : (double)Infinity;
}

// ---------------------------------------------------------------- one history on a fresh object
// A history is first executed without building the textual trace; if any clause fails it is executed
// again with tracing on and only that second execution reports (so violations carry the full call log).
struct Exec {
    verif::Run& run; const Cfg cfg; Fixture& fx; std::unique_ptr<Integrator> I;
    const bool tracing;           // build the call log and report failures
    bool sawFailure = false;      // (untraced mode) some clause failed: caller must re-execute with tracing
    std::string trace;            // textual log of the calls so far (replay / violation text)
    std::vector<Op> hist;
    // reference model of the caller's knowledge
    double prevT = 0; bool ended = false; int calls = 0; bool eventSeen = false; bool dead = false;
    double sPending = -Infinity;  // scheduled time of the previous request while it has not been reached yet
    Status prevStatus = Integrator::InvalidSuccessfulStepStatus;
    uint64_t outcomeHash = 1469598103934665603ULL;
    // systems 1,4: the Prothero-Robinson component is cos(om t) + dRef exp(-lam (t - teRef)); the handlers of system 4 move dRef
    double dRef = 0, teRef = 0;
    // system 4: a handler has modified the advanced state and the integrator was reinitialized: the next return must be
    // StartOfContinuousInterval at the time and with the state the handler left
    bool expectStart = false; double handledT = 0, handledZ1 = 0;
    int stalls = 0;               // ReachedStepLimit returns that did not advance time
    std::string refOracle, consOracle; double refBound = Infinity;
    Exec(verif::Run& run, const Cfg& c, bool tracing) : run(run), cfg(c), fx(fixtureFor(c)), tracing(tracing) {
        I.reset(makeIntegrator(c, *fx.system));
        I->initialize(fx.init);
        if (cfg.sys == SysOde || cfg.sys == SysEvents) dRef = ODEP[cfg.lat].del;
        if (cfg.sys) {
            const bool fixed = (cfg.mask & OptFixed) || !I->methodHasErrorControl();
            refOracle = std::string("state-minus-reference@") + SYS_NAMES[cfg.sys] + ":" + INTEG_NAMES[cfg.integ] + (fixed ? "(fixed-step)" : "");
            refBound = fixed ? (double)Infinity : referenceBound(cfg.sys, cfg.integ);
            consOracle = std::string("constraint-norm/tolerance@") + SYS_NAMES[cfg.sys] + ":" + INTEG_NAMES[cfg.integ];
        }
    }
    // residual with the two-pass protocol of check()
    void resid(const std::string& oracle, double res, double bound, const std::string& keySuffix) {
        if (!(res <= bound) && !tracing) sawFailure = true;
        else if ((res <= bound) != tracing || run.verbose)
            run.residual(oracle, res, bound, [&] { return where(); }, [&] { return replay(); }, keySuffix);
    }
    // distance of the returned state from the analytic / tight reference trajectory at the state's own time (NaN: not available)
    double referenceDistance(const State& st) const {
        const double t = st.getTime();
        if (fx.ode) {
            const OdeParams& P = ODEP[cfg.lat];
            const double z0 = 2 * std::atan(std::tan((Pi - P.eps) / 2) * std::exp(-P.k * t));
            const double z1 = std::cos(P.om * t) + dRef * std::exp(-P.lam * (t - teRef));
            return std::max(std::abs(fx.ode->z(st, 0) - z0), std::abs(fx.ode->z(st, 1) - z1));
        }
        if (!fx.ref->covers(t)) return NaN;
        return fx.ref->distance(t, st.getY());
    }
    // system 3: weighted RMS norms of the position (incl. quaternion) and velocity constraint errors over the tolerance in use
    double constraintResidual(const State& returned) const {
        // the integrator's own state is not touched: a state it left below Stage::Velocity is judged on a copy
        State copy; if (returned.getSystemStage() < Stage::Velocity) { copy = returned; fx.system->realize(copy, Stage::Velocity); }
        const State& s = returned.getSystemStage() < Stage::Velocity ? copy : returned;
        auto rms = [](const Vector& e, const Vector& w) { long double ss = 0; for (int i = 0; i < e.size(); ++i) { long double x = (long double)e[i] * (i < w.size() ? (long double)w[i] : 1.0L); ss += x * x; } return e.size() ? (double)sqrtl(ss / e.size()) : 0.0; };
        double worst = std::max(rms(s.getQErr(), s.getQErrWeights()), rms(s.getUErr(), s.getUErrWeights()));
        for (int q0 : fx.mb->quatStart) { long double ss = 0; for (int k = 0; k < 4; ++k) ss += (long double)s.getQ()[q0 + k] * s.getQ()[q0 + k]; worst = std::max(worst, (double)fabsl(sqrtl(ss) - 1)); }
        if (run.verbose && getenv("C19_TRACE")) printf("    constraints at t=%.17g: perr rms %.3g (n=%d) verr rms %.3g (n=%d) tol %.3g\n", s.getTime(), rms(s.getQErr(), s.getQErrWeights()), s.getQErr().size(), rms(s.getUErr(), s.getUErrWeights()), s.getUErr().size(), I->getConstraintToleranceInUse());
        return worst / I->getConstraintToleranceInUse();
    }
    // system 4 plays the TimeStepper's part after a return: run the handlers on the advanced state, then reinitialize
    void afterReturn(Status st) {
        if (cfg.sys != SysEvents) return;
        if (st != Integrator::ReachedEventTrigger && st != Integrator::ReachedScheduledEvent) return;
        const OdeParams& P = ODEP[cfg.lat];
        const double te = I->getAdvancedTime();
        Stage lowest = Stage::Infinity; double jump = 0;
        if (st == Integrator::ReachedEventTrigger) {
            HandleEventsOptions opts(I->getConstraintToleranceInUse()); HandleEventsResults results;
            fx.system->handleEvents(I->updAdvancedState(), Event::Cause::Triggered, I->getTriggeredEvents(), opts, results);
            lowest = results.getLowestModifiedStage(); jump = P.jumpTrig;
        } else {
            I->updAdvancedState().updZ(fx.ode->subsys())[1] -= P.jumpSched;      // what a scheduled handler would do
            lowest = Stage::Dynamics; jump = -P.jumpSched;
        }
        I->reinitialize(lowest, false);
        dRef = dRef * std::exp(-P.lam * (te - teRef)) + jump; teRef = te;
        expectStart = true; handledT = te; handledZ1 = fx.ode->z(I->getAdvancedState(), 1);
        if (tracing) { char b[200]; snprintf(b, sizeof b, "      handler: z1 %+g at tAdv=%.17g, reinitialize(%s)\n", jump, te, lowest.getName().c_str()); trace += b; }
    }
    double latticeValue(int i) const { return i == 0 ? I->getTime() : i == 7 ? (double)Infinity : cfg.L().v[i - 1]; }
    // CPODES needs a finite target (its first step size is derived from it: step(tout=inf) fails with h=inf), and
    // without returnEveryInternalStep / a step limit an unbounded request never returns by definition.
    bool unbounded() const { return cfg.cpodes() || !(cfg.mask & (OptReturnEvery | OptLimit1)); }
    // An op is enabled when
    //  * its times are not in the past (documented precondition) and are not duplicates of "now";
    //  * its scheduled time does not contradict what earlier requests allowed: the integrator may already have
    //    advanced irreversibly up to the earlier scheduled time, so a new scheduled time must be >= the advanced
    //    time, or >= the still pending scheduled time of the previous request;
    //  * the call is guaranteed to return (some finite limit, or an option that returns after every step).
    bool enabled(const Op& o) const {
        if (ended || dead) return false;
        double now = I->getTime(), r = latticeValue(o.ri), s = latticeValue(o.si);
        if (o.ri != 0 && !(r > now)) return false;
        if (o.si != 0 && !(s > now)) return false;
        if (!(s >= I->getAdvancedTime() || (sPending > -Infinity && s >= sPending))) return false;
        if (unbounded() && std::min(std::min(r, s), cfg.F()) == Infinity) return false;
        return true;
    }
    // an event window that was localised before this request was made cannot take the request's times into account
    bool windowPredatesRequest() const {
        const IntegratorRep& rep = I->getRep();
        if (cfg.cpodes()) return dynamic_cast<const CPodesIntegratorRep&>(rep).pendingReturnCode == CPodes::RootReturn;
        return rep.stepCommunicationStatus == IntegratorRep::CompletedInternalStepWithEvent;
    }
    std::string where() const { return cfg.str() + " [" + cfg.optStr() + "] history=" + histStr(hist) + "\n" + trace; }
    std::string replay() const { return "cfg=" + cfg.str() + "\nhistory=" + histStr(hist) + "\n" + trace; }
    template <class M> void check(bool cond, const char* clause, const M& msg) {
        if (cond) { if (!tracing || run.verbose) { run.acc.transitions++; g_ok[clause]++; } return; }
        if (!tracing) { sawFailure = true; return; }
        run.expect(false, cfg.keyPrefix() + clause + cfg.keySuffix(), [&] { return std::string(clause) + ": " + msg() + "\n  at " + where(); }, [&] { return replay(); });
    }

    // perform one request and judge it.  `judge` false = replaying an already-judged prefix.
    void call(int kind, double r, double s, bool judge, const char* tag) {
        const double F = cfg.F();
        const double now = I->getTime();
        const bool oldWindow = cfg.wit ? windowPredatesRequest() : false;
        Status st = Integrator::InvalidSuccessfulStepStatus; bool threw = false; std::string what;
        odesys::workBudget() = 20000;      // realizations; an ordinary request on this lattice needs < 500
        const int failuresBefore = cfg.sys ? I->getNumErrorTestFailures() + I->getNumConvergenceTestFailures() : 0;
        try {
            if (kind == 0) st = I->stepTo(r, s);
            else st = I->stepBy(r - now, s - now);
        } catch (const std::exception& e) { threw = true; what = e.what(); }
        // exhausted budget: the call looped.  (The exception may have been swallowed inside the library -- CPODES'
        // callbacks catch everything -- so the budget itself is the criterion, not the exception that surfaces.)
        const bool exhausted = odesys::workBudget() == 0;
        odesys::workBudget() = -1;
        if (exhausted) {
            calls++;
            if (tracing) { char b[300]; snprintf(b, sizeof b, "  %s %s(%.17g, %.17g) at t=%.17g DOES NOT TERMINATE (20000 realizations spent)\n", tag, kind ? "stepBy->" : "stepTo", r, s, now); trace += b; }
            outcomeHash = verif::hashStr("loops", outcomeHash);
            if (judge) {
                if (!tracing) sawFailure = true;
                else run.expect(false, std::string(INTEG_NAMES[cfg.integ]) + "/request-never-returns" + cfg.keySuffix(), [&] { return "the request kept realizing the state without returning (stopped after 20000 realizations)\n  at " + where(); }, [&] { return replay(); });
            }
            dead = true; return;
        }
        if (kind == 1) { r = now + (r - now); s = now + (s - now); }     // the times stepBy documents: now + interval
        calls++;
        char line[400];
        if (threw) {
            if (tracing) {
                snprintf(line, sizeof line, "  %s %s(%.17g, %.17g) at t=%.17g THROWS: %.200s\n", tag, kind ? "stepBy->" : "stepTo", r, s, now, what.c_str());
                for (char* p = line; *p; ++p) if (*p == '\n' && p[1]) *p = ' ';
                trace += line;
            }
            outcomeHash = verif::hashStr("throw", outcomeHash);
            if (!judge) return;
            if (ended) { check(true, "refuses-after-end", [] { return std::string(); }); check(I->isSimulationOver(), "simulation-over-forgotten", [&] { return std::string("isSimulationOver() false after refusing a step"); }); }
            else if (cfg.sys && (cfg.mask & OptFixed) && I->getNumErrorTestFailures() + I->getNumConvergenceTestFailures() > failuresBefore) {
                // Not a contract matter: on a system with a non-zero error estimate the imposed step size (minimum = maximum) cannot meet the
                // accuracy, the method's error / convergence test failed during this call and the integrator gives up with the exception
                // Integrator.h documents for an unsuccessful step (seen for CPodes only).  Counted; the history ends here.
                if (!tracing) g_ok["(unspecified) step failed at the imposed fixed step size after error/convergence test failures (systems 1-4)"]++;
                dead = true;
            }
            else {
                // keyed by situation: after a localised event (CPODES' internal time is beyond the window) or otherwise
                check(false, eventSeen ? "step-failed-after-event" : "unexpected-exception", [&] { return "stepTo threw although the simulation had not ended: " + what.substr(0, 300); });
                dead = true;
            }
            return;
        }
        const double t = I->getTime(), ta = I->getAdvancedTime();
        const double q = fx.clock(I->getState()), u = fx.clockRate(I->getState());
        const bool startDue = expectStart; expectStart = false;
        if (tracing) {
            snprintf(line, sizeof line, "  %s %s(%.17g, %.17g) at t=%.17g -> %s t=%.17g tAdv=%.17g q=%.17g%s\n", tag, kind ? "stepBy->" : "stepTo", r, s, now,
                     Integrator::getSuccessfulStepStatusString(st).c_str(), t, ta, q, I->isStateInterpolated() ? " (interpolated)" : "");
            trace += line;
        }
        outcomeHash = verif::hashPod(t, verif::hashPod((int)st, outcomeHash)); outcomeHash = verif::hashPod(ta, outcomeHash);
        sPending = (t < s) ? s : -Infinity;
        if (!judge) { prevT = t; prevStatus = st; if (st == Integrator::EndOfSimulation) ended = true; if (st == Integrator::ReachedEventTrigger) eventSeen = true; afterReturn(st); return; }
        if ((!tracing || run.verbose) && (int)st >= 0 && (int)st < 16) g_status[(int)st]++;

        if (ended) { check(false, "step-accepted-after-end", [] { return std::string("a step request after EndOfSimulation was accepted"); }); return; }
        const double lim = std::min(std::min(r, s), F);
        check(t >= prevT, "time-decreased", [&] { return "returned time " + verif::fmtd(t) + " < previous " + verif::fmtd(prevT); });
        check(t <= lim, "returned-after-limit", [&] { return "returned time " + verif::fmtd(t) + " > min(report,scheduled,final) = " + verif::fmtd(lim); });
        check(ta >= t, "advanced-before-state", [&] { return "advanced time " + verif::fmtd(ta) + " < state time " + verif::fmtd(t); });
        check(ta <= s, "advanced-passes-scheduled", [&] { return "advanced time " + verif::fmtd(ta) + " > scheduled event time " + verif::fmtd(s); });
        check(ta <= F, "advanced-passes-final", [&] { return "advanced time " + verif::fmtd(ta) + " > final time " + verif::fmtd(F); });
        {
            const double res = std::max(std::max(std::abs(q - t), std::abs(u - 1)), std::abs(fx.zClock(I->getState()) - t)), bound = 1e-9;
            if (!(res <= bound) && !tracing) sawFailure = true;
            else if ((res <= bound) != tracing || run.verbose)
                run.residual("state-q-minus-t", res, bound, [&] { return where(); }, [&] { return replay(); }, cfg.keyPrefix() + "returned-state-off-trajectory" + cfg.keySuffix());
        }
        if (cfg.sys) {
            // the remaining state variables: distance from the analytic / tight reference trajectory at the returned time.  Judged for
            // error-controlled variable-step runs (bound = calibrated constant, see notes); recorded only (bound inf) for fixed steps.
            const double d = referenceDistance(I->getState());
            if (d != d && fx.mb) { if (!tracing) g_ok["(unspecified) returned time beyond the horizon of the reference trajectory"]++; }
            else resid(refOracle, d, refBound, cfg.keyPrefix() + "returned-state-far-from-reference");
        }
        if (cfg.sys == SysBallRod) {
            const char* kind = I->isStateInterpolated() ? "interpolated" : prevStatus == Integrator::ReachedEventTrigger ? "first-state-after-event" : "step";
            // an error-controlled method at an imposed step size accepts steps it declined to project (see notes): one key per method
            resid(consOracle, constraintResidual(I->getState()), 1 + 1e-9, (cfg.mask & OptFixed) ? std::string("fixed-step") : std::string(kind));
        }
        if (startDue) {
            check(st == Integrator::StartOfContinuousInterval, "no-start-of-interval-after-handler", [&] { return std::string("a handler modified the state and reinitialize() was called, but the next return is ") + Integrator::getSuccessfulStepStatusString(st).c_str(); });
            check(t == handledT && fx.ode->z(I->getState(), 1) == handledZ1, "state-after-handler-not-returned", [&] { return "the return after reinitialize() is not the state the handler left at t=" + verif::fmtd(handledT); });
        }
        switch (st) {
            case Integrator::StartOfContinuousInterval:
                check(calls == 1 || startDue, "unexpected-start-of-interval", [&] { return std::string("StartOfContinuousInterval returned on call ") + std::to_string(calls); });
                check(t == (startDue ? handledT : prevT) && ta == t, "start-of-interval-moved", [&] { return std::string("time changed on a StartOfContinuousInterval return"); });
                break;
            case Integrator::ReachedReportTime:
                check(t == r || (r >= F && t == F), "report-status-at-wrong-time", [&] { return "ReachedReportTime at t=" + verif::fmtd(t) + " but report=" + verif::fmtd(r) + " final=" + verif::fmtd(F); });
                // "each step is reported at most once": the final-time stop may not be delivered a second time
                // (a report requested at the current time is a different matter)
                check(!(prevStatus == Integrator::ReachedReportTime && t == prevT && r > t), "report-repeated", [&] { return "the stop at t=" + verif::fmtd(t) + " was reported twice although no report was requested there"; });
                break;
            case Integrator::ReachedScheduledEvent:
                check(t == s && ta == s, "scheduled-status-at-wrong-time", [&] { return "ReachedScheduledEvent at t=" + verif::fmtd(t) + " tAdv=" + verif::fmtd(ta) + " but scheduled=" + verif::fmtd(s); });
                break;
            case Integrator::TimeHasAdvanced:
                check((cfg.mask & OptReturnEvery) != 0, "time-has-advanced-without-option", [&] { return std::string("TimeHasAdvanced although returnEveryInternalStep is off"); });
                check(!I->isStateInterpolated() && ta == t, "time-has-advanced-not-at-advanced-state", [&] { return std::string("TimeHasAdvanced must return the advanced state"); });
                // The property speaks about times and stops, not about this status's name: a TimeHasAdvanced return at the
                // time of the previous return (seen for CPodes after a "report now" call) is counted, not judged.
                if (!(t > prevT) && tracing) run.count("unspecified:time-has-advanced-without-advancing/" + std::string(INTEG_NAMES[cfg.integ]));
                break;
            case Integrator::ReachedStepLimit:
                check((cfg.mask & OptLimit1) != 0, "step-limit-status-without-option", [&] { return std::string("ReachedStepLimit although no internal step limit is set"); });
                check(t > prevT, "step-limit-without-advancing", [&] { return "ReachedStepLimit at t=" + verif::fmtd(t) + ", the time of the previous return"; });
                // an integration that has stalled (CPodes Adams on the constrained system: step size collapse) has been reported; it is
                // not driven through thousands of further calls of 500 internal steps each
                if (!(t > prevT) && ++stalls >= 3) dead = true;
                break;
            case Integrator::ReachedEventTrigger: {
                check(cfg.wit != 0, "event-without-witness", [&] { return std::string("ReachedEventTrigger but the system has no witness"); });
                if (cfg.wit) {
                    Vec2 w(NaN, NaN); bool wthrew = false;
                    try { w = I->getEventWindow(); } catch (const std::exception&) { wthrew = true; }
                    if (tracing) { char b[200]; snprintf(b, sizeof b, "      window (%.17g, %.17g]\n", w[0], w[1]); trace += b; }
                    const double c = cfg.crossing();
                    check(!wthrew && w[0] < w[1], "event-window-empty", [&] { return std::string("getEventWindow unavailable or empty"); });
                    check(!eventSeen, "event-reported-twice", [&] { return std::string("the single crossing was reported twice"); });
                    check(w[0] < c && c <= w[1], "event-window-misses-crossing", [&] { return "window does not bracket the crossing at " + verif::fmtd(c); });
                    check(t == w[0] && ta == w[1], "event-return-not-at-window", [&] { return "state time " + verif::fmtd(t) + " / advanced " + verif::fmtd(ta) + " differ from the window ends"; });
                    if (oldWindow) {
                        // the integrator localised this window under an earlier request and could not know this request's times
                        g_ok["(unspecified) event window predates the request: report/scheduled-inside-window not demanded"]++;
                        if (w[0] < r && r < w[1]) g_ok["(unspecified) a later request's report time lies strictly inside an already localised event window"]++;
                    }
                    else {
                        check(!(w[0] < r && r < w[1]), "report-time-inside-event-window", [&] { return "report time " + verif::fmtd(r) + " strictly inside the window"; });
                        check(!(w[0] < s && s < w[1]), "scheduled-time-inside-event-window", [&] { return "scheduled time " + verif::fmtd(s) + " strictly inside the window"; });
                    }
                    check(!(w[0] < F && F < w[1]), "final-time-inside-event-window", [&] { return "final time " + verif::fmtd(F) + " strictly inside the window"; });
                }
                eventSeen = true;
                break;
            }
            case Integrator::EndOfSimulation:
                check(F < Infinity, "end-of-simulation-without-final-time", [&] { return std::string("EndOfSimulation although no final time is set"); });
                check(t == F, "end-of-simulation-before-final-time", [&] { return "EndOfSimulation at t=" + verif::fmtd(t) + " but final time is " + verif::fmtd(F); });
                check(I->isSimulationOver(), "end-without-simulation-over", [&] { return std::string("isSimulationOver() false after EndOfSimulation"); });
                if (I->isSimulationOver())
                    check(I->getTerminationReason() == Integrator::ReachedFinalTime, "wrong-termination-reason", [&] { return std::string("termination reason is not ReachedFinalTime"); });
                ended = true;
                break;
            default:
                check(false, "invalid-status", [&] { return "stepTo returned status " + std::to_string((int)st); });
        }
        if (st != Integrator::EndOfSimulation)
            check(!I->isSimulationOver(), "simulation-over-without-end-status", [&] { return std::string("isSimulationOver() true but EndOfSimulation was never returned"); });
        if (cfg.wit && !eventSeen)
            check(!(t > cfg.crossing()), "witness-crossing-not-reported", [&] { return "returned t=" + verif::fmtd(t) + " beyond the crossing at " + verif::fmtd(cfg.crossing()) + " without ReachedEventTrigger"; });
        prevT = t; prevStatus = st;
        afterReturn(st);
    }
    void apply(const Op& o, bool judge) {
        hist.push_back(o);
        call(o.kind, latticeValue(o.ri), latticeValue(o.si), judge, judge ? ">" : " ");
    }
    // drive to EndOfSimulation with (inf,inf); without a final time only a few calls (when they are guaranteed to return)
    void tail() {
        if (dead) return;
        const bool hasF = cfg.F() < Infinity;
        if (!hasF && unbounded()) return;
        // system 0: a step is never shortened by error control, 60 calls reach the final time even one step per call;
        // the other systems need as many calls as the method needs steps at accuracy 1e-3 (ExplicitEuler: < 2000)
        int cap = hasF ? (cfg.sys ? 6000 : 60) : 3;
        int n = 0;
        while (!ended && !dead && n < cap) { call(0, Infinity, Infinity, true, "~"); n++; }
        if (hasF && !dead) {
            check(ended, "no-end-of-simulation", [&] { return "EndOfSimulation not reached within " + std::to_string(cap) + " calls of stepTo(inf,inf)"; });
            if (ended && !dead) call(0, Infinity, Infinity, true, "~");      // must be refused
        }
    }
};

// CPODES reports every failed step on stderr; in the forked workers that is noise (the failure itself is judged).
static void quietWorker(verif::Run& run) {
    static bool done = false;
    if (done || run.replaying()) return;
    done = true;
    int fd = open("/dev/null", O_WRONLY);
    if (fd >= 0) { dup2(fd, 2); close(fd); }
}

// ---------------------------------------------------------------- enumeration helpers
static std::vector<Op> alphabet() {
    std::vector<Op> a;
    for (int k = 0; k < 2; ++k) for (int ri = 0; ri < NL; ++ri) for (int si = 0; si < NL; ++si) { Op o; o.kind = k; o.ri = ri; o.si = si; a.push_back(o); }
    return a;
}

// Replays `prefix` unjudged, applies `op` judged, records, runs the tail.  Returns the canonical key of the
// state after `op` (before the tail); enabled=false if op was not enabled.  `distinctCase`: this (cfg, history)
// is not enumerated by any other section (so the distinct-case count is exact by construction).
struct StepResult { bool enabled = false; uint64_t key = 0; bool ended = false, dead = false; };
static StepResult runHistory(verif::Run& run, const Cfg& cfg, const std::vector<Op>& prefix, const Op& op, bool distinctCase, bool withTail = true) {
    StepResult R;
    // Requests that loop inside the library are stopped by the odesys work budget (an exception).  The alarm is only a
    // last resort for a loop that does not even realize the state: it kills this worker (reported as worker-crash).
    alarm(300);
    for (int pass = 0; pass < 2; ++pass) {
        Exec X(run, cfg, pass == 1 || run.verbose);
        for (auto& o : prefix) X.apply(o, false);
        if (!X.enabled(op)) break;
        R.enabled = true;
        X.apply(op, true);
        R.key = canonKey(*X.I, cfg.cpodes());
        R.ended = X.ended; R.dead = X.dead;
        if (withTail) X.tail();
        if (pass == 0) {
            if (cfg.sys) {     // vacuity guards of the SYSTEM dimension: error control and projection really interfere
                static const char* REJ[NSYS] = {"", "(vacuity) ode: histories with a step rejected by error control", "(vacuity) pend3: histories with a step rejected by error control",
                                                "(vacuity) ballrod: histories with a step rejected by error control", "(vacuity) events: histories with a step rejected by error control"};
                static const char* PRJ[NSYS] = {"", "", "", "(vacuity) ballrod: histories with a constraint projection", ""};
                static const char* HND[NSYS] = {"", "", "", "", "(vacuity) events: histories in which a handler modified the state"};
                if (X.I->getNumErrorTestFailures() > 0) g_ok[REJ[cfg.sys]]++;
                if (cfg.sys == SysBallRod && X.I->getNumProjections() > 0) g_ok[PRJ[cfg.sys]]++;
                if (cfg.sys == SysEvents && X.teRef > 0) g_ok[HND[cfg.sys]]++;
            }
            run.evaluationDistinct(distinctCase);
            run.outcome(verif::hashMix(verif::hashStr(INTEG_NAMES[cfg.integ]), X.outcomeHash));
        }
        if (run.verbose) printf("%s\n%s", cfg.str().c_str(), X.trace.c_str());
        if (!X.sawFailure) break;
    }
    alarm(0);
    return R;
}

// plain DFS: all enabled continuations of `prefix` up to `depth` more ops
static void dfs(verif::Run& run, const Cfg& cfg, std::vector<Op>& prefix, int depth, const std::vector<Op>& A, int64_t& nHist, bool distinctBase) {
    if (depth == 0 || run.expired()) return;
    for (auto& o : A) {
        StepResult R = runHistory(run, cfg, prefix, o, distinctBase && prefix.size() + 1 >= 3);
        if (!R.enabled) continue;
        nHist++;
        if (depth > 1 && !R.ended && !R.dead) { prefix.push_back(o); dfs(run, cfg, prefix, depth - 1, A, nHist, distinctBase); prefix.pop_back(); }
    }
}

int main(int argc, char** argv) {
    verif::Run run("C19", argc, argv);
    run.setDeadline(1200, 3600);   // safety net only: quick needs ~25-50 s on 16 idle cores (about 320 + 70 CPU-s for section systems), see notes
    const bool thorough = run.thorough();
    const std::vector<Op> A = alphabet();
    const std::vector<Op>& Afull = A;
    std::vector<Op> AstepTo; for (auto& o : A) if (o.kind == 0) AstepTo.push_back(o);
    const int bfsDepth = thorough ? 5 : 4;
    const int cpDepth = thorough ? 4 : 3;     // total length including the fixed first call (thorough: 4 for BDF/lattice 1, else 3)
    std::vector<int> lats;
    if (thorough) lats = {0, 1, 2}; else lats = {(int)(((run.seed % 3) + 3) % 3)};
    const int nInteg = thorough ? 10 : 9;
    run.rule = "a case = (lattice, integrator, 5-bit option mask, witness variant, request history); requests are stepTo/stepBy with (report,scheduled) "
               "from {now, 6 lattice times, inf}^2, enabled when not in the past and guaranteed to return; every case is replayed on a fresh Integrator, "
               "judged after every return, then driven to EndOfSimulation with (inf,inf). plain: all histories of length<=2 (quick: stepTo only, no witness); bfs: AbstractIntegratorRep "
               "family, breadth-first over canonical hidden states to depth " + std::to_string(bfsDepth) + "; cpodes: all histories of length<=" + std::to_string(cpDepth) +
               " below the first call stepTo(now,now). systems: the SYSTEM dimension -- the same clauses on four further systems (1 nonlinear ODE with analytic solution: overdamped "
               "pendulum + Prothero-Robinson component; 2 three pins under gravity through MultibodySystem; 3 Ball joint (quaternion) + Pin + Rod loop; 4 system 1 with a nonlinear time "
               "witness whose handler changes the state and a handler run at every ReachedScheduledEvent, followed by Integrator::reinitialize as TimeStepper does), every integrator x "
               "32 option masks x witness variants (none / after a lattice time; events system: after / before a lattice time / before the final time; thorough adds the generic crossing), "
               "all stepTo histories over {now, [early time,] witness lattice time, final time, [time past final,] inf}^2 (quick 16, thorough 36 operations) to depth 2 below the first "
               "call (AbstractIntegratorRep family: breadth-first with merging; CPodes: plain), first call checked to ignore its arguments. Every system carries a clock coordinate "
               "(qdot=u, udot=0) so 'the returned state is the trajectory point of its time' stays exact; the other coordinates are compared with the analytic / tight RK4 reference at the "
               "returned time (calibrated bounds, error-controlled variable-step runs only) and, for system 3, with the constraint manifold (tolerance in use). "
               "distinct = distinct (configuration, history); all are non-trivial (each executes at least one request)";
    run.assumptions = {"the deep search (sections plain, bfs, cpodes) runs on the exactly integrable system 0 (qdot=u, udot=0, q=t), where time bookkeeping is isolated from accuracy; systems 1-4 "
                       "(non-zero error estimates: steps rejected / shortened by error control; projection at every step of system 3; state-changing handlers in system 4) are searched to depth 2 "
                       "below the first call over a reduced stepTo alphabet at the default accuracy 1e-3 (on which the 1e-5 event window of the witness variants rests)",
                       "systems 1-4: an exception after error/convergence test failures at an imposed fixed step size is the documented outcome of an unsuccessful step, counted and not judged; "
                       "the reference comparison is judged for error-controlled variable-step runs only (fixed-step runs are recorded), within 100 x the worst distance measured on the unchanged tree",
                       "request times come from the stated lattice; VERIF_SEED selects one of three lattices in the quick tier, thorough runs all three",
                       "bfs merging trusts the canonical key (status machine, advanced/interpolated/previous time and y, step sizes, event window); the plain section does not",
                       "cpodes section: the first call's arguments are fixed to (now,now); that the first call ignores its arguments is checked in the plain section on the visible state only",
                       "requests with a time in the past are a documented precondition violation and are not issued",
                       "a scheduled time earlier than both the advanced time and the pending scheduled time of the previous request contradicts what the integrator was allowed to do and is not issued",
                       "a request that keeps realizing the state without returning is stopped by a work budget of 20000 realizations (an ordinary request needs < 500) and reported"};

    // ---- direct replay of one history
    if (run.replaying() && !run.replayField("history").empty()) {
        Cfg cfg = parseCfg(run.replayField("cfg"));
        std::vector<Op> h = parseHist(run.replayField("history"));
        printf("replaying %s [%s] history=%s\n", cfg.str().c_str(), cfg.optStr().c_str(), histStr(h).c_str());
        uint64_t oh[2] = {0, 0};
        for (int rep = 0; rep < 2; ++rep) {      // second pass unjudged: the replay must be deterministic
            Exec X(run, cfg, true);
            for (auto& o : h) { if (!X.enabled(o)) { printf("op %s not enabled\n", opStr(o).c_str()); break; } X.apply(o, rep == 0); }
            if (rep == 0) { X.tail(); printf("%s", X.trace.c_str()); }
            else { Exec Y(run, cfg, true); for (auto& o : h) if (Y.enabled(o)) Y.apply(o, false); oh[1] = Y.outcomeHash; oh[0] = X.outcomeHash; }
        }
        if (oh[0] != oh[1]) run.harnessError("replay is not deterministic");
        int rc = run.finish();
        if (run.acc.violCountByKey.empty()) printf("replay: no violation\n");
        return rc;
    }

    // ---- configurations (optional filter "--integ <name>": a subset run, reported as not exhaustive)
    std::string only;
    for (size_t k = 0; k + 1 < run.extra.size(); ++k) if (run.extra[k] == "--integ") only = run.extra[k + 1];
    if (!only.empty()) { run.exhaustive = false; run.extraCoverage["restricted_to_integrator"] = "\"" + only + "\""; }
    // development aids, also subset runs: "--section <name>" runs one section, "--sys <n>" one system of section systems
    std::string onlySection; int onlySys = -1;
    for (size_t k = 0; k + 1 < run.extra.size(); ++k) { if (run.extra[k] == "--section") onlySection = run.extra[k + 1]; if (run.extra[k] == "--sys") onlySys = atoi(run.extra[k + 1].c_str()); }
    if (!onlySection.empty() || onlySys >= 0) { run.exhaustive = false; run.extraCoverage["restricted_to_section"] = "\"" + onlySection + " sys=" + std::to_string(onlySys) + "\""; }
    auto want = [&](const char* sec) { return run.replaying() || onlySection.empty() || onlySection == sec; };
    std::vector<Cfg> all, abs, cps;
    for (int lat : lats) for (int integ = 0; integ < nInteg; ++integ) for (int mask = 0; mask < 32; ++mask) for (int wit = 0; wit < 3; ++wit) {
        if (!thorough && wit == 1) continue;
        Cfg c; c.lat = lat; c.integ = integ; c.mask = mask; c.wit = wit;
        if (!only.empty() && only != INTEG_NAMES[integ]) continue;
        if (thorough || wit == 0) all.push_back(c);     // quick: the plain section runs without witness; bfs/cpodes have both
        (c.cpodes() ? cps : abs).push_back(c);
    }
    run.extraCoverage["configurations"] = std::to_string(all.size());
    run.extraCoverage["alphabet_size"] = std::to_string(A.size());

    // ---- section plain: every history of length <= 2, no merging
    if (want("plain")) run.parallel("plain", (int64_t)all.size(), [&](int64_t i) {
        quietWorker(run);
        const Cfg& cfg = all[i];
        std::set<uint64_t> firstKeys;
        std::vector<Op> prefix; int64_t nHist = 0;
        // quick (and thorough on lattices 2,3): stepTo only -- stepBy is exercised by the bfs/cpodes sections
        const std::vector<Op>& A = (thorough && cfg.lat == lats[0]) ? Afull : AstepTo;
        for (auto& o1 : A) {
            StepResult R = runHistory(run, cfg, prefix, o1, true);
            if (!R.enabled) continue;
            nHist++;
            firstKeys.insert(R.key);
            if (R.ended || R.dead) continue;
            prefix.push_back(o1);
            for (auto& o2 : A) { StepResult R2 = runHistory(run, cfg, prefix, o2, true); if (R2.enabled) nHist++; }
            prefix.pop_back();
        }
        // the assumption the cpodes section and the depth accounting rest on
        run.expect(firstKeys.size() == 1, std::string("assumption/first-call-ignores-arguments/") + INTEG_NAMES[cfg.integ],
                   [&] { return "the first stepTo/stepBy left " + std::to_string(firstKeys.size()) + " different visible states depending on its arguments; " + cfg.str(); },
                   [&] { return run.replayHeader(); });
        run.count("plain_histories", nHist);
        flushCounters(run);
        if (i % 97 == 0) run.sample("plain " + cfg.str() + " -> all " + std::to_string(nHist) + " histories of length<=2 judged");
    });

    // ---- section bfs: AbstractIntegratorRep family, merging canonical states
    if (want("bfs")) run.parallel("bfs", (int64_t)abs.size(), [&](int64_t i) {
        quietWorker(run);
        const Cfg& cfg = abs[i];
        std::set<uint64_t> seen;
        { Exec X(run, cfg, false); seen.insert(canonKey(*X.I, false)); run.state(verif::hashMix(verif::hashStr(cfg.str()), canonKey(*X.I, false))); }
        std::vector<std::vector<Op>> frontier = {{}}, next;
        int depthDone = 0; int64_t nRuns = 0;
        for (int d = 1; d <= bfsDepth && !frontier.empty(); ++d) {
            next.clear();
            for (auto& h : frontier) {
                if (run.expired()) break;
                for (auto& o : A) {
                    StepResult R = runHistory(run, cfg, h, o, h.size() + 1 >= 3);
                    if (!R.enabled) continue;
                    nRuns++;
                    if (seen.insert(R.key).second) {
                        run.state(verif::hashMix(verif::hashStr(cfg.str()), R.key));
                        if (!R.ended && !R.dead) { auto h2 = h; h2.push_back(o); next.push_back(h2); }
                    } else run.count("bfs_merged");
                }
            }
            frontier.swap(next);
            depthDone = d;
        }
        run.count("bfs_histories", nRuns);
        run.count("bfs_states", (int64_t)seen.size());
        run.count(frontier.empty() ? "bfs_fixpoint_reached" : "bfs_depth_bounded");
        flushCounters(run);
        if (i % 61 == 0) run.sample("bfs " + cfg.str() + " -> depth " + std::to_string(depthDone) + ", " + std::to_string(seen.size()) + " canonical states, " + std::to_string(nRuns) + " histories, frontier left " + std::to_string(frontier.size()));
    });

    // ---- section cpodes: plain enumeration below the fixed first call
    {
        struct Item { Cfg cfg; Op second; };
        std::vector<Item> items;
        for (auto& c : cps) for (auto& o : A) items.push_back({c, o});
        if (want("cpodes")) run.parallel("cpodes", (int64_t)items.size(), [&](int64_t i) {
        quietWorker(run);
            const Cfg& cfg = items[i].cfg;
            Op first; first.kind = 0; first.ri = 0; first.si = 0;
            std::vector<Op> prefix = {first};
            StepResult R = runHistory(run, cfg, prefix, items[i].second, false);
            if (!R.enabled) return;
            int64_t nHist = 1;
            // thorough: length 4 for BDF on the first lattice without witness; length 3 everywhere else
            const int depth = (thorough && cfg.integ == CPODES0 && cfg.lat == lats[0] && cfg.wit == 0) ? 4 : 3;
            if (!(R.ended || R.dead)) {
                prefix.push_back(items[i].second);
                dfs(run, cfg, prefix, depth - 2, A, nHist, true);
            }
            run.count("cpodes_histories", nHist);
            flushCounters(run);
            if (i % 1201 == 0) run.sample("cpodes " + cfg.str() + " second=" + opStr(items[i].second) + " -> all continuations to length " + std::to_string(cpDepth));
        });
        if (thorough && want("cpodes-full3")) {
            // all histories of length 3 with an unrestricted first call
            run.parallel("cpodes-full3", (int64_t)items.size(), [&](int64_t i) {
        quietWorker(run);
                const Cfg& cfg = items[i].cfg;
                if (cfg.lat != lats[0] || cfg.integ != CPODES0 || cfg.wit != 0) return;     // BDF, first lattice, no witness
                std::vector<Op> prefix;
                const Op& o1 = items[i].second;
                if (o1.kind != 0) return;                                   // first call by stepTo
                if (o1.ri == 0 && o1.si == 0) return;                       // covered by section cpodes
                StepResult R = runHistory(run, cfg, prefix, o1, false, false);
                if (!R.enabled || R.ended || R.dead) return;
                prefix.push_back(o1);
                int64_t nHist = 0;
                dfs(run, cfg, prefix, 2, A, nHist, true);      // length-2 ones repeat section plain (not counted distinct), length-3 are new
                run.count("cpodes_full3_histories", nHist);
                flushCounters(run);
            });
        }
    }


    // ---- section systems: the SYSTEM dimension.  Systems 1..4, every integrator x option mask x witness variant; the first call is
    // checked to ignore its arguments (all first calls of the alphabet leave one visible state), then below stepTo(now,now): breadth-first
    // with merging of canonical hidden states (AbstractIntegratorRep family) / plain enumeration (CPodes) of all request sequences over
    // the systems alphabet to the stated depth; every history is driven to EndOfSimulation and judged by the same clauses as system 0.
    {
        // lattice indices: 0 now, 1 an early time, 3 the time the witness c2 follows by 3e-6, 5 the final time, 6 a time past the final time, 7 infinity
        // (stepTo only: Integrator::stepBy is a two-line wrapper that is exercised on system 0)
        // CPodes histories cannot be merged (3-4 ms each on the multibody systems): they keep the 16-operation alphabet in the thorough tier
        const std::vector<int> valsQuick = {0, 3, 5, 7}, valsThorough = {0, 1, 3, 5, 6, 7};
        std::vector<Op> AsAbs, AsCp;
        for (int ri : (thorough ? valsThorough : valsQuick)) for (int si : (thorough ? valsThorough : valsQuick)) { Op o; o.kind = 0; o.ri = ri; o.si = si; AsAbs.push_back(o); }
        for (int ri : valsQuick) for (int si : valsQuick) { Op o; o.kind = 0; o.ri = ri; o.si = si; AsCp.push_back(o); }
        const int sysDepth = thorough ? SYS_DEPTH_THOROUGH : SYS_DEPTH_QUICK;      // requests after the first call
        std::vector<Cfg> sc;
        for (int lat : lats) for (int sys = 1; sys < NSYS; ++sys) for (int integ = 0; integ < nInteg; ++integ) for (int mask = 0; mask < 32; ++mask) for (int wit = 0; wit < 5; ++wit) {
            if (!thorough && wit == 1) continue;
            if (sys == SysEvents && wit == 0) continue;          // the events system is the ode system plus its witness
            if (sys != SysEvents && wit > 2) continue;           // variants 3, 4 (crossing just before a lattice time / the final time): events system only
            if (!only.empty() && only != INTEG_NAMES[integ]) continue;
            if (onlySys >= 0 && sys != onlySys) continue;
            Cfg c; c.lat = lat; c.integ = integ; c.mask = mask; c.wit = wit; c.sys = sys;
            sc.push_back(c);
        }
        run.extraCoverage["systems_configurations"] = std::to_string(sc.size());
        run.extraCoverage["systems_alphabet_size"] = std::to_string(AsAbs.size());
        run.extraCoverage["systems_alphabet_size_cpodes"] = std::to_string(AsCp.size());
        run.extraCoverage["systems_depth_below_first_call"] = std::to_string(sysDepth);
        if (want("systems")) run.parallel("systems", (int64_t)sc.size(), [&](int64_t i) {
            quietWorker(run);
            const Cfg& cfg = sc[i];
            const std::vector<Op>& As = cfg.cpodes() ? AsCp : AsAbs;
            const std::string tag = std::string("systems_") + SYS_NAMES[cfg.sys];
            std::set<uint64_t> firstKeys; std::vector<Op> prefix; int64_t nHist = 0;
            for (auto& o : As) {
                const bool canonical = o.kind == 0 && o.ri == 0 && o.si == 0;
                StepResult R = runHistory(run, cfg, prefix, o, true, canonical);      // the tail only below the canonical first call
                if (!R.enabled) continue;
                nHist++; firstKeys.insert(R.key);
            }
            run.expect(firstKeys.size() == 1, std::string("assumption/first-call-ignores-arguments/") + INTEG_NAMES[cfg.integ] + cfg.keySuffix(),
                       [&] { return "the first stepTo/stepBy left " + std::to_string(firstKeys.size()) + " different visible states depending on its arguments; " + cfg.str(); },
                       [&] { return run.replayHeader(); });
            Op first; first.kind = 0; first.ri = 0; first.si = 0;
            prefix = {first};
            if (cfg.cpodes()) dfs(run, cfg, prefix, sysDepth, As, nHist, false);
            else {
                std::set<uint64_t> seen;
                std::vector<std::vector<Op>> frontier = {prefix}, next;
                for (int d = 1; d <= sysDepth && !frontier.empty(); ++d) {
                    next.clear();
                    for (auto& h : frontier) {
                        if (run.expired()) break;
                        for (auto& o : As) {
                            StepResult R = runHistory(run, cfg, h, o, true);
                            if (!R.enabled) continue;
                            nHist++;
                            if (seen.insert(R.key).second) {
                                run.state(verif::hashMix(verif::hashStr(cfg.str()), R.key));
                                if (!R.ended && !R.dead) { auto h2 = h; h2.push_back(o); next.push_back(h2); }
                            } else run.count(tag + "_merged");
                        }
                    }
                    frontier.swap(next);
                }
                run.count(tag + "_states", (int64_t)seen.size());
            }
            run.count(tag + "_histories", nHist);
            flushCounters(run);
            if (i % 211 == 0) run.sample("systems " + cfg.str() + " [" + cfg.optStr() + "] -> " + std::to_string(nHist) + " histories judged");
        });
    }

    // ---- section stepby-doc: Integrator.h documents stepBy's second argument as "the time of the next scheduled event"
    if (want("stepby-doc")) run.parallel("stepby-doc", (int64_t)(2 * lats.size()), [&](int64_t i) {
        quietWorker(run);
        Cfg cfg; cfg.lat = lats[i / 2]; cfg.integ = (i % 2) ? 8 : 3; cfg.mask = OptFinal; cfg.wit = 0;
        const Lattice& L = cfg.L();
        Exec X(run, cfg, true);
        X.call(0, 0, 0, false, " ");                       // StartOfContinuousInterval
        X.call(0, L.v[0], Infinity, false, " ");          // now at v0
        const double now = X.I->getTime(), tSched = L.v[1], tRep = L.v[2];
        Status st = X.I->stepBy(tRep - now, tSched);       // documented: report at now+interval, scheduled event AT tSched
        const double t = X.I->getTime();
        run.evaluationDistinct(true);
        char b[300]; snprintf(b, sizeof b, "at t=%.17g: stepBy(interval=%.17g, scheduledEventTime=%.17g) -> %s at t=%.17g", now, tRep - now, tSched, Integrator::getSuccessfulStepStatusString(st).c_str(), t);
        if (run.verbose) printf("%s\n", b);
        run.expect(t <= tSched, "stepBy/scheduled-argument-treated-as-interval",
                   [&] { return std::string(b) + ": Integrator.h documents the second argument of stepBy as the *time* of the next scheduled event, so the return must not lie after it; Integrator.cpp adds the current time to it"; },
                   [&] { return run.replayHeader() + std::string(b) + "\n"; });
    });

    return run.finish();
}
