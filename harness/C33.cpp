// VERIF_SOURCES: engine/vsched.cpp
// VERIF_LIBS: -ldl
// VERIF_TSAN_SOURCES: SimTKcommon/src/ParallelExecutor.cpp SimTKcommon/src/ParallelWorkQueue.cpp SimTKcommon/src/Parallel2DExecutor.cpp
//
// C33 -- Parallel executors run every task exactly once, safely.
// Engine E1: every interleaving (preemption bound 0..B) of the real
// ParallelExecutor / Parallel2DExecutor / ParallelWorkQueue code at its
// synchronisation points, oracle on every complete execution; plus the
// schedule-independent facts on the whole parameter grid (one schedule each,
// same oracle incl. vector clocks); plus a free-running ThreadSanitizer pass.
#include "SimTKcommon.h"
#include "verif.h"
#ifndef VERIF_FREE
#include "vsched.h"
#endif

#include <atomic>
#include <thread>

using namespace SimTK;

// ---------------------------------------------------------------- thread identity / yield shims
#ifdef VERIF_FREE
static std::atomic<int> g_nextTid{0};
static thread_local int tl_tid = -1;
static int myTid() { if (tl_tid < 0) tl_tid = g_nextTid++; return tl_tid; }
static void yieldPoint(const char*) { std::this_thread::yield(); }
static void obs(const std::string&) {}
static std::vector<uint32_t> myClock() { return {}; }
static void resetTids() { g_nextTid = 0; tl_tid = -1; myTid(); }
#else
static int myTid() { return sched::self(); }
static bool g_yields = true;
static void yieldPoint(const char* t) { if (g_yields) sched::yield(t); }
static void obs(const std::string& s) { sched::log(s); }
static std::vector<uint32_t> myClock() { return sched::clock(); }
#endif

// ---------------------------------------------------------------- scenario
struct Scn {
    std::string kind;   // PE, PEB, WQ, P2D
    int T = 2, n = 2, n2 = -1;   // PE: threads, tasks in first execute, tasks in second execute (-1: none)
    int Q = 1, k = 1, j = 0;     // WQ: queue size, tasks before flush, tasks after flush
    int g = 4, range = 0;        // P2D
    bool shared = false;         // P2D on an external ParallelExecutor
    int bound = 2; bool prune = false;   // exploration mode (not part of the scenario's identity)
    std::string str() const {
        std::ostringstream o;
        if (kind == "PE") o << "PE T=" << T << " n=" << n << " n2=" << n2;
        else if (kind == "PEB") o << "PEB T=" << T << " n=" << n;
        else if (kind == "WQ") o << "WQ Q=" << Q << " T=" << T << " k=" << k << " j=" << j;
        else o << "P2D g=" << g << " T=" << T << " range=" << range << " shared=" << shared;
        return o.str();
    }
};
static Scn parseScn(const std::string& s) {
    Scn c; std::istringstream is(s); is >> c.kind; std::string tok;
    while (is >> tok) {
        size_t e = tok.find('='); if (e == std::string::npos) continue;
        std::string k = tok.substr(0, e); int v = atoi(tok.substr(e + 1).c_str());
        if (k == "T") c.T = v; else if (k == "n") c.n = v; else if (k == "n2") c.n2 = v; else if (k == "Q") c.Q = v;
        else if (k == "k") c.k = v; else if (k == "j") c.j = v; else if (k == "g") c.g = v; else if (k == "range") c.range = v;
        else if (k == "shared") c.shared = v != 0;
    }
    return c;
}

// ---------------------------------------------------------------- observation record (reset per execution)
static const int MAXTH = 48;
struct Inv { int i, j, tid; std::vector<uint32_t> vs, ve; };
struct Obs {
    std::vector<std::string> errors;
    // PE epoch data
    std::vector<int> execCount;
    int init[MAXTH], fin[MAXTH], execBy[MAXTH];
    bool inFinish = false;
    int finishOverlap = 0;
    // WQ
    std::vector<int> qExec, qDel;
    bool queueGone = false;
    // P2D
    std::vector<Inv> inv;
    void err(const std::string& e) { if (errors.size() < 8) errors.push_back(e); }
    void newEpoch(int n) {
        execCount.assign(n, 0);
        for (int t = 0; t < MAXTH; ++t) init[t] = fin[t] = execBy[t] = 0;
        inFinish = false;
    }
};
static Obs O;

// ---------------------------------------------------------------- tasks
struct PETask : ParallelExecutor::Task {
    void initialize() override {
        int t = myTid();
        yieldPoint("init");
        if (O.execBy[t] != 0) O.err("initialize after an execute on thread " + std::to_string(t));
        O.init[t]++;
    }
    void execute(int i) override {
        int t = myTid();
        if (O.init[t] != 1) O.err("execute(" + std::to_string(i) + ") before initialize on thread " + std::to_string(t));
        if (O.fin[t] != 0) O.err("execute(" + std::to_string(i) + ") after finish on thread " + std::to_string(t));
        yieldPoint("exec");
        if (i < 0 || i >= (int)O.execCount.size()) O.err("index out of range " + std::to_string(i));
        else O.execCount[i]++;
        O.execBy[t]++;
        obs("e" + std::to_string(i));
    }
    void finish() override {
        int t = myTid();
        if (O.inFinish) { O.finishOverlap++; O.err("two finish() bodies overlap"); }
        O.inFinish = true;
        yieldPoint("fin");
        O.inFinish = false;
        if (O.init[t] != 1) O.err("finish without initialize on thread " + std::to_string(t));
        O.fin[t]++;
    }
};

static void checkPEEpoch(int T, int n, const char* which) {
    // called on the caller's thread right after execute() returned: everything must be complete
    for (int i = 0; i < n; ++i)
        if (O.execCount[i] != 1) O.err(std::string(which) + ": index " + std::to_string(i) + " executed " + std::to_string(O.execCount[i]) + " times at return of execute()");
    int nInit = 0, nFin = 0;
    for (int t = 0; t < MAXTH; ++t) {
        nInit += O.init[t]; nFin += O.fin[t];
        if (O.init[t] > 1 || O.fin[t] > 1) O.err(std::string(which) + ": initialize/finish called more than once on thread " + std::to_string(t));
        if (O.init[t] != O.fin[t]) O.err(std::string(which) + ": thread " + std::to_string(t) + " initialize=" + std::to_string(O.init[t]) + " finish=" + std::to_string(O.fin[t]) + " at return of execute()");
        if (O.execBy[t] > 0 && O.init[t] != 1) O.err(std::string(which) + ": thread executed without initialize");
    }
    int expectWorkers = T < 2 ? 1 : T;
    if (nInit != expectWorkers) O.err(std::string(which) + ": " + std::to_string(nInit) + " initialize calls, expected " + std::to_string(expectWorkers));
    if (nFin != expectWorkers) O.err(std::string(which) + ": " + std::to_string(nFin) + " finish calls at return, expected " + std::to_string(expectWorkers));
}

struct QTask : ParallelWorkQueue::Task {
    int id;
    explicit QTask(int id) : id(id) {}
    void execute() override {
        yieldPoint("qexec");
        O.qExec[id]++;
        obs("q" + std::to_string(id));
    }
    ~QTask() override {
        O.qDel[id]++;
        if (O.queueGone) O.err("task " + std::to_string(id) + " deleted after the queue destructor returned");
    }
};

struct GridTask : Parallel2DExecutor::Task {
    void execute(int i, int j) override {
        Inv v; v.i = i; v.j = j; v.tid = myTid(); v.vs = myClock();
        yieldPoint("cell");
        v.ve = myClock();
        O.inv.push_back(v);     // serialised: one thread runs at a time under the scheduler
    }
    void initialize() override { O.init[myTid()]++; }
    void finish() override {
        if (O.inFinish) { O.finishOverlap++; O.err("two 2D finish() bodies overlap"); }
        O.inFinish = true; yieldPoint("fin2d"); O.inFinish = false;
        O.fin[myTid()]++;
    }
};
#ifdef VERIF_FREE
// In free-running mode O.inv is shared: record into per-cell counters instead.
static std::vector<std::atomic<int>> g_cells(0);
struct GridTaskFree : Parallel2DExecutor::Task {
    int g; std::vector<int> rowTouch, colTouch;   // deliberately unsynchronised data indexed by i and j
    explicit GridTaskFree(int g) : g(g), rowTouch(g, 0), colTouch(g, 0) {}
    void execute(int i, int j) override { rowTouch[i]++; colTouch[j]++; if (i != j) { rowTouch[j]++; colTouch[i]++; } g_cells[i * g + j]++; }
};
#endif

static bool inRange(int range, int i, int j) {
    return range == 0 ? true : range == 1 ? i > j : i >= j;
}

// ---------------------------------------------------------------- one execution of a scenario
static void body(const Scn& c) {
    if (c.kind == "PE") {
        ParallelExecutor ex(c.T);
        PETask task;
        O.newEpoch(c.n);
        ex.execute(task, c.n);
        checkPEEpoch(c.T, c.n, "execute#1");
        if (c.n2 >= 0) {
            PETask task2;
            O.newEpoch(c.n2);
            ex.execute(task2, c.n2);
            checkPEEpoch(c.T, c.n2, "execute#2");
        }
    } else if (c.kind == "PEB") {
        // construct (+ optionally one execute) and destroy at once: the destructor's
        // finished=true can land at any point of the workers' loops.
        ParallelExecutor ex(c.T);
        if (c.n >= 0) {
            PETask task;
            O.newEpoch(c.n);
            ex.execute(task, c.n);
            checkPEEpoch(c.T, c.n, "execute");
        }
    } else if (c.kind == "WQ") {
        O.qExec.assign(c.k + c.j, 0); O.qDel.assign(c.k + c.j, 0); O.queueGone = false;
        {
            ParallelWorkQueue q(c.Q, c.T);
            for (int i = 0; i < c.k; ++i) q.addTask(new QTask(i));
            q.flush();
            for (int i = 0; i < c.k; ++i)
                if (O.qExec[i] != 1) O.err("flush returned but task " + std::to_string(i) + " executed " + std::to_string(O.qExec[i]) + " times");
            for (int i = 0; i < c.j; ++i) q.addTask(new QTask(c.k + i));
        }
        O.queueGone = true;
        for (int i = 0; i < c.k + c.j; ++i) {
            if (O.qExec[i] != 1) O.err("task " + std::to_string(i) + " executed " + std::to_string(O.qExec[i]) + " times after destruction");
            if (O.qDel[i] != 1) O.err("task " + std::to_string(i) + " deleted " + std::to_string(O.qDel[i]) + " times after destruction");
        }
    } else if (c.kind == "P2D") {
#ifndef VERIF_FREE
        O.inv.clear(); O.newEpoch(0);
        GridTask task;
        if (c.shared) {
            ParallelExecutor pe(c.T);
            Parallel2DExecutor ex(c.g, pe);
            ex.execute(task, (Parallel2DExecutor::RangeType)c.range);
        } else {
            Parallel2DExecutor ex(c.g, c.T);
            ex.execute(task, (Parallel2DExecutor::RangeType)c.range);
        }
        // exactly once per requested pair
        std::vector<int> cnt(c.g * c.g, 0);
        for (auto& v : O.inv) {
            if (v.i < 0 || v.j < 0 || v.i >= c.g || v.j >= c.g) { O.err("2D index out of range"); continue; }
            cnt[v.i * c.g + v.j]++;
        }
        for (int i = 0; i < c.g; ++i) for (int j = 0; j < c.g; ++j) {
            int want = inRange(c.range, i, j) ? 1 : 0;
            if (cnt[i * c.g + j] != want) O.err("pair (" + std::to_string(i) + "," + std::to_string(j) + ") executed " + std::to_string(cnt[i * c.g + j]) + " times, expected " + std::to_string(want));
        }
        // happens-before between invocations sharing an index (documented guarantee)
        auto hb = [](const Inv& a, const Inv& b) {   // end(a) happens-before start(b)
            if (a.tid == b.tid) return true;
            uint32_t av = a.tid < (int)a.ve.size() ? a.ve[a.tid] : 0;
            uint32_t bv = a.tid < (int)b.vs.size() ? b.vs[a.tid] : 0;
            return bv >= av;
        };
        for (size_t a = 0; a < O.inv.size(); ++a) for (size_t b = a + 1; b < O.inv.size(); ++b) {
            const Inv& x = O.inv[a]; const Inv& y = O.inv[b];
            if (x.tid == y.tid) continue;
            bool share = x.i == y.i || x.i == y.j || x.j == y.i || x.j == y.j;
            if (!share) continue;
            if (!hb(x, y) && !hb(y, x))
                O.err("invocations (" + std::to_string(x.i) + "," + std::to_string(x.j) + ")@T" + std::to_string(x.tid) + " and (" + std::to_string(y.i) + "," + std::to_string(y.j) + ")@T" + std::to_string(y.tid) + " share an index without a happens-before edge");
        }
        int nInit = 0, nFin = 0; for (int t = 0; t < MAXTH; ++t) { nInit += O.init[t]; nFin += O.fin[t]; if (O.init[t] != O.fin[t]) O.err("2D: initialize/finish mismatch on thread " + std::to_string(t)); }
        (void)nInit; (void)nFin;
#endif
    }
}

#ifdef VERIF_FREE
// ================================================================ free-running TSan pass
int main(int argc, char** argv) {
    int iters = argc > 1 ? atoi(argv[1]) : 200;
    long total = 0;
    for (int it = 0; it < iters; ++it) {
        printf("FREE-PROGRESS iteration %d\n", it); fflush(stdout);
        for (int T : {2, 3, 4}) {
            for (int n : {0, 1, 3, 7}) {
                resetTids(); O = Obs();
                Scn c; c.kind = "PE"; c.T = T; c.n = n; c.n2 = (it % 2) ? n + 1 : -1; body(c); total++;
                resetTids(); O = Obs();
                Scn b; b.kind = "PEB"; b.T = T; b.n = (it % 3 == 0) ? -1 : n; body(b); total++;
            }
            for (int Q : {1, 2}) for (int k : {0, 1, 3}) {
                resetTids(); O = Obs();
                Scn w; w.kind = "WQ"; w.T = T - 1; w.Q = Q; w.k = k; w.j = it % 2; body(w); total++;
            }
            for (int g : {4, 7, 16}) for (int r = 0; r < 3; ++r) {
                g_cells = std::vector<std::atomic<int>>(g * g);
                GridTaskFree task(g);
                Parallel2DExecutor ex(g, T);
                ex.execute(task, (Parallel2DExecutor::RangeType)r);
                for (int i = 0; i < g; ++i) for (int j = 0; j < g; ++j)
                    if (g_cells[i * g + j] != (inRange(r, i, j) ? 1 : 0)) { printf("FREE-ORACLE-FAIL 2D pair (%d,%d) g=%d T=%d r=%d\n", i, j, g, T, r); }
                total++;
            }
        }
        for (auto& e : O.errors) printf("FREE-ORACLE-FAIL %s\n", e.c_str());
    }
    printf("FREE-RUNS %ld\n", total);
    return 0;
}
#else
// ================================================================ scheduled exploration
static std::vector<Scn> scenarios(bool thorough) {
    // Each scenario carries its own exploration mode: bound = preemption bound; prune = state-hash pruning.
    // Plain (unpruned) enumeration is immune to a wrong state abstraction; pruned enumeration reaches
    // 3-worker scenarios and bound 3.  Both are reported.
    std::vector<Scn> v;
    auto add = [&](Scn c, int bound, bool prune) { c.bound = bound; c.prune = prune; v.push_back(c); };
    // heaviest first so that the 16 workers stay balanced
    if (thorough) {
        for (int n : {0, 1, 2}) { Scn c; c.kind = "PE"; c.T = 3; c.n = n; c.n2 = -1; add(c, 2, false); }
        for (int n : {0, 1}) { Scn c; c.kind = "PEB"; c.T = 3; c.n = n; add(c, 2, false); }
    }
    for (int g : {4, 5}) for (int r = 0; r < 3; ++r) {
        if (!thorough && g == 5 && r != 1) continue;
        Scn c; c.kind = "P2D"; c.g = g; c.T = 2; c.range = r; add(c, 2, false);
        if (thorough) add(c, 3, true);
    }
    for (int Q : {1, 2}) for (int T : {2, 1}) for (int k = 3; k >= 0; --k) for (int j : {1, 0}) {
        if (!thorough && T == 2 && k == 3) continue;
        Scn c; c.kind = "WQ"; c.Q = Q; c.T = T; c.k = k; c.j = j; add(c, 2, false);
        if (thorough) add(c, 3, true);
    }
    for (int T : {3, 2}) {
        for (int n : {T + 1, T, 2, 1, 0}) {
            if (n > 3) continue;
            Scn c; c.kind = "PE"; c.T = T; c.n = n; c.n2 = -1;
            Scn d = c; d.n2 = (n + 1) % 3;    // reuse of the same executor with a different count
            if (T == 2) { add(c, 2, false); add(d, 2, false); }
            else { add(c, 2, true); if (thorough || n == 1) add(d, 2, true); }
            if (thorough) { add(c, 3, true); add(d, 3, true); }
        }
        for (int n : {1, 0, -1}) {
            Scn c; c.kind = "PEB"; c.T = T; c.n = n;
            add(c, 2, T == 3);
            if (thorough) add(c, 3, true);
        }
    }
    { Scn c; c.kind = "PE"; c.T = 1; c.n = 3; c.n2 = 2; add(c, 2, false); }
    return v;
}

static std::vector<Scn> gridScenarios(bool thorough) {
    std::vector<Scn> v;
    std::vector<int> counts; for (int n = 0; n <= 40; ++n) counts.push_back(n);
    for (int n : {63, 64, 65, 1000}) counts.push_back(n);
    if (thorough) counts.push_back(10000);
    for (int T = 1; T <= 32; ++T) for (int n : counts) {
        if (!thorough && T > 8 && (n > 40 || n % 5)) continue;
        Scn c; c.kind = "PE"; c.T = T; c.n = n; c.n2 = (n % 2) ? (n + 3) % 7 : -1; v.push_back(c);
    }
    for (int g = 0; g <= 128; ++g) for (int T = 1; T <= 32; ++T) for (int r = 0; r < 3; ++r) {
        if (!thorough && !(g <= 12 || g % 16 == 0 || g % 16 == 1 || g == 127) ) continue;
        if (!thorough && !(T <= 5 || T == 8 || T == 16 || T == 31 || T == 32)) continue;
        Scn c; c.kind = "P2D"; c.g = g; c.T = T; c.range = r; v.push_back(c);
        if (g == 9 && T <= 4) { c.shared = true; v.push_back(c); }
    }
    for (int Q = 1; Q <= 64; ++Q) for (int T = 1; T <= 8; ++T) for (int k : {0, 1, 2, 5, 17, 64, 65, 200}) {
        if (!thorough && !(Q <= 3 || Q == 64) ) continue;
        if (!thorough && k > 65) continue;
        Scn c; c.kind = "WQ"; c.Q = Q; c.T = T; c.k = k; c.j = k % 3; v.push_back(c);
    }
    return v;
}

int main(int argc, char** argv) {
    verif::Run run("C33", argc, argv);
    run.setDeadline(240, 3000);
    run.pinWorkers = true;
    run.maxSamples = 400;
    const bool thorough = run.thorough();
    const int maxBound = thorough ? 3 : 2;
    run.rule = "E1: every interleaving with <= B preemptions of each scenario (real ParallelExecutor/Parallel2DExecutor/ParallelWorkQueue, scheduling points = every pthread call, the SimTK_VERIF_POINTs at unlocked loop-head reads, yields inside task bodies); a case = one complete schedule; distinct = distinct choice sequence; grid section = one default schedule per parameter tuple; non-trivial = at least 2 threads existed";
    run.assumptions = {"sequential consistency between scheduling points (unsynchronised accesses are the business of the separate TSan pass)",
                       "one producer thread per work queue (documented usage)",
                       "thread counts above 3 only on the default schedule",
                       "notify_one may wake any waiter; no spurious wake-ups"};
    auto scns = scenarios(thorough);
    auto grid = gridScenarios(thorough);
    std::map<std::string, std::string> perScenario;

    auto runScenario = [&](const Scn& c, int bound, bool prune, const std::string& section) {
        sched::Explorer E;
        E.maxBound = bound; E.hashPrune = prune;
        E.opt.horizon = 400000;
        E.reset = [&] { O = Obs(); };
        E.body = [&] { body(c); };
        E.stop = [&] { return run.expired(); };
        E.onFatal = [&](const sched::Trace& t) {
            std::string rp = run.replayHeader() + "scenario=" + c.str() + "\nchoices=" + sched::choicesToString(t.choices()) + "\n";
            if (t.outcome == "diverged") { run.harnessError("schedule replay diverged: " + t.detail + " in " + c.str()); }
            else run.violation(t.outcome + "/" + c.kind, t.outcome + " in scenario [" + c.str() + "]: " + t.detail, rp);
            run.flushAndExitWorker();
        };
        E.onExecution = [&](const sched::Trace& t, int used) {
            run.evaluationDistinct(t.threads >= 2);   // DFS never repeats a choice sequence
            run.transition((int64_t)t.steps);
            uint64_t oh = verif::hashStr(c.kind); for (auto& l : t.log) oh = verif::hashStr(l, oh);
            run.outcome(oh);
            run.count("executions_with_" + std::to_string(used) + "_preemptions");
            if (t.outcome != "ok") O.err("execution outcome " + t.outcome + ": " + t.detail);
            if (!O.errors.empty()) {
                std::string rp = run.replayHeader() + "scenario=" + c.str() + "\nchoices=" + sched::choicesToString(t.choices()) + "\n";
                run.violation("oracle/" + c.kind, "[" + c.str() + "] preemptions=" + std::to_string(used) + ": " + O.errors[0], rp);
            }
        };
        auto R = E.explore();
        run.count("choice_points", R.points);
        run.count("pruned_by_state_hash", R.pruned);
        run.count("scenario_states:" + section, R.distinctStates);
        if (!R.complete) run.acc.expired = true;
        run.sample(c.str() + " -> executions=" + std::to_string(R.executions) + " bound=" + std::to_string(bound) + (prune ? " state-hash-pruned" : " plain") + " pruned_tails=" + std::to_string(R.pruned) + " complete=" + std::to_string(R.complete) + " max_steps=" + std::to_string(R.maxSteps) + " threads=" + std::to_string(R.maxThreads) + " distinct_states=" + std::to_string(R.distinctStates));
        return R;
    };

    if (run.replaying()) {
        // single schedule, verbose
        Scn c = parseScn(run.replayField("scenario"));
        auto choices = sched::choicesFromString(run.replayField("choices"));
        g_yields = run.replayField("section") != "grid";
        sched::Explorer E; E.opt.horizon = 400000;
        E.reset = [&] { O = Obs(); };
        E.body = [&] { body(c); };
        E.onFatal = [&](const sched::Trace& t) { printf("replay outcome: %s (%s)\n", t.outcome.c_str(), t.detail.c_str()); printf("VIOLATION property=C33 replay=%s\n", run.replayPath.c_str()); _exit(1); };
        sched::Trace t1 = E.replay(choices); auto e1 = O.errors;
        sched::Trace t2 = E.replay(choices); auto e2 = O.errors;
        printf("scenario: %s\nchoices: %s\noutcome: %s steps=%lld threads=%d\n", c.str().c_str(), sched::choicesToString(t1.choices()).c_str(), t1.outcome.c_str(), (long long)t1.steps, t1.threads);
        for (auto& l : t1.log) printf("  obs %s\n", l.c_str());
        for (auto& e : e1) printf("  ORACLE: %s\n", e.c_str());
        if (t1.log != t2.log || e1 != e2) { printf("replay is not deterministic\n"); return 2; }
        if (!e1.empty()) { printf("VIOLATION property=C33 replay=%s\n", run.replayPath.c_str()); return 1; }
        return 0;
    }

    // ---- section 1: interleavings of the small scenarios
    run.parallel("sched", (int64_t)scns.size(), [&](int64_t i) {
        g_yields = true;
        runScenario(scns[i], scns[i].bound, scns[i].prune, "sched");
    });
    // ---- section 2: schedule-independent facts on the parameter grid (default schedule, no task yields)
    run.parallel("grid", (int64_t)grid.size(), [&](int64_t i) {
        g_yields = false;
        runScenario(grid[i], -1, false, "grid");
    });

    // ---- section 3: race pass (free-running, ThreadSanitizer) -- a monitor, reported separately
    {
        // same (relative) spelling of the build directory as bin/check and bin/setup.sh, so the depfile targets match
        std::string bdir = run.buildDir.rfind(run.verifDir + "/", 0) == 0 ? run.buildDir.substr(run.verifDir.size() + 1) : run.buildDir;
        std::string mk = "make -s -C " + run.verifDir + " -f harness/Makefile REPO=" + run.repoDir + " B=" + bdir + " " + bdir + "/bin/C33_tsan 2>&1";
        FILE* p = popen(mk.c_str(), "r"); std::string out; char buf[4096];
        while (p && fgets(buf, sizeof buf, p)) out += buf;
        int rc = p ? pclose(p) : -1;
        if (rc != 0) { run.harnessError("building the TSan race-pass harness failed: " + out.substr(0, 2000)); }
        else {
            int iters = thorough ? 300 : 40;
            // no wall-clock limit: the pass prints a progress line per iteration and is killed only after 900 s of silence (see verif::runWatched)
            std::string cmd = "TSAN_OPTIONS='halt_on_error=0 report_signal_unsafe=0 history_size=4' " + run.buildDir + "/bin/C33_tsan " + std::to_string(iters) + " 2>&1";
            std::string rep; bool hung = false;
            rc = verif::runWatched(cmd, 900, rep, hung);
            int reports = 0, freeFails = 0; long freeRuns = 0;
            std::set<std::string> sites;
            std::istringstream is(rep); std::string l; bool inRep = false; int frame = 0;
            while (std::getline(is, l)) {
                if (l.find("WARNING: ThreadSanitizer") != std::string::npos) { reports++; inRep = true; frame = 0; continue; }
                if (inRep && l.find("#0 ") != std::string::npos && frame < 2) { size_t s = l.find("#0 "); sites.insert(l.substr(s + 3, 160)); frame++; }
                if (l.rfind("FREE-ORACLE-FAIL", 0) == 0) freeFails++;
                if (l.rfind("FREE-RUNS", 0) == 0) freeRuns = atol(l.substr(9).c_str());
            }
            run.extraCoverage["race_pass"] = "{\"runs\": " + std::to_string(freeRuns) + ", \"tsan_reports\": " + std::to_string(reports) + ", \"oracle_failures\": " + std::to_string(freeFails) + "}";
            if (freeRuns == 0 && rc != 0 && rep.find("WARNING: ThreadSanitizer") == std::string::npos && rep.find("FREE-ORACLE-FAIL") == std::string::npos)
                run.violation("free-run-hang-or-crash", std::string(hung ? "the free-running pass printed no progress for 900 s: a hang here is a deadlock or lost wake-up on the real, unscheduled code" : "the free-running pass crashed") + " (wait status " + std::to_string(rc) + ")", "section=race\ncommand=" + cmd + "\n" + rep.substr(0, 2000));
            else if (freeRuns == 0) run.harnessError("TSan race pass produced no runs: " + rep.substr(0, 1500));
            if (reports > 0) {
                std::string where; for (auto& s : sites) where += s + " | ";
                // key by the anchored file so a different race is still reported
                std::string key = "race/other";
                if (where.find("ParallelExecutor.cpp") != std::string::npos || where.find("ParallelExecutorImpl") != std::string::npos) key = "race/ParallelExecutor";
                else if (where.find("ParallelWorkQueue") != std::string::npos) key = "race/ParallelWorkQueue";
                else if (where.find("Parallel2DExecutor") != std::string::npos) key = "race/Parallel2DExecutor";
                std::string rp = "section=race\ncommand=" + cmd + "\n" + rep.substr(0, 6000);
                run.violation(key, "ThreadSanitizer reported " + std::to_string(reports) + " data race(s) in the free-running pass: " + where.substr(0, 400), rp);
            }
            if (freeFails > 0) run.violation("race-pass-oracle", "free-running pass: exactly-once oracle failed", "section=race\n" + rep.substr(0, 4000));
        }
    }
    run.statesOverride = run.acc.counters["scenario_states:sched"] + run.acc.counters["scenario_states:grid"];
    run.extraCoverage["preemption_bound_completed"] = std::to_string(run.acc.expired ? -1 : maxBound);
    run.extraCoverage["scenarios"] = std::to_string(scns.size());
    run.extraCoverage["grid_configs"] = std::to_string(grid.size());
    auto& st = sched::stats(); (void)st;
    return run.finish();
}
#endif
