// VERIF_NOLIBS
// VERIF_FLAGS: -fsanitize=address -fno-omit-frame-pointer
//
// C26 -- Array_ and pointer wrappers have value semantics.
// Engine E2 (hist): every operation history up to a depth over a finite operation
// alphabet is replayed on fresh real objects (header-only library code compiled
// in Debug mode with AddressSanitizer) next to a boring reference model
// (std::vector<int> / "who shares what" partition).  Element types carry a
// constructor/destructor ledger keyed by address; every heap block is registered.
// Two modes: plain depth-d enumeration (no merging) and BFS with merging of
// canonical (value-free) states up to a size bound.
#include "SimTKcommon/internal/common.h"
#include "SimTKcommon/internal/Array.h"
#include "SimTKcommon/internal/ClonePtr.h"
#include "SimTKcommon/internal/CloneOnWritePtr.h"
#include "SimTKcommon/internal/ReferencePtr.h"
#include "SimTKcommon/internal/ResetOnCopy.h"
#include "SimTKcommon/internal/ReinitOnCopy.h"
#include "verif.h"

#include <cstdarg>
#include <list>
#include <new>

// ================================================================ first failure of the current history
struct Fail {
    bool set = false; char key[128]; char what[700];
    void clear() { set = false; key[0] = 0; what[0] = 0; }
};
static Fail g_fail;
static void failf(const char* key, const char* fmt, ...) __attribute__((format(printf, 2, 3)));
static void failf(const char* key, const char* fmt, ...) {
    if (g_fail.set) return;
    g_fail.set = true;
    snprintf(g_fail.key, sizeof g_fail.key, "%s", key);
    va_list ap; va_start(ap, fmt); vsnprintf(g_fail.what, sizeof g_fail.what, fmt, ap); va_end(ap);
}

// ================================================================ address registry (no dynamic allocation)
// Open addressing, linear probing, backward-shift deletion: an emptied table is really empty.
template <int LOG2N> struct AddrSet {
    static const unsigned N = 1u << LOG2N;
    const void* key[N];
    unsigned nLive;
    static unsigned h(const void* p) { uint64_t x = (uint64_t)(uintptr_t)p; x ^= x >> 15; x *= 0x9E3779B97F4A7C15ull; return (unsigned)(x >> 32) & (N - 1); }
    int find(const void* p) const { unsigned i = h(p); while (key[i]) { if (key[i] == p) return (int)i; i = (i + 1) & (N - 1); } return -1; }
    bool has(const void* p) const { return find(p) >= 0; }
    bool insert(const void* p) {   // false if already present
        unsigned i = h(p); while (key[i]) { if (key[i] == p) return false; i = (i + 1) & (N - 1); }
        key[i] = p; ++nLive; return true;
    }
    bool erase(const void* p) {    // false if absent
        int f = find(p); if (f < 0) return false;
        unsigned i = (unsigned)f, j = i;
        for (;;) {
            j = (j + 1) & (N - 1);
            if (!key[j]) break;
            unsigned k = h(key[j]);
            bool between = (i <= j) ? (i < k && k <= j) : (i < k || k <= j);
            if (!between) { key[i] = key[j]; i = j; }
        }
        key[i] = nullptr; --nLive; return true;
    }
    void clear() { memset(key, 0, sizeof key); nLive = 0; }
};

// ---------------------------------------------------------------- heap blocks (operator new / new[] replaced)
static AddrSet<15> g_heap;        // live blocks obtained from operator new / new[] while a history is being replayed
static bool g_trackHeap = false;   // set while a history is replayed: only then are blocks registered and frees checked
static long g_liveArr = 0;         // live blocks from new[]  (Array_ buffers: the harness itself never uses new[] except adoptData buffers)
static long g_liveScalar = 0;      // live blocks from new
static bool g_heapOverflow = false;
static void* heapAlloc(std::size_t n, bool arr) {
    void* p = malloc(n ? n : 1);
    if (!p) throw std::bad_alloc();
    if (g_trackHeap) { if (g_heap.nLive > AddrSet<15>::N / 2) g_heapOverflow = true; else g_heap.insert(p); }
    if (arr) ++g_liveArr; else ++g_liveScalar;
    return p;
}
static void heapFree(void* p, bool arr) {
    if (!p) return;
    if (!g_heap.erase(p) && g_trackHeap && !g_heapOverflow) {
        // freeing a block that is not live: a double free (or a free of a foreign pointer) by the code under test
        failf("heap/double-free", "operator delete%s called on %s block", arr ? "[]" : "", "a non-live");
        return;   // do not hand it to free(): keep the process alive so that the history is reported precisely
    }
    if (arr) --g_liveArr; else --g_liveScalar;
    free(p);
}
void* operator new(std::size_t n) { return heapAlloc(n, false); }
void* operator new[](std::size_t n) { return heapAlloc(n, true); }
void* operator new(std::size_t n, const std::nothrow_t&) noexcept { try { return heapAlloc(n, false); } catch (...) { return nullptr; } }
void* operator new[](std::size_t n, const std::nothrow_t&) noexcept { try { return heapAlloc(n, true); } catch (...) { return nullptr; } }
void operator delete(void* p) noexcept { heapFree(p, false); }
void operator delete[](void* p) noexcept { heapFree(p, true); }
void operator delete(void* p, std::size_t) noexcept { heapFree(p, false); }
void operator delete[](void* p, std::size_t) noexcept { heapFree(p, true); }
void operator delete(void* p, const std::nothrow_t&) noexcept { heapFree(p, false); }
void operator delete[](void* p, const std::nothrow_t&) noexcept { heapFree(p, true); }

// ---------------------------------------------------------------- constructor / destructor ledger
struct Counts {
    long def = 0, val = 0, copy = 0, move = 0, cas = 0, mas = 0, dtor = 0;
    Counts operator-(const Counts& o) const { Counts r; r.def = def - o.def; r.val = val - o.val; r.copy = copy - o.copy; r.move = move - o.move; r.cas = cas - o.cas; r.mas = mas - o.mas; r.dtor = dtor - o.dtor; return r; }
    bool operator==(const Counts& o) const { return def == o.def && val == o.val && copy == o.copy && move == o.move && cas == o.cas && mas == o.mas && dtor == o.dtor; }
    std::string str() const { char b[160]; snprintf(b, sizeof b, "default=%ld value=%ld copy=%ld move=%ld copyassign=%ld moveassign=%ld dtor=%ld", def, val, copy, move, cas, mas, dtor); return b; }
};
struct Ledger {
    AddrSet<13> live;     // addresses of currently constructed ledgered objects
    Counts c;
    char firstKind[48];   // kind of the first ledger error in this history ("" if none)
    void reset() { if (live.nLive) live.clear(); c = Counts(); firstKind[0] = 0; }
    void err(const char* kind, const void* p) {
        if (!firstKind[0]) snprintf(firstKind, sizeof firstKind, "%s", kind);
        (void)p;
    }
    void born(const void* p) { if (live.nLive > 3000) { err("ledger-overflow", p); return; } if (!live.insert(p)) err("constructed-over-live-object", p); }
    void died(const void* p) { if (!live.erase(p)) err("destroyed-non-live-object", p); ++c.dtor; }
    bool isLive(const void* p) const { return live.has(p); }
};
static Ledger L;
static const int POISON = -424242, MOVED = -777;

// Element with identity: every construction / destruction is entered in the ledger; a source
// object is checked to be alive *before* it is read (so the harness itself never touches freed memory).
struct Counted {
    int v;
    Counted() : v(0) { L.born(this); ++L.c.def; }
    Counted(int x) : v(x) { L.born(this); ++L.c.val; }
    Counted(const Counted& s) { bool self = &s == this; L.born(this); ++L.c.copy; if (!self && L.isLive(&s)) v = s.v; else { L.err("copy-from-destroyed-object", &s); v = POISON; } }
    Counted(Counted&& s) noexcept { bool self = &s == this; L.born(this); ++L.c.move; if (!self && L.isLive(&s)) { v = s.v; s.v = MOVED; } else { L.err("move-from-destroyed-object", &s); v = POISON; } }
    Counted& operator=(const Counted& s) {
        ++L.c.cas;
        if (!L.isLive(this)) { L.err("assign-to-non-constructed-slot", this); return *this; }
        if (!L.isLive(&s)) { L.err("assign-from-destroyed-object", &s); v = POISON; return *this; }
        v = s.v; return *this;
    }
    Counted& operator=(Counted&& s) noexcept {
        ++L.c.mas;
        if (!L.isLive(this)) { L.err("assign-to-non-constructed-slot", this); return *this; }
        if (!L.isLive(&s)) { L.err("assign-from-destroyed-object", &s); v = POISON; return *this; }
        if (&s != this) { v = s.v; s.v = MOVED; }
        return *this;
    }
    ~Counted() { L.died(this); }
    bool operator==(const Counted& o) const { return v == o.v; }
    bool operator<(const Counted& o) const { return v < o.v; }
};
struct MoveOnly {
    int v;
    MoveOnly() : v(0) { L.born(this); ++L.c.def; }
    MoveOnly(int x) : v(x) { L.born(this); ++L.c.val; }
    MoveOnly(const MoveOnly&) = delete;
    MoveOnly& operator=(const MoveOnly&) = delete;
    MoveOnly(MoveOnly&& s) noexcept { L.born(this); ++L.c.move; if (L.isLive(&s)) { v = s.v; s.v = MOVED; } else { L.err("move-from-destroyed-object", &s); v = POISON; } }
    MoveOnly& operator=(MoveOnly&& s) noexcept {
        ++L.c.mas;
        if (!L.isLive(this)) { L.err("assign-to-non-constructed-slot", this); return *this; }
        if (!L.isLive(&s)) { L.err("assign-from-destroyed-object", &s); v = POISON; return *this; }
        if (&s != this) { v = s.v; s.v = MOVED; }
        return *this;
    }
    ~MoveOnly() { L.died(this); }
    bool operator==(const MoveOnly& o) const { return v == o.v; }
    bool operator<(const MoveOnly& o) const { return v < o.v; }
};
template <class T> struct Elt;
template <> struct Elt<int> {
    static const bool ledgered = false, copyable = true; static const char* name() { return "int"; }
    static int val(const int* p) { return *p; }
};
template <> struct Elt<Counted> {
    static const bool ledgered = true, copyable = true; static const char* name() { return "Counted"; }
    static int val(const Counted* p) { if (!L.isLive(p)) { L.err("container-exposes-non-constructed-slot", p); return POISON; } return p->v; }
};
template <> struct Elt<MoveOnly> {
    static const bool ledgered = true, copyable = false; static const char* name() { return "MoveOnly"; }
    static int val(const MoveOnly* p) { if (!L.isLive(p)) { L.err("container-exposes-non-constructed-slot", p); return POISON; } return p->v; }
};
template <class X> struct IdxName;
template <> struct IdxName<unsigned> { static const char* name() { return "unsigned"; } };
template <> struct IdxName<int> { static const char* name() { return "int"; } };
template <> struct IdxName<unsigned char> { static const char* name() { return "uchar"; } };

// an input iterator (single pass category) over ints
struct IntInputIt {
    typedef std::input_iterator_tag iterator_category; typedef int value_type; typedef std::ptrdiff_t difference_type;
    typedef const int* pointer; typedef int reference;
    const int* p;
    explicit IntInputIt(const int* q) : p(q) {}
    int operator*() const { return *p; }
    IntInputIt& operator++() { ++p; return *this; }
    IntInputIt operator++(int) { IntInputIt t = *this; ++p; return t; }
    bool operator==(const IntInputIt& o) const { return p == o.p; }
    bool operator!=(const IntInputIt& o) const { return p != o.p; }
};

// ASan: small quarantine (the default 256 MB per worker makes every allocation touch fresh pages), no per-allocation stack traces
extern "C" const char* __asan_default_options() { return "quarantine_size_mb=2:detect_leaks=0:malloc_context_size=0:allocator_may_return_null=1"; }

#define CHECK(cond, key, ...) do { if (!(cond)) failf(key, __VA_ARGS__); } while (0)

// ================================================================ Array_ world
namespace arr {
enum Op {
    PUSH_COPY, PUSH_MOVE, EMPLACE_BACK, PUSH_DEFAULT, RAW_PUSH, POP,
    INS1_B, INS1_M, INS1_E, INSN_B, INSN_M, INSN_E, INSP_B, INSP_M, INSP_E,
    INSI_M, INSF_M, INSIN_M, INSV_B, INS0_M, EMPL_B, EMPL_M, EMPL_E,
    ER1_B, ER1_M, ER1_L, ERR_02, ERR_1E, ERR_MID, ERR_ALL, ERR_EMPTY, ERF_B, ERF_M, ERF_L,
    RS_UP2, RS_DN1, RS_0, RS_SAME, RSV_UP3, RSRV_1, RSRV_SZ, RSRV_2X, SHRINK,
    ASG_N0, ASG_N2, ASG_N9, ASG_NSAME, ASG_P, ASG_F, ASG_IN, ASG_I, ASG_CONV, FILL,
    SWAP, STDSWAP, CPA_AB, CPA_BA, MVA_AB, MVA_BA, MVCTOR, CPCTOR, SELF_CPA, SELF_MVA, SELF_SWAP,
    CLEAR, DEALLOC, V_FILL, V_ASG_B, V_ASG_VEC, V_VIEW2, ELT_W, ADOPT, SHARE, SHARE_SUB,
    FROM_VEC, CT_N, CT_NV, CT_IL, CT_CONV,
    AL_PUSH_F, AL_PUSH_L, AL_INS1_B_L, AL_INSN_B_L, AL_INS1_E_F, AL_RSV_F, AL_EMPLB_F, AL_EMPL_B_L,
    AT_OOB, NOPS
};
enum Flag { F_COPY = 1, F_ALIAS = 2, F_CORE = 4, F_CORE2 = 8, F_NONOWNER_OK = 16, F_EDGE = 32 };
struct OpInfo { const char* name; const char* cls; int flags; };
static const OpInfo INFO[NOPS] = {
    {"push_back(const&)", "push_back", F_COPY | F_CORE | F_CORE2 | F_EDGE}, {"push_back(&&)", "push_back", F_CORE | F_EDGE}, {"emplace_back(int)", "emplace_back", F_CORE}, {"push_back()", "push_back", 0}, {"raw_push_back", "raw_push_back", 0}, {"pop_back", "pop_back", F_CORE | F_CORE2 | F_EDGE},
    {"insert(begin,v)", "insert", F_COPY | F_CORE | F_CORE2 | F_EDGE}, {"insert(mid,v)", "insert", F_COPY | F_CORE | F_CORE2}, {"insert(end,v)", "insert", F_COPY | F_CORE},
    {"insert(begin,2,v)", "insertN", F_COPY | F_CORE | F_EDGE}, {"insert(mid,2,v)", "insertN", F_COPY | F_CORE | F_CORE2}, {"insert(end,2,v)", "insertN", F_COPY},
    {"insert(begin,B.begin,B.end)", "insertRange", F_COPY}, {"insert(mid,B.begin,B.end)", "insertRange", F_COPY | F_CORE}, {"insert(end,B.begin,B.end)", "insertRange", F_COPY},
    {"insert(mid,int*,int*+3)", "insertRange", F_CORE | F_EDGE}, {"insert(mid,list.begin,list.end)", "insertRangeFwd", 0}, {"insert(mid,inputIt,inputIt+2)", "insertRangeInput", F_COPY}, {"insert(begin,vec.begin,vec.end)", "insertRange", F_COPY}, {"insert(mid,null,null)", "insertRange", 0},
    {"emplace(begin,int)", "emplace", 0}, {"emplace(mid,int)", "emplace", F_CORE}, {"emplace(end,int)", "emplace", 0},
    {"erase(begin)", "erase", F_CORE | F_CORE2 | F_EDGE}, {"erase(mid)", "erase", F_CORE | F_CORE2}, {"erase(last)", "erase", 0},
    {"erase(0,2)", "eraseRange", F_CORE | F_CORE2 | F_EDGE}, {"erase(1,end)", "eraseRange", F_CORE}, {"erase(1,size-1)", "eraseRange", 0}, {"erase(begin,end)", "eraseRange", 0}, {"erase(mid,mid)", "eraseRange", 0},
    {"eraseFast(begin)", "eraseFast", F_CORE}, {"eraseFast(mid)", "eraseFast", 0}, {"eraseFast(last)", "eraseFast", 0},
    {"resize(size+2)", "resize", F_CORE | F_CORE2 | F_EDGE}, {"resize(size-1)", "resize", F_CORE}, {"resize(0)", "resize", 0}, {"resize(size)", "resize", F_NONOWNER_OK}, {"resize(size+3,v)", "resizeV", F_COPY | F_CORE | F_EDGE},
    {"reserve(cap+1)", "reserve", F_CORE | F_CORE2 | F_EDGE}, {"reserve(size)", "reserve", F_NONOWNER_OK}, {"reserve(2cap+1)", "reserve", 0}, {"shrink_to_fit", "shrink_to_fit", F_CORE | F_CORE2 | F_NONOWNER_OK | F_EDGE},
    {"assign(0,v)", "assignN", F_COPY}, {"assign(2,v)", "assignN", F_COPY | F_CORE}, {"assign(9,v)", "assignN", F_COPY}, {"assign(size,v)", "assignN", F_COPY | F_NONOWNER_OK}, {"assign(B.begin,B.end)", "assignRange", F_COPY | F_CORE | F_NONOWNER_OK},
    {"assign(list.begin,list.end)", "assignRangeFwd", 0}, {"assign(inputIt,inputIt+3)", "assignRangeInput", 0}, {"assign(int*,int*+2)", "assignRange", 0}, {"A=Array_<short,long long>", "assignConv", 0}, {"fill(v)", "fill", F_COPY | F_NONOWNER_OK},
    {"A.swap(B)", "swap", F_CORE | F_CORE2 | F_NONOWNER_OK | F_EDGE}, {"std::swap(A,B)", "swap", F_NONOWNER_OK}, {"A=B", "copyAssign", F_COPY | F_CORE | F_CORE2 | F_NONOWNER_OK}, {"B=A", "copyAssign", F_COPY | F_CORE | F_NONOWNER_OK | F_EDGE},
    {"A=move(B)", "moveAssign", F_CORE | F_NONOWNER_OK}, {"B=move(A)", "moveAssign", F_NONOWNER_OK}, {"C(move(A));A.swap(C)", "moveCtor", F_NONOWNER_OK}, {"C(A)", "copyCtor", F_COPY | F_CORE | F_NONOWNER_OK | F_EDGE},
    {"A=A", "selfAssign", F_COPY | F_NONOWNER_OK}, {"A=move(A)", "selfMove", F_NONOWNER_OK}, {"A.swap(A)", "selfSwap", F_NONOWNER_OK},
    {"clear", "clear", F_CORE | F_CORE2}, {"deallocate", "deallocate", F_NONOWNER_OK},
    {"A(1,2)=v", "viewFill", F_COPY | F_CORE | F_NONOWNER_OK}, {"A(0,k)=B(0,k)", "viewAssign", F_COPY | F_NONOWNER_OK}, {"A(0,2)=vector<int>", "viewAssign", F_NONOWNER_OK}, {"A(1,3)(1,2).fill(v)", "viewFill", F_COPY | F_NONOWNER_OK}, {"A[mid]=v", "elementWrite", F_NONOWNER_OK | F_CORE},
    {"adoptData(buf,2,5)", "adoptData", 0}, {"shareData(ext,3)", "shareData", F_CORE}, {"shareData(ext+1,ext+3)", "shareData", 0},
    {"A=std::vector", "assignVector", F_COPY}, {"A=Array_(3)", "ctorN", 0}, {"A=Array_(2,v)", "ctorNV", F_COPY}, {"A=Array_{x,y}", "ctorIL", F_COPY}, {"A=Array_(Array_<short,long long>)", "ctorConv", 0},
    {"push_back(A.front())", "push_back", F_COPY | F_ALIAS}, {"push_back(A.back())", "push_back", F_COPY | F_ALIAS}, {"insert(begin,A.back())", "insert", F_COPY | F_ALIAS}, {"insert(begin,2,A.back())", "insertN", F_COPY | F_ALIAS},
    {"insert(end,A.front())", "insert", F_COPY | F_ALIAS}, {"resize(size+2,A.front())", "resizeV", F_COPY | F_ALIAS}, {"emplace_back(A.front())", "emplace_back", F_COPY | F_ALIAS}, {"emplace(begin,A.back())", "emplace", F_COPY | F_ALIAS},
    {"at(size)", "at", F_NONOWNER_OK},
};
struct Config {
    int tkind = 0;      // 0 Counted, 1 int, 2 MoveOnly
    int xkind = 0;      // 0 unsigned, 1 int, 2 unsigned char
    int seed = 0;
    int alpha = 0;      // 0 full, 1 core, 2 core2, 3 edge
    int depth = 3;
    int smax = 12, cmax = 26;
    bool alias = true;
    std::string str() const {
        const char* tn[] = {"Counted", "int", "MoveOnly"}; const char* xn[] = {"unsigned", "int", "uchar"};
        return std::string("T=") + tn[tkind] + " X=" + xn[xkind] + " seed=" + std::to_string(seed) + " alpha=" + std::to_string(alpha) + " smax=" + std::to_string(smax) + " cmax=" + std::to_string(cmax) + " alias=" + std::to_string((int)alias);
    }
    static Config parse(const std::string& s) {
        Config c; std::istringstream is(s); std::string t;
        while (is >> t) {
            size_t e = t.find('='); if (e == std::string::npos) continue; std::string k = t.substr(0, e), v = t.substr(e + 1);
            if (k == "T") c.tkind = v == "Counted" ? 0 : v == "int" ? 1 : 2;
            else if (k == "X") c.xkind = v == "unsigned" ? 0 : v == "int" ? 1 : 2;
            else if (k == "seed") c.seed = atoi(v.c_str()); else if (k == "alpha") c.alpha = atoi(v.c_str());
            else if (k == "smax") c.smax = atoi(v.c_str()); else if (k == "cmax") c.cmax = atoi(v.c_str()); else if (k == "alias") c.alias = atoi(v.c_str()) != 0;
        }
        return c;
    }
    bool inAlphabet(int op) const {
        int f = INFO[op].flags;
        if ((f & F_ALIAS) && (!alias || tkind != 0)) return false;
        if ((f & F_COPY) && tkind == 2) return false;
        if (alpha == 1) return (f & (F_CORE | F_ALIAS)) != 0;
        if (alpha == 2) return (f & F_CORE2) != 0;
        if (alpha == 3) return (f & (F_EDGE | F_ALIAS)) != 0;
        return true;
    }
};
struct Model { bool owner = true; std::vector<int> v; int off = 0, len = 0; };

template <class T, class X> struct World {
    typedef SimTK::Array_<T, X> Arr;
    typedef typename Arr::size_type S;
    typedef Elt<T> E;
    typedef Config Cfg;
    static int nOps() { return NOPS; }
    static const char* opName(int op) { return INFO[op].name; }
    static const char* opClass(int op) { return INFO[op].cls; }
    static int maxSize() { unsigned long long m = (unsigned long long)SimTK::ArrayIndexTraits<X>::max_size(); return m > 100000000ull ? 100000000 : (int)m; }

    Config cfg;
    Arr A, B;
    std::vector<T> ext;
    Model mA, mB; std::vector<int> mExt;
    int next = 1;
    long baseArr;
    long nRefused = 0;

    explicit World(const Config& c) : cfg(c) {
        baseArr = g_liveArr;
        ext.reserve(3); for (int i = 0; i < 3; ++i) { ext.emplace_back(801 + i); mExt.push_back(801 + i); }
        { int b[2] = {901, 902}; B = Arr((const int*)b, (const int*)b + 2); mB.v = {901, 902}; }
        seed(c.seed);
    }
    void seedFromInts(int n) { std::vector<int> s(n); for (int i = 0; i < n; ++i) s[i] = 1001 + i; A = Arr((const int*)s.data(), (const int*)s.data() + n); mA.v = s; }
    void seedPush(int n) { for (int i = 0; i < n; ++i) { A.emplace_back(1001 + i); mA.v.push_back(1001 + i); } }
    void seedPop(int n) { for (int i = 0; i < n; ++i) { A.pop_back(); mA.v.pop_back(); } }
    void seed(int s) {
        switch (s) {
            case 0: break;
            case 1: seedFromInts(3); break;
            case 2: seedPush(4); break;
            case 3: seedPush(5); break;
            case 4: seedPush(8); break;
            case 5: seedPush(16); break;
            case 6: A.reserve(S(7)); seedPush(6); break;
            case 10: seedFromInts(250); break;
            case 11: seedFromInts(254); seedPop(2); break;
            case 12: seedFromInts(255); break;
            case 13: seedFromInts(127); break;
            case 14: seedFromInts(128); break;
            case 15: seedFromInts(254); seedPop(1); break;
            case 16: seedFromInts(126); break;
            default: break;
        }
    }
    // ---- model access
    int msize(const Model& m) const { return m.owner ? (int)m.v.size() : m.len; }
    int mget(const Model& m, int i) const { return m.owner ? m.v[i] : mExt[m.off + i]; }
    void mset(Model& m, int i, int x) { if (m.owner) m.v[i] = x; else mExt[m.off + i] = x; }
    std::vector<int> mvals(const Model& m) const { std::vector<int> r; for (int i = 0; i < msize(m); ++i) r.push_back(mget(m, i)); return r; }
    int fresh() { return next++; }
    T* P(int k) { return A.data() + k; }
    int posOf(int which) const { int n = msize(mA); return which == 0 ? 0 : which == 1 ? n / 2 : n; }
    bool viewsOverlap(int oa, int la, int ob, int lb) const { return std::max(oa, ob) < std::min(oa + la, ob + lb); }

    // ---- enabledness (evaluated on the model only)
    bool enabled(int op) const {
        if (!cfg.inAlphabet(op)) return false;
        const int nA = msize(mA), nB = msize(mB), f = INFO[op].flags;
        const int cap = (int)A.capacity();
        if (!mA.owner && !(f & F_NONOWNER_OK)) return false;
        auto grow = [&](int n) { return nA + n <= cfg.smax; };
        switch (op) {
            case PUSH_COPY: case PUSH_MOVE: case EMPLACE_BACK: case PUSH_DEFAULT: case RAW_PUSH: case INS1_E: case EMPL_E: return grow(1);
            case POP: return nA >= 1;
            case INS1_B: case EMPL_B: return nA >= 1 && grow(1);
            case INS1_M: case EMPL_M: return nA >= 2 && grow(1);
            case INSN_B: return nA >= 1 && grow(2);
            case INSN_M: return nA >= 2 && grow(2);
            case INSN_E: return grow(2);
            case INSP_B: return nA >= 1 && nB >= 1 && nB <= 3 && grow(nB);
            case INSP_M: return nA >= 2 && nB >= 1 && nB <= 3 && grow(nB);
            case INSP_E: return nB >= 1 && nB <= 3 && grow(nB);
            case INSI_M: return grow(3);
            case INSF_M: case INSIN_M: case INSV_B: return grow(2);
            case INS0_M: return true;
            case ER1_B: return nA >= 1; case ER1_M: return nA >= 3; case ER1_L: return nA >= 2;
            case ERR_02: case ERR_1E: return nA >= 2; case ERR_MID: return nA >= 3; case ERR_ALL: return nA >= 1; case ERR_EMPTY: return true;
            case ERF_B: return nA >= 1; case ERF_M: return nA >= 3; case ERF_L: return nA >= 2;
            case RS_UP2: return grow(2) && nA + 2 <= maxSize(); case RS_DN1: case RS_0: return nA >= 1; case RS_SAME: return true;
            case RSV_UP3: return grow(3) && nA + 3 <= maxSize();
            case RSRV_1: return cap + 1 <= cfg.cmax && cap + 1 <= maxSize();
            case RSRV_SZ: return true;
            case RSRV_2X: return 2 * cap + 1 <= cfg.cmax && 2 * cap + 1 <= maxSize();
            case SHRINK: return true;
            case ASG_N0: case ASG_N2: return true; case ASG_N9: return 9 <= cfg.smax; case ASG_NSAME: return nA >= 1;
            case ASG_P: if (!mA.owner) return nB == nA && mB.owner; return nB <= cfg.smax;
            case ASG_F: case ASG_IN: case ASG_I: case ASG_CONV: case FILL: return true;
            case SWAP: case STDSWAP: case MVA_AB: case MVA_BA: case MVCTOR: case CPCTOR: case SELF_CPA: case SELF_MVA: case SELF_SWAP: return true;
            case CPA_AB: if (!mA.owner) return nA == nB && (mB.owner || (mB.off == mA.off)); return true;
            case CPA_BA: if (!mB.owner) return nA == nB && (mA.owner || (mB.off == mA.off)); return true;
            case CLEAR: return true; case DEALLOC: return true;
            case V_FILL: return nA >= 3;
            case V_ASG_B: { int k = std::min(std::min(nA, nB), 2); if (k < 1) return false; if (!mA.owner && !mB.owner && viewsOverlap(mA.off, k, mB.off, k)) return false; return true; }
            case V_ASG_VEC: return nA >= 2; case V_VIEW2: return nA >= 4; case ELT_W: return nA >= 1;
            case ADOPT: case SHARE: case SHARE_SUB: return true;
            case FROM_VEC: case CT_N: case CT_NV: case CT_IL: case CT_CONV: return true;
            case AL_PUSH_F: case AL_PUSH_L: case AL_INS1_B_L: case AL_INS1_E_F: case AL_EMPLB_F: case AL_EMPL_B_L: return nA >= 1 && grow(1);
            case AL_INSN_B_L: return nA >= 1 && grow(2);
            case AL_RSV_F: return nA >= 1 && grow(2) && nA + 2 <= maxSize();
            case AT_OOB: return true;
        }
        return false;
    }

    // ---- run one library call; judge exceptions.  growBy>0: the call grows A by that many elements.
    template <class F> bool call(int op, int growBy, F&& f) {
        bool threw = false; char what[200]; what[0] = 0;
        const int nA = msize(mA); const int cap = (int)A.capacity();
        try { f(); } catch (const std::exception& e) { threw = true; snprintf(what, sizeof what, "%.190s", e.what()); for (char* p = what; *p; ++p) if (*p == '\n') *p = ' '; }
        const bool mustRefuse = growBy > 0 && nA + growBy > maxSize();
        if (threw && mustRefuse) { ++nRefused; return false; }
        if (threw) {
            if (growBy > 0 && cap + growBy > maxSize()) {   // refused although size()+n <= max_size(): the limit is applied to capacity()+n
                char key[128]; snprintf(key, sizeof key, "maxsize/growth-refused-within-max_size/%s", INFO[op].cls);
                failf(key, "%s with size=%d capacity=%d growing by %d (result %d <= max_size %d) threw: %s", INFO[op].name, nA, cap, growBy, nA + growBy, maxSize(), what);
            } else { char key[128]; snprintf(key, sizeof key, "exception/%s", INFO[op].cls); failf(key, "%s with size=%d capacity=%d threw unexpectedly: %s", INFO[op].name, nA, cap, what); }
            return false;
        }
        if (mustRefuse) { char key[128]; snprintf(key, sizeof key, "maxsize/exceeded/%s", INFO[op].cls); failf(key, "%s grew an array of size %d by %d beyond max_size %d without an error", INFO[op].name, nA, growBy, maxSize()); return false; }
        return true;
    }
    void expectCounts(int op, const Counts& before, const Counts& exp) {
        if (!E::ledgered) return;
        Counts got = L.c - before;
        if (!(got == exp)) { char key[128]; snprintf(key, sizeof key, "call-count/%s", INFO[op].cls); failf(key, "%s: documented constructor/destructor calls {%s} but observed {%s}", INFO[op].name, exp.str().c_str(), got.str().c_str()); }
    }
    void checkRet(int op, const T* ret, int k) { char key[128]; snprintf(key, sizeof key, "return-value/%s", INFO[op].cls); CHECK(ret == A.data() + k, key, "%s returned a pointer %ld elements from data(), expected %d", INFO[op].name, (long)(ret - A.data()), k); }
    void checkNoRealloc(int op, const T* data0, int cap0) { char key[128]; snprintf(key, sizeof key, "reallocated-with-room/%s", INFO[op].cls); CHECK(A.data() == data0 && (int)A.capacity() == cap0, key, "%s: capacity %d was sufficient but data()/capacity() changed (capacity now %d)", INFO[op].name, cap0, (int)A.capacity()); }
    void checkCapSame(int op, int cap0) { char key[128]; snprintf(key, sizeof key, "capacity-changed/%s", INFO[op].cls); CHECK((int)A.capacity() == cap0, key, "%s: documented to leave capacity unchanged but %d -> %d", INFO[op].name, cap0, (int)A.capacity()); }

    void insertGeneric(int op, int k, const std::vector<int>& vals, Counts exp, const std::function<T*()>& doit) {
        const int nA = msize(mA), cap0 = (int)A.capacity(), n = (int)vals.size(); const T* data0 = A.data();
        const bool realloc = nA + n > cap0;
        if (n > 0) { if (realloc) { exp.move += nA; exp.dtor += nA; } else { exp.move += nA - k; exp.dtor += nA - k; } }
        T* ret = nullptr; Counts c0 = L.c;
        if (!call(op, n, [&] { ret = doit(); })) return;
        Counts c1 = L.c; (void)c1;
        mA.v.insert(mA.v.begin() + k, vals.begin(), vals.end());
        expectCounts(op, c0, exp);
        checkRet(op, ret, k);
        if (!realloc) checkNoRealloc(op, data0, cap0);
    }
    void pushGeneric(int op, int x, Counts exp, const std::function<void()>& doit) {
        const int nA = msize(mA), cap0 = (int)A.capacity(); const T* data0 = A.data();
        const bool realloc = nA == cap0;
        if (realloc) { exp.move += nA; exp.dtor += nA; }
        Counts c0 = L.c;
        if (!call(op, 1, doit)) return;
        mA.v.push_back(x);
        expectCounts(op, c0, exp);
        if (!realloc) checkNoRealloc(op, data0, cap0);
    }
    void eraseGeneric(int op, int f, int l, const std::function<T*()>& doit) {
        const int nA = msize(mA), cap0 = (int)A.capacity();
        Counts exp; if (l > f) { exp.dtor = (l - f) + (nA - l); exp.move = nA - l; }
        T* ret = nullptr; Counts c0 = L.c;
        if (!call(op, 0, [&] { ret = doit(); })) return;
        mA.v.erase(mA.v.begin() + f, mA.v.begin() + l);
        expectCounts(op, c0, exp); checkRet(op, ret, f); checkCapSame(op, cap0);
    }
    void assignToA(const std::vector<int>& vals) {
        if (mA.owner) mA.v = vals; else for (int i = 0; i < (int)vals.size(); ++i) mExt[mA.off + i] = vals[i];
    }

    void apply(int op);
    void check();
    uint64_t key() const {
        uint64_t h = 1469598103934665603ULL;
        int f[12] = {mA.owner, msize(mA), (int)A.allocated(), A.data() == nullptr, mB.owner, msize(mB), (int)B.allocated(), B.data() == nullptr, mA.off, mA.len, mB.off, mB.len};
        return verif::fnv1a(f, sizeof f, h);
    }
    uint64_t outcome() const {
        uint64_t h = key();
        for (int i = 0; i < msize(mA); ++i) h = verif::hashMix(h, (uint64_t)(unsigned)mget(mA, i));
        h = verif::hashMix(h, 0xB);
        for (int i = 0; i < msize(mB); ++i) h = verif::hashMix(h, (uint64_t)(unsigned)mget(mB, i));
        return h;
    }
    std::string describe() const {
        std::ostringstream o;
        auto one = [&](const char* nm, const Arr& a, const Model& m) {
            o << nm << "{owner=" << a.isOwner() << " size=" << (long)a.size() << " cap=" << (long)a.capacity() << " real=[";
            for (long i = 0; i < (long)a.size() && i < 24; ++i) o << (i ? "," : "") << E::val(a.data() + i);
            o << "] model=[";
            for (int i = 0; i < msize(m) && i < 24; ++i) o << (i ? "," : "") << mget(m, i);
            o << "]} ";
        };
        one("A", A, mA); one("B", B, mB);
        return o.str();
    }
};
} // namespace arr

namespace arr {
template <class T, class X> void World<T, X>::apply(int op) {
    const int nA = msize(mA), nB = msize(mB);
    const int cap0 = (int)A.capacity(); const T* data0 = A.data();
    Counts none;
    switch (op) {
    case PUSH_COPY: if constexpr (E::copyable) { int x = fresh(); T t(x); Counts e; e.copy = 1; pushGeneric(op, x, e, [&] { A.push_back(t); }); } break;
    case PUSH_MOVE: { int x = fresh(); T t(x); Counts e; e.move = 1; pushGeneric(op, x, e, [&] { A.push_back(std::move(t)); }); } break;
    case EMPLACE_BACK: { int x = fresh(); Counts e; e.val = 1; pushGeneric(op, x, e, [&] { A.emplace_back(x); }); } break;
    case PUSH_DEFAULT: { Counts e; e.def = 1; pushGeneric(op, 0, e, [&] { A.push_back(); }); } break;
    case RAW_PUSH: { int x = fresh(); Counts e; e.val = 1; pushGeneric(op, x, e, [&] { T* p = A.raw_push_back(); new (p) T(x); }); } break;
    case POP: { Counts c0 = L.c; if (call(op, 0, [&] { A.pop_back(); })) { mA.v.pop_back(); Counts e; e.dtor = 1; expectCounts(op, c0, e); checkCapSame(op, cap0); } } break;
    case INS1_B: case INS1_M: case INS1_E: if constexpr (E::copyable) { int k = posOf(op - INS1_B); int x = fresh(); T t(x); Counts e; e.copy = 1; insertGeneric(op, k, {x}, e, [&] { return A.insert(P(k), t); }); } break;
    case INSN_B: case INSN_M: case INSN_E: if constexpr (E::copyable) { int k = posOf(op - INSN_B); int x = fresh(); T t(x); Counts e; e.copy = 2; insertGeneric(op, k, {x, x}, e, [&] { return A.insert(P(k), S(2), t); }); } break;
    case INSP_B: case INSP_M: case INSP_E: if constexpr (E::copyable) { int k = posOf(op - INSP_B); Counts e; e.copy = nB; insertGeneric(op, k, mvals(mB), e, [&] { return A.insert(P(k), (const T*)B.data(), (const T*)B.data() + nB); }); } break;
    case INSI_M: { int k = posOf(1); int x = fresh(); fresh(); fresh(); int vals[3] = {x, x + 1, x + 2}; Counts e; if (std::is_same<T, int>::value) e.copy = 3; else e.val = 3;
        insertGeneric(op, k, {x, x + 1, x + 2}, e, [&] { return A.insert(P(k), (const int*)vals, (const int*)vals + 3); }); } break;
    case INSF_M: { int k = posOf(1); int x = fresh(); fresh(); std::list<int> l; l.push_back(x); l.push_back(x + 1); Counts e; e.val = 2; insertGeneric(op, k, {x, x + 1}, e, [&] { return A.insert(P(k), l.begin(), l.end()); }); } break;
    case INSIN_M: if constexpr (E::copyable) { int k = posOf(1); int x = fresh(); fresh(); int vals[2] = {x, x + 1};
        // input iterators: elements are inserted one at a time (documented: slow generic path); only the result is checked
        T* ret = nullptr; if (call(op, 2, [&] { ret = A.insert(P(k), IntInputIt(vals), IntInputIt(vals + 2)); })) { mA.v.insert(mA.v.begin() + k, vals, vals + 2); checkRet(op, ret, k); } } break;
    case INSV_B: if constexpr (E::copyable) { int x = fresh(); fresh(); std::vector<T> vv; vv.reserve(2); vv.emplace_back(x); vv.emplace_back(x + 1); Counts e; e.copy = 2; insertGeneric(op, 0, {x, x + 1}, e, [&] { return A.insert(P(0), vv.begin(), vv.end()); }); } break;
    case INS0_M: { int k = posOf(1); insertGeneric(op, k, {}, none, [&] { return A.insert(P(k), (const int*)nullptr, (const int*)nullptr); }); } break;
    case EMPL_B: case EMPL_M: case EMPL_E: { int k = posOf(op - EMPL_B); int x = fresh(); Counts e; e.val = 1; insertGeneric(op, k, {x}, e, [&] { return A.emplace(P(k), x); }); } break;
    case ER1_B: eraseGeneric(op, 0, 1, [&] { return A.erase(P(0)); }); break;
    case ER1_M: { int k = nA / 2; eraseGeneric(op, k, k + 1, [&] { return A.erase(P(k)); }); } break;
    case ER1_L: eraseGeneric(op, nA - 1, nA, [&] { return A.erase(P(nA - 1)); }); break;
    case ERR_02: eraseGeneric(op, 0, 2, [&] { return A.erase(P(0), P(2)); }); break;
    case ERR_1E: eraseGeneric(op, 1, nA, [&] { return A.erase(P(1), P(nA)); }); break;
    case ERR_MID: eraseGeneric(op, 1, nA - 1, [&] { return A.erase(P(1), P(nA - 1)); }); break;
    case ERR_ALL: eraseGeneric(op, 0, nA, [&] { return A.erase(P(0), P(nA)); }); break;
    case ERR_EMPTY: { int k = nA / 2; eraseGeneric(op, k, k, [&] { return A.erase(P(k), P(k)); }); } break;
    case ERF_B: case ERF_M: case ERF_L: {
        int k = op == ERF_B ? 0 : op == ERF_M ? nA / 2 : nA - 1; T* ret = nullptr; Counts c0 = L.c;
        if (call(op, 0, [&] { ret = A.eraseFast(P(k)); })) {
            Counts e; if (k == nA - 1) e.dtor = 1; else { e.dtor = 2; e.move = 1; }
            if (k != nA - 1) mA.v[k] = mA.v.back(); mA.v.pop_back();
            expectCounts(op, c0, e); checkRet(op, ret, k); checkCapSame(op, cap0);
        } } break;
    case RS_UP2: { Counts c0 = L.c; bool re = nA + 2 > cap0; if (call(op, 2, [&] { A.resize(S(nA + 2)); })) { mA.v.push_back(0); mA.v.push_back(0); Counts e; e.def = 2; if (re) { e.move = nA; e.dtor = nA; } expectCounts(op, c0, e); if (!re) checkNoRealloc(op, data0, cap0); } } break;
    case RS_DN1: { Counts c0 = L.c; if (call(op, 0, [&] { A.resize(S(nA - 1)); })) { mA.v.pop_back(); Counts e; e.dtor = 1; expectCounts(op, c0, e); } } break;
    case RS_0: { Counts c0 = L.c; if (call(op, 0, [&] { A.resize(S(0)); })) { mA.v.clear(); Counts e; e.dtor = nA; expectCounts(op, c0, e); } } break;
    case RS_SAME: { Counts c0 = L.c; if (call(op, 0, [&] { A.resize(S(nA)); })) { expectCounts(op, c0, none); checkNoRealloc(op, data0, cap0); } } break;
    case RSV_UP3: if constexpr (E::copyable) { int x = fresh(); T t(x); Counts c0 = L.c; bool re = nA + 3 > cap0; if (call(op, 3, [&] { A.resize(S(nA + 3), t); })) { for (int i = 0; i < 3; ++i) mA.v.push_back(x); Counts e; e.copy = 3; if (re) { e.move = nA; e.dtor = nA; } expectCounts(op, c0, e); } } break;
    case RSRV_1: case RSRV_2X: { int n = op == RSRV_1 ? cap0 + 1 : 2 * cap0 + 1; Counts c0 = L.c; if (call(op, 0, [&] { A.reserve(S(n)); })) { Counts e; e.move = nA; e.dtor = nA; expectCounts(op, c0, e); CHECK((int)A.capacity() >= n, "reserve/capacity-too-small", "reserve(%d) left capacity %d", n, (int)A.capacity()); } } break;
    case RSRV_SZ: { Counts c0 = L.c; if (call(op, 0, [&] { A.reserve(S(nA)); })) { expectCounts(op, c0, none); checkNoRealloc(op, data0, cap0); } } break;
    case SHRINK: { Counts c0 = L.c; if (call(op, 0, [&] { A.shrink_to_fit(); })) {
            int cap1 = (int)A.capacity(); Counts got = L.c - c0;
            if (nA == 0 && mA.owner) CHECK(A.data() == nullptr && cap1 == 0, "shrink_to_fit/empty-not-deallocated", "shrink_to_fit on an empty array must free all heap space (documented) but capacity=%d data=%s", cap1, A.data() ? "non-null" : "null");
            if (cap1 == cap0) { CHECK(A.data() == data0, "shrink_to_fit/moved-without-shrinking", "capacity unchanged (%d) but data() moved", cap0); if (E::ledgered) CHECK(got == none, "call-count/shrink_to_fit", "no shrink but element calls {%s}", got.str().c_str()); }
            else { CHECK(cap1 == nA, "shrink_to_fit/capacity", "shrink_to_fit changed capacity %d -> %d with size %d (must be unchanged or == size)", cap0, cap1, nA); Counts e; e.move = nA; e.dtor = nA; expectCounts(op, c0, e); }
        } } break;
    case ASG_N0: case ASG_N2: case ASG_N9: case ASG_NSAME: if constexpr (E::copyable) {
        int n = op == ASG_N0 ? 0 : op == ASG_N2 ? 2 : op == ASG_N9 ? 9 : nA; int x = fresh(); T t(x); Counts c0 = L.c;
        if (call(op, 0, [&] { A.assign(S(n), t); })) { Counts e; if (mA.owner) { e.dtor = nA; e.copy = n; } else e.cas = nA; assignToA(std::vector<int>(n, x)); expectCounts(op, c0, e); } } break;
    case ASG_P: if constexpr (E::copyable) { Counts c0 = L.c; std::vector<int> bv = mvals(mB); if (call(op, 0, [&] { A.assign((const T*)B.data(), (const T*)B.data() + nB); })) { Counts e; if (mA.owner) { e.dtor = nA; e.copy = nB; } else e.cas = nA; assignToA(bv); expectCounts(op, c0, e); } } break;
    case ASG_F: { if (!mA.owner) break; int x = fresh(); fresh(); fresh(); std::list<int> l; for (int i = 0; i < 3; ++i) l.push_back(x + i); Counts c0 = L.c; if (call(op, 0, [&] { A.assign(l.begin(), l.end()); })) { Counts e; e.dtor = nA; e.val = 3; mA.v = {x, x + 1, x + 2}; expectCounts(op, c0, e); } } break;
    case ASG_IN: { if (!mA.owner) break; int x = fresh(); fresh(); fresh(); int vals[3] = {x, x + 1, x + 2}; if (call(op, 0, [&] { A.assign(IntInputIt(vals), IntInputIt(vals + 3)); })) { mA.v = {x, x + 1, x + 2}; } } break;
    case ASG_I: { if (!mA.owner) break; int x = fresh(); fresh(); int vals[2] = {x, x + 1}; Counts c0 = L.c; if (call(op, 0, [&] { A.assign((const int*)vals, (const int*)vals + 2); })) { Counts e; e.dtor = nA; if (std::is_same<T, int>::value) e.copy = 2; else e.val = 2; mA.v = {x, x + 1}; expectCounts(op, c0, e); } } break;
    case ASG_CONV: { if (!mA.owner) break; int x = fresh(); fresh(); SimTK::Array_<short, long long> src; src.push_back((short)x); src.push_back((short)(x + 1)); Counts c0 = L.c; if (call(op, 0, [&] { A = src; })) { Counts e; e.dtor = nA; e.val = 2; mA.v = {x, x + 1}; expectCounts(op, c0, e); } } break;
    case FILL: if constexpr (E::copyable) { int x = fresh(); T t(x); Counts c0 = L.c; if (call(op, 0, [&] { A.fill(t); })) { Counts e; e.cas = nA; assignToA(std::vector<int>(nA, x)); expectCounts(op, c0, e); } } break;
    case SWAP: { Counts c0 = L.c; if (call(op, 0, [&] { A.swap(B); })) { std::swap(mA, mB); expectCounts(op, c0, none); } } break;
    case STDSWAP: { Counts c0 = L.c; if (call(op, 0, [&] { std::swap(A, B); })) { std::swap(mA, mB); expectCounts(op, c0, none); } } break;
    case CPA_AB: if constexpr (E::copyable) { Counts c0 = L.c; std::vector<int> bv = mvals(mB); if (call(op, 0, [&] { A = B; })) { Counts e; if (mA.owner) { e.dtor = nA; e.copy = nB; } else e.cas = nA; assignToA(bv); expectCounts(op, c0, e); } } break;
    case CPA_BA: if constexpr (E::copyable) { Counts c0 = L.c; std::vector<int> av = mvals(mA); if (call(op, 0, [&] { B = A; })) { Counts e; if (mB.owner) { e.dtor = nB; e.copy = nA; mB.v = av; } else { e.cas = nB; for (int i = 0; i < nA; ++i) mExt[mB.off + i] = av[i]; } expectCounts(op, c0, e); } } break;
    case MVA_AB: { Counts c0 = L.c; if (call(op, 0, [&] { A = std::move(B); })) { std::swap(mA, mB); expectCounts(op, c0, none); } } break;
    case MVA_BA: { Counts c0 = L.c; if (call(op, 0, [&] { B = std::move(A); })) { std::swap(mA, mB); expectCounts(op, c0, none); } } break;
    case MVCTOR: { Counts c0 = L.c; call(op, 0, [&] {
            Arr C(std::move(A));
            CHECK(A.size() == 0 && A.data() == nullptr && A.isOwner() && A.capacity() == 0, "moveCtor/source-not-default", "after Array_ C(std::move(A)) the source is not default-constructed: size=%ld cap=%ld", (long)A.size(), (long)A.capacity());
            CHECK((int)C.size() == nA && C.data() == data0 && C.isOwner() == mA.owner, "moveCtor/target", "move-constructed array does not hold the source's data");
            A.swap(C); });
        expectCounts(op, c0, none); } break;
    case CPCTOR: if constexpr (E::copyable) { Counts c0 = L.c; Counts mid; bool okc = call(op, 0, [&] {
            Arr C(A); mid = L.c;
            CHECK((int)C.size() == nA && C.isOwner(), "copyCtor/size-or-owner", "copy of array of size %d has size %ld owner=%d", nA, (long)C.size(), (int)C.isOwner());
            CHECK((int)C.capacity() == nA, "copyCtor/capacity", "copy constructor must allocate exactly size()=%d (documented) but capacity=%ld", nA, (long)C.capacity());
            CHECK(nA == 0 ? C.data() == nullptr : C.data() != A.data(), "copyCtor/shares-data", "copy-constructed array shares the data pointer (size %d)", nA);
            for (int i = 0; i < nA && !g_fail.set; ++i) CHECK(E::val(C.data() + i) == mget(mA, i), "copyCtor/contents", "copy differs at %d", i);
            if (nA > 0) C[X(0)] = T(-5);   // writing the copy must not be visible in A (checked by check())
            });
        if (okc) { Counts e; e.copy = nA; Counts got = mid - c0; if (E::ledgered && !(got == e)) failf("call-count/copyCtor", "copy constructor of size %d: expected {%s} observed {%s}", nA, e.str().c_str(), got.str().c_str()); } } break;
    case SELF_CPA: if constexpr (E::copyable) { Counts c0 = L.c; Arr& r = A; if (call(op, 0, [&] { A = r; })) { expectCounts(op, c0, none); checkNoRealloc(op, data0, cap0); } } break;
    case SELF_MVA: { Counts c0 = L.c; Arr& r = A; if (call(op, 0, [&] { A = std::move(r); })) { expectCounts(op, c0, none); checkNoRealloc(op, data0, cap0); } } break;
    case SELF_SWAP: { Counts c0 = L.c; Arr& r = A; if (call(op, 0, [&] { A.swap(r); })) { expectCounts(op, c0, none); checkNoRealloc(op, data0, cap0); } } break;
    case CLEAR: { Counts c0 = L.c; if (call(op, 0, [&] { A.clear(); })) { mA.v.clear(); Counts e; e.dtor = nA; expectCounts(op, c0, e); checkCapSame(op, cap0); } } break;
    case DEALLOC: { Counts c0 = L.c; if (call(op, 0, [&] { A.deallocate(); })) { Counts e; if (mA.owner) e.dtor = nA; mA = Model(); expectCounts(op, c0, e); CHECK(A.data() == nullptr && A.capacity() == 0 && A.size() == 0 && A.isOwner(), "deallocate/not-default", "deallocate() did not return the array to the default-constructed state"); } } break;
    case V_FILL: if constexpr (E::copyable) { int x = fresh(); T t(x); Counts c0 = L.c; if (call(op, 0, [&] { A(X(1), S(2)) = t; })) { mset(mA, 1, x); mset(mA, 2, x); Counts e; e.cas = 2; expectCounts(op, c0, e); checkNoRealloc(op, data0, cap0); } } break;
    case V_ASG_B: if constexpr (E::copyable) { int k = std::min(std::min(nA, nB), 2); Counts c0 = L.c; std::vector<int> bv = mvals(mB); if (call(op, 0, [&] { A(X(0), S(k)) = B(X(0), S(k)); })) { for (int i = 0; i < k; ++i) mset(mA, i, bv[i]); Counts e; e.cas = k; expectCounts(op, c0, e); } } break;
    case V_ASG_VEC: { int x = fresh(); fresh(); std::vector<int> vv; vv.push_back(x); vv.push_back(x + 1); if (call(op, 0, [&] { A.updSubArray(X(0), S(2)) = vv; })) { mset(mA, 0, x); mset(mA, 1, x + 1); } } break;
    case V_VIEW2: if constexpr (E::copyable) { int x = fresh(); T t(x); Counts c0 = L.c; if (call(op, 0, [&] { A(X(1), S(3))(X(1), S(2)).fill(t); })) { mset(mA, 2, x); mset(mA, 3, x); Counts e; e.cas = 2; expectCounts(op, c0, e); } } break;
    case ELT_W: { int k = nA / 2; int x = fresh(); if (call(op, 0, [&] { if (k == 0) A.front() = T(x); else if (k == nA - 1) A.back() = T(x); else if (k & 1) A.at(X(k)) = T(x); else A.updElt(X(k)) = T(x); })) mset(mA, k, x); } break;
    case ADOPT: { int x = fresh(); fresh(); T* buf = reinterpret_cast<T*>(new unsigned char[5 * sizeof(T)]); new (buf) T(x); new (buf + 1) T(x + 1); Counts c0 = L.c;
        if (call(op, 0, [&] { A.adoptData(buf, S(2), S(5)); })) { Counts e; e.dtor = nA; mA = Model(); mA.v = {x, x + 1}; expectCounts(op, c0, e); CHECK(A.data() == buf && A.capacity() == 5 && A.isOwner(), "adoptData/state", "adoptData(buf,2,5): data/capacity/owner wrong (capacity %ld)", (long)A.capacity()); } } break;
    case SHARE: case SHARE_SUB: { Counts c0 = L.c; int off = op == SHARE ? 0 : 1, len = op == SHARE ? 3 : 2;
        bool okc = op == SHARE ? call(op, 0, [&] { A.shareData(ext.data(), S(3)); }) : call(op, 0, [&] { A.shareData(ext.data() + 1, (const T*)(ext.data() + 3)); });
        if (okc) { Counts e; e.dtor = nA; mA = Model(); mA.owner = false; mA.off = off; mA.len = len; expectCounts(op, c0, e); } } break;
    case FROM_VEC: if constexpr (E::copyable) { int x = fresh(); fresh(); std::vector<T> vv; vv.reserve(2); vv.emplace_back(x); vv.emplace_back(x + 1); Counts c0 = L.c; if (call(op, 0, [&] { A = vv; })) { Counts e; e.dtor = nA; e.copy = 2; mA.v = {x, x + 1}; expectCounts(op, c0, e); } } break;
    case CT_N: { Counts c0 = L.c; if (call(op, 0, [&] { A = Arr(S(3)); })) { Counts e; e.def = 3; if (mA.owner) e.dtor = nA; mA = Model(); mA.v = {0, 0, 0}; expectCounts(op, c0, e); CHECK(A.capacity() == 3, "ctorN/capacity", "Array_(3) has capacity %ld", (long)A.capacity()); } } break;
    case CT_NV: if constexpr (E::copyable) { int x = fresh(); T t(x); Counts c0 = L.c; if (call(op, 0, [&] { A = Arr(S(2), t); })) { Counts e; e.copy = 2; if (mA.owner) e.dtor = nA; mA = Model(); mA.v = {x, x}; expectCounts(op, c0, e); } } break;
    case CT_IL: if constexpr (E::copyable) { int x = fresh(); fresh(); if (call(op, 0, [&] { A = Arr{T(x), T(x + 1)}; })) { mA = Model(); mA.v = {x, x + 1}; } } break;
    case CT_CONV: { int x = fresh(); fresh(); SimTK::Array_<short, long long> src; src.push_back((short)x); src.push_back((short)(x + 1)); Counts c0 = L.c; if (call(op, 0, [&] { A = Arr(src); })) { Counts e; e.val = 2; if (mA.owner) e.dtor = nA; mA = Model(); mA.v = {x, x + 1}; expectCounts(op, c0, e); } } break;
    // ---- aliasing: the argument refers to an element of the array itself (std::vector must and does support all of these)
    case AL_PUSH_F: case AL_PUSH_L: if constexpr (E::copyable) { int x = op == AL_PUSH_F ? mA.v.front() : mA.v.back(); if (call(op, 1, [&] { A.push_back(op == AL_PUSH_F ? A.front() : A.back()); })) mA.v.push_back(x); } break;
    case AL_INS1_B_L: if constexpr (E::copyable) { int x = mA.v.back(); if (call(op, 1, [&] { A.insert(P(0), A.back()); })) mA.v.insert(mA.v.begin(), x); } break;
    case AL_INSN_B_L: if constexpr (E::copyable) { int x = mA.v.back(); if (call(op, 2, [&] { A.insert(P(0), S(2), A.back()); })) mA.v.insert(mA.v.begin(), 2, x); } break;
    case AL_INS1_E_F: if constexpr (E::copyable) { int x = mA.v.front(); if (call(op, 1, [&] { A.insert(P(nA), A.front()); })) mA.v.push_back(x); } break;
    case AL_RSV_F: if constexpr (E::copyable) { int x = mA.v.front(); if (call(op, 2, [&] { A.resize(S(nA + 2), A.front()); })) { mA.v.push_back(x); mA.v.push_back(x); } } break;
    case AL_EMPLB_F: if constexpr (E::copyable) { int x = mA.v.front(); if (call(op, 1, [&] { A.emplace_back(A.front()); })) mA.v.push_back(x); } break;
    case AL_EMPL_B_L: if constexpr (E::copyable) { int x = mA.v.back(); if (call(op, 1, [&] { A.emplace(P(0), A.back()); })) mA.v.insert(mA.v.begin(), x); } break;
    case AT_OOB: { bool threw = false; try { (void)A.at(X(nA)); } catch (const std::exception&) { threw = true; } CHECK(threw, "at/no-range-check", "at(size()) with size %d did not throw (documented: always range-checked)", nA); } break;
    default: break;
    }
    // a ledger error raised inside the operation is attributed to it
    if (L.firstKind[0] && !g_fail.set) {
        char key[128];
        if ((INFO[op].flags & F_ALIAS) && (!strcmp(L.firstKind, "copy-from-destroyed-object") || !strcmp(L.firstKind, "move-from-destroyed-object"))) {
            snprintf(key, sizeof key, "aliased-value-argument/%s", INFO[op].cls);
            failf(key, "%s on size=%d capacity=%d: the argument refers to an element of the array; it was moved away and destroyed before the new element was constructed from it (%s)", INFO[op].name, nA, cap0, L.firstKind);
        } else { snprintf(key, sizeof key, "ledger/%s/%s", L.firstKind, INFO[op].cls); failf(key, "%s on size=%d capacity=%d: %s", INFO[op].name, nA, cap0, L.firstKind); }
    }
    // aliasing operations: the new element(s) must equal the value the argument had when the call was made
    if ((INFO[op].flags & F_ALIAS) && !g_fail.set && mA.owner && (long)A.size() == msize(mA)) {
        for (int i = 0; i < msize(mA); ++i) { int got = E::val(A.data() + i); if (got != mA.v[i]) {
            char key[128]; snprintf(key, sizeof key, "aliased-value-argument/%s", INFO[op].cls);
            failf(key, "%s on size=%d capacity=%d: the argument refers to an element of the array; element %d is %d afterwards but std::vector semantics give %d (the argument's slot was overwritten before it was copied)", INFO[op].name, nA, cap0, i, got, mA.v[i]); break; } }
    }
}

template <class T, class X> void World<T, X>::check() {
    if (g_fail.set) return;
    const Arr* arrs[2] = {&A, &B}; const Model* ms[2] = {&mA, &mB}; const char* nm[2] = {"A", "B"};
    for (int w = 0; w < 2 && !g_fail.set; ++w) {
        const Arr& a = *arrs[w]; const Model& m = *ms[w]; const int n = msize(m);
        CHECK((long)a.size() == n, "contents/size", "%s.size()=%ld model %d", nm[w], (long)a.size(), n);
        if (g_fail.set) return;
        CHECK(a.empty() == (n == 0), "observer/empty", "%s.empty() wrong", nm[w]);
        CHECK(a.isOwner() == m.owner, "observer/isOwner", "%s.isOwner()=%d model %d", nm[w], (int)a.isOwner(), (int)m.owner);
        CHECK(a.max_size() == SimTK::ArrayIndexTraits<X>::max_size(), "observer/max_size", "max_size() differs from ArrayIndexTraits<X>::max_size()");
        if (m.owner) {
            CHECK((long)a.capacity() >= n && a.allocated() == a.capacity(), "observer/capacity", "%s capacity=%ld allocated=%ld size=%d", nm[w], (long)a.capacity(), (long)a.allocated(), n);
            CHECK((a.data() == nullptr) == (a.capacity() == 0), "observer/data-null", "%s data()==null must coincide with capacity()==0 (capacity %ld)", nm[w], (long)a.capacity());
        } else {
            CHECK(a.data() == ext.data() + m.off && (long)a.capacity() == n && a.allocated() == 0, "observer/non-owner-view", "%s non-owner view does not refer to the shared data", nm[w]);
        }
        int i = 0;
        for (const T* p = a.begin(); p != a.end() && !g_fail.set; ++p, ++i) { int got = E::val(p); CHECK(i < n && got == mget(m, i), "contents/value", "%s[%d]=%d model %d", nm[w], i, got, i < n ? mget(m, i) : -1); }
        if (g_fail.set) return;
        CHECK(i == n && a.cend() - a.cbegin() == n, "contents/iterator-range", "%s begin..end spans %d elements, model %d", nm[w], i, n);
        for (int k = 0; k < n && !g_fail.set; ++k) {
            CHECK(&a[X(k)] == a.data() + k && &a.at(X(k)) == a.data() + k && &a.getElt(X(k)) == a.data() + k, "observer/index", "%s element access %d does not address data()+%d", nm[w], k, k);
        }
        if (n > 0) {
            CHECK(&a.front() == a.data() && &a.back() == a.data() + n - 1, "observer/front-back", "%s front/back", nm[w]);
            int k = n - 1; for (auto r = a.rbegin(); r != a.rend() && !g_fail.set; ++r, --k) CHECK(&*r == a.data() + k, "observer/reverse-iterator", "%s reverse iterator", nm[w]);
        }
        if (n >= 2) { SimTK::ArrayViewConst_<T, X> v = a(X(1), S(n - 1)); CHECK((long)v.size() == n - 1 && v.data() == a.data() + 1 && !v.isOwner() && E::val(&v[X(0)]) == mget(m, 1), "view/const-subarray", "%s(1,%d) const view wrong", nm[w], n - 1); }
        { SimTK::ArrayViewConst_<T, X> v = a(X(n), S(0)); CHECK(v.size() == 0 && v.data() == nullptr, "view/empty-subarray", "%s(size,0) must be a default-constructed view", nm[w]); }
    }
    if (g_fail.set) return;
    // the shared external buffer
    for (int i = 0; i < 3 && !g_fail.set; ++i) CHECK(E::val(&ext[i]) == mExt[i], "contents/external-buffer", "ext[%d]=%d model %d", i, E::val(&ext[i]), mExt[i]);
    // comparisons against the model's lexicographic order
    { std::vector<int> va = mvals(mA), vb = mvals(mB);
      CHECK((A == B) == (va == vb) && (A != B) == (va != vb) && (A < B) == (va < vb) && (A >= B) == (va >= vb) && (A > B) == (va > vb) && (A <= B) == (va <= vb), "observer/comparison", "comparison operators disagree with lexicographic order of the model"); }
    // exactly the right objects are alive; exactly the right buffers are allocated
    if (E::ledgered) { long want = (mA.owner ? msize(mA) : 0) + (mB.owner ? msize(mB) : 0) + 3; CHECK((long)L.live.nLive == want, "ledger/live-count", "%ld element objects alive, expected %ld (%s)", (long)L.live.nLive, want, (long)L.live.nLive > want ? "leaked or constructed beyond size()" : "destroyed too many"); }
    { long want = baseArr + (A.allocated() > 0) + (B.allocated() > 0); CHECK(g_liveArr == want, "heap/buffer-count", "%ld array buffers alive, expected %ld", g_liveArr - baseArr, want - baseArr); }
    if (L.firstKind[0] && !g_fail.set) { char key[128]; snprintf(key, sizeof key, "ledger/%s/observer", L.firstKind); failf(key, "ledger error while reading the containers: %s", L.firstKind); }
}
} // namespace arr

// ================================================================ pointer-wrapper worlds
namespace ptrw {
struct NoCfg { std::string str() const { return "-"; } static NoCfg parse(const std::string&) { return NoCfg(); } };
struct OpDesc { int kind, i, j; std::string name; };
static long g_clones = 0;

struct Payload {
    int v;
    explicit Payload(int x) : v(x) { L.born(this); }
    Payload(const Payload& s) { L.born(this); if (L.isLive(&s)) v = s.v; else { L.err("clone-of-destroyed-object", &s); v = POISON; } }
    ~Payload() { L.died(this); }
    Payload* clone() const { ++g_clones; return new Payload(*this); }
};
static int pval(const Payload* p) { if (!L.isLive(p)) { L.err("dangling-pointer-to-destroyed-object", p); return POISON; } return p->v; }

// ---------------------------------------------------------------- ClonePtr / CloneOnWritePtr
template <bool COW> struct CloneWorld {
    typedef typename std::conditional<COW, SimTK::CloneOnWritePtr<Payload>, SimTK::ClonePtr<Payload> >::type P;
    typedef NoCfg Cfg;
    enum Kind { CPA, MVA, CPC, MVC, WR_UPD, WR_REF, WR_STAR, WR_ARROW, RESET, RESET_NEW, RESET_SAME, RELEASE, SWAP, ADLSWAP, ASG_VAL, ASG_OBJ, ASG_PTR, DETACH, CT_CREF, CT_CPTR, CT_NULL, CT_PTR };
    static std::vector<OpDesc>& table() {
        static std::vector<OpDesc> t;
        if (!t.empty()) return t;
        auto s = [](int i) { return std::string("h") + std::to_string(i); };
        for (int i = 0; i < 3; ++i) for (int j = 0; j < 3; ++j) t.push_back({CPA, i, j, s(i) + "=" + s(j)});
        for (int i = 0; i < 3; ++i) for (int j = 0; j < 3; ++j) t.push_back({MVA, i, j, s(i) + "=move(" + s(j) + ")"});
        for (int i = 0; i < 3; ++i) for (int j = 0; j < 3; ++j) if (i != j) t.push_back({CPC, i, j, "new(" + s(j) + ")P(" + s(i) + ")"});
        for (int i = 0; i < 3; ++i) for (int j = 0; j < 3; ++j) if (i != j) t.push_back({MVC, i, j, "new(" + s(j) + ")P(move(" + s(i) + "))"});
        for (int i = 0; i < 3; ++i) { t.push_back({WR_UPD, i, 0, s(i) + ".upd()->v=x"}); t.push_back({WR_REF, i, 0, s(i) + ".updRef().v=x"}); t.push_back({WR_STAR, i, 0, "(*" + s(i) + ").v=x"}); t.push_back({WR_ARROW, i, 0, s(i) + "->v=x"}); }
        for (int i = 0; i < 3; ++i) { t.push_back({RESET, i, 0, s(i) + ".reset()"}); t.push_back({RESET_NEW, i, 0, s(i) + ".reset(new)"}); t.push_back({RESET_SAME, i, 0, s(i) + ".reset(own pointer)"}); t.push_back({RELEASE, i, 0, "delete " + s(i) + ".release()"}); }
        for (int i = 0; i < 3; ++i) for (int j = i; j < 3; ++j) t.push_back({SWAP, i, j, s(i) + ".swap(" + s(j) + ")"});
        t.push_back({ADLSWAP, 0, 1, "swap(h0,h1)"});
        for (int i = 0; i < 3; ++i) { t.push_back({ASG_VAL, i, 0, s(i) + "=Payload&"}); t.push_back({ASG_PTR, i, 0, s(i) + "=new Payload"}); }
        for (int i = 0; i < 3; ++i) for (int j = 0; j < 3; ++j) t.push_back({ASG_OBJ, i, j, s(i) + "=" + s(j) + ".getRef()"});
        if (COW) for (int i = 0; i < 3; ++i) t.push_back({DETACH, i, 0, s(i) + ".detach()"});
        for (int i = 0; i < 3; ++i) { t.push_back({CT_CREF, i, 0, "new(" + s(i) + ")P(const T&)"}); t.push_back({CT_CPTR, i, 0, "new(" + s(i) + ")P(const T*)"}); t.push_back({CT_NULL, i, 0, "new(" + s(i) + ")P(nullptr)"}); t.push_back({CT_PTR, i, 0, "new(" + s(i) + ")P(T*)"}); }
        return t;
    }
    static int nOps() { return (int)table().size(); }
    static const char* opName(int op) { return table()[op].name.c_str(); }
    static const char* kindName() { return COW ? "CloneOnWritePtr" : "ClonePtr"; }
    static const char* opClass(int op) { static std::string r; r = std::string(kindName()) + "/" + kindStr(table()[op].kind); return r.c_str(); }

    alignas(P) unsigned char buf[3][sizeof(P)];
    P& h(int i) { return *reinterpret_cast<P*>(buf[i]); }
    const P& h(int i) const { return *reinterpret_cast<const P*>(buf[i]); }
    int grp[3]; int gval[96]; int ng = 0; int next = 1;
    long baseScalar;
    explicit CloneWorld(const Cfg&) {
        baseScalar = g_liveScalar;
        new (&h(0)) P(new Payload(next)); grp[0] = newGroup(next++);
        new (&h(1)) P(); grp[1] = -1;
        new (&h(2)) P(); grp[2] = -1;
    }
    ~CloneWorld() { for (int i = 0; i < 3; ++i) h(i).~P(); }
    int newGroup(int v) { gval[ng] = v; return ng++; }
    int gsize(int g) const { int n = 0; for (int i = 0; i < 3; ++i) n += grp[i] == g; return n; }
    int nGroups() const { int n = 0; for (int i = 0; i < 3; ++i) { if (grp[i] < 0) continue; bool first = true; for (int k = 0; k < i; ++k) if (grp[k] == grp[i]) first = false; n += first; } return n; }
    bool enabled(int op) const {
        const OpDesc& d = table()[op];
        switch (d.kind) {
            case WR_UPD: case WR_REF: case WR_STAR: case WR_ARROW: case RESET_SAME: return grp[d.i] >= 0;
            case ASG_OBJ: return grp[d.j] >= 0;
            default: return ng < 90;
        }
    }
    void expectClones(int op, long before, long want) {
        long got = g_clones - before;
        if (got != want) { char key[128]; snprintf(key, sizeof key, "%s/clone-count/%s", kindName(), kindStr(table()[op].kind)); failf(key, "%s: %ld clone() calls, the documented semantics require %ld", opName(op), got, want); }
    }
    static const char* kindStr(int k) { static const char* n[] = {"copy-assign", "move-assign", "copy-construct", "move-construct", "upd", "updRef", "operator*", "operator->", "reset", "reset(new)", "reset(same)", "release", "swap", "swap", "assign(T&)", "assign(object)", "assign(T*)", "detach", "ctor(const T&)", "ctor(const T*)", "ctor(nullptr)", "ctor(T*)"}; return n[k]; }
    void write(int i, int x, long c0, int op) {   // model of a write through handle i
        if (COW && gsize(grp[i]) > 1) { grp[i] = newGroup(x); expectClones(op, c0, 1); }
        else { gval[grp[i]] = x; expectClones(op, c0, 0); }
    }
    void apply(int op) {
        const OpDesc& d = table()[op]; const int i = d.i, j = d.j; long c0 = g_clones;
        try {
        switch (d.kind) {
            case CPA: { P& src = h(j); h(i) = src;
                if (i != j) { if (COW) { grp[i] = grp[j]; expectClones(op, c0, 0); } else { bool ne = grp[j] >= 0; grp[i] = ne ? newGroup(gval[grp[j]]) : -1; expectClones(op, c0, ne ? 1 : 0); } }
                else expectClones(op, c0, 0); } break;
            case MVA: { P& src = h(j); h(i) = std::move(src); if (i != j) { grp[i] = grp[j]; grp[j] = -1; } expectClones(op, c0, 0); } break;
            case CPC: { h(j).~P(); grp[j] = -1; new (&h(j)) P(static_cast<const P&>(h(i)));
                if (COW) { grp[j] = grp[i]; expectClones(op, c0, 0); } else { bool ne = grp[i] >= 0; grp[j] = ne ? newGroup(gval[grp[i]]) : -1; expectClones(op, c0, ne ? 1 : 0); } } break;
            case MVC: { h(j).~P(); new (&h(j)) P(std::move(h(i))); grp[j] = grp[i]; grp[i] = -1; expectClones(op, c0, 0); } break;
            case WR_UPD: { int x = next++; h(i).upd()->v = x; write(i, x, c0, op); } break;
            case WR_REF: { int x = next++; h(i).updRef().v = x; write(i, x, c0, op); } break;
            case WR_STAR: { int x = next++; (*h(i)).v = x; write(i, x, c0, op); } break;
            case WR_ARROW: { int x = next++; h(i)->v = x; write(i, x, c0, op); } break;
            case RESET: h(i).reset(); grp[i] = -1; expectClones(op, c0, 0); break;
            case RESET_NEW: { int x = next++; h(i).reset(new Payload(x)); grp[i] = newGroup(x); expectClones(op, c0, 0); } break;
            case RESET_SAME: h(i).reset(const_cast<Payload*>(h(i).get())); expectClones(op, c0, 0); break;
            case RELEASE: {
                const bool shared = COW && grp[i] >= 0 && gsize(grp[i]) > 1; const Payload* before = h(i).get();
                Payload* p = h(i).release();
                if (grp[i] < 0) CHECK(p == nullptr, "release/empty-returned-object", "release() of an empty %s returned a non-null pointer", kindName());
                else {
                    CHECK(p != nullptr, "release/null", "release() of a non-empty %s returned null", kindName());
                    if (p) { int got = pval(p); CHECK(got == gval[grp[i]], "release/value", "released object has value %d, expected %d", got, gval[grp[i]]);
                        CHECK(shared ? p != before : p == before, "release/identity", "release() of a %s handle returned %s", shared ? "shared" : "unique", shared ? "the object still used by the other holders" : "a different object"); }
                }
                expectClones(op, c0, shared ? 1 : 0);
                delete p; grp[i] = -1; } break;
            case SWAP: { P& o = h(j); h(i).swap(o); std::swap(grp[i], grp[j]); expectClones(op, c0, 0); } break;
            case ADLSWAP: { swap(h(0), h(1)); std::swap(grp[0], grp[1]); expectClones(op, c0, 0); } break;
            case ASG_VAL: { int x = next++; Payload tmp(x); h(i) = static_cast<const Payload&>(tmp); grp[i] = newGroup(x); expectClones(op, c0, 1); } break;
            case ASG_OBJ: { int x = gval[grp[j]]; h(i) = h(j).getRef(); grp[i] = newGroup(x); expectClones(op, c0, 1); } break;
            case ASG_PTR: { int x = next++; h(i) = new Payload(x); grp[i] = newGroup(x); expectClones(op, c0, 0); } break;
            case DETACH: if constexpr (COW) { bool shared = grp[i] >= 0 && gsize(grp[i]) > 1; h(i).detach(); if (shared) grp[i] = newGroup(gval[grp[i]]); expectClones(op, c0, shared ? 1 : 0); } break;
            case CT_CREF: { int x = next++; Payload tmp(x); h(i).~P(); new (&h(i)) P(static_cast<const Payload&>(tmp)); grp[i] = newGroup(x); expectClones(op, c0, 1); } break;
            case CT_CPTR: { int x = next++; Payload tmp(x); h(i).~P(); new (&h(i)) P(static_cast<const Payload*>(&tmp)); grp[i] = newGroup(x); expectClones(op, c0, 1); } break;
            case CT_NULL: { h(i).~P(); new (&h(i)) P(nullptr); grp[i] = -1; expectClones(op, c0, 0); } break;
            case CT_PTR: { int x = next++; h(i).~P(); new (&h(i)) P(new Payload(x)); grp[i] = newGroup(x); expectClones(op, c0, 0); } break;
        }
        } catch (const std::exception& e) { char key[128]; snprintf(key, sizeof key, "%s/exception/%s", kindName(), kindStr(d.kind)); failf(key, "%s threw: %.200s", opName(op), e.what()); }
        if (L.firstKind[0] && !g_fail.set) { char key[160]; snprintf(key, sizeof key, "%s/ledger/%s/%s", kindName(), L.firstKind, kindStr(d.kind)); failf(key, "%s: %s", opName(op), L.firstKind); }
    }
    template <class Q> static long useCount(const Q& q, std::true_type) { return q.use_count(); }
    template <class Q> static long useCount(const Q&, std::false_type) { return -1; }
    void check() {
        if (g_fail.set) return;
        char k[128];
        for (int i = 0; i < 3 && !g_fail.set; ++i) {
            const P& c = h(i); const bool e = grp[i] < 0;
            snprintf(k, sizeof k, "%s/observer/empty", kindName());
            CHECK(c.empty() == e && (bool)c == !e && (c.get() == nullptr) == e && (c == nullptr) == e, k, "h%d: empty()/bool/get()/==nullptr disagree with the model (model empty=%d)", i, (int)e);
            if (e) { if (COW) { snprintf(k, sizeof k, "%s/use_count", kindName()); CHECK(useCount(c, std::integral_constant<bool, COW>()) == 0, k, "empty handle h%d has use_count %ld", i, useCount(c, std::integral_constant<bool, COW>())); } continue; }
            long c0 = g_clones;
            int got = pval(c.get());
            snprintf(k, sizeof k, "%s/value", kindName());
            CHECK(got == gval[grp[i]], k, "h%d holds value %d, model %d (copies must be observationally independent)", i, got, gval[grp[i]]);
            if (g_fail.set) break;
            CHECK(c->v == got && (*c).v == got && c.getRef().v == got, k, "const accessors of h%d disagree", i);
            snprintf(k, sizeof k, "%s/const-access-cloned", kindName());
            CHECK(g_clones == c0, k, "read-only access to h%d called clone()", i);
            if (COW) {
                long uc = useCount(c, std::integral_constant<bool, COW>());
                snprintf(k, sizeof k, "%s/use_count", kindName());
                CHECK(uc == gsize(grp[i]), k, "h%d.use_count()=%ld but %d handles share its object in the model", i, uc, gsize(grp[i]));
            }
            for (int j = 0; j < i && !g_fail.set; ++j) if (grp[j] >= 0) {
                snprintf(k, sizeof k, "%s/sharing", kindName());
                CHECK((h(j).get() == c.get()) == (grp[j] == grp[i]) && (h(j) == c) == (grp[j] == grp[i]), k, "h%d and h%d %s the same object but the model says they %s", j, i, h(j).get() == c.get() ? "hold" : "do not hold", grp[j] == grp[i] ? "share" : "are independent");
            }
        }
        if (g_fail.set) return;
        snprintf(k, sizeof k, "%s/ledger/live-objects", kindName());
        CHECK((int)L.live.nLive == nGroups(), k, "%d payload objects alive, model has %d distinct objects (%s)", (int)L.live.nLive, nGroups(), (int)L.live.nLive > nGroups() ? "leak" : "premature destruction");
        snprintf(k, sizeof k, "%s/heap/live-blocks", kindName());
        long want = nGroups() * (COW ? 2 : 1);
        CHECK(g_liveScalar - baseScalar == want, k, "%ld heap blocks alive, expected %ld (objects%s)", g_liveScalar - baseScalar, want, COW ? " + use counts" : "");
        if (L.firstKind[0] && !g_fail.set) { snprintf(k, sizeof k, "%s/ledger/%s/observer", kindName(), L.firstKind); failf(k, "%s", L.firstKind); }
    }
    uint64_t key() const { int f[3]; int lab[3], nl = 0; for (int i = 0; i < 3; ++i) { if (grp[i] < 0) { f[i] = -1; continue; } int q = -1; for (int k = 0; k < i; ++k) if (grp[k] == grp[i]) q = f[k]; if (q < 0) { lab[nl] = grp[i]; q = nl++; } f[i] = q; } (void)lab; return verif::fnv1a(f, sizeof f); }
    uint64_t outcome() const { uint64_t hh = key(); for (int i = 0; i < 3; ++i) hh = verif::hashMix(hh, grp[i] < 0 ? 0u : (unsigned)gval[grp[i]]); return hh; }
    std::string describe() const { std::ostringstream o; for (int i = 0; i < 3; ++i) { o << "h" << i << "="; if (h(i).get()) o << pval(h(i).get()) << "@g" << grp[i] << "(model " << (grp[i] >= 0 ? gval[grp[i]] : -1) << ") "; else o << "null(model " << (grp[i] < 0 ? "null" : "NON-NULL") << ") "; } return o.str(); }
};

// ---------------------------------------------------------------- ReferencePtr
struct RefWorld {
    typedef SimTK::ReferencePtr<long> P; typedef NoCfg Cfg;
    enum Kind { CPA, MVA, CPC, MVC, RESET, RESET_T, ASG_REF, ASG_PTR, RELEASE, SWAP, WRITE, CT_PTR, CT_REF };
    static std::vector<OpDesc>& table() {
        static std::vector<OpDesc> t; if (!t.empty()) return t;
        auto s = [](int i) { return std::string("r") + std::to_string(i); };
        for (int i = 0; i < 3; ++i) for (int j = 0; j < 3; ++j) { t.push_back({CPA, i, j, s(i) + "=" + s(j)}); t.push_back({MVA, i, j, s(i) + "=move(" + s(j) + ")"}); if (i != j) { t.push_back({CPC, i, j, "new(" + s(j) + ")P(" + s(i) + ")"}); t.push_back({MVC, i, j, "new(" + s(j) + ")P(move(" + s(i) + "))"}); } }
        for (int i = 0; i < 3; ++i) { t.push_back({RESET, i, 0, s(i) + ".reset()"}); t.push_back({RELEASE, i, 0, s(i) + ".release()"}); t.push_back({WRITE, i, 0, "*" + s(i) + "=x"});
            for (int k = 0; k < 2; ++k) { std::string tk = "t" + std::to_string(k); t.push_back({RESET_T, i, k, s(i) + ".reset(&" + tk + ")"}); t.push_back({ASG_REF, i, k, s(i) + "=" + tk}); t.push_back({ASG_PTR, i, k, s(i) + "=&" + tk}); t.push_back({CT_PTR, i, k, "new(" + s(i) + ")P(&" + tk + ")"}); t.push_back({CT_REF, i, k, "new(" + s(i) + ")P(" + tk + ")"}); } }
        for (int i = 0; i < 3; ++i) for (int j = i; j < 3; ++j) t.push_back({SWAP, i, j, s(i) + ".swap(" + s(j) + ")"});
        return t;
    }
    static int nOps() { return (int)table().size(); }
    static const char* opName(int op) { return table()[op].name.c_str(); }
    static const char* opClass(int) { return "ReferencePtr"; }
    long t[2]; P h[3]; int tgt[3]; long tval[2]; int next = 1;
    explicit RefWorld(const Cfg&) { t[0] = tval[0] = 500; t[1] = tval[1] = 600; h[0].reset(&t[0]); h[1] = &t[1]; tgt[0] = 0; tgt[1] = 1; tgt[2] = -1; }
    bool enabled(int op) const { const OpDesc& d = table()[op]; return d.kind == WRITE ? tgt[d.i] >= 0 : true; }
    void apply(int op) {
        const OpDesc& d = table()[op]; const int i = d.i, j = d.j;
        switch (d.kind) {
            case CPA: { P& s = h[j]; h[i] = s; if (i != j) tgt[i] = -1; } break;
            case MVA: { P& s = h[j]; h[i] = std::move(s); if (i != j) { tgt[i] = tgt[j]; tgt[j] = -1; } } break;
            case CPC: h[j].~P(); new (&h[j]) P(static_cast<const P&>(h[i])); tgt[j] = -1; break;
            case MVC: h[j].~P(); new (&h[j]) P(std::move(h[i])); tgt[j] = tgt[i]; tgt[i] = -1; break;
            case RESET: h[i].reset(); tgt[i] = -1; break;
            case RESET_T: h[i].reset(&t[j]); tgt[i] = j; break;
            case ASG_REF: h[i] = t[j]; tgt[i] = j; break;
            case ASG_PTR: h[i] = &t[j]; tgt[i] = j; break;
            case RELEASE: { long* p = h[i].release(); CHECK(p == (tgt[i] < 0 ? nullptr : &t[tgt[i]]), "ReferencePtr/release", "release() returned the wrong pointer"); tgt[i] = -1; } break;
            case SWAP: { P& o = h[j]; h[i].swap(o); std::swap(tgt[i], tgt[j]); } break;
            case WRITE: { int x = next++; *h[i] = x; tval[tgt[i]] = x; } break;
            case CT_PTR: h[i].~P(); new (&h[i]) P(&t[j]); tgt[i] = j; break;
            case CT_REF: h[i].~P(); new (&h[i]) P(t[j]); tgt[i] = j; break;
        }
    }
    void check() {
        for (int i = 0; i < 3 && !g_fail.set; ++i) {
            const long* want = tgt[i] < 0 ? nullptr : &t[tgt[i]];
            CHECK(h[i].get() == want, "ReferencePtr/target", "r%d refers to %s, model says %s (a copy must not carry the reference; a move must)", i, h[i].get() ? (h[i].get() == &t[0] ? "t0" : "t1") : "null", tgt[i] < 0 ? "null" : tgt[i] == 0 ? "t0" : "t1");
            CHECK(h[i].empty() == (want == nullptr) && (bool)h[i] == (want != nullptr) && (h[i] == nullptr) == (want == nullptr), "ReferencePtr/observer", "r%d empty()/bool disagree", i);
            if (want) CHECK(*h[i] == tval[tgt[i]] && &h[i].getRef() == want, "ReferencePtr/deref", "r%d dereference", i);
            for (int j = 0; j < i; ++j) CHECK((h[i] == h[j]) == (tgt[i] == tgt[j]), "ReferencePtr/observer", "operator== r%d r%d", i, j);
        }
        for (int k = 0; k < 2; ++k) CHECK(t[k] == tval[k], "ReferencePtr/target-value", "target t%d=%ld model %ld", k, t[k], tval[k]);
    }
    uint64_t key() const { return verif::fnv1a(tgt, sizeof tgt); }
    uint64_t outcome() const { return verif::hashMix(key(), verif::fnv1a(tval, sizeof tval)); }
    std::string describe() const { std::ostringstream o; for (int i = 0; i < 3; ++i) o << "r" << i << "->" << (h[i].get() ? (h[i].get() == &t[0] ? "t0" : "t1") : "null") << "(model " << tgt[i] << ") "; o << "t0=" << t[0] << " t1=" << t[1]; return o.str(); }
};

// ---------------------------------------------------------------- ResetOnCopy / ReinitOnCopy
struct Val {   // ledgered class-type payload for the non-scalar helper specialisations
    int v;
    Val() : v(0) { L.born(this); }
    Val(int x) : v(x) { L.born(this); }
    Val(const Val& s) { L.born(this); if (L.isLive(&s)) v = s.v; else { L.err("copy-from-destroyed-object", &s); v = POISON; } }
    Val(Val&& s) noexcept { L.born(this); if (L.isLive(&s)) { v = s.v; s.v = MOVED; } else { L.err("move-from-destroyed-object", &s); v = POISON; } }
    Val& operator=(const Val& s) { if (!L.isLive(this) || !L.isLive(&s)) { L.err("assign-involving-destroyed-object", this); return *this; } v = s.v; return *this; }
    Val& operator=(Val&& s) noexcept { if (!L.isLive(this) || !L.isLive(&s)) { L.err("assign-involving-destroyed-object", this); return *this; } if (&s != this) { v = s.v; s.v = MOVED; } return *this; }
    ~Val() { L.died(this); }
};
inline int rd(const int& x) { return x; }
inline int rd(const Val& x) { return L.isLive(&x) ? x.v : (L.err("read-of-destroyed-object", &x), POISON); }

template <class T, bool REINIT> struct ResetWorld {
    typedef typename std::conditional<REINIT, SimTK::ReinitOnCopy<T>, SimTK::ResetOnCopy<T> >::type P;
    typedef NoCfg Cfg;
    static const bool scalar = std::is_scalar<T>::value;
    enum Kind { CPA, MVA, CPC, MVC, ASG_T, ASG_TR, WR, WRCONV, CT_T, CT_TR };
    static const char* kindName() { return REINIT ? (scalar ? "ReinitOnCopy<int>" : "ReinitOnCopy<class>") : (scalar ? "ResetOnCopy<int>" : "ResetOnCopy<class>"); }
    static std::vector<OpDesc>& table() {
        static std::vector<OpDesc> t; if (!t.empty()) return t;
        auto s = [](int i) { return std::string("x") + std::to_string(i); };
        for (int i = 0; i < 3; ++i) for (int j = 0; j < 3; ++j) { t.push_back({CPA, i, j, s(i) + "=" + s(j)}); if (i != j || scalar) t.push_back({MVA, i, j, s(i) + "=move(" + s(j) + ")"}); if (i != j) { t.push_back({CPC, i, j, "new(" + s(j) + ")P(" + s(i) + ")"}); t.push_back({MVC, i, j, "new(" + s(j) + ")P(move(" + s(i) + "))"}); } }
        for (int i = 0; i < 3; ++i) { t.push_back({ASG_T, i, 0, s(i) + "=T lvalue"}); t.push_back({ASG_TR, i, 0, s(i) + "=T rvalue"}); t.push_back({WR, i, 0, s(i) + ".updT()=v"}); t.push_back({WRCONV, i, 0, "(T&)" + s(i) + "=v"}); t.push_back({CT_T, i, 0, "new(" + s(i) + ")P(T lvalue)"}); t.push_back({CT_TR, i, 0, "new(" + s(i) + ")P(T rvalue)"}); }
        return t;
    }
    static int nOps() { return (int)table().size(); }
    static const char* opName(int op) { return table()[op].name.c_str(); }
    static const char* opClass(int) { return kindName(); }
    alignas(P) unsigned char buf[3][sizeof(P)];
    P& h(int i) { return *reinterpret_cast<P*>(buf[i]); }
    const P& h(int i) const { return *reinterpret_cast<const P*>(buf[i]); }
    int val[3], init[3]; int next = 1;
    explicit ResetWorld(const Cfg&) { for (int i = 0; i < 3; ++i) { T t0(10 * (i + 1)); new (&h(i)) P(static_cast<const T&>(t0)); val[i] = init[i] = 10 * (i + 1); } }
    ~ResetWorld() { for (int i = 0; i < 3; ++i) h(i).~P(); }
    static int movedFrom(int v) { return scalar ? v : MOVED; }
    bool enabled(int) const { return true; }
    void apply(int op) {
        const OpDesc& d = table()[op]; const int i = d.i, j = d.j;
        try {
        switch (d.kind) {
            case CPA: { P& s = h(j); h(i) = static_cast<const P&>(s); val[i] = REINIT ? init[i] : 0; } break;
            case MVA: { P& s = h(j); h(i) = std::move(s); if (i != j) { val[i] = val[j]; val[j] = movedFrom(val[j]); } } break;
            case CPC: h(j).~P(); new (&h(j)) P(static_cast<const P&>(h(i))); if (REINIT) { val[j] = init[j] = init[i]; } else { val[j] = 0; init[j] = 0; } break;
            case MVC: h(j).~P(); new (&h(j)) P(std::move(h(i))); val[j] = val[i]; init[j] = init[i]; val[i] = movedFrom(val[i]); break;
            case ASG_T: { int x = next++; T tv(x); h(i) = static_cast<const T&>(tv); val[i] = x; } break;
            case ASG_TR: { int x = next++; h(i) = T(x); val[i] = x; } break;
            case WR: { int x = next++; h(i).updT() = T(x); val[i] = x; } break;
            case WRCONV: { int x = next++; T& r = h(i); r = T(x); val[i] = x; } break;
            case CT_T: { int x = next++; T tv(x); h(i).~P(); new (&h(i)) P(static_cast<const T&>(tv)); val[i] = init[i] = x; } break;
            case CT_TR: { int x = next++; h(i).~P(); new (&h(i)) P(T(x)); val[i] = init[i] = x; } break;
        }
        } catch (const std::exception& e) { char key[128]; snprintf(key, sizeof key, "%s/exception", kindName()); failf(key, "%s threw %.200s", opName(op), e.what()); }
        if (L.firstKind[0] && !g_fail.set) { char key[160]; snprintf(key, sizeof key, "%s/ledger/%s", kindName(), L.firstKind); failf(key, "%s: %s", opName(op), L.firstKind); }
    }
    template <class Q> static int reinitOf(const Q& q, std::true_type) { return rd(q.getReinitT()); }
    template <class Q> static int reinitOf(const Q&, std::false_type) { return 0; }
    void check() {
        char k[128];
        for (int i = 0; i < 3 && !g_fail.set; ++i) {
            const P& c = h(i);
            int got = rd(c.getT()); const T& conv = c; int got2 = rd(conv);
            snprintf(k, sizeof k, "%s/value", kindName());
            CHECK(got == val[i] && got2 == val[i], k, "x%d holds %d (via conversion %d), model %d: a copy must %s, a move must carry the value", i, got, got2, val[i], REINIT ? "reinitialise to the remembered initial value" : "reset to the default value");
            if (REINIT) { int ri = reinitOf(c, std::integral_constant<bool, REINIT>()); snprintf(k, sizeof k, "%s/reinit-value", kindName()); CHECK(ri == init[i], k, "x%d remembers initial value %d, model %d", i, ri, init[i]); }
        }
        if (!scalar && !g_fail.set) { snprintf(k, sizeof k, "%s/ledger/live-objects", kindName()); int want = REINIT ? 6 : 3; CHECK((int)L.live.nLive == want, k, "%d payload objects alive, expected %d", (int)L.live.nLive, want); }
        if (L.firstKind[0] && !g_fail.set) { snprintf(k, sizeof k, "%s/ledger/%s/observer", kindName(), L.firstKind); failf(k, "%s", L.firstKind); }
    }
    uint64_t key() const { int f[6]; for (int i = 0; i < 3; ++i) { f[i] = val[i] == init[i]; f[3 + i] = val[i] == MOVED ? 2 : val[i] == 0 ? 1 : 0; } return verif::fnv1a(f, sizeof f); }
    uint64_t outcome() const { return verif::hashMix(verif::fnv1a(val, sizeof val), verif::fnv1a(init, sizeof init)); }
    std::string describe() const { std::ostringstream o; for (int i = 0; i < 3; ++i) o << "x" << i << "=" << rd(h(i).getT()) << "(model " << val[i] << ", init " << init[i] << ") "; return o.str(); }
};
} // namespace ptrw

// ================================================================ crash attribution
// A crash of the code under test (failed assert in the Debug-mode headers, AddressSanitizer report,
// fatal signal) is reported as a violation of the history that was being replayed.
#include <sanitizer/common_interface_defs.h>
#include <signal.h>
static verif::Run* g_run = nullptr;
static const std::vector<int>* g_curHist = nullptr; static int g_curStep = -1;
static const char* (*g_curOpName)(int) = nullptr; static const char* (*g_curOpClass)(int) = nullptr;
static const char* g_curPrefix = ""; static const std::string* g_curWorldP = nullptr; static const std::string* g_curCfgP = nullptr;
static const char* g_deathHow = "asan";
static char g_descBuf[1200]; static bool g_wantDesc = false;
static void onDeath() {
    static bool entered = false; if (entered) _exit(3); entered = true;
    g_trackHeap = false;
    if (!g_run || !g_curHist) _exit(4);
    const std::string g_curWorld = *g_curWorldP, g_curCfg = *g_curCfgP;
    std::string ops, names;
    for (size_t i = 0; i < g_curHist->size(); ++i) { ops += (i ? "," : "") + std::to_string((*g_curHist)[i]); names += std::string(i ? " ; " : "") + g_curOpName((*g_curHist)[i]); }
    int op = g_curStep >= 0 && g_curStep < (int)g_curHist->size() ? (*g_curHist)[g_curStep] : -1;
    std::string key = std::string(g_curPrefix) + "crash/" + g_deathHow + "/" + (op >= 0 ? g_curOpClass(op) : "teardown");
    std::string what = "[" + g_curWorld + " " + g_curCfg + "] the process died (" + g_deathHow + ") in step " + std::to_string(g_curStep) + " of { " + names + " }";
    std::string rp = g_run->replayHeader() + "world=" + g_curWorld + "\nconfig=" + g_curCfg + "\nops=" + ops + "\n# " + names + "\n";
    if (g_run->replaying()) { printf("  ORACLE: key=%s %s\nVIOLATION property=C26 replay=%s\n", key.c_str(), what.c_str(), g_run->replayPath.c_str()); fflush(stdout); _exit(1); }
    g_run->violation(key, what, rp);
    g_run->flushAndExitWorker();
}
static void onSignal(int sig) { g_deathHow = sig == SIGABRT ? "assert-or-abort" : "signal"; onDeath(); }
static void installCrashHandlers(verif::Run& run) {
    g_run = &run;
    __sanitizer_set_death_callback(onDeath);
    struct sigaction sa; memset(&sa, 0, sizeof sa); sa.sa_handler = onSignal; sigaction(SIGABRT, &sa, nullptr); sigaction(SIGFPE, &sa, nullptr);
}

// ================================================================ generic history explorer
template <class W> static const char* keyPrefixOf();

template <class W> struct Explorer {
    verif::Run& run; typename W::Cfg cfg; std::string world, cfgStr;
    std::vector<char> en; uint64_t key = 0, outcome = 0;
    int failStep = -1; long leaves = 0;
    Explorer(verif::Run& r, const std::string& w, const typename W::Cfg& c) : run(r), cfg(c), world(w), cfgStr(c.str()) { en.reserve(W::nOps() + 8); }

    // Replay `hist` on a fresh world; oracle on the last step (earlier steps were judged at the ancestors).
    bool eval(const std::vector<int>& hist, bool verbose) {
        g_fail.clear(); L.reset(); failStep = -1;
        if (g_heapOverflow) { run.harnessError("heap registry overflow"); return false; }
        const int nOps = W::nOps();
        en.assign(nOps, 0);
        const long s0 = g_liveScalar, a0 = g_liveArr;
        g_curHist = &hist; g_curStep = -1; g_curOpName = &W::opName; g_curOpClass = &W::opClass; g_curPrefix = keyPrefixOf<W>(); g_curWorldP = &world; g_curCfgP = &cfgStr;
        g_trackHeap = true;
        {
            W w(cfg);
            if (verbose) printf("  start: %s\n", w.describe().c_str());
            for (size_t i = 0; i < hist.size() && !g_fail.set; ++i) {
                if (!w.enabled(hist[i])) { failf("harness/op-not-enabled", "op %s is not enabled at step %zu", W::opName(hist[i]), i); failStep = (int)i; break; }
                g_curStep = (int)i;
                w.apply(hist[i]);
                if (g_fail.set) failStep = (int)i;
                if (verbose) printf("  step %zu %-34s -> %s\n", i, W::opName(hist[i]), w.describe().c_str());
            }
            if (!g_fail.set) { w.check(); if (g_fail.set) failStep = (int)hist.size() - 1; }
            if (g_wantDesc && !g_fail.set) { snprintf(g_descBuf, sizeof g_descBuf, "%s", w.describe().c_str()); g_wantDesc = false; }
            g_curStep = (int)hist.size();   // teardown
            if (!g_fail.set) { for (int op = 0; op < nOps; ++op) en[op] = w.enabled(op) ? 1 : 0; key = w.key(); outcome = w.outcome(); }
        }
        g_trackHeap = false; g_curHist = nullptr;
        if (!g_fail.set) {
            failStep = (int)hist.size() - 1;
            if (L.firstKind[0]) { char k[128]; snprintf(k, sizeof k, "teardown/ledger/%s", L.firstKind); failf(k, "while destroying the objects after the history: %s", L.firstKind); }
            else if (L.live.nLive != 0) failf("teardown/leaked-objects", "%u element/payload objects were never destroyed", L.live.nLive);
            else if (g_liveArr != a0) failf("teardown/leaked-buffers", "%ld array buffers were never freed", g_liveArr - a0);
            else if (g_liveScalar != s0) failf("teardown/leaked-heap-blocks", "%ld heap blocks were never freed", g_liveScalar - s0);
        }
        if (L.live.nLive) L.live.clear();
        return !g_fail.set;
    }
    std::string histStr(const std::vector<int>& h) const { std::string s; for (size_t i = 0; i < h.size(); ++i) s += (i ? "," : "") + std::to_string(h[i]); return s; }
    std::string histNames(const std::vector<int>& h) const { std::string s; for (size_t i = 0; i < h.size(); ++i) s += std::string(i ? " ; " : "") + W::opName(h[i]); return s; }
    void report(const std::vector<int>& hist) {
        if (!strncmp(g_fail.key, "harness/", 8) || (failStep >= 0 && failStep + 1 < (int)hist.size())) {
            run.harnessError("non-deterministic replay or harness fault in world " + world + " [" + cfg.str() + "] ops " + histNames(hist) + ": " + g_fail.key + " " + g_fail.what);
            return;
        }
        std::string keyp = std::string(keyPrefixOf<W>()) + g_fail.key;
        std::string rp = run.replayHeader() + "world=" + world + "\nconfig=" + cfg.str() + "\nops=" + histStr(hist) + "\n# " + histNames(hist) + "\n";
        run.violation(keyp, "[" + world + " " + cfg.str() + "] after { " + histNames(hist) + " }: " + g_fail.what, rp);
    }
    void visit(const std::vector<int>& hist, bool ok) {
        run.evaluationDistinct(!hist.empty());
        run.transition(1);
        if (ok) { run.outcome(outcome); run.state(verif::hashMix(verif::hashStr(world), key)); }
    }
    // plain enumeration: every history of length <= depth (children only of histories that passed)
    void dfs(std::vector<int>& hist, int depth) {
        if (run.expired()) return;
        const bool sampleIt = (int)hist.size() == depth && (++leaves % 20011) == 1;
        g_wantDesc = sampleIt;
        bool ok = eval(hist, false);
        visit(hist, ok);
        if (sampleIt && ok) run.sample(world + " [" + cfgStr + "] { " + histNames(hist) + " } -> " + g_descBuf);
        if (!ok) { report(hist); run.count("histories_failed"); return; }
        if ((int)hist.size() >= depth) return;
        std::vector<char> mine(en.begin(), en.end());
        for (int op = 0; op < (int)mine.size(); ++op) if (mine[op]) { hist.push_back(op); dfs(hist, depth); hist.pop_back(); }
    }
    // BFS with merging of canonical states, in-process (small worlds)
    void bfsLocal(int maxStates) {
        std::set<uint64_t> seen; std::vector<std::pair<std::vector<int>, std::vector<char> > > frontier, nextf;
        std::vector<int> h; if (!eval(h, false)) { report(h); return; }
        seen.insert(key); frontier.push_back({h, std::vector<char>(en.begin(), en.end())});
        int levels = 0;
        while (!frontier.empty() && (int)seen.size() < maxStates && !run.expired()) {
            nextf.clear();
            for (auto& f : frontier) for (int op = 0; op < (int)f.second.size(); ++op) if (f.second[op]) {
                std::vector<int> hh = f.first; hh.push_back(op);
                bool ok = eval(hh, false); visit(hh, ok); run.count("merged_transitions:" + world);
                if (!ok) { report(hh); continue; }
                if (seen.insert(key).second) nextf.push_back({hh, std::vector<char>(en.begin(), en.end())});
            }
            frontier.swap(nextf); ++levels;
        }
        run.count("merged_states:" + world, (int64_t)seen.size());
        run.count("merged_levels:" + world, levels);
        if (!frontier.empty()) run.count("merged_fixpoint_not_reached:" + world);
    }
};

template <> const char* keyPrefixOf<ptrw::CloneWorld<false> >() { return ""; }
template <> const char* keyPrefixOf<ptrw::CloneWorld<true> >() { return ""; }
template <> const char* keyPrefixOf<ptrw::RefWorld>() { return ""; }
template <> const char* keyPrefixOf<ptrw::ResetWorld<int, false> >() { return ""; }
template <> const char* keyPrefixOf<ptrw::ResetWorld<ptrw::Val, false> >() { return ""; }
template <> const char* keyPrefixOf<ptrw::ResetWorld<int, true> >() { return ""; }
template <> const char* keyPrefixOf<ptrw::ResetWorld<ptrw::Val, true> >() { return ""; }
template <class W> const char* keyPrefixOf() { return "Array_/"; }

// ---------------------------------------------------------------- type-erased jobs
struct Job {
    std::string world, cfgStr; int nOps = 0, depth = 0; bool merged = false; int mergedMax = 0;
    std::function<void(verif::Run&, int firstOp)> plain;                       // firstOp = -1: the root only
    std::function<void(verif::Run&)> mergedLocal;
    std::function<int(verif::Run&, const std::vector<int>&)> replay;           // returns exit code
    // level-synchronous merged BFS support (arrays)
    std::function<bool(verif::Run&, const std::vector<int>&, std::vector<char>&, uint64_t&)> evalOne;
};
template <class W> static Job makeJob(const std::string& world, const typename W::Cfg& cfg, int depth) {
    Job j; j.world = world; j.cfgStr = cfg.str(); j.nOps = W::nOps(); j.depth = depth;
    j.plain = [world, cfg, depth](verif::Run& run, int firstOp) {
        Explorer<W> ex(run, world, cfg); std::vector<int> h;
        if (firstOp < 0) { bool ok = ex.eval(h, false); ex.visit(h, ok); if (!ok) ex.report(h); return; }
        if (depth < 1) return;
        if (!ex.eval(h, false)) return;           // root failure is reported by the root item
        if (!ex.en[firstOp]) return;
        h.push_back(firstOp); ex.dfs(h, depth);
    };
    j.mergedLocal = [world, cfg](verif::Run& run) { Explorer<W> ex(run, world, cfg); ex.bfsLocal(100000); };
    j.replay = [world, cfg](verif::Run& run, const std::vector<int>& h) {
        Explorer<W> ex(run, world, cfg);
        printf("replay world=%s config=%s\n", world.c_str(), cfg.str().c_str());
        bool ok1 = ex.eval(h, true); std::string k1 = g_fail.key, w1 = g_fail.what;
        bool ok2 = ex.eval(h, false); std::string k2 = g_fail.key;
        if (ok1 != ok2 || k1 != k2) { printf("replay is not deterministic (%s vs %s)\n", k1.c_str(), k2.c_str()); return 2; }
        if (!ok1) { printf("  ORACLE: key=%s%s %s\nVIOLATION property=C26 replay=%s\n", keyPrefixOf<W>(), k1.c_str(), w1.c_str(), run.replayPath.c_str()); return 1; }
        printf("history holds\n"); return 0;
    };
    j.evalOne = [world, cfg](verif::Run& run, const std::vector<int>& h, std::vector<char>& en, uint64_t& key) {
        Explorer<W> ex(run, world, cfg); bool ok = ex.eval(h, false); ex.visit(h, ok);
        if (!ok) { ex.report(h); return false; }
        en.assign(ex.en.begin(), ex.en.end()); key = ex.key; return true;
    };
    return j;
}
static Job arrayJob(const arr::Config& c) {
    std::string w = "array";
    if (c.tkind == 0 && c.xkind == 0) return makeJob<arr::World<Counted, unsigned> >(w, c, c.depth);
    if (c.tkind == 0 && c.xkind == 1) return makeJob<arr::World<Counted, int> >(w, c, c.depth);
    if (c.tkind == 0 && c.xkind == 2) return makeJob<arr::World<Counted, unsigned char> >(w, c, c.depth);
    if (c.tkind == 1) return makeJob<arr::World<int, unsigned> >(w, c, c.depth);
    return makeJob<arr::World<MoveOnly, unsigned> >(w, c, c.depth);
}
static Job ptrJob(const std::string& w, int depth) {
    ptrw::NoCfg c;
    if (w == "ClonePtr") return makeJob<ptrw::CloneWorld<false> >(w, c, depth);
    if (w == "CloneOnWritePtr") return makeJob<ptrw::CloneWorld<true> >(w, c, depth);
    if (w == "ReferencePtr") return makeJob<ptrw::RefWorld>(w, c, depth);
    if (w == "ResetOnCopy<int>") return makeJob<ptrw::ResetWorld<int, false> >(w, c, depth);
    if (w == "ResetOnCopy<class>") return makeJob<ptrw::ResetWorld<ptrw::Val, false> >(w, c, depth);
    if (w == "ReinitOnCopy<int>") return makeJob<ptrw::ResetWorld<int, true> >(w, c, depth);
    return makeJob<ptrw::ResetWorld<ptrw::Val, true> >(w, c, depth);
}

// level-synchronous BFS with merging, frontier sharded over the workers; successors come back through files
static void mergedBfsParallel(verif::Run& run, const Job& job, const std::string& tag) {
    typedef std::pair<std::vector<int>, std::vector<char> > Entry;
    std::set<uint64_t> seen; std::vector<Entry> frontier;
    { std::vector<char> en; uint64_t key = 0; std::vector<int> h; if (!job.evalOne(run, h, en, key)) return; seen.insert(key); frontier.push_back({h, en}); }
    const int CH = 16; int level = 0;
    while (!frontier.empty() && !run.expired()) {
        int64_t nch = ((int64_t)frontier.size() + CH - 1) / CH;
        std::string base = run.buildDir + "/tmp/C26." + tag + "." + std::to_string(getpid()) + ".L" + std::to_string(level) + ".";
        run.parallel("merged-" + tag + "-L" + std::to_string(level), nch, [&](int64_t c) {
            FILE* o = fopen((base + std::to_string(c)).c_str(), "w"); if (!o) { run.harnessError("cannot write BFS chunk file"); return; }
            std::vector<char> en; uint64_t key;
            for (size_t e = (size_t)c * CH; e < frontier.size() && e < (size_t)(c + 1) * CH; ++e) for (int op = 0; op < (int)frontier[e].second.size(); ++op) if (frontier[e].second[op]) {
                std::vector<int> hh = frontier[e].first; hh.push_back(op);
                if (!job.evalOne(run, hh, en, key)) continue;
                fprintf(o, "%llx ", (unsigned long long)key);
                for (size_t i = 0; i < hh.size(); ++i) fprintf(o, "%s%d", i ? "," : "", hh[i]);
                fputc(' ', o); for (char b : en) fputc(b ? '1' : '0', o); fputc('\n', o);
            }
            fclose(o);
        });
        std::vector<Entry> nextf; int64_t trans = 0;
        for (int64_t c = 0; c < nch; ++c) {
            std::string fn = base + std::to_string(c); std::ifstream in(fn); std::string ks, hs, es;
            while (in >> ks >> hs >> es) {
                ++trans; uint64_t key = strtoull(ks.c_str(), nullptr, 16);
                if (!seen.insert(key).second) continue;
                Entry en; std::istringstream is(hs); std::string t; while (std::getline(is, t, ',')) en.first.push_back(atoi(t.c_str()));
                for (char ch : es) en.second.push_back(ch == '1');
                nextf.push_back(en);
            }
            in.close(); unlink(fn.c_str());
        }
        run.count("merged_transitions:" + tag, trans);
        frontier.swap(nextf); ++level;
    }
    run.count("merged_states:" + tag, (int64_t)seen.size());
    run.count("merged_levels:" + tag, level);
    if (!frontier.empty()) run.count("merged_fixpoint_not_reached:" + tag);
}

int main(int argc, char** argv) {
    verif::Run run("C26", argc, argv);
    installCrashHandlers(run);
    run.setDeadline(480, 2700);
    run.maxSamples = 12;
    const bool th = run.thorough();
    run.rule = "E2: a case = one operation history (sequence of operation indices from the world's alphabet, each enabled in the state it is applied to) replayed on fresh real objects; plain sections enumerate every history up to the stated depth (children only of histories that held); merged sections run BFS to a fixpoint over canonical value-free states (ownership, size, capacity / sharing partition) under a size bound; distinct = distinct history (DFS/BFS never repeats one); non-trivial = at least one operation";
    run.assumptions = {"header code compiled in Debug mode (SimTK_ERRCHK and assert active), -O1, AddressSanitizer; the Release (NDEBUG) instantiation runs the same data-movement code without the checks",
                       "only operations whose preconditions the documentation states are satisfied are generated (no overlapping source ranges, no size change of non-owner arrays), except aliasing of a value argument with an element of the same array, which std::vector supports and the documentation does not exclude",
                       "element type behaviour is parametric: values are fresh integers, behaviour of the containers cannot depend on them (this justifies merging value-free canonical states)",
                       "single-threaded use"};
    // ---------------- job list
    std::vector<Job> plain; std::vector<std::pair<Job, std::string> > merged;
    auto A = [&](int t, int x, int seed, int alpha, int depth, int smax = 12, int cmax = 26) { arr::Config c; c.tkind = t; c.xkind = x; c.seed = seed; c.alpha = alpha; c.depth = depth; c.smax = smax; c.cmax = cmax; plain.push_back(arrayJob(c)); };
    const char* ptrWorlds[] = {"ClonePtr", "CloneOnWritePtr", "ReferencePtr", "ResetOnCopy<int>", "ResetOnCopy<class>", "ReinitOnCopy<int>", "ReinitOnCopy<class>"};
    // alphabets: 0 full (~95 ops), 1 core (~42 incl. aliasing), 2 small core (14), 3 max_size edge (~25)
    if (!th) {
        for (int s : {0, 2}) A(0, 0, s, 0, 3);                                      // Counted/unsigned, full alphabet
        for (int s : {1, 3, 4, 6}) A(0, 0, s, 0, 2);
        for (int s : {3, 6}) A(0, 0, s, 1, 3);
        A(0, 0, 5, 1, 3, 20, 40);                                                   // 16/16: the 16->32 growth
        A(0, 0, 0, 2, 5); A(0, 0, 2, 2, 4);                                         // small alphabet, deepest (reaches the 4->8 growth from empty)
        for (int s : {0, 2, 4}) A(0, 1, s, 0, 2);                                   // signed index type
        A(0, 1, 3, 1, 3);
        for (int s : {0, 2}) A(0, 2, s, 0, 2);                                      // unsigned char index
        for (int s : {10, 11, 12, 13, 14, 15, 16}) A(0, 2, s, 3, 2, 258, 255);      // the max_size()==255 edge
        for (int s : {0, 2}) A(1, 0, s, 0, 2);                                      // int elements (ASan only)
        A(1, 0, 0, 1, 3);
        A(2, 0, 0, 0, 3); A(2, 0, 2, 0, 2);                                         // move-only elements
        for (const char* w : ptrWorlds) plain.push_back(ptrJob(w, (std::string(w) == "ClonePtr" || std::string(w) == "CloneOnWritePtr") ? 3 : 2));   // the small worlds are settled by the merged fixpoint search
        { arr::Config c; c.alpha = 1; c.smax = 9; c.cmax = 17; merged.push_back({arrayJob(c), "array-unsigned"}); }
    } else {
        // Sized to finish inside the budget on a heavily shared machine (13 M histories). Run once to completion with larger bounds
        // (all clean apart from the known findings, numbers in notes/C26.md): full alphabet depth 4 from the empty array (19.6 M histories),
        // core alphabet depth 4 from seeds 0,2,3,6 and 16/16, move-only depth 4, CloneOnWritePtr depth 4 (34.2 M), merged search with sizes <= 17.
        for (int s : {0, 1, 2, 3, 4, 6}) A(0, 0, s, 0, 3);
        for (int s : {0, 2}) A(0, 0, s, 1, 4);
        A(0, 0, 5, 1, 3, 20, 40);
        A(0, 0, 0, 2, 6); A(0, 0, 2, 2, 5);
        for (int s : {0, 2, 4}) A(0, 1, s, 0, 3);
        A(0, 1, 3, 1, 3);
        for (int s : {0, 2}) A(0, 2, s, 0, 3);
        for (int s : {10, 11, 12, 13, 14, 15, 16}) A(0, 2, s, 3, 3, 258, 255);
        for (int s : {0, 2}) A(1, 0, s, 0, 3);
        A(1, 0, 0, 1, 4);
        A(2, 0, 0, 0, 3); A(2, 0, 2, 0, 3);
        for (const char* w : ptrWorlds) plain.push_back(ptrJob(w, 3));
        { arr::Config c; c.alpha = 0; c.smax = 9; c.cmax = 17; merged.push_back({arrayJob(c), "array-unsigned"}); }
        { arr::Config c; c.alpha = 1; c.smax = 11; c.cmax = 22; merged.push_back({arrayJob(c), "array-unsigned-deep"}); }
    }
    // diagnostic filter (never exhaustive): --only <substring of "world [config]" or of a merged tag>
    for (size_t i = 0; i + 1 < run.extra.size(); ++i) if (run.extra[i] == "--only") {
        const std::string f = run.extra[i + 1]; run.exhaustive = false;
        std::vector<Job> p2; for (auto& j : plain) if ((j.world + " [" + j.cfgStr + "]").find(f) != std::string::npos) p2.push_back(j); plain.swap(p2);
        std::vector<std::pair<Job, std::string> > m2; for (auto& m : merged) if (m.second.find(f) != std::string::npos) m2.push_back(m); merged.swap(m2);
    }

    // ---------------- replay of one recorded history
    if (run.replaying()) {
        std::string w = run.replayField("world"), cs = run.replayField("config"), os = run.replayField("ops");
        std::vector<int> h; { std::istringstream is(os); std::string t; while (std::getline(is, t, ',')) if (!t.empty()) h.push_back(atoi(t.c_str())); }
        Job j = w == "array" ? arrayJob(arr::Config::parse(cs)) : ptrJob(w, 0);
        return j.replay(run, h);
    }

    // ---------------- merged BFS: pointer worlds in-process (tiny state spaces), arrays level-synchronous
    run.parallel("merged-ptr", 7, [&](int64_t i) { Job j = ptrJob(ptrWorlds[i], 0); j.mergedLocal(run); });
    for (auto& m : merged) mergedBfsParallel(run, m.first, m.second);

    // ---------------- plain enumeration
    struct Item { int job, first; };
    std::vector<Item> items;
    { size_t maxOps = 0; for (auto& j : plain) maxOps = std::max<size_t>(maxOps, j.nOps);
      for (int f = -1; f < (int)maxOps; ++f) for (size_t k = 0; k < plain.size(); ++k) if (f < plain[k].nOps) items.push_back({(int)k, f}); }
    run.parallel("plain", (int64_t)items.size(), [&](int64_t i) {
        const Item& it = items[i]; const Job& j = plain[it.job];
        int64_t e0 = run.acc.evaluations;
        j.plain(run, it.first);
        run.count("histories:" + j.world, run.acc.evaluations - e0);
        run.count("job:" + j.world + " [" + j.cfgStr + "] depth " + std::to_string(j.depth), run.acc.evaluations - e0);
    });
    run.extraCoverage["plain_jobs"] = std::to_string(plain.size());
    run.extraCoverage["ledger_overflow"] = g_heapOverflow ? "true" : "false";
    if (g_heapOverflow) run.harnessError("heap registry overflow");
    return run.finish();
}
