// C35 -- Collision detection reports exactly the overlapping pairs.
// Engine E3 (enum): every registered CollisionDetectionAlgorithm pair and every default ContactTracker (plus the
// HalfSpaceConvexImplicit tracker) x size sets x relative poses (26 lattice directions x 6 signed gaps around first
// contact x 24 cube orientations + 1 generic) is run on the real narrow-phase code, in both argument orders where the
// API accepts both, and under 3 common rigid motions.  Oracle: exact closed forms (half space / sphere / brick /
// ellipsoid support function), an independent point-to-ellipsoid bisection solver and a sign-exact ellipsoid-ellipsoid
// overlap test, brute force over all faces for meshes (engine/geomkit.h).
#include "Simbody.h"
#include "verif.h"
#include "geomkit.h"

#include <csetjmp>
#include <csignal>
#include <memory>

using namespace SimTK;
using gk::s3; using gk::sd;

enum Kind { HS, SPH, ELL, BRK, MESH };
static const char* kindName(Kind k) { static const char* n[] = {"HalfSpace", "Sphere", "Ellipsoid", "Brick", "Mesh"}; return n[k]; }

struct Obj {
    Kind kind = SPH; Vec3 dims = Vec3(1);       // sphere: dims[0]=r; ellipsoid radii; brick half lengths
    gk::RefMesh mesh; std::string meshName;
    std::shared_ptr<ContactGeometry> g;
    double size = 1;
    // support function of the solid in direction d (object frame); HS has none
    double support(const Vec3& d) const {
        if (kind == SPH) return dims[0] * d.norm();
        if (kind == ELL) return std::sqrt(square(dims[0] * d[0]) + square(dims[1] * d[1]) + square(dims[2] * d[2]));
        if (kind == BRK) return dims[0] * std::abs(d[0]) + dims[1] * std::abs(d[1]) + dims[2] * std::abs(d[2]);
        double b = -INFINITY; for (auto& v : mesh.v) b = std::max(b, dot(v, d)); return b;
    }
};
static Obj makeObj(Kind k, int variant, double s) {
    Obj o; o.kind = k;
    if (k == HS) { o.g.reset(new ContactGeometry::HalfSpace()); o.size = s; }
    else if (k == SPH) { o.dims = Vec3((variant ? 0.7 : 1.3) * s); o.g.reset(new ContactGeometry::Sphere(o.dims[0])); o.size = o.dims[0]; }
    else if (k == ELL) { o.dims = (variant ? Vec3(0.9, 1.6, 0.6) : Vec3(1.2, 0.8, 1.9)) * s; o.g.reset(new ContactGeometry::Ellipsoid(o.dims)); o.size = min(o.dims); }
    else if (k == BRK) { o.dims = (variant ? Vec3(0.8, 0.8, 0.8) : Vec3(0.6, 1.1, 1.7)) * s; o.g.reset(new ContactGeometry::Brick(o.dims)); o.size = min(o.dims); }
    else {
        o.mesh = variant == 0 ? gk::octahedron(1.2 * s) : variant == 1 ? gk::boxMesh(Vec3(0.7, 1.0, 1.3) * s) : variant == 2 ? gk::icosphere(0, 1.1 * s) : gk::tetrahedron(0.8 * s);
        o.meshName = o.mesh.name;
        Array_<Vec3> verts; Array_<int> faces; for (auto& v : o.mesh.v) verts.push_back(v); for (auto& f : o.mesh.f) for (int j = 0; j < 3; ++j) faces.push_back(f[j]);
        o.g.reset(new ContactGeometry::TriangleMesh(verts, faces));
        double r = INFINITY; for (auto& f : o.mesh.f) { Vec3 n = (o.mesh.v[f[1]] - o.mesh.v[f[0]]) % (o.mesh.v[f[2]] - o.mesh.v[f[0]]); r = std::min(r, dot(n, o.mesh.v[f[0]]) / n.norm()); }
        o.size = r;   // inradius
    }
    return o;
}

// ---- a pair case: which API, which object kinds (in the order the API requires)
struct PairCase { std::string api, name; Kind k1, k2; int v1, v2; bool swappable; };
static std::vector<PairCase> pairCases(bool thorough) {
    std::vector<PairCase> p;
    auto add = [&](const std::string& api, Kind a, Kind b, int v1, int v2) { p.push_back({api, api + ":" + kindName(a) + "-" + kindName(b) + "/" + std::to_string(v1) + std::to_string(v2), a, b, v1, v2, a == b}); };
    for (const char* api : {"cda", "trk"}) {
        add(api, HS, SPH, 0, 0); add(api, SPH, SPH, 0, 1); add(api, HS, ELL, 0, 0);
        if (std::string(api) == "cda") { add(api, ELL, SPH, 0, 1); } else { add(api, SPH, ELL, 1, 0); add(api, HS, BRK, 0, 0); add("trk-hsci", HS, ELL, 0, 1); add("trk-hsci", HS, SPH, 0, 0); }
        add(api, ELL, ELL, 0, 1);
        add(api, HS, MESH, 0, 0); add(api, HS, MESH, 0, 1); add(api, SPH, MESH, 1, 0); add(api, SPH, MESH, 0, 2);
        add(api, MESH, MESH, 0, 1); add(api, MESH, MESH, 3, 2);
        if (thorough) { add(api, SPH, SPH, 1, 1); add(api, HS, ELL, 0, 1); add(api, ELL, ELL, 1, 1); add(api, HS, MESH, 0, 3); add(api, SPH, MESH, 0, 1); add(api, MESH, MESH, 0, 0); add(api, MESH, MESH, 1, 3);
                        if (std::string(api) == "trk") add(api, HS, BRK, 0, 1); }
    }
    return p;
}

// ---- unified view of whatever the library returned, in the ground frame
struct Res {
    bool ok = true, contact = false; std::string type = "none";
    double depth = NaN; Vec3 normal = Vec3(NaN), point = Vec3(NaN);   // normal from surface 1 towards surface 2
    std::set<int> f1, f2; int lowestVertex = -1; int nContacts = 0;
};
static Res fromContact(const Contact& c, const Transform& X_G1) {
    Res r; if (c.isEmpty()) return r;
    r.nContacts = 1;
    if (PointContact::isInstance(c)) { const PointContact& p = static_cast<const PointContact&>(c); r.contact = true; r.type = "PointContact"; r.depth = p.getDepth(); r.normal = p.getNormal(); r.point = p.getLocation(); }
    else if (CircularPointContact::isInstance(c)) { const CircularPointContact& p = CircularPointContact::getAs(c); r.contact = true; r.type = "CircularPointContact"; r.depth = p.getDepth(); r.normal = X_G1.R() * Vec3(p.getNormal()); r.point = X_G1 * p.getOrigin(); }
    else if (EllipticalPointContact::isInstance(c)) { const EllipticalPointContact& p = EllipticalPointContact::getAs(c); r.contact = true; r.type = "EllipticalPointContact"; r.depth = p.getDepth(); r.normal = X_G1.R() * Vec3(p.getContactFrame().R().z()); r.point = X_G1 * p.getContactFrame().p(); }
    else if (BrickHalfSpaceContact::isInstance(c)) { const BrickHalfSpaceContact& p = BrickHalfSpaceContact::getAs(c); r.contact = true; r.type = "BrickHalfSpaceContact"; r.depth = p.getDepth(); r.lowestVertex = p.getLowestVertex(); }
    else if (TriangleMeshContact::isInstance(c)) { const TriangleMeshContact& p = TriangleMeshContact::getAs(c); r.contact = true; r.type = "TriangleMeshContact"; r.f1 = p.getSurface1Faces(); r.f2 = p.getSurface2Faces(); }
    else if (BrokenContact::isInstance(c)) { r.type = "BrokenContact"; }
    else r.type = "other";
    return r;
}

static sigjmp_buf g_jmp; static volatile sig_atomic_t g_armed = 0;
static void onAlarm(int) { if (g_armed) siglongjmp(g_jmp, 1); }

static Res callLibrary(const PairCase& P, const Obj& A, const Transform& X1, const Obj& B, const Transform& X2, bool& hung) {
    Res r; hung = false;
    g_armed = 1;
    if (sigsetjmp(g_jmp, 1)) { g_armed = 0; alarm(0); hung = true; r.ok = false; return r; }
    alarm(20);
    if (P.api == "cda") {
        CollisionDetectionAlgorithm* alg = CollisionDetectionAlgorithm::getAlgorithm(A.g->getTypeId(), B.g->getTypeId());
        if (!alg) { r.ok = false; r.type = "no-algorithm"; }
        else {
            Array_<Contact> contacts; alg->processObjects(ContactSurfaceIndex(0), *A.g, X1, ContactSurfaceIndex(1), *B.g, X2, contacts);
            if (!contacts.empty()) r = fromContact(contacts[0], X1);
            r.nContacts = (int)contacts.size();
        }
    } else {
        std::unique_ptr<ContactTracker> t;
        if (P.api == "trk-hsci") t.reset(new ContactTracker::HalfSpaceConvexImplicit(B.g->getTypeId()));
        else if (A.kind == HS && B.kind == SPH) t.reset(new ContactTracker::HalfSpaceSphere());
        else if (A.kind == SPH && B.kind == SPH) t.reset(new ContactTracker::SphereSphere());
        else if (A.kind == HS && B.kind == ELL) t.reset(new ContactTracker::HalfSpaceEllipsoid());
        else if (A.kind == HS && B.kind == BRK) t.reset(new ContactTracker::HalfSpaceBrick());
        else if (A.kind == HS && B.kind == MESH) t.reset(new ContactTracker::HalfSpaceTriangleMesh());
        else if (A.kind == SPH && B.kind == MESH) t.reset(new ContactTracker::SphereTriangleMesh());
        else if (A.kind == MESH && B.kind == MESH) t.reset(new ContactTracker::TriangleMeshTriangleMesh());
        else t.reset(new ContactTracker::ConvexImplicitPair(A.g->getTypeId(), B.g->getTypeId()));
        Contact cur; UntrackedContact prior(ContactSurfaceIndex(0), ContactSurfaceIndex(1));
        bool ok = t->trackContact(prior, X1, *A.g, X2, *B.g, 0, cur);
        r = fromContact(cur, X1); r.ok = ok;
        if (!cur.isEmpty() && r.contact) {   // documented: the Contact records X_S1S2
            Transform X12 = ~X1 * X2; const Transform& got = cur.getTransform();
            if ((got.p() - X12.p()).norm() > 1e-12 * (1 + X12.p().norm()) || (got.R().asMat33() - X12.R().asMat33()).norm() > 1e-12) r.type += "+bad-X_S1S2";
        }
    }
    alarm(0); g_armed = 0;
    return r;
}

// ---- reference: does the pair overlap at this relative pose, and what is the exact contact
struct Ref { int overlap = -1; /* 1 yes, 0 no, -1 unspecified */ bool hasPoint = false; double depth = NaN; Vec3 normal = Vec3(NaN), point = Vec3(NaN);
             bool hasFaces = false; std::set<int> f1yes, f1maybe, f2yes, f2maybe; int lowestVertex = -1; bool lowestUnique = false; bool degenerate = false; };

static Vec3 objVertex(const Obj& o, int i) { return o.mesh.v[i]; }
static double meshDist(const gk::RefMesh& m, const Vec3& q) { double b = INFINITY; Vec3 cp; for (auto& f : m.f) b = std::min(b, gk::closestPtTriangle(q, m.v[f[0]], m.v[f[1]], m.v[f[2]], cp)); return std::sqrt(b); }
static double winding(const gk::RefMesh& m, const Vec3& q) {
    double sum = 0;
    for (auto& f : m.f) { Vec3 a = m.v[f[0]] - q, b = m.v[f[1]] - q, c = m.v[f[2]] - q; double la = a.norm(), lb = b.norm(), lc = c.norm();
        sum += 2 * std::atan2(dot(a, b % c), la * lb * lc + dot(a, b) * lc + dot(a, c) * lb + dot(b, c) * la); }
    return sum / (4 * Pi);
}

// Signed clearance used to place object B along direction dhat at parameter t (B's origin at t*dhat, orientation R2, object A at the
// origin with identity orientation; for a half space A the frame is rotated so that its outward normal is dhat).  Sign-exact:
// clearance < 0 <=> the solids overlap.  For pairs with a closed form it is the true Euclidean gap.
static double clearance(const Obj& A, const Obj& B, const Mat33& R2, const Vec3& dhat, double t, bool& euclidean) {
    euclidean = true;
    if (A.kind == HS) return t - B.support(R2.transpose() * (-dhat));            // lowest point of B above the plane through the origin
    const Vec3 c = t * dhat;
    if (A.kind == SPH && B.kind == SPH) return t - A.dims[0] - B.dims[0];
    if ((A.kind == SPH && B.kind == ELL) || (A.kind == ELL && B.kind == SPH)) {
        const Obj& E = A.kind == ELL ? A : B; const Obj& S = A.kind == SPH ? A : B;
        Vec3 y = A.kind == ELL ? c : Vec3(R2.transpose() * (-c));                // sphere centre in the ellipsoid frame
        double lvl = square(y[0] / E.dims[0]) + square(y[1] / E.dims[1]) + square(y[2] / E.dims[2]);
        if (lvl <= 1) { euclidean = false; return -S.dims[0] - 1; }
        Vec3 x; return gk::distOutsidePointToEllipsoid(E.dims, y, x) - S.dims[0];
    }
    if (A.kind == ELL && B.kind == ELL) { euclidean = false; return gk::ellipsoidOverlapMargin(A.dims, B.dims, R2, c); }
    if (A.kind == SPH && B.kind == MESH) {
        Vec3 q = R2.transpose() * (-c);                                          // sphere centre in the mesh frame
        if (winding(B.mesh, q) > 0.5) { euclidean = false; return -A.dims[0] - meshDist(B.mesh, q); }
        return meshDist(B.mesh, q) - A.dims[0];
    }
    // mesh - mesh: sign only, from brute-force triangle tests and vertex containment
    euclidean = false;
    const double L = A.size + B.size, eps = 1e-12 * L * L * L;
    std::vector<Vec3> vb; for (auto& v : B.mesh.v) vb.push_back(R2 * v + c);
    bool touching = false;
    for (auto& fa : A.mesh.f) for (auto& fb : B.mesh.f) {
        Vec3 ta[3] = {A.mesh.v[fa[0]], A.mesh.v[fa[1]], A.mesh.v[fa[2]]}, tb[3] = {vb[fb[0]], vb[fb[1]], vb[fb[2]]};
        int r = gk::triTri(ta, tb, eps, 1e-9 * L); if (r == 1) return -1; if (r < 0) touching = true;
    }
    for (auto& v : vb) if (winding(A.mesh, v) > 0.5 && meshDist(A.mesh, v) > 1e-9 * L) return -1;
    for (auto& v : A.mesh.v) { Vec3 q = R2.transpose() * (v - c); if (winding(B.mesh, q) > 0.5 && meshDist(B.mesh, q) > 1e-9 * L) return -1; }
    return touching ? -1e-300 : 1;
}

int main(int argc, char** argv) {
    verif::Run run("C35", argc, argv);
    run.setDeadline(400, 2700);
    const bool thorough = run.thorough();
    const long seed = run.seed;
    signal(SIGALRM, onAlarm);
    run.rule = "E3: (8 registered CollisionDetectionAlgorithm pairs + 9 default ContactTrackers + HalfSpaceConvexImplicit) with 2-3 shape variants each x "
               "26 lattice directions of approach x 6 signed gaps {-.3,-.01,-1e-6,+1e-6,+.01,+.3}*size around first contact x 24 cube orientations + 1 generic "
               "orientation of the second object; each pose also under 3 common rigid motions and, for same-type pairs, with the arguments swapped; "
               "a case = (pair, direction, gap, orientation); non-trivial = the reference overlap decision is definite";
    run.assumptions = {"first contact along the approach direction is located by bisection on an exact (sign-exact for ellipsoid/mesh pairs) clearance function; for convex solids overlap along the approach is an interval, so the sign of the gap decides overlap",
                       "sizes come from 3 fixed value sets selected by VERIF_SEED (thorough: more shape variants)",
                       "mesh face sets are three-valued: faces within 1e-9*size of the other surface are not compared",
                       "ellipsoid-ellipsoid depth has no closed form: the returned contact is checked against the contact conditions (points on both surfaces, opposite normals, depth = point separation) and 0 < depth <= directional gap",
                       "deep configurations where one object's centre is inside the other are outside the enumerated gaps"};
    static const double sf[3] = {1.0, 0.43, 2.6}; const double S = sf[((seed % 3) + 3) % 3];
    const std::vector<PairCase> pairs = pairCases(thorough);
    std::vector<Vec3> dirs = gk::dirs26(); if (thorough) { dirs.push_back(Vec3(0.31, -0.77, 0.52)); dirs.push_back(Vec3(-0.9, 0.13, 0.41)); }
    std::vector<Mat33> rots = gk::cubeRotations24(); rots.push_back(gk::genericRotation(0)); if (thorough) { rots.push_back(gk::genericRotation(1)); rots.push_back(gk::genericRotation(2)); }
    const double gaps[6] = {-0.3, -0.01, -1e-6, 1e-6, 0.01, 0.3};
    std::vector<Transform> motions;
    for (int k = 0; k < 3; ++k) { Mat33 M = gk::genericRotation(k); Rotation R; R.setRotationFromApproximateMat33(M); motions.push_back(Transform(R, Vec3(1.7, -0.9, 2.3) * double(k + 1) * S)); }

    verif::Odometer od; od.dim("gap", 6); od.dim("rot", (int64_t)rots.size()); od.dim("dir", (int64_t)dirs.size()); od.dim("pair", (int64_t)pairs.size());

    // self-check of the reference solvers against each other (harness error, not a violation)
    { Vec3 e(1.2, 0.8, 1.9), x; for (Vec3 y : {Vec3(2, 0.3, -1), Vec3(0, 0, 3), Vec3(1.5, 0, 0), Vec3(-0.9, 0.9, 1.9)}) {
          double d = gk::distOutsidePointToEllipsoid(e, y, x); double lvl = square(x[0] / e[0]) + square(x[1] / e[1]) + square(x[2] / e[2]);
          Vec3 g(x[0] / (e[0] * e[0]), x[1] / (e[1] * e[1]), x[2] / (e[2] * e[2])); Vec3 r = y - x;
          if (std::abs(lvl - 1) > 1e-12 || (r % g).norm() > 1e-10 * r.norm() * g.norm() || !(d > 0)) run.harnessError("point-ellipsoid reference solver failed its self-check"); }
      double m1 = gk::ellipsoidOverlapMargin(Vec3(1, 1, 1), Vec3(0.5, 0.5, 0.5), Mat33(1), Vec3(1.6, 0, 0)), m2 = gk::ellipsoidOverlapMargin(Vec3(1, 1, 1), Vec3(0.5, 0.5, 0.5), Mat33(1), Vec3(1.4, 0, 0));
      if (!(std::abs(m1 - 0.1) < 1e-12 && std::abs(m2 + 0.1) < 1e-12)) run.harnessError("ellipsoid overlap reference failed its self-check: " + sd(m1) + " " + sd(m2)); }

    run.parallel("poses", od.size(), [&](int64_t idx) {
        auto dg = od.digits(idx);
        const PairCase& P = pairs[dg[3]]; Vec3 dhat = dirs[dg[2]]; dhat /= dhat.norm(); const Mat33 R2m = rots[dg[1]]; const double g = gaps[dg[0]];
        static std::map<std::string, std::pair<Obj, Obj>> cache;
        if (!cache.count(P.name)) cache[P.name] = {makeObj(P.k1, P.v1, S), makeObj(P.k2, P.v2, S)};
        const Obj& A = cache[P.name].first; const Obj& B = cache[P.name].second;
        const double size = A.kind == HS ? B.size : std::min(A.size, B.size);
        auto where = [&] { return P.name + " " + od.describe(idx) + " dhat=" + s3(dhat) + " gap=" + sd(g) + "*size"; };
        auto rp = [&] { return run.replayHeader() + "pair=" + P.name + "\n" + od.describe(idx) + "\n"; };
        // ---- locate first contact along dhat and place B at the requested gap
        bool eucl = true; double lo = 0, hi = 4 * (A.kind == HS ? 0 : A.support(dhat) + A.size) + 4 * B.support(R2m.transpose() * (-dhat)) + 4 * B.size + 1;
        if (A.kind == HS) lo = -hi;
        for (int it = 0; it < 200; ++it) { double mid = (lo + hi) / 2; if (mid == lo || mid == hi) break; (clearance(A, B, R2m, dhat, mid, eucl) < 0 ? lo : hi) = mid; }
        const double t0 = (lo + hi) / 2, t = t0 + g * size;
        if (!(A.kind == HS) && t < 0.05 * size) { run.count("skipped:centre-too-close"); return; }
        const double clr = clearance(A, B, R2m, dhat, t, eucl);
        Ref ref; ref.overlap = clr < 0 ? (clr > -1e-200 ? -1 : 1) : 0;   // -1e-300 = mesh triangles touch but no definite crossing / containment
        if (ref.overlap < 0) { run.evaluation(verif::hashStr(P.name + od.describe(idx)), false); run.count("unspecified:meshmesh-touching-only"); return; }
        // poses: A at X1 (identity, or for a half space the frame whose -x axis is dhat), B at X2
        Rotation R1; if (A.kind == HS) R1 = Rotation(UnitVec3(-dhat), XAxis); Rotation R2; R2.setRotationFromApproximateMat33(R2m);
        const Transform X1(R1, Vec3(0)), X2(R2, t * dhat);
        const double L = size;
        // ---- exact contact data where closed forms exist
        if (A.kind == HS) {
            ref.normal = dhat;                                              // half space outward normal = from surface 1 to 2
            Vec3 dB = R2m.transpose() * (-dhat);                            // "down" in B's frame
            if (B.kind == SPH) { ref.hasPoint = true; ref.depth = -clr; ref.point = t * dhat - dhat * (B.dims[0] - ref.depth / 2); }
            else if (B.kind == ELL) { ref.hasPoint = true; ref.depth = -clr; double h = B.support(dB); Vec3 q(B.dims[0] * B.dims[0] * dB[0] / h, B.dims[1] * B.dims[1] * dB[1] / h, B.dims[2] * B.dims[2] * dB[2] / h); ref.point = X2 * q + dhat * (ref.depth / 2); }
            else if (B.kind == BRK) { ref.depth = -clr; int bestV = -1, ties = 0; double best = -INFINITY;
                for (int v = 0; v < 8; ++v) { Vec3 p(v & 4 ? B.dims[0] : -B.dims[0], v & 2 ? B.dims[1] : -B.dims[1], v & 1 ? B.dims[2] : -B.dims[2]); double h = dot(p, dB); if (h > best + 1e-12 * L) { best = h; bestV = v; ties = 1; } else if (h > best - 1e-12 * L) ++ties; }
                ref.lowestVertex = bestV; ref.lowestUnique = ties == 1; }
            else if (B.kind == MESH) { ref.hasFaces = true;
                for (int f = 0; f < (int)B.mesh.f.size(); ++f) { double deepest = -INFINITY; for (int j = 0; j < 3; ++j) deepest = std::max(deepest, -dot(X2 * B.mesh.v[B.mesh.f[f][j]], dhat));
                    if (deepest > 1e-9 * L) ref.f2yes.insert(f); else if (deepest > -1e-9 * L) ref.f2maybe.insert(f); } }
        } else if (A.kind == SPH && B.kind == SPH) { ref.hasPoint = true; ref.depth = -clr; ref.normal = dhat; ref.point = dhat * (A.dims[0] - ref.depth / 2); }
        else if ((A.kind == SPH && B.kind == ELL) || (A.kind == ELL && B.kind == SPH)) {
            const bool ellFirst = A.kind == ELL; const Obj& E = ellFirst ? A : B; const Obj& Sp = ellFirst ? B : A;
            Vec3 y = ellFirst ? Vec3(t * dhat) : Vec3(R2m.transpose() * (-t * dhat)); Vec3 x; double dist = gk::distOutsidePointToEllipsoid(E.dims, y, x);
            Vec3 nE = (y - x) / dist;                                       // ellipsoid outward normal at the foot point, ellipsoid frame
            Vec3 footG = ellFirst ? x : Vec3(X2 * x), nG = ellFirst ? nE : Vec3(R2m * nE), cS = ellFirst ? Vec3(t * dhat) : Vec3(0);
            ref.hasPoint = true; ref.depth = Sp.dims[0] - dist; ref.normal = ellFirst ? nG : Vec3(-nG); ref.point = (footG + (cS - nG * Sp.dims[0])) / 2;
        } else if (A.kind == SPH && B.kind == MESH) { ref.hasFaces = true; Vec3 q = R2m.transpose() * (-t * dhat);
            for (int f = 0; f < (int)B.mesh.f.size(); ++f) { Vec3 cp; double d = std::sqrt(gk::closestPtTriangle(q, B.mesh.v[B.mesh.f[f][0]], B.mesh.v[B.mesh.f[f][1]], B.mesh.v[B.mesh.f[f][2]], cp));
                if (d < A.dims[0] - 1e-9 * L) ref.f2yes.insert(f); else if (d < A.dims[0] + 1e-9 * L) ref.f2maybe.insert(f); }
        } else if (A.kind == MESH && B.kind == MESH) { ref.hasFaces = true;
            const double LL = A.size + B.size, eps = 1e-12 * LL * LL * LL;
            std::vector<Vec3> vb; for (auto& v : B.mesh.v) vb.push_back(X2 * v);
            auto classify = [&](const gk::RefMesh& M, const std::vector<Vec3>& mv, const gk::RefMesh& O, const std::vector<Vec3>& ov, const Transform& X_OG, std::set<int>& yes, std::set<int>& maybe) {
                for (int f = 0; f < (int)M.f.size(); ++f) {
                    Vec3 tf[3] = {mv[M.f[f][0]], mv[M.f[f][1]], mv[M.f[f][2]]}; int cross = 0;
                    for (auto& fo : O.f) { Vec3 to[3] = {ov[fo[0]], ov[fo[1]], ov[fo[2]]}; int r = gk::triTri(tf, to, eps, 1e-9 * LL); if (r < 0) { ref.degenerate = true; if (cross == 0) cross = -1; } if (r == 1) cross = 1; }
                    if (cross == 1) { yes.insert(f); continue; }
                    int in = 0, near = 0; for (int j = 0; j < 3; ++j) { Vec3 q = X_OG * tf[j]; if (meshDist(O, q) <= 1e-9 * LL) ++near; else if (winding(O, q) > 0.5) ++in; }
                    if (cross == -1 || near) maybe.insert(f); else if (in == 3) yes.insert(f);
                }
            };
            std::vector<Vec3> va(A.mesh.v.begin(), A.mesh.v.end());
            gk::RefMesh Bg = B.mesh; Bg.v = vb;
            classify(A.mesh, va, Bg, vb, Transform(), ref.f1yes, ref.f1maybe);
            classify(Bg, vb, A.mesh, va, Transform(), ref.f2yes, ref.f2maybe);
        }
        run.evaluation(verif::hashStr(P.name + od.describe(idx)), ref.overlap >= 0);
        run.count(std::string("ref-overlap:") + (ref.overlap ? "yes" : "no"));

        // ---- the library, at the base pose
        bool hung = false; Res r0;
        try { r0 = callLibrary(P, A, X1, B, X2, hung); }
        catch (const std::exception& e) { run.violation("exception/" + P.api + ":" + kindName(P.k1) + "-" + kindName(P.k2), std::string(e.what()) + " at " + where(), rp()); return; }
        if (hung) { run.violation("hang/" + P.api + ":" + kindName(P.k1) + "-" + kindName(P.k2), "no return within 20 s at " + where(), rp()); return; }
        // mesh-mesh poses in which some pair of triangles touches exactly (edge through edge, vertex on face, coplanar faces) are a
        // separate input class: they are named in the key so that generic-pose failures cannot hide behind them
        const std::string pk = P.api + ":" + kindName(P.k1) + "-" + kindName(P.k2) + (A.kind == MESH && B.kind == MESH ? (ref.degenerate ? "/pose-with-touching-triangles" : "/pose-without-touching-triangles") : "");
        if (A.kind == MESH && B.kind == MESH) run.count(ref.degenerate ? "meshmesh-poses:with-touching-triangles" : "meshmesh-poses:without-touching-triangles");
        if (run.verbose) fprintf(stderr, "%s t0=%.17g t=%.17g clearance=%.17g -> contact=%d type=%s depth=%.17g normal=%s point=%s | ref depth=%.17g normal=%s point=%s\n", where().c_str(), t0, t, clr, (int)r0.contact, r0.type.c_str(), r0.depth, s3(r0.normal).c_str(), s3(r0.point).c_str(), ref.depth, s3(ref.normal).c_str(), s3(ref.point).c_str());
        run.expect(r0.ok, "tracker-returned-false/" + pk, [&] { return "trackContact returned false (failure) at " + where(); }, rp);
        run.expect(r0.type.find("bad-X_S1S2") == std::string::npos, "contact-records-relative-transform/" + pk, [&] { return "Contact::getTransform() is not X_S1S2 at " + where(); }, rp);
        // (1) contact reported <=> overlap
        if (!run.expect(r0.contact == (ref.overlap == 1), std::string(ref.overlap ? "missed-contact/" : "phantom-contact/") + pk,
                        [&] { return "contact reported=" + std::to_string(r0.contact) + " (" + r0.type + ", depth " + sd(r0.depth) + ") but the solids " + (ref.overlap ? "overlap" : "are separated") + " (clearance " + sd(clr) + (eucl ? "" : ", sign only") + ") at " + where(); }, rp)) return;
        { uint64_t oh = verif::hashStr(r0.type + (r0.contact ? "1" : "0")); if (std::isfinite(r0.depth)) oh = verif::hashPod(r0.depth, oh);
          for (int f : r0.f1) oh = verif::hashPod(f, oh); for (int f : r0.f2) oh = verif::hashPod(-1 - f, oh); oh = verif::hashPod(r0.lowestVertex, oh); run.outcome(oh); }
        if (r0.contact) {
            run.count("contact-type:" + r0.type);
            // (2) depth, normal, point
            if (ref.hasPoint) {
                const double tolP = (A.kind == ELL || B.kind == ELL) && A.kind != HS ? 1e-10 : 1e-12;   // iterative pairs: worst measured 2.5e-13
                run.residual("depth/" + pk, std::abs(r0.depth - ref.depth) / L, tolP, where, rp);
                // iterative pairs build the normal from the two contact points: its error scales with 1/depth
                const bool iter = (A.kind == ELL || B.kind == ELL) && A.kind != HS;
                run.residual("normal/" + pk, (r0.normal - ref.normal).norm() * (iter ? std::min(1.0, r0.depth / L) : 1.0), iter ? 1e-10 : 1e-11, where, rp);
                run.residual("point/" + pk, (r0.point - ref.point).norm() / L, tolP, where, rp);
            } else if (A.kind == HS && B.kind == BRK) {
                run.residual("depth/" + pk, std::abs(r0.depth - ref.depth) / L, 1e-12, where, rp);
                if (ref.lowestUnique) run.expect(r0.lowestVertex == ref.lowestVertex, "lowest-vertex/" + pk, [&] { return "lowest vertex " + std::to_string(r0.lowestVertex) + " expected " + std::to_string(ref.lowestVertex) + " at " + where(); }, rp);
                else run.count("unspecified:lowest-vertex-tie");
            } else if (A.kind == ELL && B.kind == ELL) {
                // contact conditions at the two surface points implied by the returned contact
                Vec3 p1 = r0.point + r0.normal * (r0.depth / 2), p2 = r0.point - r0.normal * (r0.depth / 2);
                auto lvl = [](const Vec3& rad, const Vec3& x) { return square(x[0] / rad[0]) + square(x[1] / rad[1]) + square(x[2] / rad[2]); };
                auto nrm = [](const Vec3& rad, const Vec3& x) { Vec3 g(x[0] / (rad[0] * rad[0]), x[1] / (rad[1] * rad[1]), x[2] / (rad[2] * rad[2])); return g / g.norm(); };
                Vec3 q2 = ~X2 * p2;
                run.residual("ellipsoid-pair-point1-on-surface1/" + pk, std::abs(lvl(A.dims, p1) - 1), 1e-10, where, rp);
                run.residual("ellipsoid-pair-point2-on-surface2/" + pk, std::abs(lvl(B.dims, q2) - 1), 1e-10, where, rp);
                run.residual("ellipsoid-pair-normal-is-surface1-normal/" + pk, (nrm(A.dims, p1) - r0.normal).norm() * std::min(1.0, r0.depth / L), 1e-10, where, rp);
                run.residual("ellipsoid-pair-normal-opposes-surface2-normal/" + pk, (Vec3(X2.R() * nrm(B.dims, q2)) + r0.normal).norm() * std::min(1.0, r0.depth / L), 1e-10, where, rp);
                run.expect(r0.depth > 0 && r0.depth <= -g * size * (1 + 1e-6) + 1e-9 * L, "ellipsoid-pair-depth-range/" + pk, [&] { return "depth " + sd(r0.depth) + " not in (0, directional gap " + sd(-g * size) + "] at " + where(); }, rp);
                run.residual("unit-normal/" + pk, std::abs(r0.normal.norm() - 1), 1e-12, where, rp);
            }
            // (3) mesh face sets (three-valued)
            if (ref.hasFaces && run.verbose) {
                auto show = [](const char* nm, const std::set<int>& s) { fprintf(stderr, "  %s:", nm); for (int f : s) fprintf(stderr, " %d", f); fprintf(stderr, "\n"); };
                show("library faces1", r0.f1); show("reference yes1", ref.f1yes); show("reference maybe1", ref.f1maybe);
                show("library faces2", r0.f2); show("reference yes2", ref.f2yes); show("reference maybe2", ref.f2maybe);
            }
            if (ref.hasFaces) {
                auto cmp = [&](const std::set<int>& got, const std::set<int>& yes, const std::set<int>& maybe, const std::string& which) {
                    int missing = 0, extra = 0, firstBad = -1;
                    for (int f : yes) if (!got.count(f)) { ++missing; if (firstBad < 0) firstBad = f; }
                    for (int f : got) if (!yes.count(f) && !maybe.count(f)) { ++extra; if (firstBad < 0) firstBad = f; }
                    run.expect(missing == 0, "mesh-faces-missing/" + pk + "/" + which, [&] { return std::to_string(missing) + " faces that are partly inside are not listed (e.g. face " + std::to_string(firstBad) + "; listed " + std::to_string(got.size()) + ", definite " + std::to_string(yes.size()) + ") at " + where(); }, rp);
                    run.expect(extra == 0, "mesh-faces-extra/" + pk + "/" + which, [&] { return std::to_string(extra) + " listed faces are entirely outside (e.g. face " + std::to_string(firstBad) + ") at " + where(); }, rp);
                    run.count("unspecified:mesh-faces-in-band", (int64_t)maybe.size());
                };
                if (A.kind == MESH) cmp(r0.f1, ref.f1yes, ref.f1maybe, "surface1"); else run.expect(r0.f1.empty(), "mesh-faces-of-nonmesh/" + pk, [&] { return "surface1 is not a mesh but faces were listed at " + where(); }, rp);
                cmp(r0.f2, ref.f2yes, ref.f2maybe, "surface2");
            }
        }
        // (4) common rigid motions: same contact in the moved frame
        for (size_t m = 0; m < motions.size(); ++m) {
            const Transform& X = motions[m]; bool h2 = false; Res r;
            try { r = callLibrary(P, A, X * X1, B, X * X2, h2); } catch (const std::exception& e) { run.violation("exception/" + pk, std::string(e.what()) + " under a rigid motion at " + where(), rp()); continue; }
            if (h2) { run.violation("hang/" + pk, "no return within 20 s under a rigid motion at " + where(), rp()); continue; }
            if (!run.expect(r.contact == r0.contact, std::string(r0.contact ? "missed-contact-after-rigid-motion/" : "phantom-contact-after-rigid-motion/") + pk,
                            [&] { return "contact=" + std::to_string(r0.contact) + " at the base pose (reference: " + (ref.overlap ? "overlapping" : "separated") + ", gap " + sd(g) + "*size) but " + std::to_string(r.contact) + " after moving both objects by the same rigid motion #" + std::to_string(m) + " at " + where(); }, rp)) continue;
            if (!r.contact) continue;
            const double tolM = (A.kind == ELL || B.kind == ELL) && A.kind != HS ? 1e-10 : 1e-11;
            if (std::isfinite(r0.depth)) run.residual("frame-invariance-depth/" + pk, std::abs(r.depth - r0.depth) / L, tolM, where, rp);
            if (gk::finite3(r0.normal)) run.residual("frame-invariance-normal/" + pk, (r.normal - Vec3(X.R() * r0.normal)).norm() * (tolM > 5e-11 ? std::min(1.0, r0.depth / L) : 1.0), 1e-10, where, rp);
            if (gk::finite3(r0.point)) run.residual("frame-invariance-point/" + pk, (r.point - Vec3(X * r0.point)).norm() / (L + X.p().norm()), tolM, where, rp);
            if (ref.hasFaces) { auto strip = [&](std::set<int> s, const std::set<int>& maybe) { for (int f : maybe) s.erase(f); return s; };
                run.expect(strip(r.f1, ref.f1maybe) == strip(r0.f1, ref.f1maybe) && strip(r.f2, ref.f2maybe) == strip(r0.f2, ref.f2maybe), "frame-invariance-faces/" + pk, [&] { return "face sets differ after a common rigid motion at " + where(); }, rp); }
            if (r0.lowestVertex >= 0 && ref.lowestUnique) run.expect(r.lowestVertex == r0.lowestVertex, "frame-invariance-lowest-vertex/" + pk, [&] { return "lowest vertex changed under a rigid motion at " + where(); }, rp);
        }
        // (5) swapped argument order (same-type pairs): roles swapped, normal reversed
        if (P.swappable) {
            bool h3 = false; Res r;
            try { r = callLibrary(P, B, X2, A, X1, h3); } catch (const std::exception& e) { run.violation("exception/" + pk, std::string(e.what()) + " with swapped arguments at " + where(), rp()); return; }
            if (h3) { run.violation("hang/" + pk, "no return within 20 s with swapped arguments at " + where(), rp()); return; }
            if (run.expect(r.contact == r0.contact, "swap-symmetry-decision/" + pk, [&] { return "contact=" + std::to_string(r0.contact) + " but " + std::to_string(r.contact) + " with the two objects given in the other order at " + where(); }, rp) && r.contact) {
                const double tolS = A.kind == ELL ? 1e-10 : 1e-12;
                if (std::isfinite(r0.depth)) run.residual("swap-symmetry-depth/" + pk, std::abs(r.depth - r0.depth) / L, tolS, where, rp);
                if (gk::finite3(r0.normal)) run.residual("swap-symmetry-normal-reversed/" + pk, (r.normal + r0.normal).norm() * (A.kind == ELL ? std::min(1.0, r0.depth / L) : 1.0), A.kind == ELL ? 1e-10 : 1e-11, where, rp);
                if (gk::finite3(r0.point)) run.residual("swap-symmetry-point/" + pk, (r.point - r0.point).norm() / L, tolS, where, rp);
                if (ref.hasFaces) { auto strip = [&](std::set<int> s, const std::set<int>& maybe) { for (int f : maybe) s.erase(f); return s; };
                    run.expect(strip(r.f1, ref.f2maybe) == strip(r0.f2, ref.f2maybe) && strip(r.f2, ref.f1maybe) == strip(r0.f1, ref.f1maybe), "swap-symmetry-faces/" + pk, [&] { return "face sets are not exchanged when the meshes are given in the other order at " + where(); }, rp); }
            }
        }
        if (idx % 4999 == 0) run.sample(where() + " -> " + r0.type + (r0.contact ? " depth=" + sd(r0.depth) : "") + " ref overlap=" + std::to_string(ref.overlap));
    });

    // =================================================================================== OBB / OBB overlap (the pruning test of the mesh-mesh narrow phase)
    // Boxes whose axes are parallel up to a cube rotation, so that exact overlap is an interval test in A's frame; every pair is
    // presented directly and after moving both boxes by a common rigid motion (which makes the relative rotation a rounded product,
    // exactly as in TriangleMeshTriangleMesh).  Offsets on a 9^3 lattice, so touching, overlapping and separated cases all occur.
    {
        const std::vector<Vec3> sizesA = {Vec3(1, 1, 1), Vec3(0.6, 1.4, 2.0)}, sizesB = {Vec3(1, 1, 1), Vec3(1.7, 0.5, 0.9)};
        const std::vector<Mat33> cube = gk::cubeRotations24();
        verif::Odometer ob; ob.dim("motion", 4); ob.dim("oz", 9); ob.dim("oy", 9); ob.dim("ox", 9); ob.dim("rot", 24); ob.dim("sizeB", 2); ob.dim("sizeA", 2);
        run.parallel("obb-pairs", ob.size(), [&](int64_t idx) {
            auto d = ob.digits(idx);
            const Vec3 sa = sizesA[d[6]] * S, sb = sizesB[d[5]] * S; const Mat33 Rm = cube[d[4]];
            Vec3 hbA(0); for (int i = 0; i < 3; ++i) for (int j = 0; j < 3; ++j) hbA[i] += std::abs(Rm(i, j)) * sb[j] / 2;     // half extents of B along A's axes
            const Vec3 off((d[3] - 4) * 0.37 * (sa[0] / 2 + hbA[0]), (d[2] - 4) * 0.37 * (sa[1] / 2 + hbA[1]), (d[1] - 4) * 0.37 * (sa[2] / 2 + hbA[2]));   // centre offset
            auto where = [&] { return ob.describe(idx) + " sizeA=" + s3(sa) + " sizeB=" + s3(sb) + " centre offset=" + s3(off); };
            auto rp = [&] { return run.replayHeader() + ob.describe(idx) + "\n"; };
            Rotation R; R.setRotationFromApproximateMat33(Rm);
            OrientedBoundingBox A(Transform(Rotation(), -sa / 2), sa), B(Transform(R, off - R * (sb / 2)), sb);
            int ref = 1; for (int i = 0; i < 3; ++i) { double gap = std::abs(off[i]) - (sa[i] / 2 + hbA[i]); if (gap > 1e-9 * S) ref = 0; else if (gap > -1e-9 * S && ref == 1) ref = -1; }
            if (ref == 0) { /* separated along an axis of A */ } 
            run.evaluation(verif::hashStr("obb" + ob.describe(idx)), ref >= 0);
            Transform X; if (d[0] > 0) X = motions[d[0] - 1];
            OrientedBoundingBox A2 = X * A, B2 = X * B;
            bool ab = A2.intersectsBox(B2), ba = B2.intersectsBox(A2);
            const std::string mk = d[0] == 0 ? "direct" : "after-common-rigid-motion";
            if (ref < 0) { run.count("unspecified:obb-touching"); return; }
            run.expect(ab == (ref == 1), std::string(ref ? "obb-intersectsBox-false-negative/" : "obb-intersectsBox-false-positive/") + mk, [&] { return "A.intersectsBox(B)=" + std::to_string(ab) + " but the boxes " + (ref ? "overlap" : "are separated") + " at " + where(); }, rp);
            run.expect(ba == (ref == 1), std::string(ref ? "obb-intersectsBox-false-negative/" : "obb-intersectsBox-false-positive/") + mk, [&] { return "B.intersectsBox(A)=" + std::to_string(ba) + " but the boxes " + (ref ? "overlap" : "are separated") + " at " + where(); }, rp);
            run.outcome(verif::hashPod((int)ab * 2 + (int)ba, 77));
            if (idx % 9973 == 0) run.sample(where() + " -> " + std::to_string(ab) + "/" + std::to_string(ba) + " ref " + std::to_string(ref));
        });
    }

    // =================================================================================== broad phase + argument-order plumbing (GeneralContactSubsystem)
    // Four surfaces (ground half space, sphere, ellipsoid, octahedron mesh) in one contact set; the three movable bodies take every
    // position of a 16-point lattice (4096 placements), the surfaces are added to the set in different orders (so each mixed pair
    // reaches the subsystem in both orders).  Differential oracle: the subsystem's contact list must be exactly the union, over all
    // unordered pairs, of what the registered narrow-phase algorithm returns for that pair.
    {
        const int nOrders = thorough ? 6 : 2; const int perm[6][3] = {{0,1,2},{2,1,0},{1,0,2},{0,2,1},{1,2,0},{2,0,1}};
        std::vector<Vec3> lattice; for (int ix = 0; ix < 4; ++ix) for (int iy = 0; iy < 2; ++iy) for (int iz = 0; iz < 2; ++iz) lattice.push_back(Vec3(0.55 * ix, 0.35 + 0.5 * iy, 0.45 * iz) * S);
        const int64_t nPlace = 16 * 16 * 16;
        run.parallel("subsystem", nPlace * nOrders, [&](int64_t idx) {
            const int order = (int)(idx / nPlace); const int64_t pl = idx % nPlace; const int pos[3] = {(int)(pl % 16), (int)(pl / 16 % 16), (int)(pl / 256)};
            struct Sys { MultibodySystem sys; std::unique_ptr<SimbodyMatterSubsystem> matter; std::unique_ptr<GeneralContactSubsystem> contacts; ContactSetIndex set; std::vector<MobilizedBody::Free> bodies; std::vector<std::shared_ptr<ContactGeometry>> geo; std::vector<int> surfOfBody; State state; };
            static std::map<int, std::shared_ptr<Sys>> cache;
            if (!cache.count(order)) {
                auto sy = std::make_shared<Sys>(); sy->matter.reset(new SimbodyMatterSubsystem(sy->sys)); sy->contacts.reset(new GeneralContactSubsystem(sy->sys));
                sy->set = sy->contacts->createContactSet();
                Body::Rigid body(MassProperties(1, Vec3(0), Inertia(1)));
                sy->geo = {std::make_shared<ContactGeometry::Sphere>(0.5 * S), std::make_shared<ContactGeometry::Ellipsoid>(Vec3(0.4, 0.6, 0.5) * S), makeObj(MESH, 0, 0.5 * S).g};
                for (int b = 0; b < 3; ++b) sy->bodies.push_back(MobilizedBody::Free(sy->matter->Ground(), Transform(), body, Transform()));
                // half space: outward normal +y  (its -x axis must point along +y)
                int nAdded = 0; sy->surfOfBody.assign(3, -1);
                auto addHS = [&] { sy->contacts->addBody(sy->set, sy->matter->Ground(), ContactGeometry::HalfSpace(), Transform(Rotation(-Pi / 2, ZAxis), Vec3(0))); ++nAdded; };
                if (order % 2 == 0) addHS();
                for (int k = 0; k < 3; ++k) { int b = perm[order][k]; sy->contacts->addBody(sy->set, sy->bodies[b], *sy->geo[b], Transform(Rotation(0.3 * (b + 1), UnitVec3(1, 2, 3)), Vec3(0.01 * b, 0, 0))); sy->surfOfBody[b] = nAdded++; }
                if (order % 2 == 1) addHS();
                sy->state = sy->sys.realizeTopology(); cache[order] = sy;
            }
            Sys& Y = *cache[order];
            State& st = Y.state;
            for (int b = 0; b < 3; ++b) Y.bodies[b].setQToFitTranslation(st, lattice[pos[b]] + Vec3(0.013 * b, 0, 0.007 * b) * S);
            Y.sys.realize(st, Stage::Dynamics);
            const Array_<Contact>& got = Y.contacts->getContacts(st, Y.set);
            std::string desc = "order=" + std::to_string(order) + " positions=" + std::to_string(pos[0]) + "," + std::to_string(pos[1]) + "," + std::to_string(pos[2]);
            auto where = [&] { return desc; }; auto rp = [&] { return run.replayHeader() + desc + "\n"; };
            run.evaluation(verif::hashStr("subsystem" + desc), true);
            // expected: all unordered pairs through the registered algorithm
            const int n = Y.contacts->getNumBodies(Y.set);
            std::map<std::pair<int,int>, Contact> expected;
            for (int i = 0; i < n; ++i) for (int j = i + 1; j < n; ++j) {
                ContactSurfaceIndex si(i), sj(j);
                const ContactGeometry& gi = Y.contacts->getBodyGeometry(Y.set, si); const ContactGeometry& gj = Y.contacts->getBodyGeometry(Y.set, sj);
                Transform Xi = Y.contacts->getBody(Y.set, si).getBodyTransform(st) * Y.contacts->getBodyTransform(Y.set, si), Xj = Y.contacts->getBody(Y.set, sj).getBodyTransform(st) * Y.contacts->getBodyTransform(Y.set, sj);
                Array_<Contact> c;
                if (CollisionDetectionAlgorithm* a = CollisionDetectionAlgorithm::getAlgorithm(gi.getTypeId(), gj.getTypeId())) a->processObjects(si, gi, Xi, sj, gj, Xj, c);
                else if (CollisionDetectionAlgorithm* a2 = CollisionDetectionAlgorithm::getAlgorithm(gj.getTypeId(), gi.getTypeId())) a2->processObjects(sj, gj, Xj, si, gi, Xi, c);
                if (!c.empty()) expected[{i, j}] = c[0];
            }
            std::map<std::pair<int,int>, int> seen; int mismatches = 0; std::string first;
            for (const Contact& c : got) {
                int a = c.getSurface1(), b = c.getSurface2(); auto key = std::make_pair(std::min(a, b), std::max(a, b)); seen[key]++;
                auto it = expected.find(key);
                if (it == expected.end()) { if (!mismatches++) first = "contact reported for pair (" + std::to_string(a) + "," + std::to_string(b) + ") that the narrow phase does not report"; continue; }
                Res r1 = fromContact(c, Transform()), r2 = fromContact(it->second, Transform());
                bool same = (int)it->second.getSurface1() == a && (int)it->second.getSurface2() == b && r1.type == r2.type && (r1.depth == r2.depth || (std::isnan(r1.depth) && std::isnan(r2.depth))) && (r1.normal == r2.normal || !gk::finite3(r2.normal)) && (r1.point == r2.point || !gk::finite3(r2.point)) && r1.f1 == r2.f1 && r1.f2 == r2.f2;
                if (!same && !mismatches++) first = "contact for pair (" + std::to_string(a) + "," + std::to_string(b) + ") differs from the direct narrow-phase result (surface order, depth, normal, point or face sets)";
            }
            for (auto& e : expected) if (!seen.count(e.first) && !mismatches++) first = "overlapping pair (" + std::to_string(e.first.first) + "," + std::to_string(e.first.second) + ") is missing from the subsystem's contacts (broad phase dropped it)";
            for (auto& sn : seen) if (sn.second > 1 && !mismatches++) first = "pair reported more than once";
            run.expect(mismatches == 0, "subsystem-contacts-equal-pairwise-narrow-phase", [&] { return std::to_string(mismatches) + " mismatches, first: " + first + " at " + where(); }, rp);
            run.count("subsystem-contacts", (int64_t)got.size()); run.count("subsystem-expected", (int64_t)expected.size());
            run.outcome(verif::hashPod((int)got.size(), 991));
            if (idx % 1999 == 0) run.sample("subsystem " + desc + " -> " + std::to_string(got.size()) + " contacts, expected " + std::to_string(expected.size()));
        });
    }

    // =================================================================================== ContactTrackerSubsystem: broad phase (bubbles) + dispatch + mount transforms
    // Ground half space + four Free bodies, each carrying one ContactSurface mounted through a rotated AND translated X_BS:
    // two meshes whose vertices are shifted inside their own frame (bounding-sphere centre != frame origin) and two spheres.
    // Mount rotations of the two meshes range over {identity, pi/2 about z, pi about y, generic}^2; every body takes every
    // position of a small lattice (and one of two orientations).  Differential oracle: the active-contact snapshot must equal,
    // pair by pair, what the subsystem's own registered tracker returns for that pair at the surfaces' ground poses
    // (so a pair pruned by a misplaced bubble, a wrong mount transform or a wrong argument order shows up).
    {
        const std::vector<Vec3> lat = [&] { std::vector<Vec3> v; const int nx = thorough ? 3 : 2;
            for (int ix = 0; ix < nx; ++ix) for (int iy = 0; iy < 2; ++iy) for (int iz = 0; iz < 2; ++iz) v.push_back(Vec3(0.9 * ix, 0.35 + 0.65 * iy, 0.8 * iz) * S); return v; }();
        const int64_t NL = (int64_t)lat.size(), nPlace = NL * NL * NL * NL;
        auto mountRot = [](int k) { return k == 0 ? Rotation() : k == 1 ? Rotation(Pi / 2, ZAxis) : k == 2 ? Rotation(Pi, YAxis) : Rotation(0.7, UnitVec3(1, 2, 3)); };
        auto kindOf = [](const ContactGeometry& g) { return ContactGeometry::HalfSpace::isInstance(g) ? std::string("HalfSpace") : ContactGeometry::Sphere::isInstance(g) ? std::string("Sphere") : std::string("Mesh"); };
        auto rank = [](const std::string& k) { return k == "HalfSpace" ? 0 : k == "Sphere" ? 1 : 2; };
        run.parallel("tracker-subsystem", nPlace * 16, [&](int64_t idx) {
            const int mount = (int)(idx / nPlace); const int64_t pl = idx % nPlace;
            int pos[4]; { int64_t t = pl; for (int b = 0; b < 4; ++b) { pos[b] = (int)(t % NL); t /= NL; } }
            struct Sys { MultibodySystem sys; std::unique_ptr<SimbodyMatterSubsystem> matter; std::unique_ptr<ContactTrackerSubsystem> tracker; std::vector<MobilizedBody::Free> bodies; State state0; };
            static std::map<int, std::shared_ptr<Sys>> cache;
            if (!cache.count(mount)) {
                auto sy = std::make_shared<Sys>(); sy->matter.reset(new SimbodyMatterSubsystem(sy->sys)); sy->tracker.reset(new ContactTrackerSubsystem(sy->sys));
                const ContactMaterial mat(1e6, 0.1, 0.5, 0.5, 0);
                auto meshGeo = [](const gk::RefMesh& m) { Array_<Vec3> verts; Array_<int> faces; for (auto& v : m.v) verts.push_back(v); for (auto& f : m.f) for (int j = 0; j < 3; ++j) faces.push_back(f[j]); return ContactGeometry::TriangleMesh(verts, faces); };
                // off-centre meshes: all vertices shifted inside the mesh frame
                ContactGeometry::TriangleMesh meshA = meshGeo(gk::transformed(gk::octahedron(0.6 * S), Mat33(1), Vec3(0.7, 0, 0) * S, "-off"));
                ContactGeometry::TriangleMesh meshB = meshGeo(gk::transformed(gk::boxMesh(Vec3(0.35, 0.5, 0.4) * S), Mat33(1), Vec3(0, 0.6, 0.3) * S, "-off"));
                sy->matter->Ground().updBody().addContactSurface(Transform(Rotation(-Pi / 2, ZAxis), Vec3(0)), ContactSurface(ContactGeometry::HalfSpace(), mat));
                const Transform X_BS[4] = {Transform(mountRot(mount % 4), Vec3(0.2, -0.1, 0.15) * S), Transform(mountRot(mount / 4), Vec3(-0.1, 0.2, -0.15) * S),
                                           Transform(Rotation(Pi / 2, XAxis), Vec3(-0.15, 0.1, 0) * S), Transform()};
                for (int b = 0; b < 4; ++b) {
                    Body::Rigid body(MassProperties(1, Vec3(0), Inertia(1)));
                    if (b == 0) body.addContactSurface(X_BS[b], ContactSurface(meshA, mat)); else if (b == 1) body.addContactSurface(X_BS[b], ContactSurface(meshB, mat));
                    else body.addContactSurface(X_BS[b], ContactSurface(ContactGeometry::Sphere((b == 2 ? 0.45 : 0.35) * S), mat));
                    sy->bodies.push_back(MobilizedBody::Free(sy->matter->Ground(), Transform(), body, Transform()));
                }
                sy->sys.realizeTopology(); sy->state0 = sy->sys.getDefaultState(); cache[mount] = sy;
            }
            Sys& Y = *cache[mount];
            State st = Y.state0;   // a fresh state: no previously active contacts
            for (int b = 0; b < 4; ++b) {
                Rotation Rb; if (pos[b] % 2) Rb.setRotationFromApproximateMat33(gk::genericRotation(b));
                Y.bodies[b].setQToFitTransform(st, Transform(Rb, lat[pos[b]] + Vec3(0.013 * b, 0.007 * b, -0.011 * b) * S));
            }
            Y.sys.realize(st, Stage::Position);
            const ContactSnapshot& snap = Y.tracker->getActiveContacts(st);
            std::string desc = "mount=" + std::to_string(mount) + " (meshA rot#" + std::to_string(mount % 4) + ", meshB rot#" + std::to_string(mount / 4) + ") positions=" + std::to_string(pos[0]) + "," + std::to_string(pos[1]) + "," + std::to_string(pos[2]) + "," + std::to_string(pos[3]);
            auto rp = [&] { return run.replayHeader() + desc + "\n"; };
            run.evaluation(verif::hashStr("trksub" + desc), true);
            const int n = Y.tracker->getNumSurfaces();
            std::map<std::pair<int,int>, std::vector<const Contact*>> got;
            for (int c = 0; c < snap.getNumContacts(); ++c) { const Contact& k = snap.getContact(c); int a = k.getSurface1(), b = k.getSurface2(); got[{std::min(a, b), std::max(a, b)}].push_back(&k); }
            for (int i = 0; i < n; ++i) for (int j = i + 1; j < n; ++j) {
                const ContactSurfaceIndex si(i), sj(j);
                if (Y.tracker->getMobilizedBody(si).getMobilizedBodyIndex() == Y.tracker->getMobilizedBody(sj).getMobilizedBodyIndex()) continue;
                const ContactGeometry& gi = Y.tracker->getContactSurface(si).getShape(); const ContactGeometry& gj = Y.tracker->getContactSurface(sj).getShape();
                std::string ki = kindOf(gi), kj = kindOf(gj); const std::string pairName = rank(ki) <= rank(kj) ? ki + "-" + kj : kj + "-" + ki;
                const Transform Xi = Y.tracker->getMobilizedBody(si).getBodyTransform(st) * Y.tracker->getContactSurfaceTransform(si), Xj = Y.tracker->getMobilizedBody(sj).getBodyTransform(st) * Y.tracker->getContactSurfaceTransform(sj);
                Contact exp; ContactSurfaceIndex e1 = si, e2 = sj;
                if (Y.tracker->hasContactTracker(gi.getTypeId(), gj.getTypeId())) {
                    bool rev = false; const ContactTracker& trk = Y.tracker->getContactTracker(gi.getTypeId(), gj.getTypeId(), rev);
                    if (rev) { e1 = sj; e2 = si; trk.trackContact(UntrackedContact(sj, si), Xj, gj, Xi, gi, 0, exp); } else trk.trackContact(UntrackedContact(si, sj), Xi, gi, Xj, gj, 0, exp);
                }
                auto it = got.find({i, j}); std::string why;
                if (exp.isEmpty()) { if (it != got.end()) why = "the snapshot has a contact that the pair's tracker does not report"; }
                else if (it == got.end()) why = "the pair's tracker reports a contact (" + fromContact(exp, Transform()).type + ") but the subsystem has none for this pair (pruned before the narrow phase)";
                else if (it->second.size() != 1) why = "pair reported more than once";
                else {
                    const Contact& g = *it->second[0]; Res r1 = fromContact(g, Transform()), r2 = fromContact(exp, Transform());
                    bool same = g.getSurface1() == e1 && g.getSurface2() == e2 && r1.type == r2.type && (r1.depth == r2.depth || (std::isnan(r1.depth) && std::isnan(r2.depth)))
                                && (r1.normal == r2.normal || !gk::finite3(r2.normal)) && (r1.point == r2.point || !gk::finite3(r2.point)) && r1.f1 == r2.f1 && r1.f2 == r2.f2
                                && g.getTransform().p() == exp.getTransform().p() && g.getCondition() == Contact::NewContact && g.getContactId().isValid();
                    if (!same) why = "contact differs from the pair's tracker result (surface order, depth, normal, origin, face sets, X_S1S2, condition or id)";
                }
                run.expect(why.empty(), "tracker-subsystem-contacts-equal-pairwise-narrow-phase/" + pairName, [&] { return "surfaces (" + std::to_string(i) + "," + std::to_string(j) + "): " + why + " at " + desc; }, rp);
                if (!exp.isEmpty()) run.count("tracker-subsystem-contacts:" + pairName);
            }
            run.outcome(verif::hashPod(snap.getNumContacts(), verif::hashPod(mount)));
            if (idx % 9973 == 0) run.sample("tracker-subsystem " + desc + " -> " + std::to_string(snap.getNumContacts()) + " active contacts");
        });
    }

    run.extraCoverage["pairs"] = std::to_string(pairs.size());
    return run.finish();
}
