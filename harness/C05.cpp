// C05 -- Built-in mobilizers realize their documented parameterisation.
// Engine E3: every built-in KIND x OPTION (Screw pitch, SphericalCoords axis/signs/offsets, Ellipsoid
// radii, CantileverFreeBeam length) x DIR x COORD on one body attached to Ground with identity
// mobilizer frames; q on the full product lattice {-2.5,-.7,0,.4,1.3}^nq for nq <= 3 and on all
// "Latin pairs" (every pair of coordinates over the 5x5 lattice, the rest at a generic baseline) for
// nq > 3; u = 0, every basis vector and one generic vector.
//
// The expected pose X_FM(q) and velocity V_FM(q,u) are written HERE, one case per kind, transcribed
// from the documentation comments of /repo/Simbody/include/simbody/internal/MobilizedBody_*.h (and the
// quaternion convention of Quaternion.h); nothing below calls the library to obtain an expected value
// except where the documentation gives geometric conditions instead of a formula (Ellipsoid).
// User-defined mobilizers with a q-dependent hinge matrix (engine/models.h: FunctionBased with nonlinear coordinate functions and
// 1..6 mobilities, the Custom helix slider) are checked the same way against mb::refMobilizerTransform, the long-double closed
// form of the composition rule documented in MobilizedBody_FunctionBased.h (x,y,z rotation functions applied as a body-fixed
// sequence about the given axes, x,y,z translation functions along the given axes; qdot == u).
#include "Simbody.h"
#include "SimbodyMatterSubsystemRep.h"
#include "RigidBodyNode.h"
#include "verif.h"
#include "models.h"
#include "refkit.h"

#include <cxxabi.h>

using namespace SimTK;
typedef long double LD;

static std::string vdemangle(const char* n) { int st = 0; char* d = abi::__cxa_demangle(n, 0, 0, &st); std::string s = d ? d : n; free(d); return s; }
std::string mb::nodeTypeName(const mb::Model& M, int bi) {
    const RigidBodyNode& n = M.matter.getRep().getRigidBodyNode(M.bodies[bi].getMobilizedBodyIndex());
    return vdemangle(typeid(n).name());
}

static const double TOL = 1e-11;      // calibration: see notes/C05.md
static const LD LATTICE[5] = {-2.5L, -0.7L, 0.0L, 0.4L, 1.3L};

// ---------------------------------------------------------------------------------------------- small LD algebra
struct M3 { LD a[3][3]; };
struct XF { M3 R; LD p[3]; };           // pose: R_FM, p_FM (in F)
struct SV { LD w[3]; LD v[3]; };        // velocity: w_FM, v_FM (in F)
static M3 ident3() { M3 m; for (int i = 0; i < 3; ++i) for (int j = 0; j < 3; ++j) m.a[i][j] = i == j; return m; }
static M3 mul(const M3& A, const M3& B) { M3 C; for (int i = 0; i < 3; ++i) for (int j = 0; j < 3; ++j) { LD s = 0; for (int k = 0; k < 3; ++k) s += A.a[i][k] * B.a[k][j]; C.a[i][j] = s; } return C; }
static M3 tr(const M3& A) { M3 C; for (int i = 0; i < 3; ++i) for (int j = 0; j < 3; ++j) C.a[i][j] = A.a[j][i]; return C; }
static void mulv(const M3& A, const LD v[3], LD o[3]) { LD t[3]; for (int i = 0; i < 3; ++i) t[i] = A.a[i][0] * v[0] + A.a[i][1] * v[1] + A.a[i][2] * v[2]; for (int i = 0; i < 3; ++i) o[i] = t[i]; }
static void crossv(const LD a[3], const LD b[3], LD o[3]) { LD t[3] = {a[1] * b[2] - a[2] * b[1], a[2] * b[0] - a[0] * b[2], a[0] * b[1] - a[1] * b[0]}; for (int i = 0; i < 3; ++i) o[i] = t[i]; }
// elementary rotations: rotation by angle t about the named axis (right-handed), R such that v_F = R * v_M
static M3 rotX(LD t) { M3 m = ident3(); LD c = cosl(t), s = sinl(t); m.a[1][1] = c; m.a[1][2] = -s; m.a[2][1] = s; m.a[2][2] = c; return m; }
static M3 rotY(LD t) { M3 m = ident3(); LD c = cosl(t), s = sinl(t); m.a[0][0] = c; m.a[0][2] = s; m.a[2][0] = -s; m.a[2][2] = c; return m; }
static M3 rotZ(LD t) { M3 m = ident3(); LD c = cosl(t), s = sinl(t); m.a[0][0] = c; m.a[0][1] = -s; m.a[1][0] = s; m.a[1][1] = c; return m; }
// "1-2-3 body-fixed": about x, then the now-rotated y, then the now twice-rotated z  =>  R = Rx * Ry * Rz
static M3 bodyXYZ(LD a, LD b, LD c) { return mul(mul(rotX(a), rotY(b)), rotZ(c)); }
// Quaternion.h: q = [cos(a/2), sin(a/2)*v] for a rotation by angle a about unit vector v; the state may hold it unnormalized
static bool quatR(const LD q[4], M3& R) {
    LD n = sqrtl(q[0] * q[0] + q[1] * q[1] + q[2] * q[2] + q[3] * q[3]);
    if (!(n > 1e-6L)) return false;
    LD w = q[0] / n, x = q[1] / n, y = q[2] / n, z = q[3] / n;
    R.a[0][0] = 1 - 2 * (y * y + z * z); R.a[0][1] = 2 * (x * y - w * z); R.a[0][2] = 2 * (x * z + w * y);
    R.a[1][0] = 2 * (x * y + w * z); R.a[1][1] = 1 - 2 * (x * x + z * z); R.a[1][2] = 2 * (y * z - w * x);
    R.a[2][0] = 2 * (x * z - w * y); R.a[2][1] = 2 * (y * z + w * x); R.a[2][2] = 1 - 2 * (x * x + y * y);
    return true;
}
static XF invX(const XF& X) { XF Y; Y.R = tr(X.R); LD t[3]; mulv(Y.R, X.p, t); for (int i = 0; i < 3; ++i) Y.p[i] = -t[i]; return Y; }
// Given X_AB and V_AB (B in A, expressed in A) return V_BA (A in B, expressed in B):
//   w_BA = -R^T w ;  p_BA = -R^T p  =>  v_BA = d/dt(p_BA) = R^T (w x p - v)
static SV revV(const XF& X, const SV& V) {
    SV o; M3 Rt = tr(X.R); LD t[3]; mulv(Rt, V.w, t); for (int i = 0; i < 3; ++i) o.w[i] = -t[i];
    LD c[3]; crossv(V.w, X.p, c); for (int i = 0; i < 3; ++i) c[i] -= V.v[i]; mulv(Rt, c, o.v);
    return o;
}
static LD poseErr(const XF& A, const XF& B, bool rot = true, bool trans = true) {
    LD e = 0, ps = 1;
    if (rot) for (int i = 0; i < 3; ++i) for (int j = 0; j < 3; ++j) { LD x = fabsl(A.R.a[i][j] - B.R.a[i][j]); if (!(x <= e)) e = x; }
    if (trans) { for (int i = 0; i < 3; ++i) ps = std::max(ps, fabsl(B.p[i])); for (int i = 0; i < 3; ++i) { LD x = fabsl(A.p[i] - B.p[i]) / ps; if (!(x <= e)) e = x; } }
    return e;
}
static LD velErr(const SV& A, const SV& B, bool ang = true, bool lin = true) {
    LD e = 0, s = 1;
    for (int i = 0; i < 3; ++i) s = std::max(s, std::max(fabsl(B.w[i]), fabsl(B.v[i])));
    for (int i = 0; i < 3; ++i) { if (ang) { LD x = fabsl(A.w[i] - B.w[i]) / s; if (!(x <= e)) e = x; } if (lin) { LD x = fabsl(A.v[i] - B.v[i]) / s; if (!(x <= e)) e = x; } }
    return e;
}
static XF fromLib(const Transform& X) { XF o; for (int i = 0; i < 3; ++i) { for (int j = 0; j < 3; ++j) o.R.a[i][j] = X.R()[i][j]; o.p[i] = X.p()[i]; } return o; }
static SV fromLib(const SpatialVec& V) { SV o; for (int i = 0; i < 3; ++i) { o.w[i] = V[0][i]; o.v[i] = V[1][i]; } return o; }
static Transform toLib(const XF& X) { Mat33 m; Vec3 p; for (int i = 0; i < 3; ++i) { for (int j = 0; j < 3; ++j) m[i][j] = (Real)X.R.a[i][j]; p[i] = (Real)X.p[i]; } return Transform(Rotation(m, true), p); }
static SpatialVec toLib(const SV& V) { return SpatialVec(Vec3((Real)V.w[0], (Real)V.w[1], (Real)V.w[2]), Vec3((Real)V.v[0], (Real)V.v[1], (Real)V.v[2])); }

// ---------------------------------------------------------------------------------------------- variants (KIND x OPTION x DIR x COORD)
struct Variant {
    int kind = 0, dir = 0; bool euler = false;
    Real pitch = 0.3; Vec3 radii = Vec3(0.5, 0.7, 0.9); Real length = 1.3;
    bool sphGeneral = false; Real az0 = 0, ze0 = 0; bool negAz = false, negZe = false, negR = false; int axis = 2;   // SphericalCoords
    std::string opt;
    std::string str() const { return std::string(mb::kindName(kind)) + (opt.empty() ? "" : "{" + opt + "}") + (dir ? "/rev" : "/fwd") + (euler ? "/euler" : "/quat"); }
};
static std::vector<Variant> allVariants() {
    std::vector<Variant> base;
    for (int k = 0; k <= mb::KWeld; ++k) {
        Variant v; v.kind = k;
        if (k == mb::KSphericalCustom) continue;   // generated below as options of SphericalCoords
        if (k == mb::KScrew) { for (Real p : {0.3, -0.5}) { v.pitch = p; v.opt = "pitch=" + verif::str(p); base.push_back(v); } continue; }
        if (k == mb::KEllipsoid) { const Vec3 rs[3] = {Vec3(0.5, 0.7, 0.9), Vec3(0.8, 0.8, 0.8), Vec3(1.2, 0.4, 0.6)}; for (auto& r : rs) { v.radii = r; v.opt = "radii=" + verif::str(r[0]) + "," + verif::str(r[1]) + "," + verif::str(r[2]); base.push_back(v); } continue; }
        if (k == mb::KCantilever) { for (Real L : {1.3, 0.4}) { v.length = L; v.opt = "L=" + verif::str(L); base.push_back(v); } continue; }
        if (k == mb::KSphericalDefault) {
            v.opt = "default"; base.push_back(v);
            v.kind = mb::KSphericalCustom; v.sphGeneral = true;
            for (int off = 0; off < 2; ++off) for (int ax = 0; ax < 2; ++ax) for (int sg = 0; sg < 8; ++sg) {
                v.az0 = off ? 0.2 : 0; v.ze0 = off ? -0.3 : 0; v.axis = ax ? 0 : 2; v.negAz = sg & 1; v.negZe = sg & 2; v.negR = sg & 4;
                v.opt = std::string("az0=") + (off ? "0.2" : "0") + ",ze0=" + (off ? "-0.3" : "0") + ",axis=" + (ax ? "x" : "z") + ",neg=" + std::to_string(sg);
                base.push_back(v);
            }
            continue;
        }
        base.push_back(v);
    }
    for (int k = mb::KFBN1; k < mb::NKIND; ++k) { Variant v; v.kind = k; base.push_back(v); }     // user-defined, q-dependent hinge matrix
    std::vector<Variant> all;
    for (auto v : base) for (int d = 0; d < 2; ++d) for (int e = 0; e < 2; ++e) {
        if (d == 1 && !mb::kindReversible(v.kind)) continue;
        v.dir = d; v.euler = e == 1; all.push_back(v);
    }
    return all;
}
static MobilizedBody addVariant(mb::Model& M, const Variant& v) {
    MobilizedBody& g = M.matter.updGround();
    Body::Rigid body(mb::massTable(0));
    const MobilizedBody::Direction d = v.dir ? MobilizedBody::Reverse : MobilizedBody::Forward;
    switch (v.kind) {
        case mb::KScrew: return MobilizedBody::Screw(g, Transform(), body, Transform(), v.pitch, d);
        case mb::KEllipsoid: return MobilizedBody::Ellipsoid(g, Transform(), body, Transform(), v.radii, d);
        case mb::KCantilever: return MobilizedBody::CantileverFreeBeam(g, Transform(), body, Transform(), v.length, d);
        case mb::KSphericalCustom: return MobilizedBody::SphericalCoords(g, Transform(), body, Transform(), v.az0, v.negAz, v.ze0, v.negZe, v.axis == 0 ? CoordinateAxis(XAxis) : CoordinateAxis(ZAxis), v.negR, d);
        default: { mb::BodySpec b; b.kind = v.kind; b.dir = v.dir; b.frames = 0; b.mass = 0; b.parent = -1; return mb::addBody(M, b); }
    }
}
static bool usesQuat(const Variant& v) { return mb::kindHasQuaternion(v.kind) && !v.euler; }
static int refNQ(const Variant& v) {
    if (mb::kindIsNonlinearUserDefined(v.kind)) return mb::kindNumMobilitiesUserDefined(v.kind);
    switch (v.kind) {
        case mb::KPin: case mb::KSlider: case mb::KScrew: return 1;
        case mb::KUniversal: case mb::KCylinder: case mb::KBendStretch: return 2;
        case mb::KPlanar: case mb::KGimbal: case mb::KTranslation: case mb::KSphericalDefault: case mb::KSphericalCustom: case mb::KCantilever: return 3;
        case mb::KBushing: return 6;
        case mb::KBall: case mb::KLineOrientation: case mb::KEllipsoid: return usesQuat(v) ? 4 : 3;
        case mb::KFree: case mb::KFreeLine: return usesQuat(v) ? 7 : 6;
        default: return 0;
    }
}
static int refNU(const Variant& v) {
    switch (v.kind) {
        case mb::KBall: case mb::KEllipsoid: return 3;
        case mb::KLineOrientation: return 2;
        case mb::KFree: return 6;
        case mb::KFreeLine: return 5;
        default: return refNQ(v);
    }
}

// ---------------------------------------------------------------------------------------------- the documented parameterisation
// Pose of M in F as a function of q, in the direction the mobilizer is DEFINED (for a reversed mobilizer the roles of F and M are swapped).
// Returns false if q is not a valid coordinate value (zero quaternion). *hasP=false when the docs give geometric conditions only (Ellipsoid).
static bool docPose(const Variant& v, const std::vector<LD>& q, XF& X, bool* hasP = nullptr) {
    X.R = ident3(); X.p[0] = X.p[1] = X.p[2] = 0; if (hasP) *hasP = true;
    auto orient = [&](int& next) {       // Ball-like orientation coordinates: quaternion, or 1-2-3 body-fixed angles with the Euler option
        if (usesQuat(v)) { LD qq[4] = {q[0], q[1], q[2], q[3]}; next = 4; return quatR(qq, X.R); }
        X.R = bodyXYZ(q[0], q[1], q[2]); next = 3; return true;
    };
    int n = 0;
    if (mb::kindIsNonlinearUserDefined(v.kind)) {
        mb::RefX r; if (!mb::refMobilizerTransform(v.kind, q, r)) return false;
        for (int i = 0; i < 3; ++i) { X.p[i] = r.p[i]; for (int j = 0; j < 3; ++j) X.R.a[i][j] = r.R[i][j]; }
        return true;
    }
    switch (v.kind) {
        case mb::KPin: X.R = rotZ(q[0]); break;                                    // rotation about the common z axis by q
        case mb::KSlider: X.p[0] = q[0]; break;                                    // translation along the common x axis by q
        case mb::KUniversal: X.R = mul(rotX(q[0]), rotY(q[1])); break;             // about x, then about the new y
        case mb::KCylinder: X.R = rotZ(q[0]); X.p[2] = q[1]; break;                // rotation about and translation along common z
        case mb::KBendStretch: { X.R = rotZ(q[0]); LD r[3] = {q[1], 0, 0}; mulv(X.R, r, X.p); break; }   // rotate about z, then slide along the rotated (M) x axis
        case mb::KPlanar: X.R = rotZ(q[0]); X.p[0] = q[1]; X.p[1] = q[2]; break;   // z rotation, translation along F's x and y
        case mb::KGimbal: X.R = bodyXYZ(q[0], q[1], q[2]); break;
        case mb::KBushing: X.R = bodyXYZ(q[0], q[1], q[2]); X.p[0] = q[3]; X.p[1] = q[4]; X.p[2] = q[5]; break;   // p_FM = [px,py,pz] in F, rotations do not move Mo
        case mb::KBall: case mb::KLineOrientation: if (!orient(n)) return false; break;
        case mb::KFree: case mb::KFreeLine: if (!orient(n)) return false; for (int i = 0; i < 3; ++i) X.p[i] = q[n + i]; break;   // translations along the F axes
        case mb::KTranslation: for (int i = 0; i < 3; ++i) X.p[i] = q[i]; break;
        case mb::KScrew: X.R = rotZ(q[0]); X.p[2] = (LD)v.pitch * q[0]; break;     // translation is always pitch*q
        case mb::KSphericalDefault: case mb::KSphericalCustom: {
            // azimuth = s0*q0+az0 (about Fz==Mz), zenith = s1*q1+ze0 (about My), radius = s2*q2 (along Mz or Mx); body-fixed 3-2 rotation then translation
            LD az = (v.negAz ? -1 : 1) * q[0] + (LD)v.az0, ze = (v.negZe ? -1 : 1) * q[1] + (LD)v.ze0, r = (v.negR ? -1 : 1) * q[2];
            X.R = mul(rotZ(az), rotY(ze));
            LD t[3] = {0, 0, 0}; t[v.axis] = r; mulv(X.R, t, X.p);
            break;
        }
        case mb::KEllipsoid: if (!orient(n)) return false; if (hasP) *hasP = false; break;   // translation: M's origin on the ellipsoid, Mz along its normal (conditions)
        case mb::KCantilever: { const LD L = v.length; X.R = bodyXYZ(q[0], q[1], q[2]);
            X.p[0] = 2.0L / 3 * q[1] * L; X.p[1] = -2.0L / 3 * q[0] * L; X.p[2] = L - 4.0L / 15 * (q[0] * q[0] + q[1] * q[1]) * L; break; }
        case mb::KWeld: break;
        default: return false;
    }
    return true;
}
// velocity of the documented pose along a coordinate rate qd (4th-order differences in long double of the harness's own docPose)
static bool poseRate(const Variant& v, const std::vector<LD>& q, const std::vector<LD>& qd, SV& V) {
    const LD h = 1e-4L; XF X0, Xs[4]; const LD c[4] = {1, -8, 8, -1}, at[4] = {-2, -1, 1, 2};
    if (!docPose(v, q, X0)) return false;
    for (int k = 0; k < 4; ++k) { std::vector<LD> qq(q); for (size_t i = 0; i < q.size(); ++i) qq[i] += at[k] * h * qd[i]; if (!docPose(v, qq, Xs[k])) return false; }
    M3 Rd; LD pd[3];
    for (int i = 0; i < 3; ++i) { for (int j = 0; j < 3; ++j) { LD s = 0; for (int k = 0; k < 4; ++k) s += c[k] * Xs[k].R.a[i][j]; Rd.a[i][j] = s / (12 * h); } LD s = 0; for (int k = 0; k < 4; ++k) s += c[k] * Xs[k].p[i]; pd[i] = s / (12 * h); }
    M3 W = mul(Rd, tr(X0.R));       // cross-product matrix of w_FM expressed in F
    V.w[0] = (W.a[2][1] - W.a[1][2]) / 2; V.w[1] = (W.a[0][2] - W.a[2][0]) / 2; V.w[2] = (W.a[1][0] - W.a[0][1]) / 2;
    for (int i = 0; i < 3; ++i) V.v[i] = pd[i];
    return true;
}
// Documented meaning of the generalized speeds: V_FM (defined direction) as a function of (q,u).
// returns 0 = the documentation does not define the speeds of this mobilizer, 1 = fully defined, 2 = angular part only (Ellipsoid).
static int docVel(const Variant& v, const std::vector<LD>& q, const std::vector<LD>& u, SV& V) {
    for (int i = 0; i < 3; ++i) V.w[i] = V.v[i] = 0;
    XF X;
    // FunctionBased: "It assumes there is a one to one correspondence between generalized coordinates and generalized speeds, so qdot == u";
    // the Custom helix slider is defined (engine/models.h) with qdot = u
    if (mb::kindIsNonlinearUserDefined(v.kind)) return poseRate(v, q, u, V) ? 1 : 0;
    switch (v.kind) {
        // "qdot=u" / "u are the time derivatives of the generalized coordinates" / "u=qdot"
        case mb::KPin: case mb::KSlider: case mb::KUniversal: case mb::KCylinder: case mb::KGimbal: case mb::KBushing: case mb::KTranslation: case mb::KCantilever:
            return poseRate(v, q, u, V) ? 1 : 0;
        case mb::KWeld: return 1;
        // "the three measure numbers of the angular velocity vector w_FM ... expressed in the F frame", unchanged by the Euler option
        case mb::KBall: for (int i = 0; i < 3; ++i) V.w[i] = u[i]; return 1;
        case mb::KFree: for (int i = 0; i < 3; ++i) { V.w[i] = u[i]; V.v[i] = u[3 + i]; } return 1;     // + v_FM of Mo in F, expressed in F
        case mb::KEllipsoid: for (int i = 0; i < 3; ++i) V.w[i] = u[i]; return 2;
        // "the x and y components of the angular velocity of M in F expressed in M"; no angular velocity about Mz
        case mb::KLineOrientation: case mb::KFreeLine: {
            if (!docPose(v, q, X)) return 0;
            LD wM[3] = {u[0], u[1], 0}; mulv(X.R, wM, V.w);
            if (v.kind == mb::KFreeLine) for (int i = 0; i < 3; ++i) V.v[i] = u[2 + i];                 // translational part "the same as in a Free mobilizer"
            return 1;
        }
        default: return 0;     // BendStretch, Planar, Screw, SphericalCoords: the header comments define q only
    }
}
// documented singular configurations (fits and qdot<->u maps are not demanded there)
static bool docSingular(const Variant& v, const std::vector<LD>& q) {
    auto nearHalfPi = [](LD a) { return fabsl(cosl(a)) < 0.2L; };
    switch (v.kind) {
        case mb::KGimbal: case mb::KBushing: case mb::KCantilever: case mb::KUniversal: return nearHalfPi(q[1]);
        case mb::KBall: case mb::KFree: case mb::KLineOrientation: case mb::KFreeLine: case mb::KEllipsoid: return !usesQuat(v) && nearHalfPi(q[1]);
        case mb::KBendStretch: return fabsl(q[1]) < 0.05L;     // polar coordinates: r = 0
        case mb::KSphericalDefault: case mb::KSphericalCustom: { LD ze = (v.negZe ? -1 : 1) * q[1] + (LD)v.ze0; return fabsl(q[2]) < 0.05L || fabsl(sinl(ze)) < 0.2L; }
        default: return false;
    }
}
// translation (linear velocity) is not an independent part of the motion for these kinds: partial fits are unspecified
static bool coupledTranslation(int kind) {
    return mb::kindIsNonlinearUserDefined(kind) || kind == mb::KEllipsoid || kind == mb::KCantilever || kind == mb::KScrew || kind == mb::KBendStretch || kind == mb::KSphericalDefault || kind == mb::KSphericalCustom;
}

// ---------------------------------------------------------------------------------------------- lattice
static std::vector<std::vector<LD> > latticeFor(const Variant& v, int valueSet, bool thorough) {
    const int nq = refNQ(v);
    std::vector<std::vector<LD> > pts;
    if (nq == 0) { pts.push_back({}); return pts; }
    if (nq <= 3 || (thorough && nq == 4)) {
        int64_t n = 1; for (int i = 0; i < nq; ++i) n *= 5;
        for (int64_t k = 0; k < n; ++k) { std::vector<LD> q(nq); int64_t t = k; for (int i = 0; i < nq; ++i) { q[i] = LATTICE[t % 5]; t /= 5; } pts.push_back(q); }
    } else {
        std::vector<LD> base(nq);
        for (int i = 0; i < nq; ++i) base[i] = mb::qv(valueSet, i);
        if (usesQuat(v)) { Vec4 b = mb::quatTable(valueSet, false); for (int i = 0; i < 4; ++i) base[i] = b[i]; }
        for (int i = 0; i < nq; ++i) for (int j = i + 1; j < nq; ++j) for (int a = 0; a < 5; ++a) for (int b = 0; b < 5; ++b) { std::vector<LD> q(base); q[i] = LATTICE[a]; q[j] = LATTICE[b]; pts.push_back(q); }
    }
    if (usesQuat(v)) {     // the zero quaternion is not a coordinate value
        std::vector<std::vector<LD> > keep;
        for (auto& q : pts) if (q[0] * q[0] + q[1] * q[1] + q[2] * q[2] + q[3] * q[3] > 1e-3L) keep.push_back(q);
        pts.swap(keep);
    }
    return pts;
}
static std::string qStr(const std::vector<LD>& q) { std::string s = "q=("; for (size_t i = 0; i < q.size(); ++i) { char b[32]; snprintf(b, sizeof b, "%s%.4Lg", i ? "," : "", q[i]); s += b; } return s + ")"; }

// ---------------------------------------------------------------------------------------------- one case
struct Built { std::unique_ptr<mb::Model> M; MobilizedBody mobod; State s; };
static void buildOne(const Variant& v, Built& B) {
    B.M.reset(new mb::Model()); B.M->euler = v.euler;
    B.mobod = addVariant(*B.M, v); B.M->bodies.push_back(B.mobod);
    mb::BodySpec bs; bs.kind = v.kind; bs.dir = v.dir; B.M->specs.push_back(bs);
    B.M->system.realizeTopology();
    B.s = B.M->system.getDefaultState();
    B.M->matter.setUseEulerAngles(B.s, v.euler);
    B.M->system.realizeModel(B.s);
}
static Vector toVector(const std::vector<LD>& x) { Vector v((int)x.size()); for (size_t i = 0; i < x.size(); ++i) v[(int)i] = (Real)x[i]; return v; }
static std::vector<LD> fromVector(const Vector& x) { std::vector<LD> v(x.size()); for (int i = 0; i < x.size(); ++i) v[i] = x[i]; return v; }

static void checkCase(verif::Run& run, const Variant& v, const std::vector<LD>& q, int valueSet, const std::string& desc) {
    Built B; buildOne(v, B);
    mb::Model& M = *B.M; const MobilizedBody& mobod = B.mobod;
    const std::string vkey = std::string(mb::kindName(v.kind)) + (v.dir ? "/rev" : "/fwd") + (v.euler ? "/euler" : "/quat");
    // key suffix of the fit oracles: public class name + the input class that is known a priori to matter
    std::string fkey = mb::kindName(v.kind);
    if (v.kind == mb::KSphericalDefault || v.kind == mb::KSphericalCustom) fkey = (v.negAz || v.negZe) ? "SphericalCoords/negated-angle" : "SphericalCoords";
    if (v.kind == mb::KBendStretch && q.size() == 2 && q[1] < 0) fkey = "BendStretch/negative-stretch";
    if (v.kind == mb::KEllipsoid) fkey = (v.radii[0] == v.radii[1] && v.radii[1] == v.radii[2]) ? "Ellipsoid/sphere" : "Ellipsoid/general-radii";
    auto where = [&] { return desc; };
    auto rp = [&] { return run.replayHeader() + desc + "\n"; };
    static const bool dump = getenv("C05_DUMP") != nullptr;     // development aid: list every failing fit
    auto fitres = [&](const std::string& name, LD val, const std::string& extra = "") {
        if (dump && !(val <= TOL)) fprintf(stderr, "DUMP %s/%s %s %s err=%.3Lg\n", name.c_str(), vkey.c_str(), desc.c_str(), extra.c_str(), val);
        run.residual(name + "/" + fkey, (double)val, TOL, where, rp);     // one oracle (own worst residual) per input class
    };
    const int nq = mobod.getNumQ(B.s), nu = mobod.getNumU(B.s);
    run.evaluation(verif::hashStr(desc), nq > 0);
    { std::string nt = mb::nodeTypeName(M, 0); run.outcome(verif::hashStr(nt)); run.count("node:" + nt); }
    if (!run.expect(nq == refNQ(v) && nu == refNU(v), "documented-nq-nu/" + vkey, [&] { return "nq/nu = " + std::to_string(nq) + "/" + std::to_string(nu) + " differ from the documented " + std::to_string(refNQ(v)) + "/" + std::to_string(refNU(v)) + " at " + desc; }, rp)) return;

    // ---- pose
    XF Xdoc; bool hasP = true;
    if (!docPose(v, q, Xdoc, &hasP)) { run.count("skipped:invalid-q"); return; }
    const bool sing = docSingular(v, q);
    if (sing) run.count("documented-singular-points");
    State s = B.s;
    mobod.setQFromVector(s, toVector(q));
    M.system.realize(s, Stage::Position);
    const XF Xlib = fromLib(mobod.getMobilizerTransform(s));
    const XF Xdef = v.dir ? invX(Xlib) : Xlib;      // pose in the direction the mobilizer is defined
    {
        // properness of what the library reports
        M3 RtR = mul(tr(Xlib.R), Xlib.R); LD e = 0; for (int i = 0; i < 3; ++i) for (int j = 0; j < 3; ++j) e = std::max(e, fabsl(RtR.a[i][j] - (i == j)));
        run.residual("X_FM-rotation-orthonormal", (double)e, TOL, where, rp);
    }
    run.residual(std::string(v.dir ? "reversed-" : "") + "X_FM-vs-documented-rotation", (double)poseErr(Xdef, Xdoc, true, false), TOL, where, rp, vkey);
    if (hasP) run.residual(std::string(v.dir ? "reversed-" : "") + "X_FM-vs-documented-translation", (double)poseErr(Xdef, Xdoc, false, true), TOL, where, rp, vkey);
    else {
        // Ellipsoid: M's origin lies on the ellipsoid (semi-axes along F's x,y,z), Mz along the (outward) surface normal there
        LD f = 0, nrm[3], nn = 0;
        for (int i = 0; i < 3; ++i) { f += (Xdef.p[i] / (LD)v.radii[i]) * (Xdef.p[i] / (LD)v.radii[i]); nrm[i] = Xdef.p[i] / ((LD)v.radii[i] * (LD)v.radii[i]); nn += nrm[i] * nrm[i]; }
        run.residual(std::string(v.dir ? "reversed-" : "") + "Ellipsoid-origin-on-surface", (double)fabsl(f - 1), TOL, where, rp, vkey);
        nn = sqrtl(nn); LD mz[3] = {Xdef.R.a[0][2], Xdef.R.a[1][2], Xdef.R.a[2][2]}, c[3];
        for (int i = 0; i < 3; ++i) nrm[i] /= nn;
        crossv(nrm, mz, c); LD sinang = sqrtl(c[0] * c[0] + c[1] * c[1] + c[2] * c[2]), dotp = nrm[0] * mz[0] + nrm[1] * mz[1] + nrm[2] * mz[2];
        const bool sphere = v.radii[0] == v.radii[1] && v.radii[1] == v.radii[2];
        // The public header promises only "coordinated rotation and translation along the surface of an ellipsoid";
        // that Mz is the surface normal is stated in an internal source comment only, so for general radii the
        // relation is counted as an observation (it does NOT hold: Mz deviates by up to 30 degrees) and asserted
        // only for a sphere, where normal and position direction coincide by the documented definition.
        if (sphere) run.residual("Ellipsoid-Mz-along-surface-normal/sphere", (double)(dotp > 0 ? sinang : 2), TOL, where, rp);
        else run.count((dotp > 0 && sinang <= TOL) ? "unspecified:Ellipsoid-Mz-is-surface-normal/general-radii:holds" : "unspecified:Ellipsoid-Mz-is-surface-normal/general-radii:does-not-hold");
    }
    run.outcome(verif::hashMix(verif::hashStr(vkey), verif::hashMix(verif::hashPod((float)Xlib.R.a[0][0]), verif::hashPod((float)(Xlib.p[0] + 2 * Xlib.p[1] + 3 * Xlib.p[2] + Xlib.R.a[1][2])))));

    // ---- velocity: u = 0, every e_i, generic
    std::vector<std::vector<LD> > us;
    us.push_back(std::vector<LD>(nu, 0));
    for (int i = 0; i < nu; ++i) { std::vector<LD> u(nu, 0); u[i] = 1; us.push_back(u); }
    if (nu > 0) { std::vector<LD> u(nu); for (int i = 0; i < nu; ++i) u[i] = mb::uv(valueSet, i); us.push_back(u); }
    std::vector<SV> VdocAll(us.size()), VlibAll(us.size()); std::vector<int> docKind(us.size(), 0);
    for (size_t k = 0; k < us.size(); ++k) {
        mobod.setUFromVector(s, toVector(us[k]));
        M.system.realize(s, Stage::Velocity);
        const SV Vlib = fromLib(mobod.getMobilizerVelocity(s));
        const SV Vdef = v.dir ? revV(Xlib, Vlib) : Vlib;
        VlibAll[k] = Vlib;
        SV Vd; const int dk = docVel(v, q, us[k], Vd); docKind[k] = dk; VdocAll[k] = Vd;
        const std::string pre = v.dir ? "reversed-" : "";
        if (dk == 0) run.count("speed-meaning-undocumented:" + std::string(mb::kindName(v.kind)));
        else {
            run.residual(pre + "V_FM-vs-documented-angular-velocity", (double)velErr(Vdef, Vd, true, false), TOL, where, rp, vkey);
            if (dk == 1) run.residual(pre + "V_FM-vs-documented-linear-velocity", (double)velErr(Vdef, Vd, false, true), TOL, where, rp, vkey);
            else {   // Ellipsoid: the origin stays on the surface => its velocity is tangent to the ellipsoid at p
                LD nrm[3], nn = 0, d = 0; for (int i = 0; i < 3; ++i) { nrm[i] = Xdef.p[i] / ((LD)v.radii[i] * (LD)v.radii[i]); nn += nrm[i] * nrm[i]; }
                for (int i = 0; i < 3; ++i) d += nrm[i] / sqrtl(nn) * Vdef.v[i];
                run.residual(pre + "Ellipsoid-origin-velocity-tangent", (double)fabsl(d), TOL, where, rp, vkey);
            }
        }
        // the library's qdot must be the rate of the documented coordinates: the velocity it reports = rate of the documented pose along qdot.
        // (needs a non-singular q -> u map only in the sense that qdot is finite; documented-singular points are not demanded)
        if (!sing && nq > 0) {
            std::vector<LD> qd = fromVector(mobod.getQDotAsVector(s));
            SV Vr;
            if (poseRate(v, q, qd, Vr)) {
                const bool lineQuat = (v.kind == mb::KLineOrientation || v.kind == mb::KFreeLine) && v.dir && !v.euler;
                const std::string name = lineQuat ? "reversed-line-quaternion-qdot" : "qdot-is-rate-of-documented-pose";
                const std::string suf = lineQuat ? std::string(mb::kindName(v.kind)) : vkey;
                run.residual(lineQuat ? name + "/" + suf : name, (double)velErr(Vdef, Vr, true, hasP), TOL, where, rp, lineQuat ? "" : suf);
                if (dk == 0 || v.kind == mb::KPlanar) { bool same = true; for (int i = 0; i < std::min(nq, nu); ++i) same = same && (Real)qd[i] == (Real)us[k][i]; run.count(std::string("unspecified:qdot==u:") + mb::kindName(v.kind) + (same ? ":yes" : ":no")); }
            }
            // where the docs say qdot=u, it must be so exactly
            if (v.kind == mb::KPin || v.kind == mb::KSlider || v.kind == mb::KUniversal || v.kind == mb::KCylinder || v.kind == mb::KGimbal || v.kind == mb::KBushing || v.kind == mb::KTranslation || v.kind == mb::KCantilever || mb::kindIsNonlinearUserDefined(v.kind)) {
                bool same = true; for (int i = 0; i < nq; ++i) same = same && (Real)qd[i] == (Real)us[k][i];
                run.expect(same, "documented-qdot=u/" + vkey, [&] { return "qdot != u at " + desc; }, rp);
            }
        }
    }

    // ---- reversed => inverse relative motion, directly against the forward twin (covers kinds without a closed-form reference)
    if (v.dir) {
        Variant f = v; f.dir = 0; Built F; buildOne(f, F);
        State t = F.s; F.mobod.setQFromVector(t, toVector(q));
        LD ex = 0, ev = 0;
        for (size_t k = 0; k < us.size(); ++k) {
            F.mobod.setUFromVector(t, toVector(us[k]));
            F.M->system.realize(t, Stage::Velocity);
            const XF Xf = fromLib(F.mobod.getMobilizerTransform(t)); const SV Vf = fromLib(F.mobod.getMobilizerVelocity(t));
            ex = std::max(ex, poseErr(Xlib, invX(Xf))); ev = std::max(ev, velErr(VlibAll[k], revV(Xf, Vf)));
        }
        run.residual("reversed-X_FM-is-inverse-of-forward", (double)ex, TOL, where, rp, vkey);
        run.residual("reversed-V_FM-is-reverse-of-forward", (double)ev, TOL, where, rp, vkey);
    }

    // ---- fitting to representable targets (generated from the documented reference at this lattice point; Ellipsoid translation and
    //      kinds with undocumented speeds: from the mobilizer's own realized pose / velocity, representable by construction)
    if (nq == 0) {   // Weld: "Nothing happens if there are no mobilities"
        State t = B.s;
        mobod.setQToFitTransform(t, Transform(Rotation(0.3, ZAxis), Vec3(1, 2, 3))); mobod.setUToFitVelocity(t, SpatialVec(Vec3(1, 2, 3), Vec3(4, 5, 6)));
        M.system.realize(t, Stage::Velocity);
        run.residual("fit-weld-unchanged", (double)std::max(poseErr(fromLib(mobod.getMobilizerTransform(t)), Xdoc), velErr(fromLib(mobod.getMobilizerVelocity(t)), VdocAll[0])), 0, where, rp);
        return;
    }
    if (sing) { run.count("skipped:fits-at-documented-singularity"); return; }
    // FunctionBased does not override the fits: "The default implementation uses a nonlinear optimizer to search for the best fit" -- approximate
    // by documentation, nothing exact to demand.  (The Custom helix slider implements closed-form fits and is judged below.)
    if (mb::kindIsFunctionBasedNonlinear(v.kind)) { run.count(std::string("skipped:fits(FunctionBased-uses-the-default-optimizer-fit):") + mb::kindName(v.kind)); return; }
    XF Xt = hasP ? (v.dir ? invX(Xdoc) : Xdoc) : Xlib;     // target pose X_FM
    if (!hasP) { XF Xd = Xdoc; for (int i = 0; i < 3; ++i) Xd.p[i] = Xdef.p[i]; Xt = v.dir ? invX(Xd) : Xd; }   // Ellipsoid: documented rotation + realized origin
    const Transform target = toLib(Xt);
    const XF XtD = fromLib(target);
    auto poseAfter = [&](State& t) { M.system.realize(t, Stage::Position); return fromLib(mobod.getMobilizerTransform(t)); };
    {
        State t = B.s; mobod.setQToFitTransform(t, target);
        fitres("setQToFitTransform-reproduces-pose", poseErr(poseAfter(t), XtD));
        State t2 = B.s; mobod.setQToFitRotation(t2, target.R());
        fitres("setQToFitRotation-reproduces-rotation", poseErr(poseAfter(t2), XtD, true, false));
        State t3 = B.s; mobod.setQToFitTranslation(t3, target.p());
        const LD e3 = poseErr(poseAfter(t3), XtD, false, true);
        if (!coupledTranslation(v.kind)) fitres("setQToFitTranslation-reproduces-translation", e3);
        else run.count(std::string("unspecified:setQToFitTranslation(coupled):") + mb::kindName(v.kind) + (v.dir ? "/rev" : "/fwd") + (e3 <= TOL ? ":reproduced" : ":not-reproduced"));
    }
    if (!coupledTranslation(v.kind)) {
        // the same requests issued from non-default starting coordinates (histories of two fit calls): the translation fit must
        // reproduce the requested offset whatever the current orientation is, and the earlier rotation fit must survive it
        // where translation is an independent part of the motion
        State t4 = B.s; mobod.setQToFitRotation(t4, target.R()); mobod.setQToFitTranslation(t4, target.p());
        const XF X4 = poseAfter(t4);
        fitres("setQToFitRotation-then-Translation-reproduces-translation", poseErr(X4, XtD, false, true));
        fitres("setQToFitRotation-then-Translation-keeps-rotation", poseErr(X4, XtD, true, false));
        State t5 = s; mobod.setQToFitTranslation(t5, target.p());     // from the lattice point's own q (already at the target pose when documented)
        fitres("setQToFitTranslation-from-current-q-reproduces-translation", poseErr(poseAfter(t5), XtD, false, true));
        State t6 = B.s; mobod.setQToFitTranslation(t6, target.p()); mobod.setQToFitRotation(t6, target.R());
        fitres("setQToFitTranslation-then-Rotation-reproduces-rotation", poseErr(poseAfter(t6), XtD, true, false));
    }
    for (size_t k = 1; k < us.size(); ++k) {     // velocity targets for every basis u* and the generic u*
        SV Vt = VlibAll[k];
        if (docKind[k] == 1) Vt = v.dir ? revV(Xdoc, VdocAll[k]) : VdocAll[k];      // reversed: V_FM = reverse of (X_MF, V_MF) = (documented pose, documented velocity)
        const SpatialVec tv = toLib(Vt); const SV VtD = fromLib(tv);
        State t = s; mobod.setUFromVector(t, Vector(nu, Real(0)));
        auto velAfter = [&](State& st) { M.system.realize(st, Stage::Velocity); return fromLib(mobod.getMobilizerVelocity(st)); };
        State t1 = t; mobod.setUToFitVelocity(t1, tv);
        fitres("setUToFitVelocity-reproduces-velocity", velErr(velAfter(t1), VtD), "u*#" + std::to_string(k));
        State t2 = t; mobod.setUToFitAngularVelocity(t2, tv[0]);
        const LD e2 = velErr(velAfter(t2), VtD, true, false);
        State t3 = t; mobod.setUToFitLinearVelocity(t3, tv[1]);
        const LD e3 = velErr(velAfter(t3), VtD, false, true);
        // partial velocity fits (from u = 0): the angular part determines the rotational speeds of every built-in mobilizer; the linear part
        // is demanded only where translation is an independent part of the motion, otherwise counted as unspecified
        fitres("setUToFitAngularVelocity-reproduces-angular-velocity", e2, "u*#" + std::to_string(k));
        if (!coupledTranslation(v.kind)) fitres("setUToFitLinearVelocity-reproduces-linear-velocity", e3, "u*#" + std::to_string(k));
        else run.count(std::string("unspecified:setUToFitLinearVelocity(coupled):") + mb::kindName(v.kind) + (v.dir ? "/rev" : "/fwd") + (e3 <= TOL ? ":reproduced" : ":not-reproduced"));
    }
}

int main(int argc, char** argv) {
    verif::Run run("C05", argc, argv);
    run.setDeadline(600, 3000);    // caps only (shared machine); measured cost in notes/C05.md
    const bool th = run.thorough();
    run.rule = "E3: every built-in mobilizer KIND (18 + Weld) and every user-defined kind with a q-dependent hinge matrix (FunctionBased with nonlinear coordinate functions and 1..6 mobilities, default and custom axes; Custom helix slider) x OPTION (Screw pitch {.3,-.5}; SphericalCoords default + general{offsets 2 x axis{z,x} x signs 8}; Ellipsoid radii 3; CantileverFreeBeam length 2) x DIR x COORD on one body on Ground with identity frames; q on the full product lattice {-2.5,-.7,0,.4,1.3}^nq for nq<=3 (thorough: also nq=4), all Latin pairs (every coordinate pair over the 5x5 lattice, others at the generic baseline of value set seed%3; thorough: all 3 sets) for larger nq, zero quaternion excluded; u in {0, every e_i, generic}. distinct = distinct (variant, q, valueset); non-trivial = nq>=1";
    run.assumptions = {"user-defined kinds: expected X_FM(q) is mb::refMobilizerTransform (engine/models.h), the long-double closed form of the composition rule documented in MobilizedBody_FunctionBased.h evaluated on the same function tables by separately written code; V_FM = rate of that pose along u (documented qdot == u); fits are skipped (counted) for FunctionBased, whose fit is the documented approximate default optimizer",
        "expected X_FM(q) and V_FM(q,u) are hand-transcribed in harness/C05.cpp from the MobilizedBody_*.h documentation comments (one case per kind); Ellipsoid translation and BendStretch/Planar/Screw/SphericalCoords speeds are not given by formula in the docs and are checked through geometric conditions / consistency with the library's qdot instead",
        "single body, identity inboard/outboard frames (frame handling is C01-C04/C06's subject)",
        "fits are demanded only for representable targets, away from the documented singular configurations; partial (translation-only / one-part velocity) fits only where that part is independent of the rest of the motion, otherwise counted as unspecified",
        "relative tolerance 1e-11 for every oracle"};
    std::vector<int> valueSets = th ? std::vector<int>{0, 1, 2} : std::vector<int>{(int)(((run.seed % 3) + 3) % 3)};
    std::vector<Variant> vars = allVariants();
    // flat list of (variant, valueset, lattice point)
    struct Item { int var, vs, pt; };
    std::vector<Item> items; std::vector<std::vector<std::vector<std::vector<LD> > > > lat(vars.size());
    for (size_t i = 0; i < vars.size(); ++i) {
        const bool usesVS = refNQ(vars[i]) > 3 && !(th && refNQ(vars[i]) == 4);
        lat[i].resize(valueSets.size());
        for (size_t k = 0; k < valueSets.size(); ++k) {
            lat[i][k] = latticeFor(vars[i], valueSets[k], th);
            for (size_t p = 0; p < lat[i][k].size(); ++p) items.push_back({(int)i, (int)k, (int)p});
        }
        (void)usesVS;
    }
    run.count("variants", (int64_t)vars.size());
    run.parallel("lattice", (int64_t)items.size(), [&](int64_t idx) {
        const Item& it = items[idx];
        const Variant& v = vars[it.var]; const std::vector<LD>& q = lat[it.var][it.vs][it.pt];
        std::string desc = "lattice item=" + std::to_string(idx) + " " + v.str() + " " + qStr(q) + " vs=" + std::to_string(valueSets[it.vs]);
        try { checkCase(run, v, q, valueSets[it.vs], desc); }
        catch (const std::exception& e) { run.violation("exception/" + std::string(mb::kindName(v.kind)), std::string("exception: ") + e.what() + " at " + desc, run.replayHeader() + desc + "\n"); }
        if (idx % 4999 == 0) run.sample(desc);
    });
    return run.finish();
}
