// C29 -- Mass-property and spatial-algebra identities hold.
// Engine E3.  Inertia_ / UnitInertia_ / MassProperties_ / SpatialInertia_ / ArticulatedInertia_
// (float and double) and the spatial-algebra helpers of SpatialAlgebra.h are run on a complete lattice
//   principal moments {sphere, generic, disc, rod, plate = triangle limit, just inside the limit, point}
//   x orientation (24 cube rotations + generic) x centre-of-mass / shift vectors {0, e_i, generic}{1, 1e3}
//   x mass x spatial velocities / forces,
// and compared with rigid-body mechanics written out densely in long double (parallel-axis theorem,
// R^T I R, 6x6 congruences, kinetic energy from the central inertia).  The validity tests are run on a
// complete lattice of 7^3 x 7^3 symmetric matrices and compared with the documented conditions.
#include "SimTKcommon.h"
#include "verif.h"
#include "refmath.h"

using namespace SimTK;
using ref::LD; using ref::M3; using ref::V3; using ref::M6; using ref::V6;

template <class P> struct Prec;
template <> struct Prec<double> { static const char* tag() { return "d"; } static double eps() { return 2.220446049250313e-16; } };
template <> struct Prec<float> { static const char* tag() { return "f"; } static double eps() { return 1.1920928955078125e-07; } };
template <class P> static double TOL() { return 4500 * Prec<P>::eps(); }
#define NM(lit) ([]() -> const std::string& { static const std::string s_ = std::string(lit) + "." + Prec<P>::tag(); return s_; }())

static std::string fmt(const char* f, ...) __attribute__((format(printf, 1, 2)));
static std::string fmt(const char* f, ...) { char b[1400]; va_list ap; va_start(ap, f); vsnprintf(b, sizeof b, f, ap); va_end(ap); return b; }

struct Ctx {
    verif::Run& run; std::string s, hdr;
    std::function<std::string()> w() const { const Ctx* p = this; return [p] { return p->s; }; }
    std::function<std::string()> r() const { const Ctx* p = this; return [p] { return p->hdr + "case=" + p->s + "\n"; }; }
};

// ---------------------------------------------------------------- conversions
template <class P> static M3 symToM3(const SymMat<3, P>& s) { M3 m; for (int i = 0; i < 3; ++i) for (int j = 0; j < 3; ++j) m.a[i][j] = (LD)(i >= j ? s(i, j) : s(j, i)); return m; }
template <class P> static SymMat<3, P> m3ToSym(const M3& m) { return SymMat<3, P>((P)m.a[0][0], (P)m.a[1][0], (P)m.a[1][1], (P)m.a[2][0], (P)m.a[2][1], (P)m.a[2][2]); }
template <class P> static Vec<3, P> vecP(const V3& v) { return Vec<3, P>((P)v[0], (P)v[1], (P)v[2]); }
template <class P> static M6 spatialToM6(const Mat<2, 2, Mat<3, 3, P>>& s) { M6 m; for (int bi = 0; bi < 2; ++bi) for (int bj = 0; bj < 2; ++bj) ref::setBlock(m, bi, bj, ref::toM3(s(bi, bj))); return m; }
template <class P> static V6 spatialToV6(const Vec<2, Vec<3, P>>& v) { return ref::vec6(ref::toV3(v[0]), ref::toV3(v[1])); }
// inertia of a point mass m at p about the origin:  m (|p|^2 1 - p p^T)
static M3 pointInertia(const V3& p, LD m) { return ref::scale(ref::sub(ref::scale(ref::ident3(), ref::dot(p, p)), ref::outer(p, p)), m); }
// rigid-body spatial inertia about the origin: [I  m px; -m px  m 1]
static M6 rbiDense(const M3& I_O, const V3& com, LD m) {
    M6 M = ref::zero6();
    ref::setBlock(M, 0, 0, I_O); ref::setBlock(M, 0, 1, ref::scale(ref::crossMat(com), m));
    ref::setBlock(M, 1, 0, ref::scale(ref::crossMat(com), -m)); ref::setBlock(M, 1, 1, ref::scale(ref::ident3(), m));
    return M;
}
static M6 phiDense(const V3& s) { M6 m = ref::zero6(); ref::setBlock(m, 0, 0, ref::ident3()); ref::setBlock(m, 1, 1, ref::ident3()); ref::setBlock(m, 0, 1, ref::crossMat(s)); return m; }

// ---------------------------------------------------------------- alphabets
struct Moments { const char* name; LD d[3]; };
static const Moments MOM[] = {
    {"sphere", {1, 1, 1}}, {"generic", {1, 2, 2.5L}}, {"disc", {1, 1, 2}}, {"rod", {0, 1, 1}}, {"plate-triangle-limit", {1, 2, 3}},
    {"just-inside-limit", {1, 2, 2.999L}}, {"point", {0, 0, 0}}, {"brick-like", {0.37L, 0.61L, 0.82L}}};
static const int NMOM = 8;
static const double GEN[3][3] = {{0.3, -1.7, 2.2}, {-1.1, 0.6, 0.9}, {0.8, 1.3, -0.5}};

static std::vector<M3> cubeRotations() {
    std::vector<M3> out;
    int perm[6][3] = {{0, 1, 2}, {0, 2, 1}, {1, 0, 2}, {1, 2, 0}, {2, 0, 1}, {2, 1, 0}};
    for (auto& p : perm) for (int s = 0; s < 8; ++s) {
        M3 m = ref::zero3();
        for (int i = 0; i < 3; ++i) m.a[i][p[i]] = ((s >> i) & 1) ? -1 : 1;
        if (ref::det(m) > 0) out.push_back(m);
    }
    return out;
}
template <class P> static std::vector<Rotation_<P>> rotations(const verif::Run& run) {
    std::vector<Rotation_<P>> S;
    for (auto& m : cubeRotations()) { Mat<3, 3, P> a; for (int i = 0; i < 3; ++i) for (int j = 0; j < 3; ++j) a(i, j) = (P)m.a[i][j]; S.push_back(Rotation_<P>(a, true)); }
    int s0 = (int)(((run.seed % 3) + 3) % 3);
    for (int s = 0; s < 3; ++s) {
        if (!run.thorough() && s != s0) continue;
        const double* g = GEN[s];
        S.push_back(Rotation_<P>(BodyRotationSequence, (P)g[0], XAxis, (P)g[1], YAxis, (P)g[2], ZAxis));
        S.push_back(Rotation_<P>((P)g[2], Vec<3, P>((P)g[1], (P)g[0], 1)));
        S.push_back(Rotation_<P>(SpaceRotationSequence, (P)g[1], ZAxis, (P)g[2], XAxis, (P)g[0], ZAxis));
        S.push_back(Rotation_<P>((P)0.01, Vec<3, P>(1, (P)g[0], (P)g[1])));
    }
    return S;
}
static std::vector<V3> shiftVectors(const verif::Run& run) {
    std::vector<V3> v = {ref::vec(0, 0, 0), ref::vec(1, 0, 0), ref::vec(0, 1, 0), ref::vec(0, 0, 1)};
    int s0 = (int)(((run.seed % 3) + 3) % 3);
    for (int s = 0; s < 3; ++s) { if (!run.thorough() && s != s0) continue; v.push_back(ref::vec(GEN[s][0], GEN[s][1], GEN[s][2])); }
    size_t n = v.size();
    for (size_t i = 1; i < n; ++i) v.push_back(ref::scale(v[i], 1000));
    return v;
}

// ================================================================ section 1: one rigid body
template <class P> static void caseBodyImpl(verif::Run& run, Ctx& C, int im, const Rotation_<P>& Rori, int iR, const V3& com0, const V3& S0, LD mass0, const Rotation_<P>& Rnew, int iR2) {
    typedef Vec<3, P> V; typedef Vec<2, V> SV;
    const double tol = TOL<P>();
    const P mass = (P)mass0;
    const V com = vecP<P>(com0), S = vecP<P>(S0);
    const V3 c = ref::toV3(com), s = ref::toV3(S);
    const LD m = (LD)mass;
    C.s = fmt("P=%s moments=%s orientation=%d mass=%.6Lg com=(%.9g, %.9g, %.9g) shift=(%.9g, %.9g, %.9g) newframe=%d", Prec<P>::tag(), MOM[im].name, iR, m, (double)c[0], (double)c[1], (double)c[2], (double)s[0], (double)s[1], (double)s[2], iR2);
    run.evaluationDistinct(im != 6 || ref::maxAbs(c) != 0);
    // unit central inertia in F:  G_c = R diag R^T  (long double), then rounded to P -- this rounded matrix is the body
    M3 D = ref::zero3(); for (int i = 0; i < 3; ++i) D.a[i][i] = MOM[im].d[i];
    const M3 Ro = ref::toM3(Rori);
    M3 Gc = ref::mul(ref::mul(Ro, D), ref::transp(Ro));
    for (int i = 0; i < 3; ++i) for (int j = i + 1; j < 3; ++j) Gc.a[i][j] = Gc.a[j][i] = (Gc.a[i][j] + Gc.a[j][i]) / 2;
    SymMat<3, P> GcP = m3ToSym<P>(Gc);
    Gc = symToM3<P>(GcP);
    const LD gscale = 1 + ref::maxAbs(Gc);
    const LD mS = m > 0 ? m : 1;                                          // massless body: every inertia is exactly zero, scale 1
    const LD scale = mS * (gscale + ref::dot(c, c) + ref::dot(s, s));    // size of the inertias that appear

    // ---- valid family is accepted
    bool accepted = true; std::string why;
    UnitInertia_<P> Gcen;
    try { Gcen = UnitInertia_<P>(GcP); } catch (const std::exception& e) { accepted = false; why = e.what(); }
    run.expect(accepted && Inertia_<P>::isValidInertiaMatrix(GcP), NM("valid-inertia-accepted") + "/" + MOM[im].name, [&] { return "physically valid inertia rejected (" + why.substr(0, 200) + ") at " + C.s; }, C.r());
    if (!accepted) return;

    // ---- point mass, parallel axis (shift from / to the mass centre), in place and not
    {
        Inertia_<P> pm = Inertia_<P>::pointMassAt(com, mass), pm2(com, mass);
        UnitInertia_<P> upm = UnitInertia_<P>::pointMassAt(com);
        run.residual(NM("point-mass-inertia"), (double)(fmaxl(ref::maxAbsDiff(symToM3<P>(pm.asSymMat33()), pointInertia(c, m)), ref::maxAbsDiff(symToM3<P>(pm2.asSymMat33()), pointInertia(c, m))) / (mS * (1 + ref::dot(c, c)))), tol, C.w(), C.r());
        run.residual(NM("unit-point-mass-inertia"), (double)(ref::maxAbsDiff(symToM3<P>(upm.asSymMat33()), pointInertia(c, 1)) / (1 + ref::dot(c, c))), tol, C.w(), C.r());
    }
    const Inertia_<P> Icen = mass * Gcen;
    const M3 IcenL = symToM3<P>(Icen.asSymMat33());
    run.residual(NM("mass-times-unit-inertia"), (double)(ref::maxAbsDiff(IcenL, ref::scale(Gc, m)) / (mS * gscale)), tol, C.w(), C.r());
    const Inertia_<P> IO = Icen.shiftFromMassCenter(com, mass);           // about OF
    const M3 IOref = ref::add(ref::scale(Gc, m), pointInertia(c, m));
    run.residual(NM("shift-from-mass-center"), (double)(ref::maxAbsDiff(symToM3<P>(IO.asSymMat33()), IOref) / scale), tol, C.w(), C.r());
    {
        Inertia_<P> back = IO.shiftToMassCenter(com, mass);
        run.residual(NM("shift-to-mass-center-inverts"), (double)(ref::maxAbsDiff(symToM3<P>(back.asSymMat33()), ref::scale(Gc, m)) / scale), tol, C.w(), C.r());
        Inertia_<P> ip = Icen; ip.shiftFromMassCenterInPlace(com, mass);
        Inertia_<P> ip2 = IO; ip2.shiftToMassCenterInPlace(com, mass);
        run.expect(ip == IO && ip2 == back, NM("shift-in-place-equals-copying-form"), [&] { return "InPlace variant differs at " + C.s; }, C.r());
        UnitInertia_<P> GO = Gcen.shiftFromCentroid(com), Gb = GO.shiftToCentroid(com);
        UnitInertia_<P> g1 = Gcen; g1.shiftFromCentroidInPlace(com); UnitInertia_<P> g2 = GO; g2.shiftToCentroidInPlace(com);
        run.residual(NM("unit-inertia-centroid-shifts"), (double)(fmaxl(ref::maxAbsDiff(symToM3<P>(GO.asSymMat33()), ref::add(Gc, pointInertia(c, 1))), ref::maxAbsDiff(symToM3<P>(Gb.asSymMat33()), Gc)) / (gscale + ref::dot(c, c))), tol, C.w(), C.r());
        run.expect(g1 == GO && g2 == Gb, NM("unit-shift-in-place-equals-copying-form"), [&] { return "UnitInertia InPlace variant differs at " + C.s; }, C.r());
    }
    // ---- re-expression: I_B = R^T I R for R = R_FB; principal moments preserved
    const M3 Rn = ref::toM3(Rnew), RnT = ref::transp(Rn);
    {
        Inertia_<P> Ib = IO.reexpress(Rnew), Ib2 = IO.reexpress(~Rnew);
        Inertia_<P> ip = IO; ip.reexpressInPlace(Rnew); Inertia_<P> ip2 = IO; ip2.reexpressInPlace(~Rnew);
        run.residual(NM("reexpress-is-Rt-I-R"), (double)(fmaxl(ref::maxAbsDiff(symToM3<P>(Ib.asSymMat33()), ref::mul(ref::mul(RnT, IOref), Rn)), ref::maxAbsDiff(symToM3<P>(Ib2.asSymMat33()), ref::mul(ref::mul(Rn, IOref), RnT))) / scale), tol, C.w(), C.r());
        run.expect(ip == Ib && ip2 == Ib2, NM("reexpress-in-place-equals-copying-form"), [&] { return "reexpressInPlace differs at " + C.s; }, C.r());
        UnitInertia_<P> Gb = Gcen.reexpress(Rnew);
        LD e1[3], e2[3]; ref::symEig3(symToM3<P>(Gb.asSymMat33()), e1);
        LD want[3] = {MOM[im].d[0], MOM[im].d[1], MOM[im].d[2]}; std::sort(want, want + 3);
        LD e = 0; for (int i = 0; i < 3; ++i) e = fmaxl(e, fabsl(e1[i] - want[i]));
        run.residual(NM("reexpress-preserves-principal-moments"), (double)(e / gscale), tol, C.w(), C.r(), MOM[im].name);
        // every inertia the library produced for this physical body is physical: PSD and triangle inequality on principal moments
        ref::symEig3(symToM3<P>(Ib.asSymMat33()), e2);
        LD viol = fmaxl(fmaxl(-e2[0], 0), fmaxl(e2[2] - e2[0] - e2[1], 0));
        run.residual(NM("produced-inertia-is-physical"), (double)(viol / scale), tol, C.w(), C.r(), MOM[im].name);
        run.expect(Inertia_<P>::isValidInertiaMatrix(Ib.asSymMat33()), NM("produced-inertia-passes-validity-test") + "/" + MOM[im].name, [&] { return "isValidInertiaMatrix rejects a shifted/re-expressed physical inertia at " + C.s; }, C.r());
    }
    if (mass0 == 0) return;
    // ---- MassProperties
    const MassProperties_<P> mp(mass, com, IO);
    const UnitInertia_<P> GO = mp.getUnitInertia();
    const V3 cS = ref::sub(c, s);                                  // com from the new origin
    const M3 ISref = ref::add(ref::scale(Gc, m), pointInertia(cS, m)); // about OF+S, in F
    {
        run.residual(NM("massprops-central-inertia"), (double)(ref::maxAbsDiff(symToM3<P>(mp.calcCentralInertia().asSymMat33()), ref::scale(Gc, m)) / scale), tol, C.w(), C.r());
        run.residual(NM("massprops-inertia-roundtrip"), (double)(ref::maxAbsDiff(symToM3<P>(mp.calcInertia().asSymMat33()), IOref) / scale), tol, C.w(), C.r());
        run.residual(NM("massprops-shifted-inertia"), (double)(ref::maxAbsDiff(symToM3<P>(mp.calcShiftedInertia(S).asSymMat33()), ISref) / scale), tol, C.w(), C.r());
        Transform_<P> X(Rnew, S);
        run.residual(NM("massprops-transformed-inertia"), (double)(ref::maxAbsDiff(symToM3<P>(mp.calcTransformedInertia(X).asSymMat33()), ref::mul(ref::mul(RnT, ISref), Rn)) / scale), tol, C.w(), C.r());
        MassProperties_<P> ms = mp.calcShiftedMassProps(S), mt = mp.calcTransformedMassProps(X), mr = mp.reexpress(Rnew);
        LD e = 0;
        e = fmaxl(e, ref::maxAbsDiff(symToM3<P>(ms.calcInertia().asSymMat33()), ISref) / scale);
        e = fmaxl(e, ref::maxAbsDiff(ref::toV3(ms.getMassCenter()), cS) / (1 + ref::maxAbs(c) + ref::maxAbs(s)));
        e = fmaxl(e, ref::maxAbsDiff(symToM3<P>(mt.calcInertia().asSymMat33()), ref::mul(ref::mul(RnT, ISref), Rn)) / scale);
        e = fmaxl(e, ref::maxAbsDiff(ref::toV3(mt.getMassCenter()), ref::mul(RnT, cS)) / (1 + ref::maxAbs(c) + ref::maxAbs(s)));
        e = fmaxl(e, ref::maxAbsDiff(symToM3<P>(mr.calcInertia().asSymMat33()), ref::mul(ref::mul(RnT, IOref), Rn)) / scale);
        e = fmaxl(e, ref::maxAbsDiff(ref::toV3(mr.getMassCenter()), ref::mul(RnT, c)) / (1 + ref::maxAbs(c)));
        run.residual(NM("massprops-shift-transform-reexpress"), (double)e, tol, C.w(), C.r());
        run.expect(ms.getMass() == mass && mt.getMass() == mass && mr.getMass() == mass, NM("massprops-mass-preserved"), [&] { return "mass changed at " + C.s; }, C.r());
        run.residual(NM("massprops-spatial-matrix"), (double)(ref::maxAbsDiff(spatialToM6<P>(mp.toSpatialMat()), rbiDense(IOref, c, m)) / scale), tol, C.w(), C.r());
        Mat<6, 6, P> m66 = mp.toMat66(); M6 d66; for (int i = 0; i < 6; ++i) for (int j = 0; j < 6; ++j) d66.a[i][j] = (LD)m66(i, j);
        run.residual(NM("massprops-mat66"), (double)(ref::maxAbsDiff(d66, rbiDense(IOref, c, m)) / scale), tol, C.w(), C.r());
    }
    // ---- SpatialInertia: shift / reexpress / transform against first principles and against MassProperties
    const SpatialInertia_<P> rbi(mass, com, GO);
    const M6 Mref = rbiDense(IOref, c, m);
    run.residual(NM("spatial-inertia-matrix"), (double)(ref::maxAbsDiff(spatialToM6<P>(rbi.toSpatialMat()), Mref) / scale), tol, C.w(), C.r());
    const M6 MSref = rbiDense(ISref, cS, m);
    const M6 MTref = rbiDense(ref::mul(ref::mul(RnT, ISref), Rn), ref::mul(RnT, cS), m);
    {
        SpatialInertia_<P> sh = rbi.shift(S), re = rbi.reexpress(Rnew), re2 = rbi.reexpress(~Rnew);
        Transform_<P> X(Rnew, S);
        SpatialInertia_<P> tr = rbi.transform(X);
        run.residual(NM("spatial-inertia-shift"), (double)(ref::maxAbsDiff(spatialToM6<P>(sh.toSpatialMat()), MSref) / scale), tol, C.w(), C.r());
        run.residual(NM("spatial-inertia-reexpress"), (double)(fmaxl(ref::maxAbsDiff(spatialToM6<P>(re.toSpatialMat()), rbiDense(ref::mul(ref::mul(RnT, IOref), Rn), ref::mul(RnT, c), m)),
                                                                      ref::maxAbsDiff(spatialToM6<P>(re2.toSpatialMat()), rbiDense(ref::mul(ref::mul(Rn, IOref), RnT), ref::mul(Rn, c), m))) / scale), tol, C.w(), C.r());
        run.residual(NM("spatial-inertia-transform"), (double)(ref::maxAbsDiff(spatialToM6<P>(tr.toSpatialMat()), MTref) / scale), tol, C.w(), C.r());
        // transform by an InverseTransform: X_FB given as ~X_BF
        Transform_<P> Xinv; Xinv = ~X;           // X_BF stored explicitly
        SpatialInertia_<P> tr2 = rbi.transform(~Xinv);
        run.residual(NM("spatial-inertia-transform-by-inverse"), (double)(ref::maxAbsDiff(spatialToM6<P>(tr2.toSpatialMat()), MTref) / scale), tol, C.w(), C.r());
        // the same through MassProperties
        MassProperties_<P> mt = mp.calcTransformedMassProps(X);
        run.residual(NM("massprops-transform-equals-spatial-inertia-transform"), (double)(ref::maxAbsDiff(spatialToM6<P>(mt.toSpatialMat()), spatialToM6<P>(tr.toSpatialMat())) / scale), tol, C.w(), C.r());
        // dense 6x6 congruence:  M(O+S) = Phi(S)^T ... for a *rigid* shift the spatial inertia obeys M' = Phi(-S) M Phi(-S)^T
        M6 ph = phiDense(ref::scale(s, -1));
        run.residual(NM("spatial-inertia-shift-is-6x6-congruence"), (double)(ref::maxAbsDiff(spatialToM6<P>(sh.toSpatialMat()), ref::mul(ref::mul(ph, Mref), ref::transp(ph))) / scale), tol, C.w(), C.r());
        SpatialInertia_<P> a = rbi, b = rbi; a.shiftInPlace(S); b.transformInPlace(X);
        run.expect(spatialToM6<P>(a.toSpatialMat()).a[0][0] == spatialToM6<P>(sh.toSpatialMat()).a[0][0] && a.getMassCenter() == sh.getMassCenter() && b.getMassCenter() == tr.getMassCenter() && b.getUnitInertia() == tr.getUnitInertia(),
                   NM("spatial-inertia-in-place-equals-copying-form"), [&] { return "InPlace variant differs at " + C.s; }, C.r());
    }
    // ---- kinetic energy and power are invariant under consistent shift / re-expression
    {
        static const double VEL[3][6] = {{1, 0, 0, 0, 0, 0}, {0.4, -0.7, 1.1, 0.9, 0.2, -1.3}, {0, 0, 1, 0, 1, 0}};
        for (int k = 0; k < 3; ++k) {
            const SV Vo(V((P)VEL[k][0], (P)VEL[k][1], (P)VEL[k][2]), V((P)VEL[k][3], (P)VEL[k][4], (P)VEL[k][5]));
            const SV Fo(V((P)VEL[(k + 1) % 3][3], (P)VEL[(k + 1) % 3][4], (P)VEL[(k + 1) % 3][5]), V((P)VEL[(k + 1) % 3][0], (P)VEL[(k + 1) % 3][1], (P)VEL[(k + 1) % 3][2]));
            const V3 w = ref::toV3(Vo[0]), v = ref::toV3(Vo[1]);
            // first principles: KE = 1/2 m |v_com|^2 + 1/2 w.Ic w
            const V3 vc = ref::add(v, ref::cross(w, c));
            const LD keRef = (m * ref::dot(vc, vc) + ref::dot(w, ref::mul(ref::scale(Gc, m), w))) / 2;
            const LD kscale = scale * (1 + ref::dot(w, w)) + m * ref::dot(v, v);
            auto ke = [&](const SpatialInertia_<P>& M, const SV& Vv) { SV MV = M * Vv; return ((LD)dot(Vv[0], MV[0]) + (LD)dot(Vv[1], MV[1])) / 2; };
            const LD ke0 = ke(rbi, Vo);
            run.residual(NM("kinetic-energy-vs-first-principles"), (double)(fabsl(ke0 - keRef) / kscale), tol, C.w(), C.r());
            // shift the reference point by S: V' = (w, v + w x S)   (P arithmetic in the harness for float; the library helper for double below)
            const SV Vs(Vo[0], Vo[1] + Vo[0] % S);
            const SV Fs(Fo[0] - S % Fo[1], Fo[1]);
            const SpatialInertia_<P> sh = rbi.shift(S);
            run.residual(NM("kinetic-energy-invariant-under-shift"), (double)(fabsl(ke(sh, Vs) - keRef) / (kscale * (1 + (double)ref::dot(s, s)))), tol, C.w(), C.r());
            const SV Vr(~Rnew * Vs[0], ~Rnew * Vs[1]);
            Transform_<P> X(Rnew, S);
            run.residual(NM("kinetic-energy-invariant-under-transform"), (double)(fabsl(ke(rbi.transform(X), Vr) - keRef) / (kscale * (1 + (double)ref::dot(s, s)))), tol, C.w(), C.r());
            const LD pw0 = (LD)dot(Fo[0], Vo[0]) + (LD)dot(Fo[1], Vo[1]);
            const LD pw1 = (LD)dot(Fs[0], Vs[0]) + (LD)dot(Fs[1], Vs[1]);
            run.residual(NM("power-invariant-under-shift"), (double)(fabsl(pw1 - pw0) / (1 + ref::maxAbs(s)) / 8), tol, C.w(), C.r());
            // momentum M V against the dense 6x6 product
            V6 mv = spatialToV6<P>(rbi * Vo);
            V6 want = ref::mul(Mref, spatialToV6<P>(Vo));
            LD e = 0; for (int i = 0; i < 6; ++i) e = fmaxl(e, fabsl(mv[i] - want[i]));
            run.residual(NM("spatial-inertia-times-velocity"), (double)(e / (scale * 2)), tol, C.w(), C.r());
        }
    }
    // ---- sum and difference of two bodies about the same point
    {
        SpatialInertia_<P> other((P)(2 * mass0), vecP<P>(ref::vec(0.2, -0.4, 0.1)), UnitInertia_<P>((P)0.5, (P)0.7, (P)0.9));
        M6 Mo = spatialToM6<P>(other.toSpatialMat());
        SpatialInertia_<P> sum = rbi + other, diff = sum - other;
        run.residual(NM("spatial-inertia-sum"), (double)(ref::maxAbsDiff(spatialToM6<P>(sum.toSpatialMat()), [&] { M6 r = Mref; for (int i = 0; i < 6; ++i) for (int j = 0; j < 6; ++j) r.a[i][j] += Mo.a[i][j]; return r; }()) / (scale + 2 * m)), tol, C.w(), C.r());
        run.residual(NM("spatial-inertia-sum-minus-part"), (double)(ref::maxAbsDiff(spatialToM6<P>(diff.toSpatialMat()), Mref) / (scale + 2 * m)) / 8, tol, C.w(), C.r());
    }
    // ---- articulated body inertia: rigid shift is the documented congruence  P' = Phi(s) P Phi(s)^T,  Phi = [1 sx; 0 1]
    {
        ArticulatedInertia_<P> abi(rbi);
        run.residual(NM("abi-from-rbi"), (double)(ref::maxAbsDiff(spatialToM6<P>(abi.toSpatialMat()), Mref) / scale), tol, C.w(), C.r());
        // make it a general ABI: add a symmetric, non-rigid 6x6 part
        SymMat<3, P> dM((P)0.3, (P)0.05, (P)0.4, (P)-0.02, (P)0.07, (P)0.6), dJ((P)0.9, (P)-0.1, (P)0.8, (P)0.2, (P)0.15, (P)1.1);
        Mat<3, 3, P> dF((P)0.1, (P)-0.3, (P)0.2, (P)0.5, (P)0.05, (P)-0.4, (P)-0.25, (P)0.35, (P)0.15);
        ArticulatedInertia_<P> gen = abi + ArticulatedInertia_<P>(dM * mass, dF * mass, dJ * mass);
        const M6 Pd = spatialToM6<P>(gen.toSpatialMat());
        bool sym = true; for (int i = 0; i < 6; ++i) for (int j = 0; j < 6; ++j) if (Pd.a[i][j] != Pd.a[j][i]) sym = false;
        run.expect(sym, NM("abi-spatial-matrix-symmetric"), [&] { return "toSpatialMat not symmetric at " + C.s; }, C.r());
        M6 ph = phiDense(s);
        ArticulatedInertia_<P> sh = gen.shift(S), ip = gen; ip.shiftInPlace(S);
        const LD asc = scale + m * (1 + ref::maxAbs(s)) * (1 + ref::maxAbs(s));
        run.residual(NM("abi-shift-is-6x6-congruence"), (double)(ref::maxAbsDiff(spatialToM6<P>(sh.toSpatialMat()), ref::mul(ref::mul(ph, Pd), ref::transp(ph))) / asc), tol, C.w(), C.r());
        run.residual(NM("abi-shift-in-place-equals-copying-form"), (double)(ref::maxAbsDiff(spatialToM6<P>(sh.toSpatialMat()), spatialToM6<P>(ip.toSpatialMat())) / asc), tol, C.w(), C.r());
        // documented: opposite sign convention to SpatialInertia::shift
        ArticulatedInertia_<P> viaRbi(rbi.shift(-S));
        run.residual(NM("abi-shift-equals-rbi-shift-by-minus-s"), (double)(ref::maxAbsDiff(spatialToM6<P>(abi.shift(S).toSpatialMat()), spatialToM6<P>(viaRbi.toSpatialMat())) / asc), tol, C.w(), C.r());
        const SV Vo(V((P)0.4, (P)-0.7, (P)1.1), V((P)0.9, (P)0.2, (P)-1.3));
        V6 pv = spatialToV6<P>(gen * Vo), want = ref::mul(Pd, spatialToV6<P>(Vo));
        LD e = 0; for (int i = 0; i < 6; ++i) e = fmaxl(e, fabsl(pv[i] - want[i]));
        run.residual(NM("abi-times-spatial-vector"), (double)(e / (asc * 2)), tol, C.w(), C.r());
        ArticulatedInertia_<P> back = gen - ArticulatedInertia_<P>(dM * mass, dF * mass, dJ * mass);
        run.residual(NM("abi-sum-minus-part"), (double)(ref::maxAbsDiff(spatialToM6<P>(back.toSpatialMat()), Mref) / asc), tol, C.w(), C.r());
        run.outcome(verif::hashPod(sh.toSpatialMat()));
    }
}


// The error checks compiled into the inline code (harness built without NDEBUG) may legitimately fire when the
// requested shift is numerically meaningless in precision P: the central inertia is obtained by subtracting
// numbers of size |com|^2 from numbers of the same size.  Such throws are counted, not judged; a throw on a
// well-conditioned case is a violation.
template <class P> static void caseBody(verif::Run& run, int im, const Rotation_<P>& Rori, int iR, const V3& com0, const V3& S0, LD mass0, const Rotation_<P>& Rnew, int iR2) {
    Ctx C{run, "", run.replayHeader()};
    try { caseBodyImpl<P>(run, C, im, Rori, iR, com0, S0, mass0, Rnew, iR2); }
    catch (const std::exception& e) {
        const LD lost = Prec<P>::eps() * (ref::dot(com0, com0) + ref::dot(S0, S0));      // absolute rounding error of the unit central inertia
        const LD slop = sqrtl((LD)Prec<P>::eps()) / 10;                                    // a tenth of the library's own validity slop
        if (lost > slop) run.count(std::string("skipped.") + Prec<P>::tag() + ":error-check-fired-on-ill-conditioned-shift");
        else {
            const std::string msg = e.what();
            const char* clause = msg.find("must be nonnegative") != std::string::npos ? "nonnegative-diagonal-check" : msg.find("triangle") != std::string::npos ? "triangle-inequality-check"
                               : msg.find("product of inertia") != std::string::npos ? "product-check" : "other";
            run.expect(false, NM("error-check-rejects-valid-body") + "/" + clause, [&] { return msg.substr(0, 300) + " at " + C.s; }, C.r());
        }
    }
}

// ================================================================ section 2: validity tests on a complete matrix lattice
static const double DIAGS[7] = {-1, 0, 1, 2, 3, 3.5, 0.5};
static const double PRODS[7] = {0, 0.25, -0.25, 0.5, -1, 1.5, -2};
template <class P> static void caseValidity(verif::Run& run, int64_t code) {
    int d[6]; int64_t c = code; for (int i = 0; i < 6; ++i) { d[i] = (int)(c % 7); c /= 7; }
    const LD xx = DIAGS[d[0]], yy = DIAGS[d[1]], zz = DIAGS[d[2]], xy = PRODS[d[3]], xz = PRODS[d[4]], yz = PRODS[d[5]];
    Ctx C{run, fmt("P=%s xx=%.4Lg yy=%.4Lg zz=%.4Lg xy=%.4Lg xz=%.4Lg yz=%.4Lg", Prec<P>::tag(), xx, yy, zz, xy, xz, yz), run.replayHeader()};
    run.evaluationDistinct(true);
    // documented necessary conditions, exact on this lattice (every violation is by >= 0.25, far above any slop)
    const bool nonneg = xx >= 0 && yy >= 0 && zz >= 0;
    const bool tri = xx + yy >= zz && xx + zz >= yy && yy + zz >= xx;
    const bool prod = xx >= fabsl(2 * yz) && yy >= fabsl(2 * xz) && zz >= fabsl(2 * xy);
    const bool expectValid = nonneg && tri && prod;
    SymMat<3, P> S((P)xx, (P)xy, (P)yy, (P)xz, (P)yz, (P)zz);
    bool got = Inertia_<P>::isValidInertiaMatrix(S), gotU = UnitInertia_<P>::isValidUnitInertiaMatrix(S);
    const char* cls = !nonneg ? "negative-moment" : !tri ? "triangle-inequality" : !prod ? "product-too-large" : "valid";
    run.count(std::string("validity-lattice.") + Prec<P>::tag() + ":" + cls);
    run.expect(got == expectValid && gotU == got, NM("isValidInertiaMatrix-matches-documented-conditions") + "/" + cls, [&] { return fmt("answered %d, documented conditions say %d (%s) at ", (int)got, (int)expectValid, cls) + C.s; }, C.r());
    // constructors (error checking is compiled in: the harness is built without NDEBUG, i.e. "Debug mode" of the inline code)
    int threw = 0, ctors = 0;
    auto attempt = [&](const std::function<void()>& f) { ++ctors; try { f(); } catch (const std::exception&) { ++threw; } };
    attempt([&] { Inertia_<P> I(S); (void)I; });
    attempt([&] { Inertia_<P> I((P)xx, (P)yy, (P)zz, (P)xy, (P)xz, (P)yz); (void)I; });
    attempt([&] { Inertia_<P> I(Vec<3, P>((P)xx, (P)yy, (P)zz), Vec<3, P>((P)xy, (P)xz, (P)yz)); (void)I; });
    attempt([&] { Inertia_<P> I; I.setInertia((P)xx, (P)yy, (P)zz, (P)xy, (P)xz, (P)yz); });
    attempt([&] { UnitInertia_<P> I((P)xx, (P)yy, (P)zz, (P)xy, (P)xz, (P)yz); (void)I; });
    attempt([&] { Mat<3, 3, P> mm((P)xx, (P)xy, (P)xz, (P)xy, (P)yy, (P)yz, (P)xz, (P)yz, (P)zz); Inertia_<P> I(mm); (void)I; });
    run.expect(expectValid ? threw == 0 : threw == ctors, NM("constructors-accept-valid-reject-invalid") + "/" + cls, [&] { return fmt("%d of %d constructors threw, documented conditions say valid=%d (%s) at ", threw, ctors, (int)expectValid, cls) + C.s; }, C.r());
    // observation (not asserted: the documentation promises only necessary conditions): accepted but not physical
    if (got) {
        LD ev[3]; ref::symEig3(symToM3<P>(S), ev);
        if (ev[0] < -1e-9L) run.count(std::string("observation.") + Prec<P>::tag() + ":accepted-but-not-positive-semidefinite");
        else if (ev[2] > ev[0] + ev[1] + 1e-9L) run.count(std::string("observation.") + Prec<P>::tag() + ":accepted-but-principal-moments-violate-triangle-inequality");
        else run.count(std::string("observation.") + Prec<P>::tag() + ":accepted-and-physical");
    }
    run.outcome(verif::hashMix(got, threw));
}
template <class P> static void caseValidityMisc(verif::Run& run) {
    Ctx C{run, fmt("P=%s NaN / negative-mass / unsymmetric cases", Prec<P>::tag()), run.replayHeader()};
    run.evaluationDistinct(true);
    const P nan = NTraits<P>::getNaN();
    int bad = 0;
    for (int k = 0; k < 6; ++k) {
        P e[6] = {1, 0, 1, 0, 0, 1}; e[k] = nan;
        SymMat<3, P> S(e[0], e[1], e[2], e[3], e[4], e[5]);
        if (Inertia_<P>::isValidInertiaMatrix(S)) ++bad;
        bool threw = false; try { Inertia_<P> I(S); (void)I; } catch (const std::exception&) { threw = true; }
        if (!threw) ++bad;
    }
    run.expect(bad == 0, NM("nan-inertia-rejected"), [&] { return fmt("%d NaN cases accepted at ", bad) + C.s; }, C.r());
    bool threw = false; try { SpatialInertia_<P> s; s.setMass(-1); } catch (const std::exception&) { threw = true; }
    run.expect(threw, NM("negative-mass-rejected"), [&] { return "SpatialInertia::setMass(-1) accepted at " + C.s; }, C.r());
    threw = false; try { Mat<3, 3, P> mm(1, (P)0.3, 0, 0, 1, 0, 0, 0, 1); Inertia_<P> I(mm); (void)I; } catch (const std::exception&) { threw = true; }
    run.expect(threw, NM("unsymmetric-matrix-rejected"), [&] { return "Inertia(Mat33) accepted an unsymmetric matrix at " + C.s; }, C.r());
    Inertia_<P> def; run.expect(def.isNaN(), NM("default-inertia-is-nan"), [&] { return "default Inertia is not NaN at " + C.s; }, C.r());
    // shape factories against the textbook formulas (unit mass)
    const P r = (P)0.7, h = (P)1.3, a = (P)0.4, b = (P)0.9, c = (P)1.6;
    LD e = 0;
    auto diagOf = [](const UnitInertia_<P>& G) { return ref::vec(G.getMoments()[0], G.getMoments()[1], G.getMoments()[2]); };
    const LD rl = r, hl = h, al = a, bl = b, cl = c;
    e = fmaxl(e, ref::maxAbsDiff(diagOf(UnitInertia_<P>::sphere(r)), ref::vec(0.4L * rl * rl, 0.4L * rl * rl, 0.4L * rl * rl)));
    e = fmaxl(e, ref::maxAbsDiff(diagOf(UnitInertia_<P>::cylinderAlongZ(r, h)), ref::vec(rl * rl / 4 + hl * hl / 3, rl * rl / 4 + hl * hl / 3, rl * rl / 2)));
    e = fmaxl(e, ref::maxAbsDiff(diagOf(UnitInertia_<P>::cylinderAlongY(r, h)), ref::vec(rl * rl / 4 + hl * hl / 3, rl * rl / 2, rl * rl / 4 + hl * hl / 3)));
    e = fmaxl(e, ref::maxAbsDiff(diagOf(UnitInertia_<P>::cylinderAlongX(r, h)), ref::vec(rl * rl / 2, rl * rl / 4 + hl * hl / 3, rl * rl / 4 + hl * hl / 3)));
    e = fmaxl(e, ref::maxAbsDiff(diagOf(UnitInertia_<P>::brick(a, b, c)), ref::vec((bl * bl + cl * cl) / 3, (al * al + cl * cl) / 3, (al * al + bl * bl) / 3)));
    e = fmaxl(e, ref::maxAbsDiff(diagOf(UnitInertia_<P>::ellipsoid(a, b, c)), ref::vec((bl * bl + cl * cl) / 5, (al * al + cl * cl) / 5, (al * al + bl * bl) / 5)));
    e = fmaxl(e, ref::maxAbsDiff(diagOf(UnitInertia_<P>(Inertia_<P>::brick(Vec<3, P>(a, b, c)))), ref::vec((bl * bl + cl * cl) / 3, (al * al + cl * cl) / 3, (al * al + bl * bl) / 3)));
    run.residual(NM("shape-factories-vs-textbook"), (double)e, TOL<P>(), C.w(), C.r());
}

// ================================================================ section 3: spatial algebra helpers (Real = double only)
struct Pose { M3 R; V3 p; };
static V3 veeOf(const M3& m) { return ref::vec((m.a[2][1] - m.a[1][2]) / 2, (m.a[0][2] - m.a[2][0]) / 2, (m.a[1][0] - m.a[0][1]) / 2); }
static void caseSpatialAlgebra(verif::Run& run, const std::vector<Rotation_<double>>& Rs, int iA, int iB, int ip, int iv, const std::vector<V3>& shifts) {
    static const double VS[4][6] = {{1, 0, 0, 0, 0, 0}, {0, 0, 0, 0, 1, 0}, {0.4, -0.7, 1.1, 0.9, 0.2, -1.3}, {-1.2, 0.5, 0.3, 2.0, -0.6, 0.8}};
    const double tol = TOL<double>();
    const V3 r = shifts[ip];
    Ctx C{run, fmt("P=d spatial algebra RA=%d RB=%d offset=(%.9Lg, %.9Lg, %.9Lg) velocity-set=%d", iA, iB, r[0], r[1], r[2], iv), run.replayHeader()};
    run.evaluationDistinct(true);
    const Vec3 rr((double)r[0], (double)r[1], (double)r[2]);
    const double* a = VS[iv]; const double* b = VS[(iv + 1) % 4]; const double* cc = VS[(iv + 2) % 4]; const double* dd = VS[(iv + 3) % 4];
    const SpatialVec V(Vec3(a[0], a[1], a[2]), Vec3(a[3], a[4], a[5])), A(Vec3(b[0], b[1], b[2]), Vec3(b[3], b[4], b[5])), F(Vec3(cc[0], cc[1], cc[2]), Vec3(cc[3], cc[4], cc[5]));
    const V3 w = ref::toV3(V[0]), v = ref::toV3(V[1]), bb = ref::toV3(A[0]), aa = ref::toV3(A[1]), mo = ref::toV3(F[0]), f = ref::toV3(F[1]);
    const LD sc = (1 + ref::maxAbs(r)) * 8;
    // rigid-body point kinematics
    SpatialVec Vs = shiftVelocityBy(V, rr), Vs2 = shiftVelocityFromTo(V, Vec3(0.5, 0.25, -1), Vec3(0.5, 0.25, -1) + rr);
    run.residual("shift-velocity.d", (double)(fmaxl(ref::maxAbsDiff(ref::toV3(Vs[1]), ref::add(v, ref::cross(w, r))), ref::maxAbsDiff(ref::toV3(Vs2[1]), ref::add(v, ref::cross(w, r)))) / sc), tol, C.w(), C.r());
    run.expect(Vs[0] == V[0] && Vs2[0] == V[0], "shift-velocity-keeps-angular-part.d", [&] { return "angular velocity changed at " + C.s; }, C.r());
    SpatialVec As = shiftAccelerationBy(A, V[0], rr), As2 = shiftAccelerationFromTo(A, V[0], Vec3(0.5, 0.25, -1), Vec3(0.5, 0.25, -1) + rr);
    V3 aref = ref::add(ref::add(aa, ref::cross(bb, r)), ref::cross(w, ref::cross(w, r)));
    run.residual("shift-acceleration.d", (double)(fmaxl(ref::maxAbsDiff(ref::toV3(As[1]), aref), ref::maxAbsDiff(ref::toV3(As2[1]), aref)) / (sc * 4)), tol, C.w(), C.r());
    run.expect(As[0] == A[0], "shift-acceleration-keeps-angular-part.d", [&] { return "angular acceleration changed at " + C.s; }, C.r());
    SpatialVec Fs = shiftForceBy(F, rr), Fs2 = shiftForceFromTo(F, Vec3(0.5, 0.25, -1), Vec3(0.5, 0.25, -1) + rr);
    V3 mref = ref::sub(mo, ref::cross(r, f));
    run.residual("shift-force.d", (double)(fmaxl(ref::maxAbsDiff(ref::toV3(Fs[0]), mref), ref::maxAbsDiff(ref::toV3(Fs2[0]), mref)) / sc), tol, C.w(), C.r());
    run.expect(Fs[1] == F[1], "shift-force-keeps-force.d", [&] { return "force changed at " + C.s; }, C.r());
    // power is the same at every point of the body
    LD pw0 = ref::dot(mo, w) + ref::dot(f, v), pw1 = (LD)dot(Fs[0], Vs[0]) + (LD)dot(Fs[1], Vs[1]);
    run.residual("power-invariant-under-shift-helpers.d", (double)(fabsl(pw1 - pw0) / (sc * 4)), tol, C.w(), C.r());
    // shifting back restores
    SpatialVec Vb = shiftVelocityBy(Vs, -rr), Fb = shiftForceBy(Fs, -rr), Ab = shiftAccelerationBy(As, V[0], -rr);
    run.residual("shift-there-and-back.d", (double)(fmaxl(fmaxl(ref::maxAbsDiff(ref::toV3(Vb[1]), v), ref::maxAbsDiff(ref::toV3(Fb[0]), mo)), ref::maxAbsDiff(ref::toV3(Ab[1]), aa)) / (sc * sc)), tol, C.w(), C.r());
    // PhiMatrix against its dense form
    {
        PhiMatrix phi(rr); M6 pd = phiDense(r);
        LD e = ref::maxAbsDiff(spatialToM6<double>(phi.toSpatialMat()), pd);
        e = fmaxl(e, ref::maxAbsDiff(spatialToM6<double>((~phi).toSpatialMat()), ref::transp(pd)));
        V6 x = spatialToV6<double>(V);
        V6 y1 = spatialToV6<double>(phi * V), y2 = spatialToV6<double>(~phi * V), w1 = ref::mul(pd, x), w2 = ref::mul(ref::transp(pd), x);
        for (int i = 0; i < 6; ++i) e = fmaxl(e, fmaxl(fabsl(y1[i] - w1[i]), fabsl(y2[i] - w2[i])));
        SpatialMat sm(Mat33(1, 2, 3, 4, 5, 6, 7, 8, 10), Mat33(0.5, -1, 0.25, 2, 1, -3, 0.1, 0.2, 0.3), Mat33(-1, 0, 2, 0.5, 0.5, 1, 3, -2, 1), Mat33(2, 0, 1, 0, 3, 0, 1, 0, 4));
        M6 sd = spatialToM6<double>(sm);
        e = fmaxl(e, ref::maxAbsDiff(spatialToM6<double>(phi * sm), ref::mul(pd, sd)) / 16);
        e = fmaxl(e, ref::maxAbsDiff(spatialToM6<double>(sm * phi), ref::mul(sd, pd)) / 16);
        e = fmaxl(e, ref::maxAbsDiff(spatialToM6<double>(~phi * sm), ref::mul(ref::transp(pd), sd)) / 16);
        e = fmaxl(e, ref::maxAbsDiff(spatialToM6<double>(sm * ~phi), ref::mul(sd, ref::transp(pd))) / 16);
        run.residual("phi-matrix-vs-dense.d", (double)(e / sc), tol, C.w(), C.r());
    }
    // relative velocity / acceleration of two moving frames: first principles by differentiating X_AB(t) = X_FA(t)^-1 X_FB(t)
    {
        const Transform X_FA(Rs[iA], Vec3(0.3, -0.2, 0.5)), X_FB(Rs[iB], Vec3(0.3, -0.2, 0.5) + rr);
        const SpatialVec V_FA = V, A_FA = A;
        const SpatialVec V_FB(Vec3(dd[0], dd[1], dd[2]), Vec3(dd[3], dd[4], dd[5])), A_FB = F;
        auto pose = [&](const Transform& X0, const SpatialVec& Vv, const SpatialVec& Av, LD t) {
            V3 th = ref::add(ref::scale(ref::toV3(Vv[0]), t), ref::scale(ref::toV3(Av[0]), t * t / 2));
            LD ang = ref::norm(th);
            Pose p; p.R = ref::mul(ang == 0 ? ref::ident3() : ref::rodrigues(ang, th), ref::toM3(X0.R()));
            p.p = ref::add(ref::add(ref::toV3(X0.p()), ref::scale(ref::toV3(Vv[1]), t)), ref::scale(ref::toV3(Av[1]), t * t / 2));
            return p;
        };
        auto rel = [&](LD t, M3& Rab, V3& pab) { Pose pa = pose(X_FA, V_FA, A_FA, t), pb = pose(X_FB, V_FB, A_FB, t); Rab = ref::mul(ref::transp(pa.R), pb.R); pab = ref::mul(ref::transp(pa.R), ref::sub(pb.p, pa.p)); };
        const LD h = 1.0L / 1024;
        M3 R0, Rm[5]; V3 p0, pm[5];    // t = -2h,-h,0,h,2h
        for (int k = 0; k < 5; ++k) rel((k - 2) * h, Rm[k], pm[k]);
        R0 = Rm[2]; p0 = pm[2];
        auto d1M = [&](LD hh, int st) { M3 a2, a1, b1, b2; V3 q; rel(-2 * hh, a2, q); rel(-hh, a1, q); rel(hh, b1, q); rel(2 * hh, b2, q); (void)st; return ref::scale(ref::add(ref::scale(ref::sub(b1, a1), 8), ref::sub(a2, b2)), 1 / (12 * hh)); };
        auto d2M = [&](LD hh) { M3 a2, a1, b1, b2, z; V3 q; rel(-2 * hh, a2, q); rel(-hh, a1, q); rel(hh, b1, q); rel(2 * hh, b2, q); rel(0, z, q); return ref::scale(ref::add(ref::add(ref::scale(ref::add(b1, a1), 16), ref::scale(ref::add(b2, a2), -1)), ref::scale(z, -30)), 1 / (12 * hh * hh)); };
        auto d1V = [&](LD hh) { M3 q; V3 a2, a1, b1, b2; rel(-2 * hh, q, a2); rel(-hh, q, a1); rel(hh, q, b1); rel(2 * hh, q, b2); return ref::scale(ref::add(ref::scale(ref::sub(b1, a1), 8), ref::sub(a2, b2)), 1 / (12 * hh)); };
        auto d2V = [&](LD hh) { M3 q; V3 a2, a1, b1, b2, z; rel(-2 * hh, q, a2); rel(-hh, q, a1); rel(hh, q, b1); rel(2 * hh, q, b2); rel(0, q, z); return ref::scale(ref::add(ref::add(ref::scale(ref::add(b1, a1), 16), ref::scale(ref::add(b2, a2), -1)), ref::scale(z, -30)), 1 / (12 * hh * hh)); };
        auto richM = [&](const std::function<M3(LD)>& g, LD& est) { M3 x = g(h), y = g(h / 2); est = ref::maxAbsDiff(x, y) / 15; return ref::add(y, ref::scale(ref::sub(y, x), 1.0L / 15)); };
        auto richV = [&](const std::function<V3(LD)>& g, LD& est) { V3 x = g(h), y = g(h / 2); est = ref::maxAbsDiff(x, y) / 15; return ref::add(y, ref::scale(ref::sub(y, x), 1.0L / 15)); };
        LD e1, e2, e3, e4;
        M3 Rd = richM([&](LD hh) { return d1M(hh, 0); }, e1), Rdd = richM([&](LD hh) { return d2M(hh); }, e2);
        V3 pd = richV([&](LD hh) { return d1V(hh); }, e3), pdd = richV([&](LD hh) { return d2V(hh); }, e4);
        const LD vsc = sc * 16;
        if ((double)fmaxl(fmaxl(e1, e2), fmaxl(e3, e4)) <= 1e-9 * (double)vsc) {
            run.count("relative-motion-fd.d:richardson-agreed");
            V3 wAB = veeOf(ref::mul(Rd, ref::transp(R0)));                 // w^ = Rdot R^T, expressed in A
            V3 bAB = veeOf(ref::mul(Rdd, ref::transp(R0)));                // skew part of Rddot R^T
            SpatialVec V_AB = findRelativeVelocity(X_FA, V_FA, X_FB, V_FB);
            run.residual("relative-velocity-is-derivative-of-relative-pose.d", (double)(fmaxl(ref::maxAbsDiff(ref::toV3(V_AB[0]), wAB), ref::maxAbsDiff(ref::toV3(V_AB[1]), pd)) / vsc), 1e-9, C.w(), C.r());
            SpatialVec A_AB = findRelativeAcceleration(X_FA, V_FA, A_FA, X_FB, V_FB, A_FB);
            run.residual("relative-acceleration-is-second-derivative-of-relative-pose.d", (double)(fmaxl(ref::maxAbsDiff(ref::toV3(A_AB[0]), bAB), ref::maxAbsDiff(ref::toV3(A_AB[1]), pdd)) / (vsc * 8)), 1e-9, C.w(), C.r());
            // InF variants are the same vectors re-expressed
            const Vec3 p_AB_F = X_FB.p() - X_FA.p();
            SpatialVec VinF = findRelativeVelocityInF(p_AB_F, V_FA, V_FB), AinF = findRelativeAccelerationInF(p_AB_F, V_FA, A_FA, V_FB, A_FB);
            M3 RFA = ref::toM3(X_FA.R());
            run.residual("relative-motion-inF-variants.d", (double)(fmaxl(fmaxl(ref::maxAbsDiff(ref::mul(RFA, ref::toV3(V_AB[0])), ref::toV3(VinF[0])), ref::maxAbsDiff(ref::mul(RFA, ref::toV3(V_AB[1])), ref::toV3(VinF[1]))),
                                                                       fmaxl(ref::maxAbsDiff(ref::mul(RFA, ref::toV3(A_AB[0])), ref::toV3(AinF[0])), ref::maxAbsDiff(ref::mul(RFA, ref::toV3(A_AB[1])), ref::toV3(AinF[1])))) / (vsc * 8)), tol, C.w(), C.r());
            // reversing: V_BA from V_AB must equal the directly computed relative velocity of A in B
            Transform X_AB = ~X_FA * X_FB;
            SpatialVec V_BA = reverseRelativeVelocity(X_AB, V_AB), V_BA_direct = findRelativeVelocity(X_FB, V_FB, X_FA, V_FA);
            SpatialVec V_BA_A = reverseRelativeVelocityInA(X_AB, V_AB);
            M3 RAB = ref::toM3(X_AB.R());
            run.residual("reverse-relative-velocity.d", (double)(fmaxl(fmaxl(ref::maxAbsDiff(ref::toV3(V_BA[0]), ref::toV3(V_BA_direct[0])), ref::maxAbsDiff(ref::toV3(V_BA[1]), ref::toV3(V_BA_direct[1]))),
                                                                    fmaxl(ref::maxAbsDiff(ref::mul(RAB, ref::toV3(V_BA[0])), ref::toV3(V_BA_A[0])), ref::maxAbsDiff(ref::mul(RAB, ref::toV3(V_BA[1])), ref::toV3(V_BA_A[1])))) / vsc), tol, C.w(), C.r());
            run.outcome(verif::hashPod(A_AB));
        } else run.count("relative-motion-fd.d:skipped-richardson-disagreed");
    }
}

// ================================================================ driver
template <class P> static void runBodies(verif::Run& run) {
    const std::string t = std::string(".") + Prec<P>::tag();
    const std::vector<Rotation_<P>> Rs = rotations<P>(run);
    const std::vector<V3> sh = shiftVectors(run);
    static const LD MASS[] = {1, 2.5L, 1e-3L, 0};
    const int nR = (int)Rs.size(), nS = (int)sh.size();
    // orientation of the body x com x shift x mass x moments; the new frame is tied to (orientation index + shift index) so that all rotations occur as new frames
    verif::Odometer od; od.dim("shift", nS); od.dim("com", nS); od.dim("mass", 4); od.dim("orientation", nR); od.dim("moments", NMOM);
    run.count("rotations" + t, nR); run.count("shift-vectors" + t, nS);
    run.parallel("body" + t, od.size(), [&](int64_t idx) {
        auto d = od.digits(idx);
        int iR2 = (d[3] * 7 + d[0] * 3 + d[1] + 1) % nR;
        caseBody<P>(run, d[4], Rs[d[3]], d[3], sh[d[1]], sh[d[0]], MASS[d[2]], Rs[iR2], iR2);
    });
    run.parallel("validity" + t, 117649, [&](int64_t idx) { caseValidity<P>(run, idx); });
    run.parallel("validity-misc" + t, 1, [&](int64_t) { caseValidityMisc<P>(run); });
}

int main(int argc, char** argv) {
    verif::Run run("C29", argc, argv);
    run.setDeadline(900, 3400);   // guards only
    run.rule = "E3: every tuple (precision, principal-moment class out of 8, orientation out of 24 cube rotations + generic, mass out of {1, 2.5, 1e-3, 0}, centre of mass and shift vector out of {0, e_i, generic}x{1, 1e3}) "
               "with the new frame tied to the tuple so that every rotation occurs; the complete 7^3 x 7^3 lattice of symmetric matrices for the validity tests; (frame A, frame B, offset, velocity set) for the spatial-algebra helpers; "
               "distinct by construction; non-trivial = not (point mass at the origin)";
    run.assumptions = {"the body is the P-rounded central unit inertia R diag R^T; all references are rigid-body mechanics written densely in x87 long double",
                       "residuals are divided by the size of the inertias involved (m (|G| + |com|^2 + |shift|^2)); bound 4500 eps",
                       "validity: the documentation promises necessary conditions only (non-negative moments, triangle inequality on the diagonal, |2 product| <= opposite moment); acceptance of matrices that satisfy them but are not physical is counted, not asserted",
                       "constructor rejection is the Debug-mode (error checks compiled in) behaviour of the inline code; the harness is built without NDEBUG",
                       "spatial-algebra helpers exist for Real = double only"};
    runBodies<double>(run);
    runBodies<float>(run);
    {
        const std::vector<Rotation_<double>> Rs = rotations<double>(run);
        const std::vector<V3> sh = shiftVectors(run);
        const int nR = (int)Rs.size();
        verif::Odometer od; od.dim("vel", 4); od.dim("offset", (int64_t)sh.size()); od.dim("RB", nR); od.dim("RA", run.thorough() ? nR : 8);
        run.parallel("spatial-algebra.d", od.size(), [&](int64_t idx) { auto d = od.digits(idx); int iA = run.thorough() ? d[3] : (d[3] * 5 + 2) % nR; caseSpatialAlgebra(run, Rs, iA, d[2], d[1], d[0], sh); });
    }
    return run.finish();
}
