// C06 -- Physics is independent of the chosen representation.
// Engine E3 over *pairs* of executions of the real library that must describe the same physics:
//   T1 quat<->euler : one model, a state and its image under convertToEulerAngles / convertToQuaternions
//                     (both directions, round trip, identity conversions)
//   T2 mirror       : Custom / FunctionBased mirror of Pin, Ball, Translation, Planar vs the built-in
//                     (same q,u: the parameterisations are the same, which the oracle itself verifies)
//   T3 reversed     : reversed vs forward mobilizer for the kinds whose relative-motion family is
//                     symmetric; the reversed q,u are obtained with setQToFitTransform/setUToFitVelocity
//   T4 relocation   : the base body's inboard frame moved by a rigid X (translation, rotation, both),
//                     applied Ground-frame loads moved with it
// Oracle: every body's pose, spatial velocity, spatial acceleration and mobilizer reaction (at M, in G)
// agree, resp. differ exactly by X.  Dynamics-dependent quantities are judged relative to cond(M).
#include "Simbody.h"
#include "SimbodyMatterSubsystemRep.h"
#include "RigidBodyNode.h"
#include "verif.h"
#include "models.h"
#include "mbref.h"

#include <cxxabi.h>

using namespace SimTK;
using ref::LD; using ref::DMat;

static std::string vdemangle(const char* n) { int st = 0; char* d = abi::__cxa_demangle(n, 0, 0, &st); std::string s = d ? d : n; free(d); return s; }
std::string mb::nodeTypeName(const mb::Model& M, int bi) {
    const RigidBodyNode& n = M.matter.getRep().getRigidBodyNode(M.bodies[bi].getMobilizedBodyIndex());
    return vdemangle(typeid(n).name());
}

static const double TOL = 1e-11;       // kinematics (worst on the unchanged tree 4e-15).  Calibration in notes/C06.md
static const double TOL_DYN = 1e-10;   // accelerations, udot, qdotdot, reactions: TOL_DYN * cond(M) (worst scaled residual 1.6e-13)
static const double TOL_FD = 1e-7;     // finite-difference oracle (qdot-implied motion)

// ---------------------------------------------------------------- loads (Ground-frame vectors are rotated by R_rel in T4)
static void addLoads(mb::Model& M, const Rotation& R_rel, bool mobilityForces, int valueSet) {
    const int nb = (int)M.bodies.size();
    Force::UniformGravity(M.forces, M.matter, R_rel * Vec3(1.2, -9.1, 2.3));
    for (int b = 0; b < nb; ++b) {
        Force::ConstantForce(M.forces, M.bodies[b], Vec3(0.2 - 0.15 * b, -0.1 + 0.2 * b, 0.3 - 0.1 * b), R_rel * Vec3(1.5 - b, 0.8 * b - 0.6, -1.1 + 0.7 * b));
        Force::ConstantTorque(M.forces, M.bodies[b], R_rel * Vec3(-0.7 + 0.5 * b, 0.9 - 0.3 * b, 0.4 * b - 0.2));
    }
    if (mobilityForces) {
        M.system.realizeTopology(); State d = M.system.getDefaultState(); M.matter.setUseEulerAngles(d, M.euler); M.system.realizeModel(d);
        for (int b = 0; b < nb; ++b) { const int nu = M.bodies[b].getNumU(d); for (int i = 0; i < nu; ++i) Force::MobilityConstantForce(M.forces, M.bodies[b], i, 1.3 * mb::uv(valueSet + 2, i + 2 * b)); }
    }
}

// ---------------------------------------------------------------- what is compared
struct Snap {
    std::vector<Transform> X; std::vector<SpatialVec> V, A, FM; Vector u, udot; Real ke = 0; double cond = 1;
};
static Snap snapshot(mb::Model& M, State& s) {
    Snap p;
    M.system.realize(s, Stage::Position);
    if (s.getNU() > 0) {
        Matrix Mm; M.matter.calcM(s, Mm); DMat Md = mbref::fromMatrix(Mm), Mi;
        p.cond = ref::inverse(Md, Mi) ? (double)(ref::normInf(Md) * ref::normInf(Mi)) : INFINITY;
        if (!(p.cond >= 1)) p.cond = p.cond == p.cond ? 1 : INFINITY;
    }
    M.system.realize(s, Stage::Acceleration);
    Vector_<SpatialVec> FM; M.matter.calcMobilizerReactionForces(s, FM);
    for (auto& b : M.bodies) {
        p.X.push_back(b.getBodyTransform(s)); p.V.push_back(b.getBodyVelocity(s)); p.A.push_back(b.getBodyAcceleration(s));
        p.FM.push_back(FM[b.getMobilizedBodyIndex()]);
    }
    p.u = s.getU(); p.udot = s.getUDot(); p.ke = M.matter.calcKineticEnergy(s);
    return p;
}
static Real sv(const SpatialVec& a) { return std::max(a[0].norm(), a[1].norm()); }

// B must equal X_rel applied to A.  `what` prefixes the oracle names, `suffix` goes into the violation key.
static void compareSnaps(verif::Run& run, const std::string& what, const std::string& suffix, const Snap& a, const Snap& b, const Transform& X_rel,
                         bool sameSpeeds, const std::function<std::string()>& where, const std::function<std::string()>& rep, const std::vector<char>& loneParticle = std::vector<char>()) {
    const int nb = (int)a.X.size();
    const Rotation& R = X_rel.R();
    // every model carries >= 12 N of weight (lightest body 1.3 kg, |g| = 9.26): a transmitted reaction cannot be more accurate
    // than eps x that, even when the reaction itself is ~0 (Free joints), hence the floor of 10 on the reaction scale
    double eR = 0, eP = 0, eV = 0, eA = 0, eF = 0, eFlone = 0, sP = 1, sV = 1e-2, sA = 1e-2, sF = 10; bool anyLone = false;
    for (int i = 0; i < nb; ++i) {
        sP = std::max(sP, a.X[i].p().norm()); sV = std::max(sV, sv(a.V[i])); sA = std::max(sA, sv(a.A[i])); sF = std::max(sF, sv(a.FM[i]));
    }
    // the linear parts carry lever arms of size sP
    for (int i = 0; i < nb; ++i) {
        const Transform Xe = X_rel * a.X[i];
        eR = std::max(eR, (double)(Mat33(Xe.R()) - Mat33(b.X[i].R())).norm());
        eP = std::max(eP, (double)(Xe.p() - b.X[i].p()).norm() / sP);
        const SpatialVec Ve(R * a.V[i][0], R * a.V[i][1]), Ae(R * a.A[i][0], R * a.A[i][1]), Fe(R * a.FM[i][0], R * a.FM[i][1]);
        eV = std::max(eV, (double)sv(Ve - b.V[i]) / sV);
        eA = std::max(eA, (double)sv(Ae - b.A[i]) / sA);
        if (i < (int)loneParticle.size() && loneParticle[i]) { eFlone = std::max(eFlone, (double)sv(Fe - b.FM[i]) / sF); anyLone = true; }
        else eF = std::max(eF, (double)sv(Fe - b.FM[i]) / sF);
    }
    const double cond = std::max(a.cond, b.cond);
    run.residual(what + "-pose-rotation", eR, TOL, where, rep, suffix);
    run.residual(what + "-pose-position", eP, TOL, where, rep, suffix);
    run.residual(what + "-velocity", eV, TOL, where, rep, suffix);
    run.residual(what + "-acceleration", eA / cond, TOL_DYN, where, rep, suffix);
    run.residual(what + "-reaction", eF / cond, TOL_DYN, where, rep, suffix);
    // the reaction of a body that is a lone-particle node in one member of the pair has its own key (notes/C06.md)
    if (anyLone) run.residual(what + "-reaction-of-lone-particle-body", eFlone / cond, TOL_DYN, where, rep, "Translation");
    run.residual(what + "-kineticEnergy", std::abs(a.ke - b.ke) / std::max<Real>(std::abs(a.ke), 1e-4), TOL, where, rep, suffix);
    if (sameSpeeds) {
        double eu = 0, ed = 0, su = 1e-2, sd = 1e-2;
        const bool sz = a.u.size() == b.u.size();
        run.expect(sz, what + "-nu-equal" + (sz ? std::string() : "/" + suffix), [&] { return "different nu at " + where(); }, rep);
        if (sz) {
            for (int i = 0; i < a.u.size(); ++i) { su = std::max(su, std::abs(a.u[i])); sd = std::max(sd, std::abs(a.udot[i])); }
            for (int i = 0; i < a.u.size(); ++i) { eu = std::max(eu, std::abs(a.u[i] - b.u[i]) / su); ed = std::max(ed, std::abs(a.udot[i] - b.udot[i]) / sd); }
            run.residual(what + "-u", eu, TOL, where, rep, suffix);
            run.residual(what + "-udot", ed / cond, TOL_DYN, where, rep, suffix);
        }
    }
    if (run.verbose) printf("  [%s/%s] eR=%.3g eP=%.3g eV=%.3g eA=%.3g eF=%.3g cond=%.3g | sV=%.3g sA=%.3g sF=%.3g KE=%.15g vs %.15g\n", what.c_str(), suffix.c_str(), eR, eP, eV, eA, eF, cond, sV, sA, sF, a.ke, b.ke);
    run.outcome(verif::hashPod((float)sA) ^ verif::hashPod((float)sF) ^ verif::hashStr(what));
}

static std::string specsStr(const std::vector<mb::BodySpec>& specs, bool euler);
static std::string specsStr_(const std::vector<mb::BodySpec>& specs, bool euler) { std::string m = euler ? "euler[" : "quat["; for (auto& b : specs) m += b.str() + " "; return m + "]"; }
static std::string specsStr(const std::vector<mb::BodySpec>& specs, bool euler) { return specsStr_(specs, euler); }
static std::string kd(const mb::BodySpec& b) { return std::string(mb::kindName(b.kind)) + (b.dir ? "-rev" : "-fwd"); }
// A Translation leaf on Ground with identity frames is modelled by the lone-particle node, whose mobilizer reaction is judged under
// its own key (the unchanged library leaves out the m*c x a torque of an offset mass centre there: notes/C06.md)
static std::vector<char> loneParticleKey(const mb::Model& A, const mb::Model& B) {
    std::vector<char> m(A.bodies.size(), 0);
    for (const mb::Model* M : {&A, &B}) for (int b = 0; b < (int)M->bodies.size() && b < (int)m.size(); ++b) if (mb::nodeTypeName(*M, b).find("LoneParticle") != std::string::npos) m[b] = 1;
    return m;
}

// ---------------------------------------------------------------- T1: quaternion <-> Euler
// d/dt of every mobilizer transform implied by qdot: 4th-order difference of X_FM(q + t*qdot), Richardson pair
static bool impliedRates(mb::Model& M, const State& s, std::vector<LD>& rates) {
    const Vector q0 = s.getQ(), qd = s.getQDot();
    State t = s;
    auto f = [&](LD tt) {
        t.updQ() = q0 + (Real)tt * qd;
        M.system.realize(t, Stage::Position);
        std::vector<LD> v;
        for (auto& b : M.bodies) { const Transform& X = b.getMobilizerTransform(t); for (int i = 0; i < 3; ++i) for (int j = 0; j < 3; ++j) v.push_back(X.R()[i][j]); for (int i = 0; i < 3; ++i) v.push_back(X.p()[i]); }
        return v;
    };
    LD dis = 0; rates = ref::fd4(f, 0, 2e-3L, &dis);
    return dis < 1e-8L;
}

static void checkQuatEuler(verif::Run& run, const std::vector<mb::BodySpec>& specs, bool startEuler, int stateKind, int valueSet, const std::string& desc) {
    std::string rh = run.replayHeader() + "case=" + desc + "\n"; auto rep = [rh] { return rh; }; auto where = [&] { return desc; };
    auto Mp = mb::build(specs, startEuler); mb::Model& M = *Mp;
    addLoads(M, Rotation(), true, valueSet);
    bool anyQuat = false; for (auto& b : specs) anyQuat |= mb::kindHasQuaternion(b.kind);
    run.evaluation(verif::hashStr(desc), anyQuat);
    if (!anyQuat) run.count("T1:no-quaternion-capable-body");
    State s0 = mb::makeState(M, stateKind, valueSet);
    s0.updTime() = 0.37;
    // zero state only: an Instance-stage discrete variable (a velocity-level lock of the base body) must survive as well
    const bool withLock = stateKind == 0 && M.bodies[0].getNumU(s0) > 0;
    if (withLock) M.bodies[0].lock(s0, Motion::Velocity);
    State s1;
    if (startEuler) M.matter.convertToQuaternions(s0, s1); else M.matter.convertToEulerAngles(s0, s1);
    run.expect(M.matter.getUseEulerAngles(s1) == !startEuler, "T1-converted-state-has-requested-modeling-option", [&] { return "modeling option not switched at " + desc; }, rep);
    const std::string dirn = startEuler ? "euler->quat" : "quat->euler";
    // "All continuous and discrete State variables will be copied to the outputState" (header doc).  Judged on its own key;
    // if the speeds were lost the harness restores them so that the rest of the comparison still sees every other disagreement.
    // violation keys name the quaternion-capable kinds present, so a defect of one kind cannot mask another
    std::string qk; for (auto& b : specs) if (mb::kindHasQuaternion(b.kind) && qk.find(kd(b)) == std::string::npos) qk += (qk.empty() ? "" : "+") + kd(b);
    if (qk.empty()) qk = "none";
    std::string lineKinds; for (auto& b : specs) if (b.kind == mb::KLineOrientation) lineKinds = "LineOrientation";
    auto speedsAndTimeKept = [&](const State& from, State& to, const std::string& dn) {
        int nZeroed = 0, nStray = 0; const bool sameNU = to.getNU() == from.getNU();
        if (sameNU) for (int i = 0; i < from.getNU(); ++i) if (to.getU()[i] != from.getU()[i]) { if (to.getU()[i] == 0) nZeroed++; else nStray++; }
        const bool uKept = sameNU && nZeroed == 0 && nStray == 0;
        run.expect(sameNU && nZeroed == 0, "T1-conversion-keeps-generalized-speeds-u(not-reset-to-zero)/" + dn, [&] { return "u reset to zero by the conversion (" + dn + ") at " + desc; }, rep);
        run.expect(nStray == 0, "T1-conversion-writes-no-stray-values-into-u/" + dn + (nStray ? "/" + (lineKinds.empty() ? qk : lineKinds) : std::string()) /* kind suffix only on failure: keeps the ok counters compact */, [&] { return std::to_string(nStray) + " entries of u hold values that are neither the old u nor zero after the conversion (" + dn + ") at " + desc; }, rep);
        if (nStray && run.verbose) std::cout << "  stray: from u=" << from.getU() << " to u=" << to.getU() << "\n";
        run.expect(to.getTime() == from.getTime(), "T1-conversion-keeps-time/" + dn, [&] { return "time not copied by the conversion (" + dn + ") at " + desc; }, rep);
        if (!uKept && to.getNU() == from.getNU()) { to.updU() = from.getU(); run.count("T1:u-restored-by-harness-after-conversion"); }
        if (to.getTime() != from.getTime()) to.updTime() = from.getTime();
        if (withLock) {
            const bool kept = M.bodies[0].getLockLevel(to) == Motion::Velocity;
            run.expect(kept, "T1-conversion-keeps-instance-variables(lock)/" + dn, [&] { return "lock of the base body lost by the conversion (" + dn + ") at " + desc; }, rep);
            if (!kept) { M.system.realizeModel(to); M.bodies[0].lock(to, Motion::Velocity); run.count("T1:lock-restored-by-harness-after-conversion"); }
        }
    };
    speedsAndTimeKept(s0, s1, startEuler ? "convertToQuaternions" : "convertToEulerAngles");
    if (run.verbose) { std::cout << "  before: t=" << s0.getTime() << " q=" << s0.getQ() << " u=" << s0.getU() << "\n  after : t=" << s1.getTime() << " q=" << s1.getQ() << " u=" << s1.getU() << "\n"; }
    Snap p0 = snapshot(M, s0), p1 = snapshot(M, s1);
    compareSnaps(run, "T1-" + dirn, qk, p0, p1, Transform(), true, where, rep);
    // round trip
    State s2;
    if (startEuler) M.matter.convertToEulerAngles(s1, s2); else M.matter.convertToQuaternions(s1, s2);
    speedsAndTimeKept(s1, s2, startEuler ? "convertToEulerAngles" : "convertToQuaternions");
    Snap p2 = snapshot(M, s2);
    compareSnaps(run, "T1-roundtrip-" + dirn, qk, p0, p2, Transform(), true, where, rep);
    // identity conversion: documented to be a duplicate
    State s3;
    if (startEuler) M.matter.convertToEulerAngles(s0, s3); else M.matter.convertToQuaternions(s0, s3);
    bool dup = s3.getNQ() == s0.getNQ() && s3.getNU() == s0.getNU();
    if (dup) { for (int i = 0; i < s0.getNQ(); ++i) dup &= s3.getQ()[i] == s0.getQ()[i]; for (int i = 0; i < s0.getNU(); ++i) dup &= s3.getU()[i] == s0.getU()[i]; }
    run.expect(dup, "T1-identity-conversion-is-duplicate", [&] { return "converting to the representation already in use changed q or u at " + desc; }, rep);

    // the motion implied by qdot is the same in both representations (per mobilizer, keyed by kind and direction)
    if (anyQuat && (stateKind == 1 || stateKind == 2)) {
        std::vector<LD> r0, r1;
        bool ok0 = impliedRates(M, s0, r0), ok1 = impliedRates(M, s1, r1);
        if (!(ok0 && ok1)) run.count("T1:qdot-FD-skipped(Richardson-pair-disagrees)");
        else for (int b = 0; b < (int)specs.size(); ++b) {
            if (!mb::kindHasQuaternion(specs[b].kind)) continue;
            LD e = 0, sc = 1e-2L; for (int k = 0; k < 12; ++k) { sc = std::max(sc, fabsl(r0[12 * b + k])); e = std::max(e, fabsl(r0[12 * b + k] - r1[12 * b + k])); }
            run.residual("T1-qdot-implied-mobilizer-motion-quat-vs-euler/" + kd(specs[b]), (double)(e / sc), TOL_FD, where, rep);
        }
    }
}

// ---------------------------------------------------------------- T2: Custom / FunctionBased mirror vs built-in
static int builtInOf(int kind) {
    switch (kind) { case mb::KCustomPin: case mb::KFBPin: return mb::KPin; case mb::KCustomBall: return mb::KBall; case mb::KCustomTranslation: return mb::KTranslation; case mb::KFBPlanar: return mb::KPlanar; default: return -1; }
}
static void checkMirror(verif::Run& run, const std::vector<mb::BodySpec>& specs, int vi, bool euler, int stateKind, int valueSet, const std::string& desc) {
    std::string rh = run.replayHeader() + "case=" + desc + "\n"; auto rep = [rh] { return rh; }; auto where = [&] { return desc; };
    std::vector<mb::BodySpec> bi = specs; bi[vi].kind = builtInOf(specs[vi].kind);
    auto Ma = mb::build(specs, euler), Mb = mb::build(bi, euler);
    addLoads(*Ma, Rotation(), true, valueSet); addLoads(*Mb, Rotation(), true, valueSet);
    run.evaluation(verif::hashStr(desc), true);
    State sa = mb::makeState(*Ma, stateKind, valueSet), sb = mb::makeState(*Mb, stateKind, valueSet);
    run.count("T2:node:" + mb::nodeTypeName(*Ma, vi));
    bool same = sa.getNQ() == sb.getNQ() && sa.getNU() == sb.getNU();
    if (same) { for (int i = 0; i < sa.getNQ(); ++i) same &= sa.getQ()[i] == sb.getQ()[i]; for (int i = 0; i < sa.getNU(); ++i) same &= sa.getU()[i] == sb.getU()[i]; }
    run.expect(same, "T2-harness-same-q-u-in-both-models", [&] { return "harness: table states differ between mirror and built-in at " + desc; }, rep);
    Snap pa = snapshot(*Ma, sa), pb = snapshot(*Mb, sb);
    compareSnaps(run, "T2-mirror-vs-builtin", kd(specs[vi]), pb, pa, Transform(), true, where, rep, loneParticleKey(*Ma, *Mb));
    // qdot as well (same coordinates)
    double e = 0, sc = 1e-2; const Vector& qa = sa.getQDot(); const Vector& qb = sb.getQDot();
    for (int i = 0; i < qa.size(); ++i) { sc = std::max(sc, std::abs(qb[i])); e = std::max(e, std::abs(qa[i] - qb[i])); }
    run.residual("T2-mirror-vs-builtin-qdot", e / sc, TOL, where, rep, kd(specs[vi]));
    e = 0; sc = 1e-2; const Vector& qda = sa.getQDotDot(); const Vector& qdb = sb.getQDotDot();
    for (int i = 0; i < qda.size(); ++i) { sc = std::max(sc, std::abs(qdb[i])); e = std::max(e, std::abs(qda[i] - qdb[i])); }
    run.residual("T2-mirror-vs-builtin-qdotdot", e / sc / std::max(pa.cond, pb.cond), TOL_DYN, where, rep, kd(specs[vi]));
}

// ---------------------------------------------------------------- T3: reversed vs forward
// kinds whose set of relative motions (poses and velocities) of M in F is the same for both directions
static bool symmetricKind(int k) {
    switch (k) { case mb::KPin: case mb::KSlider: case mb::KCylinder: case mb::KPlanar: case mb::KGimbal: case mb::KBushing: case mb::KBall: case mb::KFree: case mb::KTranslation: case mb::KScrew: return true; default: return false; }
}
static void checkReversed(verif::Run& run, const std::vector<mb::BodySpec>& specs, int vi, bool euler, int stateKind, int valueSet, const std::string& desc) {
    std::string rh = run.replayHeader() + "case=" + desc + "\n"; auto rep = [rh] { return rh; }; auto where = [&] { return desc; };
    std::vector<mb::BodySpec> fw = specs; fw[vi].dir = 0;
    auto Mr = mb::build(specs, euler), Mf = mb::build(fw, euler);
    addLoads(*Mr, Rotation(), false, valueSet); addLoads(*Mf, Rotation(), false, valueSet);
    run.evaluation(verif::hashStr(desc), true);
    State sf = mb::makeState(*Mf, stateKind, valueSet), sr = mb::makeState(*Mr, stateKind, valueSet);
    run.count("T3:node:" + mb::nodeTypeName(*Mr, vi));
    Mf->system.realize(sf, Stage::Velocity);
    const Transform X_FM = Mf->bodies[vi].getMobilizerTransform(sf);
    const SpatialVec V_FM = Mf->bodies[vi].getMobilizerVelocity(sf);
    Mr->system.realize(sr, Stage::Instance);
    Mr->bodies[vi].setQToFitTransform(sr, X_FM);
    Mr->system.realize(sr, Stage::Position);
    Mr->bodies[vi].setUToFitVelocity(sr, V_FM);
    Mr->system.realize(sr, Stage::Velocity);
    // the fit functions must reproduce the requested cross-mobilizer pose and velocity (the family is symmetric)
    const Transform& Xr = Mr->bodies[vi].getMobilizerTransform(sr); const SpatialVec& Vr = Mr->bodies[vi].getMobilizerVelocity(sr);
    double eX = std::max((double)(Mat33(Xr.R()) - Mat33(X_FM.R())).norm(), (double)(Xr.p() - X_FM.p()).norm() / std::max<Real>(1, X_FM.p().norm()));
    double eVv = (double)sv(Vr - V_FM) / std::max<Real>(1e-2, sv(V_FM));
    bool fitOk = run.residual("T3-setQToFitTransform-reproduces-X_FM", eX, 1e-10, where, rep, kd(specs[vi]));
    fitOk &= run.residual("T3-setUToFitVelocity-reproduces-V_FM", eVv, 1e-10, where, rep, kd(specs[vi]));
    if (!fitOk) return;
    Snap pf = snapshot(*Mf, sf), pr = snapshot(*Mr, sr);
    compareSnaps(run, "T3-reversed-vs-forward", kd(specs[vi]), pf, pr, Transform(), false, where, rep);
}

// ---------------------------------------------------------------- T4: rigid relocation of the base body's inboard frame
static Transform relocation(int i) {
    switch (i) {
        case 0: return Transform(Vec3(0.7, -1.1, 0.4));
        case 1: return Transform(Rotation(BodyRotationSequence, 0.5, XAxis, -0.9, YAxis, 1.3, ZAxis), Vec3(0));
        default: return Transform(Rotation(BodyRotationSequence, -1.1, ZAxis, 0.6, XAxis, 0.35, YAxis), Vec3(-0.5, 0.8, 1.2));
    }
}
static void checkRelocation(verif::Run& run, const std::vector<mb::BodySpec>& specs, int reloc, bool euler, int stateKind, int valueSet, const std::string& desc) {
    std::string rh = run.replayHeader() + "case=" + desc + "\n"; auto rep = [rh] { return rh; }; auto where = [&] { return desc; };
    const Transform X = relocation(reloc);
    auto Ma = mb::build(specs, euler), Mb = mb::build(specs, euler);
    int nBase = 0;
    for (int b = 0; b < (int)specs.size(); ++b) if (specs[b].parent < 0) { Mb->bodies[b].setDefaultInboardFrame(X * Ma->bodies[b].getDefaultInboardFrame()); nBase++; }
    addLoads(*Ma, Rotation(), true, valueSet); addLoads(*Mb, X.R(), true, valueSet);
    run.evaluation(verif::hashStr(desc), true);
    State sa = mb::makeState(*Ma, stateKind, valueSet), sb = mb::makeState(*Mb, stateKind, valueSet);
    { std::string na = mb::nodeTypeName(*Ma, 0), nbn = mb::nodeTypeName(*Mb, 0); if (na != nbn) run.count("T4:base-node-instantiation-changed-by-relocation"); run.outcome(verif::hashStr(nbn)); }
    Snap pa = snapshot(*Ma, sa), pb = snapshot(*Mb, sb);
    static const char* rn[] = {"translation", "rotation", "both"};
    compareSnaps(run, std::string("T4-relocation-") + rn[reloc], kd(specs[0]), pa, pb, X, true, where, rep, loneParticleKey(*Ma, *Mb));
}

int main(int argc, char** argv) {
    verif::Run run("C06", argc, argv);
    run.setDeadline(400, 2400);
    const bool th = run.thorough();
    run.rule = "E3 over pairs: KIND = 19 built-in mobilizers, 5 Custom/FunctionBased mirrors with a constant hinge matrix, FunctionBased with nonlinear coordinate functions and 1..6 mobilities (FBN1..6), Custom helix slider with H(q) from X_FM and HDot from V_FM -- 58 KINDxDIR variants (engine/models.h); level A models (every KINDxDIRxFRAMES variant as base/middle/tip/fork-branch of a 3-body tree with companions {Pin,Ball,Free}^2; thorough adds level B for T1 and T4) x STATE(4) x four transformations: T1 quat<->euler conversion in both directions incl. round trip and identity conversion (all models); T2 Custom/FunctionBased mirror vs built-in (variants CustomPin, CustomBall, CustomTranslation, FBPin fwd/rev, FBPlanar fwd/rev) x COORD; T3 reversed vs forward through setQToFitTransform/setUToFitVelocity (variants with symmetric motion family: Pin, Slider, Cylinder, Planar, Gimbal, Bushing, Ball, Free, Translation, Screw) x COORD; T2 additionally for every mirror alone on Ground x all 8 frame pairs (level S) and next to a Ground-attached companion (level G); T4 base inboard frame(s) moved by {translation, rotation, both} x COORD on level S (all 8 frame pairs; lone-particle leaves), level G and level A; value set = seed%3 (thorough: all 3, the variant's mass kind rotating with it). distinct = distinct (transformation, model, coord, state, valueset); non-trivial = the pair really differs (T1: a quaternion-capable body is present)";
    run.assumptions = {"continuous values only from the fixed tables in engine/models.h and the constants in this harness", "trees of at most 3 mobilized bodies",
                       "identical applied loads = uniform gravity + a point force and a torque on every body (+ mobility forces where both members share the generalized speeds: T1, T2, T4)",
                       "T3 is restricted to mobilizer kinds whose relative-motion family is direction-symmetric (a reversed Ellipsoid, Universal, BendStretch, SphericalCoords, LineOrientation, FreeLine, CantileverFreeBeam is a different physical joint); FunctionBased reversed is compared with the built-in reversed in T2",
                       "tolerance 1e-11 for kinematics, 1e-10 x cond(M) for accelerations, udot, qdotdot and reactions; the qdot-implied-motion oracle is a 4th-order finite difference with a Richardson pair, tolerance 1e-7"};
    std::vector<int> valueSets = th ? std::vector<int>{0, 1, 2} : std::vector<int>{(int)(((run.seed % 3) + 3) % 3)};
    // the variant's mass kind: quick = seed%3; thorough = (value set + seed)%3 so that all three kinds occur (companions always carry 0,1,2)
    const int nMass = 1; const int seedMass = (int)(((run.seed % 3) + 3) % 3);
    mb::LevelA A; mb::LevelB B; mb::LevelS S; mb::LevelG G;
    auto variantOf = [](int64_t levelAIndex) { int role = (int)((levelAIndex / 9) % 4); return role == 0 ? 0 : role == 2 ? 2 : 1; };
    auto guarded = [&](const std::string& name, const std::string& desc, const std::function<void()>& fn) {
        if (run.verbose) printf("%s\n", desc.c_str());
        try { fn(); } catch (const std::exception& e) { run.violation("exception/" + name, std::string("exception: ") + e.what() + " at " + desc, run.replayHeader() + "case=" + desc + "\n"); }
    };

    // ---- T1
    auto t1 = [&](const std::string& name, int64_t nModels, std::function<std::vector<mb::BodySpec>(int64_t, int)> specsOf) {
        verif::Odometer od; od.dim("state", 4); od.dim("start", 2); od.dim("mass", nMass); od.dim("valueset", (int64_t)valueSets.size()); od.dim("model", nModels);
        run.parallel(name, od.size(), [&](int64_t idx) {
            auto d = od.digits(idx); auto specs = specsOf(d[4], (d[2] + seedMass + (th ? valueSets[d[3]] : 0)) % 3);
            std::string desc = name + " " + od.describe(idx) + " " + specsStr(specs, d[1] == 1) + " vs=" + std::to_string(valueSets[d[3]]);
            guarded(name, desc, [&] { checkQuatEuler(run, specs, d[1] == 1, d[0], valueSets[d[3]], desc); });
            if (idx % 10007 == 0) run.sample(desc);
        });
    };
    t1("T1-quat-euler-A", A.size(), [&](int64_t i, int m) { return A.specs(i, m); });
    if (th) t1("T1-quat-euler-B", B.size(), [&](int64_t i, int m) { return B.specs(i, m); });

    // ---- T2 and T3: level A models selected by the variant's kind
    auto selected = [&](const std::string& name, std::function<bool(const mb::BodySpec&)> pick, std::function<void(const std::vector<mb::BodySpec>&, int, bool, int, int, const std::string&)> check) {
        std::vector<int64_t> models;
        for (int64_t i = 0; i < A.size(); ++i) { auto sp = A.specs(i, 0); if (pick(sp[variantOf(i)])) models.push_back(i); }
        verif::Odometer od; od.dim("state", 4); od.dim("coord", 2); od.dim("mass", nMass); od.dim("valueset", (int64_t)valueSets.size()); od.dim("model", (int64_t)models.size());
        run.parallel(name, od.size(), [&](int64_t idx) {
            auto d = od.digits(idx); const int64_t mi = models[d[4]]; auto specs = A.specs(mi, (d[2] + seedMass + (th ? valueSets[d[3]] : 0)) % 3);
            std::string desc = name + " " + od.describe(idx) + " levelA=" + std::to_string(mi) + " " + specsStr(specs, d[1] == 1) + " vs=" + std::to_string(valueSets[d[3]]);
            guarded(name, desc, [&] { check(specs, variantOf(mi), d[1] == 1, d[0], valueSets[d[3]], desc); });
            if (idx % 3001 == 0) run.sample(desc);
        });
    };
    selected("T2-mirror", [](const mb::BodySpec& b) { return builtInOf(b.kind) >= 0; },
             [&](const std::vector<mb::BodySpec>& sp, int vi, bool e, int st, int vs, const std::string& desc) { checkMirror(run, sp, vi, e, st, vs, desc); });
    // T2 on Ground-attached leaves: the mirror alone on Ground with ALL 8 frame pairs (level S: the "one part only" pairs decide the
    // <noX_MB,noR_PF> flags of the user-defined node) and next to a Ground-attached companion (level G)
    auto mirrorsOf = [&](const std::string& name, int64_t nModels, std::function<std::vector<mb::BodySpec>(int64_t, int)> specsOf, std::function<int(int64_t)> variantIdx) {
        std::vector<int64_t> models;
        for (int64_t i = 0; i < nModels; ++i) { auto sp = specsOf(i, 0); if (builtInOf(sp[variantIdx(i)].kind) >= 0) models.push_back(i); }
        verif::Odometer od; od.dim("state", 4); od.dim("coord", 2); od.dim("mass", nMass); od.dim("valueset", (int64_t)valueSets.size()); od.dim("model", (int64_t)models.size());
        run.parallel(name, od.size(), [&](int64_t idx) {
            auto d = od.digits(idx); const int64_t mi = models[d[4]]; auto specs = specsOf(mi, (d[2] + seedMass + (th ? valueSets[d[3]] : 0)) % 3);
            std::string desc = name + " " + od.describe(idx) + " index=" + std::to_string(mi) + " " + specsStr(specs, d[1] == 1) + " vs=" + std::to_string(valueSets[d[3]]);
            guarded(name, desc, [&] { checkMirror(run, specs, variantIdx(mi), d[1] == 1, d[0], valueSets[d[3]], desc); });
            if (idx % 3001 == 0) run.sample(desc);
        });
    };
    mirrorsOf("T2-mirror-S", S.size(), [&](int64_t i, int m) { return S.specs(i, m); }, [](int64_t) { return 0; });
    mirrorsOf("T2-mirror-G", G.size(), [&](int64_t i, int m) { return G.specs(i, m); }, [](int64_t i) { return ((i / 3) % 2) == 0 ? 1 : 0; });
    selected("T3-reversed", [](const mb::BodySpec& b) { return b.dir == 1 && symmetricKind(b.kind); },
             [&](const std::vector<mb::BodySpec>& sp, int vi, bool e, int st, int vs, const std::string& desc) { checkReversed(run, sp, vi, e, st, vs, desc); });

    // ---- T4
    auto t4 = [&](const std::string& name, int64_t nModels, std::function<std::vector<mb::BodySpec>(int64_t, int)> specsOf) {
        verif::Odometer od; od.dim("state", th ? 4 : 2); od.dim("reloc", 3); od.dim("coord", 2); od.dim("mass", nMass); od.dim("valueset", (int64_t)valueSets.size()); od.dim("model", nModels);
        run.parallel(name, od.size(), [&](int64_t idx) {
            auto d = od.digits(idx); auto specs = specsOf(d[5], (d[3] + seedMass + (th ? valueSets[d[4]] : 0)) % 3);
            const int stateKind = th ? d[0] : 1 + d[0];       // quick: generic and large-angle states
            std::string desc = name + " " + od.describe(idx) + " " + specsStr(specs, d[2] == 1) + " st=" + std::to_string(stateKind) + " vs=" + std::to_string(valueSets[d[4]]);
            guarded(name, desc, [&] { checkRelocation(run, specs, d[1], d[2] == 1, stateKind, valueSets[d[4]], desc); });
            if (idx % 20011 == 0) run.sample(desc);
        });
    };
    t4("T4-relocation-S", S.size(), [&](int64_t i, int m) { return S.specs(i, m); });     // Ground-attached leaves (lone-particle fast path), all 8 frame pairs
    t4("T4-relocation-G", G.size(), [&](int64_t i, int m) { return G.specs(i, m); });     // forests: every Ground-attached body is relocated
    t4("T4-relocation-A", A.size(), [&](int64_t i, int m) { return A.specs(i, m); });
    if (th) t4("T4-relocation-B", B.size(), [&](int64_t i, int m) { return B.specs(i, m); });
    return run.finish();
}
