// C45 -- Cable paths are geometrically and energetically consistent.
// Engine E3 (enum): one multibody scene per (tree, obstacle list, body assignment, via/origin variant, algorithm) carrying BOTH a
// CableSpan (CableSubsystem) and a CablePath + CableSpring (CableTrackerSubsystem) routed over the same obstacles, evaluated on a
// complete pose lattice of the 2-body tree that crosses touchdown / lift-off of the obstacles, for every unit generalized speed
// and one generic speed vector.  Oracles are evaluated only where the solver reports convergence (smoothness <= tolerance for
// CableSpan, path error <= its fixed tolerance for CablePath); every other outcome is counted.
#include "Simbody.h"
#include "CablePath_Impl.h"
#include "verif.h"
#include "geomkit.h"

#include <fcntl.h>
#include <memory>

using namespace SimTK;
using gk::s3; using gk::sd;

// ------------------------------------------------------------------------------------------------ independent surface closed forms
struct Surf {
    int kind = 0;                     // 0 sphere, 1 cylinder, 2 ellipsoid, 3 torus
    double r = 0, R = 0; Vec3 radii = Vec3(0);
    double size = 1;                  // bounding radius of the part that matters (cylinder: radius)
    const char* name() const { static const char* n[] = {"Sphere", "Cylinder", "Ellipsoid", "Torus"}; return n[kind]; }
    std::shared_ptr<ContactGeometry> make() const {
        switch (kind) {
            case 0: return std::shared_ptr<ContactGeometry>(new ContactGeometry::Sphere(r));
            case 1: return std::shared_ptr<ContactGeometry>(new ContactGeometry::Cylinder(r));
            case 2: return std::shared_ptr<ContactGeometry>(new ContactGeometry::Ellipsoid(radii));
            default: return std::shared_ptr<ContactGeometry>(new ContactGeometry::Torus(R, r));
        }
    }
    // signed distance to the surface, positive INSIDE the solid (ellipsoid: first order, sign exact)
    double inside(const Vec3& p) const {
        switch (kind) {
            case 0: return r - p.norm();
            case 1: return r - std::hypot(p[0], p[1]);
            case 3: return r - std::hypot(std::hypot(p[0], p[1]) - R, p[2]);
            default: {
                double f = 1, g2 = 0;
                for (int i = 0; i < 3; ++i) { f -= square(p[i] / radii[i]); g2 += square(2 * p[i] / (radii[i] * radii[i])); }
                return g2 > 0 ? f / std::sqrt(g2) : min(radii);
            }
        }
    }
    Vec3 normal(const Vec3& p) const {   // outward unit normal at (near) a surface point
        Vec3 n;
        switch (kind) {
            case 0: n = p; break;
            case 1: n = Vec3(p[0], p[1], 0); break;
            case 2: n = Vec3(p[0] / square(radii[0]), p[1] / square(radii[1]), p[2] / square(radii[2])); break;
            default: { double h = std::hypot(p[0], p[1]); n = Vec3((h - R) * p[0] / h, (h - R) * p[1] / h, p[2]); }
        }
        return n / n.norm();
    }
};

// ------------------------------------------------------------------------------------------------ scene alphabet
// World layout at q = 0 (x = cable direction, y = up).  Obstacle slots along x; the cable runs over the TOP (+y side) of each obstacle.
static const double kSlotX[3] = {-2.0, 0.0, 2.0};
struct ValueSet { double size; double topY[3]; double zoff[3]; double tilt; };
static ValueSet valueSet(long vs) {
    static const ValueSet t[3] = {
        {1.00, {0.45, 0.55, 0.40}, {0.00, 0.15, -0.10}, 0.15},
        {0.85, {0.50, 0.42, 0.52}, {0.10, -0.05, 0.12}, -0.22},
        {1.15, {0.38, 0.60, 0.47}, {-0.08, 0.10, 0.05}, 0.30}};
    return t[((vs % 3) + 3) % 3];
}
static Surf makeSurf(int kind, double s) {
    Surf S; S.kind = kind;
    if (kind == 0) { S.r = 0.6 * s; S.size = S.r; }
    else if (kind == 1) { S.r = 0.5 * s; S.size = S.r; }
    else if (kind == 2) { S.radii = Vec3(0.8, 0.55, 0.65) * s; S.size = 0.8 * s; }
    else { S.R = 1.2 * s; S.r = 0.3 * s; S.size = S.R + S.r; }
    return S;
}
// pose of the surface frame in the world at q = 0 such that the highest point of the (relevant part of the) obstacle is at (x, topY, z)
static Transform surfWorldPose(const Surf& S, double x, double topY, double z, double tilt) {
    if (S.kind == 0) return Transform(Rotation(tilt, Vec3(0.3, 1, 0.2)), Vec3(x, topY - S.r, z));
    if (S.kind == 1) return Transform(Rotation(tilt, YAxis), Vec3(x, topY - S.r, z));                      // axis = surface z, tilted about the vertical
    if (S.kind == 2) return Transform(Rotation(0.6 * tilt, XAxis), Vec3(x, topY - S.radii[1] * 0.97, z)); // rolled about the cable direction (top slightly below topY)
    // torus: axis along the cable direction, cable threads the hole and rides on the inner bottom of the ring
    return Transform(Rotation(0.5 * Pi, YAxis) * Rotation(0.3 * tilt, ZAxis), Vec3(x, topY - S.r + S.R, z));
}

struct Element { bool via; int index; };   // path order
enum Which { KIN = 0, SPAN = 1, PATH = 2 };
struct Scene {
    MultibodySystem system; SimbodyMatterSubsystem matter;
    std::unique_ptr<CableSubsystem> cables; std::unique_ptr<CableTrackerSubsystem> tracker; std::unique_ptr<GeneralForceSubsystem> forces;
    MobilizedBody b1, b2;
    CableSpan span; std::unique_ptr<CablePath> path; CableSpring spring;
    std::vector<Surf> surf; std::vector<MobilizedBody> obsBody; std::vector<Transform> X_BS; std::vector<Vec3> hintDirS;
    std::vector<MobilizedBody> viaBody; std::vector<Vec3> viaStation;
    std::vector<Element> order;
    MobilizedBody originBody, termBody; Vec3 originStation, termStation;
    double springK = 40, springL0 = 0, springC = 0.3;
    Scene() : matter(system) {}
};
struct SceneSpec {
    int tree = 0;                 // 0 Pin-Pin, 1 Slider-Gimbal, 2 Pin-Translation
    std::vector<int> obstacles;   // kinds, in path order (slots 0..n-1)
    int assign = 0;               // body assignment pattern of the obstacles
    int variant = 0;              // 0: no via, origin on Ground; 1: via point on B1, origin on Ground; 2: no via, origin on B1
    int algorithm = 0;            // 0 MinimumLength, 1 Scholz2015
    int tol = 0;                  // 0 tight (smoothness 1e-9, curve accuracy 1e-11), 1 library defaults
    long vs = 0;
    std::string str() const {
        std::string s = "tree=" + std::to_string(tree) + " obstacles=[";
        static const char* n[] = {"Sphere", "Cylinder", "Ellipsoid", "Torus"};
        for (size_t i = 0; i < obstacles.size(); ++i) s += std::string(i ? "," : "") + n[obstacles[i]];
        return s + "] assign=" + std::to_string(assign) + " variant=" + std::to_string(variant) + " alg=" + (algorithm ? "Scholz2015" : "MinimumLength") + " tol=" + (tol ? "default" : "tight") + " vs=" + std::to_string(vs);
    }
};
static int bodyOfObstacle(int assign, int slot) {   // 0 Ground, 1 B1, 2 B2
    static const int pat[3][3] = {{0, 0, 0}, {1, 0, 2}, {2, 1, 1}};
    return pat[assign % 3][slot % 3];
}

static std::unique_ptr<Scene> buildScene(const SceneSpec& sp, Which which) {
    std::unique_ptr<Scene> S(new Scene());
    if (which == SPAN) S->cables.reset(new CableSubsystem(S->system));
    if (which == PATH) { S->tracker.reset(new CableTrackerSubsystem(S->system)); S->forces.reset(new GeneralForceSubsystem(S->system)); }
    const ValueSet V = valueSet(sp.vs);
    Body::Rigid body(MassProperties(1.0, Vec3(0.1, 0, 0), Inertia(1, 1.1, 1.2)));
    MobilizedBody ground = S->matter.Ground();
    const Vec3 o1(-1, -2, 0), o2(2, -1.5, 0);     // world positions of the B1 and B2 frame origins at q = 0 (both frames aligned with Ground)
    if (sp.tree == 0) {
        S->b1 = MobilizedBody::Pin(ground, Transform(o1), body, Transform());
        S->b2 = MobilizedBody::Pin(S->b1, Transform(o2 - o1), body, Transform());
    } else if (sp.tree == 1) {
        const Rotation Ry(0.5 * Pi, ZAxis);       // slider axis (x of F) along world y
        S->b1 = MobilizedBody::Slider(ground, Transform(Ry, o1), body, Transform(Ry, Vec3(0)));
        S->b2 = MobilizedBody::Gimbal(S->b1, Transform(o2 - o1), body, Transform());
    } else {
        S->b1 = MobilizedBody::Pin(ground, Transform(o1), body, Transform());
        S->b2 = MobilizedBody::Translation(S->b1, Transform(o2 - o1), body, Transform());
    }
    auto bodyOf = [&](int b) -> MobilizedBody { return b == 0 ? ground : b == 1 ? S->b1 : S->b2; };
    auto originOf = [&](int b) { return b == 0 ? Vec3(0) : b == 1 ? o1 : o2; };
    const Vec3 Ow(-4, 0.2, 0.1), Tw(4, 0.2, 0.2), Vw(1.0, 0.95, 0.3);
    const int ob = sp.variant == 2 ? 1 : 0;
    S->originBody = bodyOf(ob); S->originStation = Ow - originOf(ob);
    S->termBody = S->b2; S->termStation = Tw - o2;
    if (which == SPAN) S->span = CableSpan(*S->cables, S->originBody.getMobilizedBodyIndex(), S->originStation, S->termBody.getMobilizedBodyIndex(), S->termStation);
    if (which == PATH) S->path.reset(new CablePath(*S->tracker, S->originBody, S->originStation, S->termBody, S->termStation));
    const int n = (int)sp.obstacles.size();
    for (int k = 0; k < n; ++k) {
        const Surf sf = makeSurf(sp.obstacles[k], V.size);
        const int slot = n == 1 ? 1 : (n == 2 ? (k == 0 ? 0 : 2) : k);   // one obstacle: middle slot; two: outer slots
        const Transform Xw = surfWorldPose(sf, kSlotX[slot], V.topY[slot], V.zoff[slot], V.tilt);
        const int b = bodyOfObstacle(sp.assign, slot);
        const Transform X_BS(Xw.R(), Xw.p() - originOf(b));
        // the via point sits between the middle and the last slot
        if (sp.variant == 1 && (int)S->viaBody.size() == 0 && kSlotX[slot] > Vw[0]) {
            S->viaBody.push_back(S->b1); S->viaStation.push_back(Vw - o1);
            if (which == SPAN) S->span.addViaPoint(S->b1.getMobilizedBodyIndex(), Vw - o1);
            if (which == PATH) CableObstacle::ViaPoint(*S->path, S->b1, Vw - o1);
            S->order.push_back({true, 0});
        }
        // contact hints on the top of the obstacle, in the surface frame
        const Vec3 topS = ~Xw.R() * Vec3(0, 1, 0), fwdS = ~Xw.R() * Vec3(1, 0, 0);
        Vec3 hint = sf.kind == 3 ? ~Xw * Vec3(kSlotX[slot], V.topY[slot] + 0.02, V.zoff[slot]) : topS * (sf.size * 1.05);
        S->surf.push_back(sf); S->obsBody.push_back(bodyOf(b)); S->X_BS.push_back(X_BS); S->hintDirS.push_back(topS);
        if (which == SPAN) S->span.addObstacle(bodyOf(b).getMobilizedBodyIndex(), X_BS, sf.make(), hint);
        if (which == PATH) {
            CableObstacle::Surface so(*S->path, bodyOf(b), X_BS, *sf.make());
            const Vec3 hs = ~Xw * Vec3(kSlotX[slot], V.topY[slot], V.zoff[slot]);
            so.setContactPointHints(hs - 0.2 * sf.size * fwdS, hs + 0.2 * sf.size * fwdS);
        }
        S->order.push_back({false, k});
    }
    if (sp.variant == 1 && S->viaBody.empty()) {
        S->viaBody.push_back(S->b1); S->viaStation.push_back(Vw - o1);
        if (which == SPAN) S->span.addViaPoint(S->b1.getMobilizedBodyIndex(), Vw - o1);
        if (which == PATH) CableObstacle::ViaPoint(*S->path, S->b1, Vw - o1);
        S->order.push_back({true, 0});
    }
    if (which == SPAN) {
        if (sp.tol == 0) { S->span.setSmoothnessTolerance(1e-9); S->span.setCurveSegmentAccuracy(1e-11); }
        S->span.setAlgorithm(sp.algorithm ? CableSpanAlgorithm::Scholz2015 : CableSpanAlgorithm::MinimumLength);
    }
    S->springL0 = 7.9;
    if (which == PATH) S->spring = CableSpring(*S->forces, *S->path, S->springK, S->springL0, S->springC);
    return S;
}

// pose lattice
static std::vector<Vector> poseLattice(const SceneSpec& sp, bool thorough) {
    std::vector<Vector> out;
    const std::vector<double> phi = thorough ? std::vector<double>{-0.5, -0.4, -0.3, -0.2, -0.1, 0, 0.1, 0.2, 0.3, 0.4, 0.5} : std::vector<double>{-0.45, -0.3, -0.15, 0, 0.15, 0.3, 0.45};
    const std::vector<double> a = thorough ? std::vector<double>{-0.08, 0, 0.07} : std::vector<double>{-0.08, 0.07};
    for (double q1 : a) for (double p : phi) {
        if (sp.tree == 0) { Vector q(2); q[0] = q1; q[1] = p; out.push_back(q); }
        else if (sp.tree == 1) { Vector q(4); q[0] = 3 * q1; q[1] = 0.1; q[2] = -0.15; q[3] = p; out.push_back(q); }
        else { Vector q(4); q[0] = q1; q[1] = -0.3 * p; q[2] = 2.2 * p; q[3] = 0.4 * q1; out.push_back(q); }
    }
    return out;
}

struct SpanSolve {   // what the harness reads from one realized state
    bool threw = false; std::string what;
    double L = NaN, smooth = NaN; int iters = -1;
    std::vector<char> contact;
};

int main(int argc, char** argv) {
    verif::Run run("C45", argc, argv);
    run.setDeadline(900, 3000);
    const bool thorough = run.thorough();
    std::vector<long> vsets; if (thorough) for (long v = 0; v < 3; ++v) vsets.push_back(v); else vsets.push_back(((run.seed % 3) + 3) % 3);
    run.rule = "E3: scenes = tree {Pin-Pin, Slider-Gimbal (thorough + Pin-Translation)} x obstacle lists of length 0..2 (thorough 3: first value set, first two trees, tight accuracy) over {Sphere, Cylinder, Ellipsoid, Torus} x "
               "body assignment {all Ground, (B1,Ground,B2) (thorough + (B2,B1,B1))} x {no via / via point on B1 / origin on B1} x CableSpan algorithm {MinimumLength, Scholz2015} "
               "x accuracy {tight, library default}; each scene carries a CableSpan and a CablePath+CableSpring over the same obstacles; poses = 2 x 7 (thorough 3 x 11) lattice of "
               "the tree coordinates moving the termination point across touchdown / lift-off; velocities = every unit generalized speed + one generic vector; a case = (scene, pose); "
               "non-trivial = the solver reports convergence";
    run.assumptions = {"continuous parameters (sizes, top heights, offsets, tilts) come from 3 fixed value sets selected by VERIF_SEED; thorough enumerates all 3",
                       "oracles are evaluated only where the solver reports convergence: CableSpan smoothness <= its tolerance, CablePath path-error norm <= its fixed 1e-9; other outcomes are counted",
                       "bounds scale with the smoothness the solver reports (kink angle at the contact points) and with the curve accuracy setting; finite differences of the solved length use a "
                       "Richardson pair and are skipped (counted) when the pair disagrees or the contact set changes inside the stencil",
                       "CablePath activates / deactivates surfaces only through time-stepping events: in this static enumeration every surface stays active, configurations needing lift-off do not converge and are counted"};

    // the cable code (CablePath in particular) writes progress chatter to stdout: workers do not need stdout; a replay gets it back afterwards
    int savedStdout = -1;
    auto silence = [&] { static bool done = false; if (!done) { fflush(stdout); if (run.replaying()) savedStdout = dup(1); int fd = open("/dev/null", O_WRONLY); if (fd >= 0) { dup2(fd, 1); close(fd); } } done = true; };
    auto restoreStdout = [&] { if (savedStdout >= 0) { fflush(stdout); std::cout.flush(); dup2(savedStdout, 1); close(savedStdout); savedStdout = -1; } };

    // ---- scene list
    std::vector<SceneSpec> scenes;
    {
        std::vector<std::vector<int>> lists; lists.push_back({});
        for (int a = 0; a < 4; ++a) lists.push_back({a});
        for (int a = 0; a < 4; ++a) for (int b = 0; b < 4; ++b) lists.push_back({a, b});
        if (thorough) for (int a = 0; a < 4; ++a) for (int b = 0; b < 4; ++b) for (int c = 0; c < 4; ++c) lists.push_back({a, b, c});
        for (long vs : vsets) for (int tree = 0; tree < (thorough ? 3 : 2); ++tree) for (auto& l : lists) for (int as = 0; as < (thorough ? 3 : 2); ++as) for (int var = 0; var < 3; ++var)
            for (int alg = 0; alg < 2; ++alg) for (int tol = 0; tol < 2; ++tol) {
                if (l.empty() && (as > 0 || alg > 0 || tol > 0)) continue;         // no obstacle: these dimensions are void
                if (l.size() == 3 && (tol == 1 || (var == 2 && as == 2) || vs != vsets[0] || tree == 2)) continue; // thorough triples: tight accuracy, first value set, first two trees
                SceneSpec sp; sp.tree = tree; sp.obstacles = l; sp.assign = as; sp.variant = var; sp.algorithm = alg; sp.tol = tol; sp.vs = vs; scenes.push_back(sp);
            }
    }
    std::vector<int64_t> base(scenes.size() + 1, 0);
    for (size_t i = 0; i < scenes.size(); ++i) base[i + 1] = base[i] + (int64_t)poseLattice(scenes[i], thorough).size();

    run.parallel("cable", base.back(), [&](int64_t idx) {
        silence();
        size_t si = std::upper_bound(base.begin(), base.end(), idx) - base.begin() - 1;
        const SceneSpec& sp = scenes[si]; const int pi = (int)(idx - base[si]);
        const Vector q0 = poseLattice(sp, thorough)[pi];
        std::string qs; for (int i = 0; i < q0.size(); ++i) qs += (i ? "," : "") + sd(q0[i]);
        const std::string desc = "item " + std::to_string(idx) + ": " + sp.str() + " q=(" + qs + ")";
        auto where = [&] { return desc; };
        // kinematics-only twin of the scene: geometric precondition without running any cable solver
        {
            std::unique_ptr<Scene> kp = buildScene(sp, KIN); Scene& kc = *kp;
            kc.system.realizeTopology(); State sk = kc.system.getDefaultState(); sk.updQ() = q0; kc.system.realize(sk, Stage::Position);
            bool pre = true;
            for (size_t k = 0; k < kc.surf.size(); ++k) {
                const Transform X = kc.obsBody[k].getBodyTransform(sk) * kc.X_BS[k];
                pre = pre && kc.surf[k].inside(~X * kc.originBody.findStationLocationInGround(sk, kc.originStation)) < -0.05 && kc.surf[k].inside(~X * kc.termBody.findStationLocationInGround(sk, kc.termStation)) < -0.05;
                for (size_t v = 0; v < kc.viaBody.size(); ++v) pre = pre && kc.surf[k].inside(~X * kc.viaBody[v].findStationLocationInGround(sk, kc.viaStation[v])) < -0.05;
            }
            if (!pre) { run.evaluation(verif::hashStr(desc), false); run.count("skipped:attachment-point-inside-or-near-an-obstacle"); return; }
        }
        std::unique_ptr<Scene> scp = buildScene(sp, SPAN); Scene& sc = *scp;
        sc.system.realizeTopology();
        State s0 = sc.system.getDefaultState();
        s0.updQ() = q0;
        const int nOb = (int)sc.surf.size(), nVia = (int)sc.viaBody.size();
        const std::string okind = [&] { std::string k; for (auto& f : sc.surf) k += f.name()[0]; return k.empty() ? std::string("none") : k; }();
        auto X_GS = [&](const State& s, int k) { return sc.obsBody[k].getBodyTransform(s) * sc.X_BS[k]; };
        auto originG = [&](const State& s) { return sc.originBody.findStationLocationInGround(s, sc.originStation); };
        auto termG = [&](const State& s) { return sc.termBody.findStationLocationInGround(s, sc.termStation); };
        auto viaG = [&](const State& s, int v) { return sc.viaBody[v].findStationLocationInGround(s, sc.viaStation[v]); };
        // ================================================================================ CableSpan
        auto solveSpan = [&](State& s, Stage stage) -> SpanSolve {
            SpanSolve r;
            try { sc.system.realize(s, stage); r.L = sc.span.calcLength(s); r.smooth = sc.span.getSmoothness(s); r.iters = sc.span.getNumSolverIterations(s);
                  for (int k = 0; k < nOb; ++k) r.contact.push_back(sc.span.isInContactWithObstacle(s, CableSpanObstacleIndex(k))); }
            catch (const std::exception& e) { r.threw = true; r.what = e.what(); }
            return r;
        };
        // generic velocity first (so that Velocity-stage quantities exist), unit speeds later
        const int nu = s0.getNU();
        auto setU = [&](State& s, int k) { Vector u(nu, 0.0); if (k < nu) u[k] = 1; else for (int i = 0; i < nu; ++i) u[i] = 0.7 - 0.45 * i + 0.1 * i * i; s.updU() = u; };
        State s = s0; setU(s, nu);
        SpanSolve base0 = solveSpan(s, Stage::Report);
        const double tolS = sc.span.getSmoothnessTolerance();
        bool spanConv = !base0.threw && base0.smooth <= tolS && std::isfinite(base0.L);
        run.evaluation(verif::hashStr(desc), spanConv);
        if (base0.threw) {
            std::string cls = base0.what.find("inside") != std::string::npos ? "point-inside-surface" : base0.what.find("integrat") != std::string::npos ? "integrator" : "other";
            run.count("span:exception/" + cls);
            if (run.verbose) fprintf(stderr, "%s\n  CableSpan threw: %s\n", desc.c_str(), base0.what.c_str());
        } else run.count(std::string("span:") + (spanConv ? "converged" : "not-converged") + "/alg=" + (sp.algorithm ? "Scholz2015" : "MinimumLength") + "/tol=" + (sp.tol ? "default" : "tight"));
        // ---- ground truth that does not depend on the solver's own convergence report: when the straight polyline origin - via - termination
        // passes every obstacle with a margin ON THE SIDE OF ITS CONTACT HINT (a line passing on the far side leaves the cable hooked over the
        // obstacle, which is a legitimate locally shortest path), the straight path is the locally shortest one on that side: the solver must
        // lift every obstacle off, converge, and report the polyline length.
        if (!base0.threw && nOb > 0) {
            std::vector<Vec3> poly; poly.push_back(originG(s)); for (int v = 0; v < nVia; ++v) poly.push_back(viaG(s, v)); poly.push_back(termG(s));
            bool clear = true; double plen = 0;
            for (size_t i = 1; i < poly.size(); ++i) {
                plen += (poly[i] - poly[i - 1]).norm();
            }
            // each obstacle against the polyline piece that brackets it in path order; the closest approach must be interior to that piece
            // (an obstacle that has swung past its neighbouring via / attachment point is not "between" them: unspecified)
            { size_t piece = 1;
              for (auto& el : sc.order) {
                if (el.via) { ++piece; continue; }
                if (!clear) break;
                const int k = el.index; const Transform X = X_GS(s, k); double best = -Infinity; Vec3 bestS(NaN); int bestT = -1;
                for (int t = 0; t <= 50; ++t) { const Vec3 xS = ~X * (poly[piece - 1] + (poly[piece] - poly[piece - 1]) * (t / 50.0)); const double f = sc.surf[k].inside(xS); if (f > best) { best = f; bestS = xS; bestT = t; } }
                clear = best < -0.02 * sc.surf[k].size && bestT >= 10 && bestT <= 40 && dot(sc.surf[k].normal(bestS), sc.hintDirS[k]) > 0.7;
              } }
            if (clear) {
                run.count("span:polyline-clears-every-obstacle");
                const std::string an = sp.algorithm ? "Scholz2015" : "MinimumLength";
                if (!spanConv) run.count("span:clear-line/not-converged/alg=" + an);     // no convergence is promised: counted; see the vacuity guard after the enumeration
                else {
                    run.count("span:clear-line/converged/alg=" + an);
                    const bool lifted = std::count(base0.contact.begin(), base0.contact.end(), (char)1) == 0;
                    if (lifted) run.residual("span-clear-straight-line-length", std::abs(base0.L - plen) / plen, 1e-12, where);
                    else run.count("span:clear-line/converged-in-contact/alg=" + an);       // judged by the cusp / penetration / force oracles below
                }
            }
        }
        double spanL = NaN; std::vector<char> spanContact; std::vector<Vec3> spanP, spanQ;
        if (spanConv) { [&] {
            const double eps = base0.smooth, L = base0.L; spanL = L; spanContact = base0.contact;
            { std::string cs; for (char c : base0.contact) cs += c ? '1' : '0'; run.count("span:contact-pattern/" + okind + "/" + (cs.empty() ? "-" : cs)); }
            // ---- path points in Ground
            struct Pt { Vec3 p; int ob; bool start; };   // ob >= 0: contact point of obstacle ob (start: P) ; -1 attachment / via point
            std::vector<Pt> pts; pts.push_back({originG(s), -1, false});
            std::vector<Transform> FP(nOb), FQ(nOb); std::vector<double> arc(nOb, 0.0);
            for (auto& el : sc.order) {
                if (el.via) { pts.push_back({sc.span.calcViaPointLocation(s, CableSpanViaPointIndex(el.index)), -1, false}); continue; }
                const int k = el.index; if (!base0.contact[k]) continue;
                FP[k] = sc.span.calcCurveSegmentInitialFrenetFrame(s, CableSpanObstacleIndex(k)); FQ[k] = sc.span.calcCurveSegmentFinalFrenetFrame(s, CableSpanObstacleIndex(k));
                arc[k] = sc.span.calcCurveSegmentArcLength(s, CableSpanObstacleIndex(k));
                pts.push_back({FP[k].p(), k, true}); pts.push_back({FQ[k].p(), k, false});
            }
            pts.push_back({termG(s), -1, false});
            spanP.assign(nOb, Vec3(NaN)); spanQ.assign(nOb, Vec3(NaN)); for (int k = 0; k < nOb; ++k) if (base0.contact[k]) { spanP[k] = FP[k].p(); spanQ[k] = FQ[k].p(); }
            if (run.verbose) { fprintf(stderr, "%s\n  CableSpan: L=%.15g smoothness=%.3g iterations=%d\n", desc.c_str(), L, eps, base0.iters);
                for (auto& p : pts) fprintf(stderr, "    point %s ob=%d %s\n", s3(p.p).c_str(), p.ob, p.ob >= 0 ? (p.start ? "P" : "Q") : "");
                for (int k = 0; k < nOb; ++k) fprintf(stderr, "    obstacle %d %s contact=%d arc=%.15g\n", k, sc.surf[k].name(), (int)base0.contact[k], arc[k]); }
            // (1) length = sum of segments
            double sum = 0, poly = 0; bool fin = true;
            for (size_t i = 1; i < pts.size(); ++i) {
                if (pts[i].ob >= 0 && !pts[i].start) { sum += arc[pts[i].ob]; fin = fin && std::isfinite(arc[pts[i].ob]) && arc[pts[i].ob] >= 0; }
                else sum += (pts[i].p - pts[i - 1].p).norm();
            }
            run.expect(fin, "span-arc-length-finite-nonnegative/" + okind, [&] { return "curve segment arc length negative or NaN although the obstacle is in contact at " + desc; });
            run.residual("span-length-is-sum-of-segments", std::abs(L - sum) / L, 1e-12, where);
            // (2) length >= polyline through the attachment and via points
            { Vec3 prev = pts.front().p; for (auto& p : pts) if (p.ob < 0) { poly += (p.p - prev).norm(); prev = p.p; } }
            run.residual("span-length-at-least-end-point-distance", std::max(0.0, poly - L) / L, 1e-13, where);
            if (nVia) run.residual("span-via-point-location", (sc.span.calcViaPointLocation(s, CableSpanViaPointIndex(0)) - viaG(s, 0)).norm(), 1e-13, where);
            // (3) contact frames: on the surface, tangent perpendicular to the independent normal, kink <= reported smoothness; chord <= arc
            double wKink = 0, wSurf = 0, wPerp = 0, wChord = 0, wFrame = 0; bool cusp = false;
            for (size_t i = 0; i < pts.size(); ++i) {
                if (pts[i].ob < 0) continue; const int k = pts[i].ob; const Transform& F = pts[i].start ? FP[k] : FQ[k];
                const Transform X = X_GS(s, k); const Vec3 pS = ~X * F.p(); const Vec3 nS = sc.surf[k].normal(pS); const Vec3 nG = X.R() * nS;
                const double ctol = sc.surf[k].kind <= 1 ? 1e-13 : 1e-9;    // analytic surfaces exact; implicit: the cable's fixed projection tolerance 1e-9 (dimensionless surface function)
                wSurf = std::max(wSurf, std::abs(sc.surf[k].inside(pS)) / (ctol * sc.surf[k].size));
                wPerp = std::max(wPerp, std::abs(dot(Vec3(F.x()), nG)) / (ctol + 1e-13));
                wFrame = std::max(wFrame, (Vec3(F.y()) - nG).norm());                     // documented: Y axis = surface normal
                const Vec3 e = pts[i].start ? (pts[i].p - pts[i - 1].p) : (pts[i + 1].p - pts[i].p); const Vec3 eu = e / e.norm();
                wKink = std::max(wKink, std::max(std::abs(dot(eu, Vec3(F.y()))), std::abs(dot(eu, Vec3(F.z())))));
                if (pts[i].start) wChord = std::max(wChord, ((FQ[k].p() - FP[k].p()).norm() - arc[k]) / sc.surf[k].size);
                if (!(dot(eu, Vec3(F.x())) > 0)) cusp = true;
            }
            // A path whose straight segment meets the curve ANTI-parallel satisfies the solver's convergence test (only the normal and binormal
            // components of the misalignment are measured) although the documented smoothness, "the angular discontinuity", is pi there.
            if (!run.expect(!cusp, std::string("span-converged-path-has-a-cusp/alg=") + (sp.algorithm ? "Scholz2015" : "MinimumLength"),
                            [&] { return "CableSpan reports smoothness " + sd(eps) + " (tolerance " + sd(tolS) + ") for a path that reverses direction at a contact point at " + desc; })) return;
            if (!pts.empty() && nOb) {
                run.residual("span-contact-point-on-surface/" + okind, wSurf, 10, where);
                run.residual("span-contact-tangent-perpendicular-to-normal/" + okind, wPerp, 10, where);
                run.residual("span-frenet-normal-axis-is-surface-normal/" + okind, wFrame, 1e-7, where);
                run.residual("span-kink-within-reported-smoothness", (wKink - eps) / (eps + 1e-12), 1e-2, where);
                run.residual("span-chord-not-longer-than-arc/" + okind, wChord, 1e-9, where);
            }
            // (4) resampled curve points on the surface
            for (int k = 0; k < nOb; ++k) {
                if (!base0.contact[k]) continue;
                std::vector<Vec3> rp; bool threw = false;
                try { sc.span.calcCurveSegmentResampledPoints(s, CableSpanObstacleIndex(k), 9, [&](Vec3 p) { rp.push_back(p); }); } catch (const std::exception& e) { threw = true; if (run.verbose) fprintf(stderr, "  resample threw %s\n", e.what()); }
                if (!run.expect(!threw && rp.size() == 9, "span-resampled-points-delivered/" + std::string(sc.surf[k].name()), [&] { return std::to_string(rp.size()) + " points for 9 requested at " + desc; })) continue;
                const Transform X = X_GS(s, k); double w = 0;
                for (auto& p : rp) w = std::max(w, std::abs(sc.surf[k].inside(~X * p)) / sc.surf[k].size);
                // analytic surfaces: computed analytically; others: Hermite interpolation of the stored knots ("generally a good approximation")
                run.residual(std::string("span-resampled-point-on-surface/") + sc.surf[k].name(), w, sc.surf[k].kind <= 1 ? 1e-13 : 1e-6, where);
                run.residual(std::string("span-resampled-end-points-are-contact-points/") + sc.surf[k].name(), ((rp.front() - FP[k].p()).norm() + (rp.back() - FQ[k].p()).norm()) / sc.surf[k].size, 1e-9, where);
            }
            // (5) straight segments do not penetrate the adjacent obstacles (50 samples each)
            {
                std::vector<std::pair<size_t, int>> chk;     // (segment end index i: segment pts[i-1] -> pts[i], obstacle)
                for (size_t i = 1; i < pts.size(); ++i) {
                    if (pts[i].ob >= 0 && !pts[i].start) continue;      // curved piece
                    if (pts[i].ob >= 0) chk.push_back({i, pts[i].ob});
                    if (pts[i - 1].ob >= 0) chk.push_back({i, pts[i - 1].ob});
                }
                // a lifted-off obstacle is spanned by the straight segment between its neighbours in path order
                {
                    size_t seg = 1; // walk elements in order and track which straight segment spans a lifted obstacle
                    size_t cursor = 0;
                    for (auto& el : sc.order) {
                        if (el.via) { ++cursor; continue; }
                        if (base0.contact[el.index]) { cursor += 2; continue; }
                        chk.push_back({cursor + 1, el.index});
                    }
                    (void)seg;
                }
                bool penetrates = false;
                for (auto& c : chk) {
                    const Vec3 a = pts[c.first - 1].p, b = pts[c.first].p; const Transform X = X_GS(s, c.second); const double len = (b - a).norm(); double worst = 0;
                    for (int t = 0; t <= 50; ++t) { const Vec3 x = a + (b - a) * (t / 50.0); worst = std::max(worst, sc.surf[c.second].inside(~X * x) / (eps * len + 1e-9 * sc.surf[c.second].size + 1e-12)); }
                    // key names the obstacle kind and its reported status: the solver tracks ONE candidate contact per obstacle, so a non-convex
                    // obstacle (torus) can be hit on a part of the ring other than the tracked one without a touchdown being reported
                    if (!run.residual(std::string("span-straight-segment-outside-obstacle/") + sc.surf[c.second].name() + (base0.contact[c.second] ? "/in-contact" : "/lifted-off"), worst, 3.0, where)) penetrates = true;
                }
                if (penetrates) return;    // the reported state is not a valid path: one root cause, one key (the force / rate oracles would only repeat it)
            }
            // (6) forces: unit forces at the attachment points, net wrench, power
            auto forcesFor = [&](const State& st, double T) { Vector_<SpatialVec> F(sc.matter.getNumBodies(), SpatialVec(Vec3(0), Vec3(0))); sc.span.applyBodyForces(st, T, F); return F; };
            const double T = 3.5;
            {
                const Vec3 e0 = (pts[1].p - pts[0].p) / (pts[1].p - pts[0].p).norm(), eN = (pts.back().p - pts[pts.size() - 2].p) / (pts.back().p - pts[pts.size() - 2].p).norm();
                SpatialVec fo, ft; sc.span.calcOriginUnitForce(s, fo); sc.span.calcTerminationUnitForce(s, ft);
                run.residual("span-origin-unit-force-along-the-cable", (fo[1] - e0).norm() + (Vec3(sc.span.calcOriginTangentDirection(s)) - e0).norm(), 1e-13, where);
                run.residual("span-termination-unit-force-along-the-cable", (ft[1] + eN).norm() + (Vec3(sc.span.calcTerminationTangentDirection(s)) - eN).norm(), 1e-13, where);
                run.residual("span-origin-unit-moment", (fo[0] - (pts[0].p - sc.originBody.getBodyOriginLocation(s)) % e0).norm(), 1e-12, where);
                run.residual("span-termination-unit-moment", (ft[0] + (pts.back().p - sc.termBody.getBodyOriginLocation(s)) % eN).norm(), 1e-12, where);
                Vector_<SpatialVec> F = forcesFor(s, T);
                Vec3 netF(0), netM(0);
                for (MobilizedBodyIndex b(0); b < sc.matter.getNumBodies(); ++b) { netF += F[b][1]; netM += F[b][0] + sc.matter.getMobilizedBody(b).getBodyOriginLocation(s) % F[b][1]; }
                const int nc = 2 * (int)std::count(base0.contact.begin(), base0.contact.end(), (char)1);
                run.residual("span-net-force-zero", netF.norm() / T / (nc * eps * 1.5 + 1e-12), 3.0, where);
                run.residual("span-net-moment-zero", netM.norm() / T / ((nc * eps * 1.5 + 1e-12) * 8), 3.0, where);
                Vector_<SpatialVec> Fneg = forcesFor(s, -1.0); double nn = 0; for (int b = 0; b < Fneg.size(); ++b) nn += Fneg[b].norm();
                run.expect(nn == 0, "span-slack-cable-applies-no-force", [&] { return "applyBodyForces with negative tension added forces at " + desc; });
            }
            // (7) length rate: finite differences of the solved length along every coordinate (Richardson pair), then every unit speed + generic
            const int nq = s0.getNQ(); std::vector<double> dLdq(nq, NaN); std::vector<char> fdOK(nq, 0);
            if (sp.tol == 0) {
                const double h = 2e-3;
                for (int j = 0; j < nq; ++j) {
                    bool ok = true; double Lv[8]; const double off[8] = {-2 * h, -h, h, 2 * h, -h, -h / 2, h / 2, h};
                    for (int m = 0; m < 8 && ok; ++m) {
                        if (m == 4) { Lv[4] = Lv[1]; continue; } if (m == 7) { Lv[7] = Lv[2]; continue; }
                        State sk = s; sk.updQ()[j] += off[m]; SpanSolve r = solveSpan(sk, Stage::Position);
                        ok = !r.threw && r.smooth <= tolS && r.contact == base0.contact; Lv[m] = r.L;
                    }
                    if (!ok) { run.count("fd-skipped:span-contact-set-or-convergence-changes-inside-the-stencil"); continue; }
                    const double d1 = (Lv[0] - 8 * Lv[1] + 8 * Lv[2] - Lv[3]) / (12 * h), d2 = (Lv[4] - 8 * Lv[5] + 8 * Lv[6] - Lv[7]) / (6 * h);
                    if (std::abs(d1 - d2) > 1e-6) { run.count("fd-skipped:span-richardson-pair-disagrees"); continue; }
                    dLdq[j] = (16 * d2 - d1) / 15; fdOK[j] = 1;
                }
            }
            for (int k = 0; k <= nu; ++k) {
                State sv = s; setU(sv, k);
                double Ld = NaN, P = NaN; bool threw = false;
                try { sc.system.realize(sv, Stage::Velocity); Ld = sc.span.calcLengthDot(sv); P = sc.span.calcCablePower(sv, T); } catch (const std::exception& e) { threw = true; if (run.verbose) fprintf(stderr, "  velocity stage threw %s\n", e.what()); }
                if (!run.expect(!threw && std::isfinite(Ld), "span-length-rate-available", [&] { return "calcLengthDot threw / NaN at " + desc; })) continue;
                // speed scale: sum of the speeds of the path points
                double vs = 0; { for (auto& p : pts) (void)p; const Vector& qd = sv.getQDot(); for (int j = 0; j < qd.size(); ++j) vs += std::abs(qd[j]) * 6; }
                if (sp.tol == 0) {
                    const Vector& qd = sv.getQDot(); double ref = 0; bool all = true;
                    for (int j = 0; j < nq; ++j) { if (qd[j] == 0) continue; if (!fdOK[j]) { all = false; break; } ref += dLdq[j] * qd[j]; }
                    if (all) run.residual("span-length-rate-vs-finite-differences/" + okind, std::abs(Ld - ref) / (3 * eps * vs + 3e-7 * (1 + vs)), 1.0, [&] { return desc + " u#" + std::to_string(k) + " lengthDot=" + sd(Ld) + " fd=" + sd(ref); });
                    else run.count("unspecified:span-length-rate-without-finite-difference-reference");
                }
                // power balance: forces actually applied, dotted with the body velocities
                Vector_<SpatialVec> F = forcesFor(sv, T); double pw = 0;
                for (MobilizedBodyIndex b(0); b < sc.matter.getNumBodies(); ++b) pw += ~F[b] * sc.matter.getMobilizedBody(b).getBodyVelocity(sv);
                if (run.verbose) { fprintf(stderr, "  u#%d: lengthDot=%.15g calcCablePower=%.15g sum F.V=%.15g -T*Ldot=%.15g vs=%.3g\n", k, Ld, P, pw, -T * Ld, vs);
                    if (nVia && k == 0) for (int kk = 0; kk < nOb; ++kk) { const Vec3 hp = X_GS(sv, kk) * sc.span.getObstacleContactPointHint(CableSpanObstacleIndex(kk)); const Vec3 vp = viaG(sv, 0);
                        fprintf(stderr, "      obstacle %d hint point in G %s ; direction hint->via %s ; via->hint %s\n", kk, s3(hp).c_str(), s3((vp - hp) / (vp - hp).norm()).c_str(), s3((hp - vp) / (vp - hp).norm()).c_str()); }
                    if (nVia) { SpatialVec fv; sc.span.calcViaPointUnitForce(sv, CableSpanViaPointIndex(0), fv); fprintf(stderr, "      via unit force %s in %s out %s\n", s3(fv[1]).c_str(),
                        s3(Vec3(sc.span.calcViaPointIncomingTangentDirection(sv, CableSpanViaPointIndex(0)))).c_str(), s3(Vec3(sc.span.calcViaPointOutgoingTangentDirection(sv, CableSpanViaPointIndex(0)))).c_str()); } }
                run.residual("span-cable-power-is-applied-forces-times-velocities", std::abs(P - pw) / (T * (vs + 1)), 1e-13, where);
                run.residual("span-power-balance-minus-tension-times-length-rate", std::abs(pw + T * Ld) / (T * (3 * eps * vs + 1e-12 * (1 + vs))), 10.0, [&] { return desc + " u#" + std::to_string(k) + " power=" + sd(pw) + " -T*Ldot=" + sd(-T * Ld); });
                run.outcome(verif::hashPod(Ld, verif::hashPod(L)));
            }
            if (idx % 401 == 0) run.sample(desc + " -> span length " + sd(L) + " smoothness " + sd(eps) + " iterations " + std::to_string(base0.iters));
                }(); }

        // ================================================================================ CablePath + CableSpring (only for algorithm digit 0 / tolerance digit 0: the path does not depend on them)
        if (sp.algorithm != 0 || sp.tol != 0) return;
        {
            std::unique_ptr<Scene> pcp = buildScene(sp, PATH); Scene& sc = *pcp;      // shadows the CableSpan scene on purpose
            sc.system.realizeTopology();
            State sInit = sc.system.getDefaultState(); sInit.updQ() = q0; { Vector u(nu, 0.0); for (int i = 0; i < nu; ++i) u[i] = 0.7 - 0.45 * i + 0.1 * i * i; sInit.updU() = u; }
            auto X_GS = [&](const State& st, int k) { return sc.obsBody[k].getBodyTransform(st) * sc.X_BS[k]; };
            const CablePath& path = *sc.path; const CablePath::Impl& pimpl = path.getImpl();
            State sp0 = sInit; bool threw = false; std::string what;
            try { sc.system.realize(sp0, Stage::Velocity); } catch (const std::exception& e) { threw = true; what = e.what(); }
            if (threw) { run.count("path:exception"); if (run.verbose) fprintf(stderr, "  CablePath realize threw %s\n", what.c_str()); return; }
            const PathPosEntry& ppe = pimpl.getPosEntry(sp0); const PathInstanceInfo& inst = pimpl.getInstanceInfo(sp0);
            const double errN = ppe.err.size() ? ppe.err.norm() : 0.0;
            const double Lp = path.getCableLength(sp0);
            bool posLen = true, backwards = false; std::vector<double> glen(nOb, 0.0);
            int nObsAll = path.getNumObstacles();
            // geometry from the implementation's bookkeeping
            struct PP { Vec3 P, Q; bool surface; int k; };
            std::vector<PP> pp; int ks = 0;
            for (CableObstacleIndex ox(0); ox < nObsAll; ++ox) {
                const CableObstacle::Impl& ob = pimpl.getObstacleImpl(ox);
                Vec3 P_B, Q_B; ob.getContactStationsOnBody(sp0, inst, ppe, P_B, Q_B);
                const MobilizedBody& mb = ob.getMobilizedBody();
                PP e; e.P = mb.findStationLocationInGround(sp0, P_B); e.Q = mb.findStationLocationInGround(sp0, Q_B); e.surface = ob.getNumCoordsPerContactPoint() > 0; e.k = e.surface ? ks++ : -1;
                if (e.surface) {
                    glen[e.k] = ob.getSegmentLength(sp0, inst, ppe); posLen = posLen && glen[e.k] >= 0;
                    // a geodesic running against the cable direction is CablePath's lift-off witness ("consider the length negative"): the event
                    // handler of a time stepper would now deactivate the surface; statically this is a configuration that needs lift-off
                    const ActiveSurfaceIndex asx = ppe.mapToActiveSurface[ox];
                    if (asx.isValid() && ppe.geodesics[asx].getNumPoints() >= 2) {
                        const Rotation R_GS = (mb.getBodyTransform(sp0) * sc.X_BS[e.k]).R();
                        const Vec3 tP = R_GS * Vec3(ppe.geodesics[asx].getTangentP()), tQ = R_GS * Vec3(ppe.geodesics[asx].getTangentQ());
                        const Vec3 prevQ = pp.empty() ? e.P : pp.back().Q;
                        if (dot(e.P - prevQ, tP) < 0 || dot(e.Q - e.P, tP) < 0 || dot(e.Q - e.P, tQ) < 0) backwards = true;
                    }
                }
                pp.push_back(e);
            }
            if (run.verbose) { fprintf(stderr, "  CablePath: L=%.15g |err|=%.3g\n", Lp, errN);
                for (auto& e : pp) fprintf(stderr, "    P=%s Q=%s surface=%d geodesic=%.15g\n", s3(e.P).c_str(), s3(e.Q).c_str(), (int)e.surface, e.surface ? glen[e.k] : 0.0); }
            const bool pathConv = std::isfinite(Lp) && errN <= 1e-9 && posLen && !backwards;
            run.count(std::string("path:") + (pathConv ? "converged" : (errN <= 1e-9 ? "backwards-geodesic-lift-off-pending" : "not-converged")) + "/" + okind);
            if (!pathConv) return;
            run.evaluationDistinct(true);
            double sum = 0; for (size_t i = 0; i < pp.size(); ++i) { if (i) sum += (pp[i].P - pp[i - 1].Q).norm(); if (pp[i].surface) sum += glen[pp[i].k]; }
            run.residual("path-length-is-sum-of-segments", std::abs(Lp - sum) / Lp, 1e-12, where);
            { double poly = 0; Vec3 prev = pp.front().Q; for (auto& e : pp) if (!e.surface) { poly += (e.P - prev).norm(); prev = e.Q; } run.residual("path-length-at-least-end-point-distance", std::max(0.0, poly - Lp) / Lp, 1e-13, where); }
            double wS = 0, wC = 0, worstPen = 0;
            for (size_t i = 0; i < pp.size(); ++i) {
                if (!pp[i].surface) continue; const int k = pp[i].k; const Transform X = X_GS(sp0, k);
                wS = std::max(wS, std::max(std::abs(sc.surf[k].inside(~X * pp[i].P)), std::abs(sc.surf[k].inside(~X * pp[i].Q))) / sc.surf[k].size);
                wC = std::max(wC, ((pp[i].Q - pp[i].P).norm() - glen[k]) / sc.surf[k].size);
                for (int side = 0; side < 2; ++side) {
                    const Vec3 a = side == 0 ? pp[i - 1].Q : pp[i].Q, b = side == 0 ? pp[i].P : pp[i + 1].P; const double len = (b - a).norm();
                    for (int t = 0; t <= 50; ++t) worstPen = std::max(worstPen, sc.surf[k].inside(~X * (a + (b - a) * (t / 50.0))) / (1e-6 * len + 1e-8 * sc.surf[k].size));
                }
            }
            if (nOb) {
                run.residual("path-contact-points-on-surface/" + okind, wS, 1e-8, where);
                run.residual("path-chord-not-longer-than-arc/" + okind, wC, 1e-8, where);
                run.residual("path-straight-segments-outside-obstacles/" + okind, worstPen, 3.0, where);
            }
            // CableSpan and CablePath describe the same physical cable: same length when the CableSpan touches every obstacle
            // (the two solvers may settle on different locally stationary routes, e.g. opposite sides of a sphere: compared only when the contact points coincide)
            if (spanConv && std::count(spanContact.begin(), spanContact.end(), (char)1) == nOb) {
                bool same = true;
                for (auto& e : pp) if (e.surface) same = same && (e.P - spanP[e.k]).norm() <= 0.05 * sc.surf[e.k].size && (e.Q - spanQ[e.k]).norm() <= 0.05 * sc.surf[e.k].size;
                if (same) run.residual("path-length-equals-span-length/" + okind, std::abs(Lp - spanL) / spanL, 1e-5, [&] { return desc + " CablePath " + sd(Lp) + " CableSpan " + sd(spanL); });
                else run.count("unspecified:path-and-span-on-different-stationary-routes");
            } else run.count("unspecified:path-vs-span-contact-sets-differ");
            // length rate by finite differences along the coordinates
            const int nq = s0.getNQ(); std::vector<double> dLdq(nq, NaN); std::vector<char> fdOK(nq, 0);
            {
                const double h = 2e-3;
                for (int j = 0; j < nq; ++j) {
                    bool ok = true; double Lv[8]; const double off[8] = {-2 * h, -h, h, 2 * h, -h, -h / 2, h / 2, h};
                    for (int m = 0; m < 8 && ok; ++m) {
                        if (m == 4) { Lv[4] = Lv[1]; continue; } if (m == 7) { Lv[7] = Lv[2]; continue; }
                        State sk = sp0; sk.updQ()[j] += off[m];
                        try { sc.system.realize(sk, Stage::Position); Lv[m] = path.getCableLength(sk); const PathPosEntry& pk = pimpl.getPosEntry(sk); ok = std::isfinite(Lv[m]) && (pk.err.size() ? pk.err.norm() : 0.0) <= 1e-9; }
                        catch (const std::exception&) { ok = false; }
                    }
                    if (!ok) { run.count("fd-skipped:path-convergence-changes-inside-the-stencil"); continue; }
                    const double d1 = (Lv[0] - 8 * Lv[1] + 8 * Lv[2] - Lv[3]) / (12 * h), d2 = (Lv[4] - 8 * Lv[5] + 8 * Lv[6] - Lv[7]) / (6 * h);
                    if (std::abs(d1 - d2) > 1e-5) { run.count("fd-skipped:path-richardson-pair-disagrees"); continue; }
                    dLdq[j] = (16 * d2 - d1) / 15; fdOK[j] = 1;
                }
            }
            const double T = 3.5;
            for (int k = 0; k <= nu; ++k) {
                State sv = sp0; setU(sv, k);
                double Ld = NaN, P = NaN; bool thr = false;
                try { sc.system.realize(sv, Stage::Velocity); Ld = path.getCableLengthDot(sv); P = path.calcCablePower(sv, T); } catch (const std::exception& e) { thr = true; if (run.verbose) fprintf(stderr, "  CablePath velocity threw %s\n", e.what()); }
                if (!run.expect(!thr && std::isfinite(Ld), "path-length-rate-available", [&] { return "getCableLengthDot threw / NaN at " + desc; })) continue;
                const Vector& qd = sv.getQDot(); double vs = 0, ref = 0; bool all = true;
                for (int j = 0; j < nq; ++j) { vs += std::abs(qd[j]) * 6; if (qd[j] == 0) continue; if (!fdOK[j]) { all = false; continue; } ref += dLdq[j] * qd[j]; }
                if (all) run.residual("path-length-rate-vs-finite-differences/" + okind, std::abs(Ld - ref) / (1 + vs), 3e-4, [&] { return desc + " u#" + std::to_string(k) + " lengthDot=" + sd(Ld) + " fd=" + sd(ref); });
                else run.count("unspecified:path-length-rate-without-finite-difference-reference");
                Vector_<SpatialVec> F(sc.matter.getNumBodies(), SpatialVec(Vec3(0), Vec3(0))); path.applyBodyForces(sv, T, F);
                double pw = 0; Vec3 netF(0), netM(0);
                for (MobilizedBodyIndex b(0); b < sc.matter.getNumBodies(); ++b) { pw += ~F[b] * sc.matter.getMobilizedBody(b).getBodyVelocity(sv); netF += F[b][1]; netM += F[b][0] + sc.matter.getMobilizedBody(b).getBodyOriginLocation(sv) % F[b][1]; }
                // documented: power is positive when the cable adds energy to the system
                run.residual("path-cable-power-is-applied-forces-times-velocities", std::abs(P - pw) / (T * (1 + vs)), 1e-12, where);
                run.residual("path-power-balance-minus-tension-times-length-rate", std::abs(pw + T * Ld) / (T * (1 + vs)), 1e-7, [&] { return desc + " u#" + std::to_string(k) + " power=" + sd(pw) + " -T*Ldot=" + sd(-T * Ld); });
                if (k == nu) {
                    run.residual("path-net-force-zero", netF.norm() / T, 1e-7, where);
                    run.residual("path-net-moment-zero", netM.norm() / T, 1e-6, where);
                    const Vec3 e0 = (pp[1].P - pp[0].Q) / (pp[1].P - pp[0].Q).norm(), eN = (pp.back().P - pp[pp.size() - 2].Q) / (pp.back().P - pp[pp.size() - 2].Q).norm();
                    // force on the origin body pulls along the cable (bodies carrying only the attachment)
                    auto onlyAttachment = [&](const MobilizedBody& mb) { for (auto& ob : sc.obsBody) if (ob.getMobilizedBodyIndex() == mb.getMobilizedBodyIndex()) return false; for (auto& vb : sc.viaBody) if (vb.getMobilizedBodyIndex() == mb.getMobilizedBodyIndex()) return false; return true; };
                    if (sc.originBody.getMobilizedBodyIndex() != sc.termBody.getMobilizedBodyIndex()) {
                        if (onlyAttachment(sc.originBody)) run.residual("path-origin-force-along-the-cable", (F[sc.originBody.getMobilizedBodyIndex()][1] / T - e0).norm(), 1e-6, where);
                        if (onlyAttachment(sc.termBody)) run.residual("path-termination-force-along-the-cable", (F[sc.termBody.getMobilizedBodyIndex()][1] / T + eN).norm(), 1e-6, where);
                    }
                    // CableSpring: documented tension / energy formulas on top of the path kinematics
                    const double x = std::max(0.0, Lp - sc.springL0), fs = sc.springK * x, fr = std::max(-fs, fs * sc.springC * Ld), f = fs + fr;
                    try {
                        sc.system.realize(sv, Stage::Dynamics);
                        run.residual("spring-tension-formula", std::abs(sc.spring.getTension(sv) - f) / (1 + f), 1e-11, where);
                        run.residual("spring-potential-energy-formula", std::abs(sc.spring.getPotentialEnergy(sv) - sc.springK * x * x / 2) / (1 + fs), 1e-11, where);
                        run.residual("spring-power-dissipation-formula", std::abs(sc.spring.getPowerDissipation(sv) - fr * Ld) / (1 + std::abs(fr * Ld)), 1e-11, where);
                        run.count(x > 0 ? "spring:stretched" : "spring:slack");
                        // the forces the spring hands to the system are the path's forces at that tension
                        const Vector_<SpatialVec>& FB = sc.system.getRigidBodyForces(sv, Stage::Dynamics);
                        Vector_<SpatialVec> Fx(sc.matter.getNumBodies(), SpatialVec(Vec3(0), Vec3(0))); path.applyBodyForces(sv, f, Fx);
                        double d = 0; for (int b = 0; b < FB.size(); ++b) d = std::max(d, (FB[b] - Fx[b]).norm());
                        run.residual("spring-applied-forces-are-path-forces-at-its-tension", d / (1 + f), 1e-11, where);
                    } catch (const std::exception& e) { run.violation("spring-exception", std::string(e.what()) + " at " + desc, run.replayHeader() + desc); }
                }
                run.outcome(verif::hashPod(Ld, verif::hashPod(Lp)));
            }
        }
    });
    restoreStdout();
    // vacuity guard: the oracles above only speak where the solver converges.  On the configurations whose solution is trivially the straight
    // polyline (every obstacle is passed on its hint side with a margin) the unchanged solver converges in >= 96 % of the cases (MinimumLength;
    // all value sets); if it stops doing so the touchdown / lift-off logic is broken and the check would be silently vacuous.
    if (!run.replaying()) {
        for (const char* an : {"MinimumLength", "Scholz2015"}) {
            const double c = (double)run.acc.counters[std::string("span:clear-line/converged/alg=") + an], n = (double)run.acc.counters[std::string("span:clear-line/not-converged/alg=") + an];
            if (c + n > 0) run.residual(std::string("vacuity/span-clear-line-configurations-not-solved/alg=") + an, n / (c + n), 0.3, [&] { return std::string(an) + ": " + std::to_string((long)n) + " of " + std::to_string((long)(c + n)) + " trivially straight configurations did not converge"; });
        }
    }
    return run.finish();
}
